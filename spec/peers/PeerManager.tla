---------------------------- MODULE PeerManager ----------------------------
(***************************************************************************)
(* The shrex peer manager: /repo/share/shwap/p2p/shrex/peers/manager.go    *)
(*                                                                         *)
(* State of the code that is modelled                                      *)
(*   pools      Manager.pools: data hash -> syncPool {pool, validated      *)
(*              (isValidatedDataHash), height, createdAt}; createdAt is    *)
(*              abstracted to `stale` = older than PoolValidationTimeout   *)
(*   nodes      Manager.nodes: the pool of discovered / confirmed peers    *)
(*   blocked    peers blocked in the connection gater (= black-listed)     *)
(*   blHashes   Manager.blacklistedHashes                                  *)
(*   initialHeight, storeFrom                                              *)
(*   reqs       peers handed out by Peer() whose DoneFunc was not called   *)
(*                                                                         *)
(* A pool is kept at the level of peer statuses (none / active / cooldown; *)
(* a status `removed` of the code is `none` here): which of several active *)
(* peers the round-robin returns, and lazy list cleanup, are decided by    *)
(* PeerPool.tla and replayed there; here tryGet is nondeterministic and    *)
(* the replay follows the real choice.  Cool-downs do not expire in this   *)
(* model (the replay uses a cool-down of one hour).                        *)
(*                                                                         *)
(* Every action is one call of the code, executed atomically:              *)
(*   Notify(p,h,ht)   Manager.Validate (shrex-sub notification)            *)
(*   Header           subscribeHeader receives the next header             *)
(*   Request(h)       Manager.Peer with a context that does not wait       *)
(*   Done(r,res)      the DoneFunc: noop | cooldown | blacklist            *)
(*   Discovery(p,add) Manager.UpdateNodePool                               *)
(*   Disconnect(p)    libp2p connectedness event NotConnected              *)
(*   Age(h)           time passes: the pool is now older than the timeout  *)
(*   ExpireAll        time passes: every cool-down (in every pool) elapses *)
(*   RequestWait(h)   Manager.Peer with a live context that finds nobody   *)
(*                    and BLOCKS (on the hash pool's and the node pool's   *)
(*                    next()); every later action that makes a peer        *)
(*                    available wakes the waiter within the same step      *)
(*                    (Settle): it re-checks the peer (removeIfUnreachable *)
(*                    / removeIfBlacklisted) and returns it or goes on     *)
(*                    waiting                                              *)
(*   Gc               one iteration of Manager.GC (cleanUp + blacklist)    *)
(*                                                                         *)
(* Switches for the code variant:                                          *)
(*   FilterOnPromote  validatedPool skips black-listed peers when it       *)
(*                    copies a confirmed pool's peers to the node pool     *)
(*   CheckOnHandout   Peer() drops a black-listed peer taken from the      *)
(*                    node pool instead of returning it                    *)
(*   CheckOnWake      a peer delivered to a BLOCKED Peer() by the hash     *)
(*                    pool's next() is re-checked (removeIfUnreachable);   *)
(*                    FALSE = hypothetical variant without that check: a   *)
(*                    waiter woken by a cool-down expiry is handed a peer  *)
(*                    that was black-listed meanwhile (directed witness)   *)
(* Both FALSE = the tree before `fix: ... blacklisted`: BlacklistedNever-  *)
(* Offered fails (peer black-listed while it sits in an unconfirmed hash   *)
(* pool; the header arrives; the peer is copied to the node pool and       *)
(* handed out for another hash).                                           *)
(***************************************************************************)
EXTENDS Naturals, Sequences, FiniteSets, TLC, Json

CONSTANTS
  Peers,            \* peer ids
  Chain,            \* SEQUENCE of data hashes: Chain[i] is the hash of the header at height FirstHeight + i - 1
  FakeHashes,       \* data hashes that are in no header
  FirstHeight,      \* height of the first header the subscription delivers
  MsgHeights,       \* heights a notification may claim
  StoredPools,      \* storedPoolsAmount (code: 10)
  MaxReqs,          \* outstanding requests (bound)
  MaxWaiters,       \* blocked Peer() calls (bound; 0 = RequestWait disabled)
  Expiry,           \* BOOLEAN: cool-downs can elapse (ExpireAll)
  EnableBlackListing,
  FilterOnPromote, CheckOnHandout, CheckOnWake

None == "-"
Hashes == {Chain[i] : i \in DOMAIN Chain} \cup FakeHashes
HeightOfIdx(i) == FirstHeight + i - 1

VARIABLES
  pools,         \* [Hashes -> [exists, validated, height, stale, st: [Peers -> {"none","active","cooldown"}]]]
  nodes,         \* [Peers -> {"none","active","cooldown"}]
  blocked, blHashes, initialHeight, storeFrom,
  head,          \* number of headers delivered so far
  reqs,          \* set of [peer, hash, src] with src \in {"hash", "nodes"}
  waiting,       \* chain indices i with a Peer(Chain[i]) call blocked in its select
  last,          \* the last call and its result (binding)
  discovered,    \* GHOST: peers discovery has reported (and not withdrawn)
  confirmed,     \* GHOST: peers that announced a data hash which a header (or a request) confirmed
  viol           \* GHOST: monitors that fired

vars == <<pools, nodes, blocked, blHashes, initialHeight, storeFrom, head, reqs, waiting, last, discovered, confirmed, viol>>
view == <<pools, nodes, blocked, blHashes, initialHeight, storeFrom, head, reqs, waiting, discovered, confirmed, viol>>

NoPool == [exists |-> FALSE, validated |-> FALSE, height |-> 0, stale |-> FALSE, st |-> [p \in Peers |-> "none"]]
LiveIn(st)   == {p \in Peers : st[p] # "none"}          \* pool.peers(), pool.has
ActiveIn(st) == {p \in Peers : st[p] = "active"}
AddAll(st, S) == [p \in Peers |-> IF p \in S /\ st[p] = "none" THEN "active" ELSE st[p]]   \* pool.add(S...)
Remove(st, S) == [p \in Peers |-> IF p \in S THEN "none" ELSE st[p]]                      \* pool.remove(S...)

\* `woke`: what blocked Peer() calls returned during this step (set of [hash, peer])
StepW(act, arg, ret, woke) == last' = [act |-> act, arg |-> arg, ret |-> ret, woke |-> woke]
Step(act, arg, ret) == StepW(act, arg, ret, {})

Init ==
  /\ pools = [h \in Hashes |-> NoPool]
  /\ nodes = [p \in Peers |-> "none"]
  /\ blocked = {} /\ blHashes = {} /\ initialHeight = 0 /\ storeFrom = 0 /\ head = 0 /\ reqs = {}
  /\ waiting = {}
  /\ last = [act |-> "init", arg |-> None, ret |-> None, woke |-> {}]
  /\ discovered = {} /\ confirmed = {} /\ viol = {}

\* getOrCreatePool(h, ht) on a pools function
GetOrCreate(ps, h, ht) ==
  IF ps[h].exists THEN ps ELSE [ps EXCEPT ![h] = [NoPool EXCEPT !.exists = TRUE, !.height = ht]]

\* validatedPool(h, ht): <<pools', nodes', newly confirmed peers>>
Promotable(S) == IF FilterOnPromote THEN S \ blocked ELSE S
Validated(ps, nd, h, ht) ==
  LET ps1 == GetOrCreate(ps, h, ht) IN
  IF ps1[h].validated THEN <<ps1, nd, {}>>
  ELSE <<[ps1 EXCEPT ![h].validated = TRUE], AddAll(nd, Promotable(LiveIn(ps1[h].st))), LiveIn(ps1[h].st)>>

\* ---- Manager.Validate ------------------------------------------------------
Notify(p, h, ht) ==
  /\ IF h \in blHashes \/ p \in blocked
       THEN /\ Step("notify", [peer |-> p, hash |-> h, height |-> ht], "reject")
            /\ UNCHANGED <<pools, nodes, confirmed>>
     ELSE IF ht < storeFrom
       THEN /\ Step("notify", [peer |-> p, hash |-> h, height |-> ht], "ignore")
            /\ UNCHANGED <<pools, nodes, confirmed>>
     ELSE LET ps1 == GetOrCreate(pools, h, ht)
              ps2 == [ps1 EXCEPT ![h].st = AddAll(@, {p})] IN
          /\ pools' = ps2
          /\ nodes' = IF ps2[h].validated THEN AddAll(nodes, {p}) ELSE nodes
          /\ confirmed' = IF ps2[h].validated THEN confirmed \cup {p} ELSE confirmed
          /\ Step("notify", [peer |-> p, hash |-> h, height |-> ht], "ignore")
  /\ UNCHANGED <<waiting, blocked, blHashes, initialHeight, storeFrom, head, reqs, discovered, viol>>

\* ---- subscribeHeader --------------------------------------------------------
Max(a, b) == IF a > b THEN a ELSE b
Header ==
  /\ head < Len(Chain)
  /\ LET ht == HeightOfIdx(head + 1)
         v  == Validated(pools, nodes, Chain[head + 1], ht) IN
     /\ pools' = v[1] /\ nodes' = v[2] /\ confirmed' = confirmed \cup v[3]
     /\ initialHeight' = IF initialHeight = 0 THEN ht ELSE initialHeight
     /\ storeFrom' = IF ht > StoredPools THEN ht - StoredPools ELSE 0
     /\ head' = head + 1
     /\ Step("header", [hash |-> Chain[head + 1], height |-> ht], None)
  /\ UNCHANGED <<waiting, blocked, blHashes, reqs, discovered, viol>>

\* ---- Manager.Peer -----------------------------------------------------------
\* Only hashes of real headers are requested (the getter has the header), with the header's height.
\* Hash pool first: tryGet returns some active peer; an unreachable one (black-listed, or not in the node
\* pool any more) is removed from the hash pool and the call starts again.  R is the set of unreachable
\* peers the round-robin came across before it found the reachable peer q (any subset is possible).
Request(i) ==
  /\ Cardinality(reqs) < MaxReqs
  /\ LET h  == Chain[i]
         v  == Validated(pools, nodes, h, HeightOfIdx(i))
         ps == v[1]
         nd == v[2]
         unreachable == {q \in ActiveIn(ps[h].st) : q \in blocked \/ nd[q] = "none"}
         reachable   == ActiveIn(ps[h].st) \ unreachable
         offer(q, src) == IF EnableBlackListing /\ q \in blocked THEN viol \cup {"blacklisted_offered"} ELSE viol
     IN
     /\ confirmed' = confirmed \cup v[3]
     /\ \/ \E q \in reachable : \E R \in SUBSET unreachable :
             /\ pools' = [ps EXCEPT ![h].st = Remove(@, R)]
             /\ nodes' = nd
             /\ reqs' = reqs \cup {[peer |-> q, hash |-> h, src |-> "hash"]}
             /\ viol' = offer(q, "hash")
             /\ Step("request", [hash |-> h, height |-> HeightOfIdx(i)], q)
        \/ /\ reachable = {}
           /\ pools' = [ps EXCEPT ![h].st = Remove(@, unreachable)]
           /\ LET bad == IF CheckOnHandout THEN ActiveIn(nd) \cap blocked ELSE {}
                  ok  == ActiveIn(nd) \ bad IN
              \/ \E q \in ok : \E R \in SUBSET bad :
                   /\ nodes' = Remove(nd, R)
                   /\ reqs' = reqs \cup {[peer |-> q, hash |-> h, src |-> "nodes"]}
                   /\ viol' = offer(q, "nodes")
                   /\ Step("request", [hash |-> h, height |-> HeightOfIdx(i)], q)
              \/ /\ ok = {}
                 /\ nodes' = Remove(nd, bad)
                 /\ UNCHANGED <<reqs, viol>>
                 /\ Step("request", [hash |-> h, height |-> HeightOfIdx(i)], None)   \* would wait
  /\ UNCHANGED <<waiting, blocked, blHashes, initialHeight, storeFrom, head, discovered>>

\* Manager.Peer with a live context when nobody is available: same effects as the last branch of Request,
\* then the call blocks in `select { <-p.next(ctx), <-m.nodes.next(ctx), <-ctx.Done() }`.
RequestWait(i) ==
  /\ i \notin waiting /\ Cardinality(waiting) < MaxWaiters /\ Cardinality(reqs) + Cardinality(waiting) < MaxReqs
  /\ LET h  == Chain[i]
         v  == Validated(pools, nodes, h, HeightOfIdx(i))
         ps == v[1]
         nd == v[2]
         unreachable == {q \in ActiveIn(ps[h].st) : q \in blocked \/ nd[q] = "none"}
         bad == IF CheckOnHandout THEN ActiveIn(nd) \cap blocked ELSE {}
     IN
     /\ ActiveIn(ps[h].st) \ unreachable = {} /\ ActiveIn(nd) \ bad = {}
     /\ confirmed' = confirmed \cup v[3]
     /\ pools' = [ps EXCEPT ![h].st = Remove(@, unreachable)]
     /\ nodes' = Remove(nd, bad)
     /\ waiting' = waiting \cup {i}
     /\ Step("request_wait", [hash |-> h, height |-> HeightOfIdx(i)], None)
  /\ UNCHANGED <<blocked, blHashes, initialHeight, storeFrom, head, reqs, discovered, viol>>

\* A blocked Peer() is woken as soon as its hash pool or the node pool has an active peer (the goroutines inside
\* next() react at once: Wake is URGENT, see Next).  The peer that comes out of the hash pool is re-checked
\* (removeIfUnreachable), the one out of the node pool too (removeIfBlacklisted); a peer that fails the check is
\* removed and Peer() starts again -- it returns a peer in a following Wake step or blocks again.
Wakeable(i) == ActiveIn(pools[Chain[i]].st) # {} \/ ActiveIn(nodes) # {}
Wake(i) ==
  /\ i \in waiting /\ Wakeable(i)
  /\ LET h == Chain[i]
         deliver(q, src) ==
           /\ reqs' = reqs \cup {[peer |-> q, hash |-> h, src |-> src]}
           /\ waiting' = waiting \ {i}
           /\ viol' = IF EnableBlackListing /\ q \in blocked THEN viol \cup {"blacklisted_offered"} ELSE viol
           /\ StepW("wake", [hash |-> h, height |-> HeightOfIdx(i)], q, {[hash |-> h, peer |-> q]})
     IN
     \/ \E q \in ActiveIn(pools[h].st) :          \* case peerID = <-p.next(ctx)
          IF CheckOnWake /\ (q \in blocked \/ nodes[q] = "none")
            THEN /\ pools' = [pools EXCEPT ![h].st = Remove(@, {q})]
                 /\ Step("wake", [hash |-> h, height |-> HeightOfIdx(i)], None)
                 /\ UNCHANGED <<nodes, reqs, waiting, viol>>
            ELSE deliver(q, "hash") /\ UNCHANGED <<pools, nodes>>
     \/ \E q \in ActiveIn(nodes) :                \* case peerID = <-m.nodes.next(ctx)
          IF CheckOnHandout /\ q \in blocked
            THEN /\ nodes' = Remove(nodes, {q})
                 /\ Step("wake", [hash |-> h, height |-> HeightOfIdx(i)], None)
                 /\ UNCHANGED <<pools, reqs, waiting, viol>>
            ELSE deliver(q, "nodes") /\ UNCHANGED <<pools, nodes>>
  /\ UNCHANGED <<blocked, blHashes, initialHeight, storeFrom, head, discovered, confirmed>>

\* ---- DoneFunc ---------------------------------------------------------------
Cool(st, p) == IF st[p] = "active" THEN [st EXCEPT ![p] = "cooldown"] ELSE st     \* pool.putOnCooldown
Done(r, res) ==
  /\ r \in reqs /\ reqs' = reqs \ {r}
  /\ CASE res = "noop" -> UNCHANGED <<pools, nodes, blocked>>
       [] res = "cooldown" ->
            IF r.src = "nodes"
              THEN nodes' = Cool(nodes, r.peer) /\ UNCHANGED <<pools, blocked>>
              ELSE /\ pools' = IF pools[r.hash].exists THEN [pools EXCEPT ![r.hash].st = Cool(@, r.peer)] ELSE pools
                   /\ UNCHANGED <<nodes, blocked>>
       [] res = "blacklist" ->
            IF EnableBlackListing
              THEN nodes' = Remove(nodes, {r.peer}) /\ blocked' = blocked \cup {r.peer} /\ UNCHANGED pools
              ELSE UNCHANGED <<pools, nodes, blocked>>
  /\ Step("done", [peer |-> r.peer, hash |-> r.hash, src |-> r.src, result |-> res], None)
  /\ UNCHANGED <<waiting, blHashes, initialHeight, storeFrom, head, discovered, confirmed, viol>>

\* ---- UpdateNodePool ---------------------------------------------------------
Discovery(p, added) ==
  /\ IF added
       THEN IF p \in blocked THEN UNCHANGED <<nodes, discovered>>
            ELSE nodes' = AddAll(nodes, {p}) /\ discovered' = discovered \cup {p}
       ELSE nodes' = Remove(nodes, {p}) /\ discovered' = discovered \ {p}
  /\ Step("discovery", [peer |-> p, added |-> added], None)
  /\ UNCHANGED <<waiting, pools, blocked, blHashes, initialHeight, storeFrom, head, reqs, confirmed, viol>>

\* ---- subscribeDisconnectedPeers --------------------------------------------
Disconnect(p) ==
  /\ nodes' = Remove(nodes, {p})
  /\ Step("disconnect", p, None)
  /\ UNCHANGED <<waiting, pools, blocked, blHashes, initialHeight, storeFrom, head, reqs, discovered, confirmed, viol>>

\* ---- time -------------------------------------------------------------------
Age(h) ==
  /\ pools[h].exists /\ ~pools[h].stale
  /\ pools' = [pools EXCEPT ![h].stale = TRUE]
  /\ Step("age", h, None)
  /\ UNCHANGED <<waiting, nodes, blocked, blHashes, initialHeight, storeFrom, head, reqs, discovered, confirmed, viol>>

\* every cool-down that is running elapses (the replay advances the mock clock by PeerCooldown): each pool's timed
\* queue releases all its entries, a peer whose status is still cooldown becomes active again
Warm(st) == [p \in Peers |-> IF st[p] = "cooldown" THEN "active" ELSE st[p]]
ExpireAll ==
  /\ Expiry
  /\ (\E p \in Peers : nodes[p] = "cooldown") \/ (\E h \in Hashes, p \in Peers : pools[h].st[p] = "cooldown")
  /\ pools' = [h \in Hashes |-> [pools[h] EXCEPT !.st = Warm(@)]]
  /\ nodes' = Warm(nodes)
  /\ Step("expire", None, None)
  /\ UNCHANGED <<waiting, blocked, blHashes, initialHeight, storeFrom, head, reqs, discovered, confirmed, viol>>

\* ---- GC: cleanUp + blacklistPeers -------------------------------------------
Outdated(h)    == pools[h].exists /\ pools[h].validated /\ pools[h].height < storeFrom
TooEarly(h)    == pools[h].exists /\ ~pools[h].validated /\ pools[h].height < initialHeight
NotConfirmed(h) == pools[h].exists /\ ~pools[h].validated /\ ~TooEarly(h) /\ pools[h].stale
Gc ==
  /\ IF initialHeight = 0
       THEN UNCHANGED <<pools, nodes, blocked, blHashes>> /\ Step("gc", None, {})
       ELSE LET bad == {h \in Hashes : NotConfirmed(h)}
                toBlack == UNION {LiveIn(pools[h].st) : h \in bad} IN
            /\ pools' = [h \in Hashes |-> IF Outdated(h) \/ TooEarly(h) \/ NotConfirmed(h) THEN NoPool ELSE pools[h]]
            /\ blHashes' = blHashes \cup bad
            /\ IF EnableBlackListing
                 THEN nodes' = Remove(nodes, toBlack) /\ blocked' = blocked \cup toBlack
                 ELSE UNCHANGED <<nodes, blocked>>
            /\ Step("gc", None, toBlack)
  /\ UNCHANGED <<waiting, initialHeight, storeFrom, head, reqs, discovered, confirmed, viol>>

Normal ==
  \/ \E p \in Peers, h \in Hashes, ht \in MsgHeights : Notify(p, h, ht)
  \/ Header
  \/ \E i \in 1..head : Request(i)            \* only hashes whose header has been seen are requested
  \/ \E r \in reqs, res \in {"noop", "cooldown", "blacklist"} : Done(r, res)
  \/ \E p \in Peers, b \in BOOLEAN : Discovery(p, b)
  \/ \E p \in Peers : Disconnect(p)
  \/ \E h \in Hashes : Age(h)
  \/ Gc
  \/ ExpireAll
  \/ \E i \in 1..head : RequestWait(i)

\* a waiter that can be served is served before anything else happens
Next == IF \E i \in waiting : Wakeable(i) THEN \E i \in waiting : Wake(i) ELSE Normal

Spec == Init /\ [][Next]_vars
\* without blocked calls (MaxWaiters = 0) Next = Normal; as a disjunction of named actions it lets TLC's simulator
\* print only the successors of the action it picked (ManagerSim.cfg)
SpecNoWait == Init /\ [][Normal]_vars

-----------------------------------------------------------------------------
(* INVARIANTS *)

\* a peer known only from unconfirmed hash pools is not in the node pool: whoever is there was reported
\* by discovery or announced a hash that has been confirmed.  (Discovery withdrawing a peer removes it.)
NotPromotedBeforeConfirmed ==
  \A p \in Peers : nodes[p] # "none" => p \in discovered \cup confirmed

\* with black-listing enabled a black-listed peer is never handed out (hash-pool and node-pool path)
BlacklistedNeverOffered == "blacklisted_offered" \notin viol

\* a black-listed peer is not in the node pool (holds with FilterOnPromote; without it the peer can be
\* promoted back -- see the header of this module)
BlockedNotInNodes == EnableBlackListing /\ FilterOnPromote => \A p \in blocked : nodes[p] = "none"

\* stale-pool rules: a black-listed hash was never confirmed while black-listed ... (a header arriving
\* later re-creates the pool, validated: both may then hold); pools of confirmed hashes are only dropped
\* when outdated; without an initial height nothing is collected
TypeOK ==
  /\ \A h \in Hashes : pools[h].exists \/ pools[h] = NoPool
  /\ blocked \subseteq Peers /\ blHashes \subseteq Hashes
  /\ \A r \in reqs : r.peer \in Peers /\ r.hash \in Hashes
  /\ (initialHeight = 0) <=> (head = 0)
  /\ ~EnableBlackListing => blocked = {}

\* checked on every Gc step (action property)
GcRules ==
  [][last'.act = "gc" =>
       /\ \A h \in Hashes :
            /\ (pools[h].exists /\ ~pools'[h].exists) =>
                  (initialHeight # 0 /\ (Outdated(h) \/ TooEarly(h) \/ NotConfirmed(h)))
            /\ (h \in blHashes' \ blHashes) => (~pools[h].validated /\ pools[h].stale /\ pools[h].height >= initialHeight)
       /\ (blocked' \ blocked) \subseteq UNION {LiveIn(pools[h].st) : h \in blHashes' \ blHashes}
  ]_vars

-----------------------------------------------------------------------------
(* OUTPUT for the binding *)
Proj == [pools |-> pools, nodes |-> nodes, blocked |-> blocked, blHashes |-> blHashes,
         initialHeight |-> initialHeight, storeFrom |-> storeFrom, head |-> head, reqs |-> reqs, waiting |-> waiting]
ProjNext == [pools |-> pools', nodes |-> nodes', blocked |-> blocked', blHashes |-> blHashes',
         initialHeight |-> initialHeight', storeFrom |-> storeFrom', head |-> head', reqs |-> reqs', waiting |-> waiting']
EdgeOut == PrintT(<<"EDGE", ToJson([s |-> Proj, a |-> last', t |-> ProjNext])>>)
=============================================================================
