\* trace validation of recorded runs of the real Manager (VERIF_MTRACE = NDJSON file)
SPECIFICATION TraceSpec
CONSTANTS
  Peers = {"p1", "p2"}
  Chain <- TraceChain
  FakeHashes = {"hx"}
  FirstHeight = 11
  MsgHeights = {0, 11, 12}
  StoredPools = 10
  MaxReqs = 2
  MaxWaiters = 0
  Expiry = TRUE
  EnableBlackListing = TRUE
  FilterOnPromote = TRUE
  CheckOnHandout = TRUE
  CheckOnWake = TRUE
INVARIANTS TypeOK NotPromotedBeforeConfirmed BlacklistedNeverOffered BlockedNotInNodes
POSTCONDITION Accepted
