--------------------------- MODULE ManagerTrace ---------------------------
(***************************************************************************)
(* Trace validation (binding B1) of the real Manager against PeerManager.  *)
(*                                                                         *)
(* The driver (harness/drivers/peers) performs seeded random walks on the  *)
(* real Manager -- notifications, headers, requests, results, discovery    *)
(* updates, disconnects, ageing, GC -- and logs one NDJSON line per call:  *)
(*   {"act":..., "arg":..., "ret":..., "t": <projection of the real state  *)
(*    after the call>}                                                     *)
(* with {"act":"reset"} between walks.  A line is accepted iff PeerManager *)
(* has a step with that label and result whose successor state projects    *)
(* onto the logged state (the model is nondeterministic where the code's   *)
(* round-robin decides; TLC resolves it).  All invariants of PeerManager   *)
(* are evaluated on the matched behaviour.  Acceptance = POSTCONDITION     *)
(* Accepted: the whole file was consumed.                                  *)
(***************************************************************************)
EXTENDS PeerManager, IOUtils

VARIABLE i                      \* next line of the trace
Trace == ndJsonDeserialize(IOEnv.VERIF_MTRACE)
tvars == <<vars, i>>
TraceChain == <<"h1", "h2">>

ToSet(s) == {s[j] : j \in DOMAIN s}
ReqKeys(R) == {<<r.peer, r.hash>> : r \in R}

TraceInit == Init /\ i = 1 /\ TLCSet(1, 1)

Matches(ev) ==
  /\ last'.act = ev.act
  /\ IF ev.act = "done"      \* the source of a request (hash pool / node pool) is not observable
       THEN last'.arg.peer = ev.arg.peer /\ last'.arg.hash = ev.arg.hash /\ last'.arg.result = ev.arg.result
       ELSE last'.arg = ev.arg
  /\ IF ev.act = "gc" THEN last'.ret = ToSet(ev.ret) ELSE last'.ret = ev.ret
  /\ pools' = ev.t.pools /\ nodes' = ev.t.nodes
  /\ blocked' = ToSet(ev.t.blocked) /\ blHashes' = ToSet(ev.t.blHashes)
  /\ initialHeight' = ev.t.initialHeight /\ storeFrom' = ev.t.storeFrom /\ head' = ev.t.head
  /\ ReqKeys(reqs') = {<<ev.t.reqs[j].peer, ev.t.reqs[j].hash>> : j \in DOMAIN ev.t.reqs}

Reset ==
  /\ pools' = [h \in Hashes |-> NoPool] /\ nodes' = [p \in Peers |-> "none"]
  /\ blocked' = {} /\ blHashes' = {} /\ initialHeight' = 0 /\ storeFrom' = 0 /\ head' = 0 /\ reqs' = {}
  /\ waiting' = {}
  /\ last' = [act |-> "init", arg |-> None, ret |-> None, woke |-> {}]
  /\ discovered' = {} /\ confirmed' = {} /\ viol' = {}

TraceNext ==
  /\ i <= Len(Trace)
  /\ i' = i + 1
  /\ IF Trace[i].act = "reset" THEN Reset ELSE Next /\ Matches(Trace[i])
  /\ TLCSet(1, IF TLCGet(1) < i + 1 THEN i + 1 ELSE TLCGet(1))

TraceSpec == TraceInit /\ [][TraceNext]_tvars

Accepted ==
  \/ TLCGet(1) = Len(Trace) + 1
  \/ PrintT(<<"STUCK", ToJson([line |-> TLCGet(1), of |-> Len(Trace)])>>) /\ FALSE
=============================================================================
