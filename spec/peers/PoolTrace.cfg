\* trace validation of recorded concurrent runs of the real pool (VERIF_TRACE = NDJSON file),
\* the code as it is: callbacks after the queue mutex is released, cool-downs counted
SPECIFICATION TraceSpec
CONSTANTS
  Peers = {"p1", "p2", "p3"}
  Callers = {"c1", "c2", "c3", "c4"}
  TimerSlots <- TraceSlots
  TTL = 2
  MaxTime = 1000000
  MaxOps = 1000000
  OpNames <- AllOps
  CleanupThreshold = 2
  Atomic = FALSE
  CallbacksUnderQueueLock = FALSE
  CountCooldowns = TRUE
  FreshChannelOnWake = FALSE
INVARIANTS TypeOK CountExact ListStatusConsistent HasPeerExact NoSleepingWaiter OnlyActiveOffered NoEarlyReturn
  CooldownNotLost QueueTimerLive CooldownsExact SlotsSuffice SingleTimer LockSane NoLockCycle
POSTCONDITION Accepted
