------------------------------- MODULE MCPool -------------------------------
(* Model-checking instance of PeerPool: constant definitions that a .cfg cannot express. *)
EXTENDS PeerPool

TwoSlots   == <<"t1", "t2">>
ThreeSlots == <<"t1", "t2", "t3">>
OpsCore    == {"add", "remove", "tryGet", "putOnCooldown"}
OpsWait    == {"add", "remove", "next", "putOnCooldown"}
OpsAll     == AllOps
OpsNoRemove == {"add", "tryGet", "putOnCooldown"}
OpsAddNext == {"add", "next"}
OpsDeadlock == {"add", "putOnCooldown"}
=============================================================================
