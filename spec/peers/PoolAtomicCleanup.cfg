\* atomic-method configuration with cleanupThreshold = 1 and one peer, six operations: every remove runs the lazy
\* cleanup, also while the peer has pending entries in the cool-down queue (cool-down -> remove+cleanup -> add ->
\* cool-down -> the first entry expires).  All edges are replayed in the quick tier.
SPECIFICATION Spec
CONSTANTS
  Peers = {"p1"}
  Callers = {"c1"}
  TimerSlots <- TwoSlots
  TTL = 2
  MaxTime = 3
  MaxOps = 6
  OpNames <- OpsCore
  CleanupThreshold = 1
  Atomic = TRUE
  CallbacksUnderQueueLock = FALSE
  CountCooldowns = TRUE
  FreshChannelOnWake = FALSE
VIEW view
ACTION_CONSTRAINT EdgeOut
INVARIANTS TypeOK CountExact ListStatusConsistent HasPeerExact OnlyActiveOffered NoEarlyReturn
  CooldownNotLost QueueTimerLive CooldownsExact SlotsSuffice SingleTimer
