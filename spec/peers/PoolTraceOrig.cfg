\* trace validation of recorded concurrent runs of the real pool (VERIF_TRACE = NDJSON file),
\* lock structure of the tree BEFORE the fixes (diagnosis only: tells "old structure" from "unknown structure")
SPECIFICATION TraceSpec
CONSTANTS
  Peers = {"p1", "p2", "p3"}
  Callers = {"c1", "c2", "c3", "c4"}
  TimerSlots <- TraceSlots
  TTL = 2
  MaxTime = 1000000
  MaxOps = 1000000
  OpNames <- AllOps
  CleanupThreshold = 2
  Atomic = FALSE
  CallbacksUnderQueueLock = TRUE
  CountCooldowns = FALSE
  FreshChannelOnWake = FALSE
INVARIANTS TypeOK CountExact

POSTCONDITION Accepted
