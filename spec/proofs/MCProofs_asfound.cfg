\* the tree as found (no length / nil guards): TLC is EXPECTED to report TotalFunction (a panic outcome)
\* or IncludedExact (surplus proof nodes ignored); kept as the model-level statement of candidate defect #12
SPECIFICATION Spec
CONSTANTS
  T = 64
  GUARDS = FALSE
  KINDS = {"rr", "inc", "cp"}
  MaxTampers = 1
INVARIANTS TotalFunction
CHECK_DEADLOCK FALSE
