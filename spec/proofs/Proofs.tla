------------------------------ MODULE Proofs ------------------------------
(***************************************************************************)
(* Inclusion proofs handed to clients (property C12).                      *)
(*                                                                         *)
(* Three proof objects, as STRUCTURAL records over an idealised            *)
(* cryptography (hashes are injective; a Merkle / NMT proof verifies iff   *)
(* it is, component by component, the proof the honest prover makes for    *)
(* exactly that tree, position and leaves):                                *)
(*                                                                         *)
(*   CommitmentProof  blob/commitment_proof.go  (Validate, Verify)         *)
(*                    produced by blob/service.go ProveCommitment          *)
(*   RangeResult      nodebuilder/share/get_range_result.go                *)
(*                    (newGetRangeResult, GetRangeResult.Verify ->          *)
(*                    celestia-core types.ShareProof.Validate)             *)
(*   TupleProof       nodebuilder/blobstream (data-root tuple root and     *)
(*                    inclusion proof, request validation)                 *)
(*   and blob.Proof + Proof.equal as used by Service.Included.             *)
(*                                                                         *)
(* The world is a constant: two squares laid out by BlobLayout (production *)
(* threshold) and a chain of HEAD headers.  Honest* build the proofs the   *)
(* node produces; Tamper applies at most two composed structural           *)
(* manipulations (append / drop / reorder / duplicate an element of every  *)
(* sequence, substitute the corresponding part of ANOTHER object, widen or *)
(* shift positions, nil / empty components, shorten or extend a proof's    *)
(* node list, change commitment / data root / namespace).  ImplVerify*     *)
(* transcribe the verifiers check by check, with an explicit "panic"       *)
(* outcome wherever the Go code would index out of range or dereference    *)
(* nil.  GUARDS selects the tree: TRUE = with the length / nil checks of   *)
(* the fix commit, FALSE = the code as found (kept to show that the model  *)
(* expresses the defect: TLC then reports TotalFunction / IncludedExact).  *)
(*                                                                         *)
(* Invariants:                                                             *)
(*   ProducedVerifies  every honest proof verifies for its object          *)
(*   OnlyForClaim      accepted => the claim is true of the world          *)
(*   IncludedExact     Included = (true,nil) <=> blob in block /\ the      *)
(*                     supplied proof is the node's own                    *)
(*   TotalFunction     the outcome is never "panic"                        *)
(*   RequestValidation tuple requests: served iff the range/height is valid*)
(*                                                                         *)
(* Every reachable (kind, object, tamper1, tamper2) is printed as a CASE   *)
(* with the model's verdict; harness/drivers/proofs materialises it on real*)
(* blocks, real proofs, real verifiers (B3).                               *)
(***************************************************************************)
EXTENDS BlobLayout, TLC, Json

CONSTANTS GUARDS,      \* TRUE: transcription of the fixed tree; FALSE: the tree as found
          KINDS,       \* subset of {"cp", "rr", "tp", "inc", "req"}: which families to enumerate
          MaxTampers   \* 0..2

\* a nil pointer where a proof record is expected (a record, so that TLC can compare it with records)
Nil == [nil |-> TRUE]

(***************************************************************************)
(* The world.                                                              *)
(***************************************************************************)
\* square 1: A (ns 2, 9 shares: rows 0..2), B (ns 2, 2 shares, row 2), C (ns 4, 3 shares, row 3)
\* square 2: D (ns 2, 9 shares, same shape as A, other bytes), C' (byte-identical to C), E (ns 4, 1 share)
SqBlobs(s) ==
  IF s = 1 THEN << [ns |-> 2, len |-> 9, ver |-> 0, c |-> 1], [ns |-> 2, len |-> 2, ver |-> 1, c |-> 1],
                   [ns |-> 4, len |-> 3, ver |-> 0, c |-> 1] >>
           ELSE << [ns |-> 2, len |-> 9, ver |-> 0, c |-> 2], [ns |-> 4, len |-> 3, ver |-> 0, c |-> 1],
                   [ns |-> 4, len |-> 1, ver |-> 1, c |-> 1] >>
SqCompact(s) == 1
Squares == {1, 2}

Lay1 == Layout(SqBlobs(1), SqCompact(1))
Lay2 == Layout(SqBlobs(2), SqCompact(2))
Lay(s) == IF s = 1 THEN Lay1 ELSE Lay2
W(s) == Lay(s).w

\* content of a share: what its leaf hash is a hash of.  Compact shares differ per square and
\* position; padding shares of one namespace are all equal; blob shares are <<content id, offset>>.
LeafOf(s, cell, i) ==
  CASE cell.k = "compact" -> <<"cmp", cell.ns, s, i>>
    [] cell.k = "start"   -> <<"blob", cell.ns, cell.id, 0>>
    [] cell.k = "cont"    -> <<"blob", cell.ns, cell.id, cell.off>>
    [] OTHER              -> <<"pad", cell.ns>>
LeafNs(l) == l[2]

Leaves(s) == [i \in 1..W(s) * W(s) |-> LeafOf(s, Lay(s).cells[i], i)]
RowLeaves(s, r) == SubSeq(Leaves(s), r * W(s) + 1, r * W(s) + W(s))     \* r 0-based

\* ideal hashes
RowRoot(leaves) == <<"rr", leaves>>
RowRootOf(s, r) == RowRoot(RowLeaves(s, r))
DataRoot(s) == <<"dr", s>>
SubRoot(leaf) == <<"sr", leaf>>              \* subtree width 1 (every blob here is <= 64 shares)
Hash(x) == <<"h", x>>

\* blob b of square s
BStart(s, b) == Lay(s).starts[b]
BLen(s, b) == Lay(s).blobs[b].len
BNs(s, b) == Lay(s).blobs[b].ns
BLeaves(s, b) == SubSeq(Leaves(s), BStart(s, b) + 1, BStart(s, b) + BLen(s, b))
Commitment(s, b) == Hash([i \in 1..BLen(s, b) |-> SubRoot(BLeaves(s, b)[i])])
Blobs(s) == 1..Len(Lay(s).blobs)

(***************************************************************************)
(* Proof components.                                                       *)
(*  MP  Merkle proof of a row root to the data root (cometbft merkle.Proof)*)
(*      [tree: square, row: the row it was made for, index, total, aunts]  *)
(*  NP  NMT range proof inside a row tree (nmt.Proof / tmproto.NMTProof)   *)
(*      [key: leaves of the row tree, for: <<start,end>> it was made for,  *)
(*       start, end, nodes]                                                *)
(*  aunts / nodes: the list of sibling hashes, abstractly <<"a","b">> for  *)
(*  an honest proof; manipulations drop the last, append "x", or replace   *)
(*  the first by "a*" (and back), so that composed manipulations that      *)
(*  restore the list are recognised as such                                *)
(***************************************************************************)
HonestNodes == <<"a", "b">>
HonestMP(s, r) == [tree |-> s, row |-> r, index |-> r, total |-> 4 * W(s), aunts |-> HonestNodes]

\* merkle.Proof.Verify(root, leaf)
MPVerifies(mp, root, leaf) ==
  /\ root = DataRoot(mp.tree)
  /\ mp.index = mp.row /\ mp.total = 4 * W(mp.tree) /\ mp.aunts = HonestNodes
  /\ leaf = RowRootOf(mp.tree, mp.row)

HonestNP(s, r, from, to) == [key |-> RowLeaves(s, r), for |-> <<from, to>>, start |-> from, end |-> to, nodes |-> HonestNodes]

NPSound(np, rowRoot) ==
  /\ np.nodes = HonestNodes /\ <<np.start, np.end>> = np.for
  /\ rowRoot = RowRoot(np.key)
  /\ 0 <= np.start /\ np.start < np.end /\ np.end <= Len(np.key)

\* nmt Proof.VerifySubtreeRootInclusion(hasher, subtreeRoots, 1, rowRoot)
NPVerifiesSubRoots(np, roots, rowRoot) ==
  /\ NPSound(np, rowRoot)
  /\ roots = [i \in 1..(np.end - np.start) |-> SubRoot(np.key[np.start + i])]

\* nmt Proof.VerifyInclusion(hash, ns, leaves, rowRoot)
NPVerifiesLeaves(np, ns, leaves, rowRoot) ==
  /\ NPSound(np, rowRoot)
  /\ leaves = SubSeq(np.key, np.start + 1, np.end)
  /\ \A i \in 1..Len(leaves) : LeafNs(leaves[i]) = ns

(***************************************************************************)
(* Honest producers                                                        *)
(***************************************************************************)
RowsOf(s, from, to) == LET r0 == from \div W(s) r1 == (to - 1) \div W(s) IN [k \in 1..(r1 - r0 + 1) |-> r0 + k - 1]
ColFrom(s, from, r) == IF r = from \div W(s) THEN from % W(s) ELSE 0
ColTo(s, to, r) == IF r = (to - 1) \div W(s) THEN ((to - 1) % W(s)) + 1 ELSE W(s)

HonestRowProof(s, from, to) ==
  LET rows == RowsOf(s, from, to) IN
  [rowRoots |-> [k \in 1..Len(rows) |-> RowRootOf(s, rows[k])],
   proofs   |-> [k \in 1..Len(rows) |-> HonestMP(s, rows[k])],
   startRow |-> rows[1], endRow |-> rows[Len(rows)]]

HonestShareProofs(s, from, to) ==
  LET rows == RowsOf(s, from, to) IN
  [k \in 1..Len(rows) |-> HonestNP(s, rows[k], ColFrom(s, from, rows[k]), ColTo(s, to, rows[k]))]

\* Service.GetCommitmentProof / ProveCommitment for blob b of square s
HonestCP(s, b) ==
  LET from == BStart(s, b) to == BStart(s, b) + BLen(s, b) IN
  [subtreeRoots |-> [i \in 1..BLen(s, b) |-> SubRoot(BLeaves(s, b)[i])],
   subtreeRootProofs |-> HonestShareProofs(s, from, to),
   ns |-> BNs(s, b),
   rowProof |-> HonestRowProof(s, from, to)]

\* share module GetRange / newGetRangeResult for [from,to) of square s (one namespace)
HonestRR(s, from, to) ==
  [shares |-> SubSeq(Leaves(s), from + 1, to),
   proof |-> [data |-> SubSeq(Leaves(s), from + 1, to),
              shareProofs |-> HonestShareProofs(s, from, to),
              ns |-> LeafNs(Leaves(s)[from + 1]),
              rowProof |-> HonestRowProof(s, from, to)]]

\* Service.GetProof: the namespace proofs of the rows the blob spans (each proves the WHOLE namespace
\* data of its row)
NsRange(s, r, q) ==
  LET row == RowLeaves(s, r)
      cols == {c \in 1..W(s) : LeafNs(row[c]) = q}
      lo == CHOOSE c \in cols : \A d \in cols : c <= d
      hi == CHOOSE c \in cols : \A d \in cols : c >= d
  IN <<lo - 1, hi>>
HonestBlobProof(s, b) ==
  LET rows == RowsOf(s, BStart(s, b), BStart(s, b) + BLen(s, b)) IN
  [k \in 1..Len(rows) |-> HonestNP(s, rows[k], NsRange(s, rows[k], BNs(s, b))[1], NsRange(s, rows[k], BNs(s, b))[2])]

(***************************************************************************)
(* Header chain and data-root tuples (blobstream)                          *)
(***************************************************************************)
HEAD == 5
LIMIT == 10000                       \* dataRootTupleRootBlocksLimit
HDataRoot(h) == <<"dr", "h", h>>     \* data hash of header h
Tuple(h, dr) == <<"tuple", h, dr>>   \* encodeDataRootTuple
TupleRoot(a, b) == <<"troot", a, b>> \* merkle root of the tuples of [a,b)
HonestTP(h, a, b) == [range |-> <<a, b>>, height |-> h, index |-> h - a, total |-> b - a, aunts |-> <<"a", "b">>]

\* validateDataRootTupleRootRange + validateDataRootInclusionProofRequest
RangeValid(a, b) == a # 0 /\ a < b /\ b - a <= LIMIT /\ b <= HEAD + 1
RequestValid(h, a, b) == RangeValid(a, b) /\ h >= a /\ h < b

\* merkle.Proof.Verify(tupleRoot, tuple)
TPVerifies(tp, root, leaf) ==
  /\ root = TupleRoot(tp.range[1], tp.range[2])
  /\ tp.index = tp.height - tp.range[1] /\ tp.total = tp.range[2] - tp.range[1] /\ tp.aunts = <<"a", "b">>
  /\ leaf = Tuple(tp.height, HDataRoot(tp.height))

(***************************************************************************)
(* Sequence manipulations                                                  *)
(***************************************************************************)
DropFirst(q) == IF q = <<>> THEN q ELSE SubSeq(q, 2, Len(q))
DropLast(q) == IF q = <<>> THEN q ELSE SubSeq(q, 1, Len(q) - 1)
DupLast(q) == IF q = <<>> THEN q ELSE Append(q, q[Len(q)])
Swap01(q) == IF Len(q) < 2 THEN q ELSE <<q[2], q[1]>> \o SubSeq(q, 3, Len(q))
Set0(q, x) == IF q = <<>> THEN q ELSE <<x>> \o SubSeq(q, 2, Len(q))
Other0(q, o) == IF q = <<>> \/ o = <<>> THEN q ELSE Set0(q, o[1])
Toggle0(q) == IF q = <<>> THEN q ELSE Set0(q, IF q[1] = "a" THEN "a*" ELSE IF q[1] = "a*" THEN "a" ELSE q[1])
SeqOps == {"dropFirst", "dropLast", "dupLast", "swap01", "nil0", "other0"}
ApplySeq(op, q, o, nilv) ==
  CASE op = "dropFirst" -> DropFirst(q)
    [] op = "dropLast"  -> DropLast(q)
    [] op = "dupLast"   -> DupLast(q)
    [] op = "swap01"    -> Swap01(q)
    [] op = "nil0"      -> Set0(q, nilv)
    [] op = "other0"    -> Other0(q, o)

\* manipulations of the first NMT proof / Merkle proof of a sequence (no-op on nil / empty)
NPOps == {"start+1", "end+1", "end-1", "dropNode", "addNode", "altNode"}
ApplyNP0(op, q) ==
  IF q = <<>> THEN q ELSE IF q[1] = Nil THEN q ELSE
  LET np == q[1] IN
  Set0(q, CASE op = "start+1"  -> [np EXCEPT !.start = np.start + 1]
            [] op = "end+1"    -> [np EXCEPT !.end = np.end + 1]
            [] op = "end-1"    -> [np EXCEPT !.end = np.end - 1]
            [] op = "dropNode" -> [np EXCEPT !.nodes = DropLast(np.nodes)]
            [] op = "addNode"  -> [np EXCEPT !.nodes = Append(np.nodes, "x")]
            [] op = "altNode"  -> [np EXCEPT !.nodes = Toggle0(np.nodes)])
MPOps == {"index+1", "total+1", "dropAunt", "addAunt"}
ApplyMP0(op, q) ==
  IF q = <<>> THEN q ELSE IF q[1] = Nil THEN q ELSE
  LET mp == q[1] IN
  Set0(q, CASE op = "index+1"  -> [mp EXCEPT !.index = mp.index + 1]
            [] op = "total+1"  -> [mp EXCEPT !.total = mp.total + 1]
            [] op = "dropAunt" -> [mp EXCEPT !.aunts = DropLast(mp.aunts)]
            [] op = "addAunt"  -> [mp EXCEPT !.aunts = Append(mp.aunts, "x")])

RowProofTampers ==
  ({"rowRoots", "rowProofs"} \X SeqOps) \cup ({"rowProof0"} \X MPOps) \cup
  {<<"rows", "start+1">>, <<"rows", "end+1">>, <<"rows", "end-1">>}

ApplyRowProof(t, rp, orp) ==
  CASE t[1] = "rowRoots"  -> [rp EXCEPT !.rowRoots = ApplySeq(t[2], rp.rowRoots, orp.rowRoots, <<>>)]
    [] t[1] = "rowProofs" -> [rp EXCEPT !.proofs = ApplySeq(t[2], rp.proofs, orp.proofs, Nil)]
    [] t[1] = "rowProof0" -> [rp EXCEPT !.proofs = ApplyMP0(t[2], rp.proofs)]
    [] t = <<"rows", "start+1">> -> [rp EXCEPT !.startRow = rp.startRow + 1]
    [] t = <<"rows", "end+1">>   -> [rp EXCEPT !.endRow = rp.endRow + 1]
    [] t = <<"rows", "end-1">>   -> IF rp.endRow = 0 THEN rp ELSE [rp EXCEPT !.endRow = rp.endRow - 1]

(***************************************************************************)
(* A presentation: what is handed to the verifier.                         *)
(*   cp : [proof, com, root]     CommitmentProof.Verify(root, com)         *)
(*   rr : [res, root]            GetRangeResult.Verify(root)               *)
(*   tp : [proof, root, leaf]    merkle proof verification of a tuple      *)
(*   inc: [s, ns, proof, com]    Service.Included(height s, ns, proof, com)*)
(* obj is the object it was produced for, oth the object whose parts are   *)
(* substituted by the "other" manipulations.                               *)
(***************************************************************************)
CPObjs == {<<s, b>> : s \in Squares, b \in 1..3}
CPOther(o) == IF o[2] = 1 THEN <<o[1], 2>> ELSE <<o[1], 1>>          \* another blob of the same square
CPOtherSq(o) == <<3 - o[1], o[2]>>                                    \* the blob at the same place of the other square

CPTampers ==
  ({"subtreeRoots", "subtreeRootProofs"} \X SeqOps) \cup ({"subtreeRootProof0"} \X NPOps) \cup RowProofTampers \cup
  {<<"ns", "other">>, <<"com", "other">>, <<"com", "otherSq">>, <<"com", "empty">>, <<"root", "other">>, <<"root", "empty">>,
   <<"proof", "other">>, <<"proof", "otherSq">>,
   \* forge the digest of the first subtree root of the first / middle / last ROW of the blob (the forged
   \* node keeps its namespace range, so it is a well-formed NMT node) AND present the commitment
   \* recomputed over the forged list: a commitment of nothing in the block
   <<"forge", "first">>, <<"forge", "middle">>, <<"forge", "last">>,
   \* the vacuous proof: every component stripped, the row range inverted by one (start = end + 1, so the
   \* uint32 row count of Validate() is 0) and the commitment of nothing (hash of the empty list) presented;
   \* only RowProof.Validate's 64-bit "end < start" / "no row roots" checks refuse it
   <<"strip", "all">>,
   \* the honest proof (>= 2 rows) with its row range rewritten to wrap modulo 2^32: end = 0,
   \* start = 2^32 + 1 - rows, written here as the negative number 1 - rows (wire value = 2^32 + startRow)
   <<"cprows", "wrap">>}

\* (forging flips bits of the digest: forging the same root twice restores it)
Forged(sr) == IF Len(sr) = 2 /\ Len(sr[2]) = 2 /\ sr[2][1] = "forged" THEN sr[2][2] ELSE <<"sr", <<"forged", sr>>>>
\* position (in subtreeRoots) of the first subtree root of row k of object o's honest proof (width 1)
RowsOfCP(o) == Len(HonestCP(o[1], o[2]).subtreeRootProofs)
FirstRootOfRow(o, k) ==
  LET sps == HonestCP(o[1], o[2]).subtreeRootProofs
      acc[j \in 0..Len(sps)] == IF j = 0 THEN 0 ELSE acc[j - 1] + (sps[j].end - sps[j].start)
  IN acc[k - 1] + 1
ForgeRow(o, which) == CASE which = "first" -> 1 [] which = "middle" -> (RowsOfCP(o) \div 2) + 1 [] which = "last" -> RowsOfCP(o)

HonestCPPres(o) == [proof |-> HonestCP(o[1], o[2]), com |-> Commitment(o[1], o[2]), root |-> DataRoot(o[1])]

ApplyCP(t, o, v) ==
  LET oth == HonestCP(CPOther(o)[1], CPOther(o)[2])
      p == v.proof IN
  CASE t[1] = "subtreeRoots" -> [v EXCEPT !.proof.subtreeRoots = ApplySeq(t[2], p.subtreeRoots, oth.subtreeRoots, <<>>)]
    [] t[1] = "subtreeRootProofs" -> [v EXCEPT !.proof.subtreeRootProofs = ApplySeq(t[2], p.subtreeRootProofs, oth.subtreeRootProofs, Nil)]
    [] t[1] = "subtreeRootProof0" -> [v EXCEPT !.proof.subtreeRootProofs = ApplyNP0(t[2], p.subtreeRootProofs)]
    [] t[1] \in {"rowRoots", "rowProofs", "rowProof0", "rows"} -> [v EXCEPT !.proof.rowProof = ApplyRowProof(t, p.rowProof, oth.rowProof)]
    [] t = <<"strip", "all">> -> [v EXCEPT !.proof.subtreeRoots = <<>>, !.proof.subtreeRootProofs = <<>>,
                                            !.proof.rowProof.rowRoots = <<>>, !.proof.rowProof.proofs = <<>>,
                                            !.proof.rowProof.startRow = 1, !.proof.rowProof.endRow = 0,
                                            !.com = Hash(<<>>)]
    [] t = <<"cprows", "wrap">> -> IF Len(p.rowProof.rowRoots) < 2 THEN v
                                   ELSE [v EXCEPT !.proof.rowProof.startRow = 1 - Len(p.rowProof.rowRoots),
                                                  !.proof.rowProof.endRow = 0]
    [] t = <<"ns", "other">> -> [v EXCEPT !.proof.ns = IF p.ns = 2 THEN 4 ELSE 2]
    [] t = <<"com", "other">> -> [v EXCEPT !.com = Commitment(CPOther(o)[1], CPOther(o)[2])]
    [] t = <<"com", "otherSq">> -> [v EXCEPT !.com = Commitment(CPOtherSq(o)[1], CPOtherSq(o)[2])]
    [] t = <<"com", "empty">> -> [v EXCEPT !.com = <<>>]
    [] t = <<"root", "other">> -> [v EXCEPT !.root = DataRoot(3 - o[1])]
    [] t = <<"root", "empty">> -> [v EXCEPT !.root = <<>>]
    [] t = <<"proof", "other">> -> [v EXCEPT !.proof = oth]
    [] t = <<"proof", "otherSq">> -> [v EXCEPT !.proof = HonestCP(CPOtherSq(o)[1], CPOtherSq(o)[2])]
    [] t[1] = "forge" ->
         LET i == FirstRootOfRow(o, ForgeRow(o, t[2]))
             roots == IF i <= Len(p.subtreeRoots) THEN [p.subtreeRoots EXCEPT ![i] = Forged(p.subtreeRoots[i])] ELSE p.subtreeRoots
         IN [v EXCEPT !.proof.subtreeRoots = roots, !.com = Hash(roots)]

\* ranges [from,to) of one namespace: <<square, from, to>>
RRObjs == {<<1, 1, 10>>, <<1, 4, 8>>, <<1, 5, 7>>, <<1, 1, 12>>, <<1, 12, 15>>, <<2, 1, 10>>, <<2, 10, 14>>}
RROther(o) == IF o = <<1, 1, 10>> THEN <<1, 5, 7>> ELSE IF o[1] = 1 THEN <<1, 1, 10>> ELSE <<2, 2, 4>>

RRTampers ==
  ({"shares", "data"} \X {"dropFirst", "dropLast", "dupLast", "swap01", "other0"}) \cup
  ({"shareProofs"} \X SeqOps) \cup ({"shareProof0"} \X NPOps) \cup RowProofTampers \cup
  {<<"proof", "nil">>, <<"data", "empty">>, <<"ns", "other">>, <<"root", "other">>, <<"root", "empty">>, <<"res", "other">>}

HonestRRPres(o) == [res |-> HonestRR(o[1], o[2], o[3]), root |-> DataRoot(o[1])]

ApplyRR(t, o, v) ==
  LET oth == HonestRR(RROther(o)[1], RROther(o)[2], RROther(o)[3])
      pr == v.res.proof IN
  IF t = <<"proof", "nil">> THEN [v EXCEPT !.res.proof = Nil]
  ELSE IF t = <<"root", "other">> THEN [v EXCEPT !.root = DataRoot(3 - o[1])]
  ELSE IF t = <<"root", "empty">> THEN [v EXCEPT !.root = <<>>]
  ELSE IF t = <<"res", "other">> THEN [v EXCEPT !.res = oth]
  ELSE IF t[1] = "shares" THEN [v EXCEPT !.res.shares = ApplySeq(t[2], v.res.shares, oth.shares, <<>>)]
  ELSE IF pr = Nil THEN v
  ELSE CASE t = <<"data", "empty">> -> [v EXCEPT !.res.proof.data = <<>>]        \* (nil and empty behave alike)
         [] t[1] = "data" -> [v EXCEPT !.res.proof.data = ApplySeq(t[2], pr.data, oth.proof.data, <<>>)]
         [] t[1] = "shareProofs" -> [v EXCEPT !.res.proof.shareProofs = ApplySeq(t[2], pr.shareProofs, oth.proof.shareProofs, Nil)]
         [] t[1] = "shareProof0" -> [v EXCEPT !.res.proof.shareProofs = ApplyNP0(t[2], pr.shareProofs)]
         [] t[1] \in {"rowRoots", "rowProofs", "rowProof0", "rows"} -> [v EXCEPT !.res.proof.rowProof = ApplyRowProof(t, pr.rowProof, oth.proof.rowProof)]
         [] t = <<"ns", "other">> -> [v EXCEPT !.res.proof.ns = IF pr.ns = 2 THEN 4 ELSE 2]

\* tuple proofs: <<height, a, b>>
TPObjs == {<<2, 1, 5>>, <<1, 1, 2>>, <<4, 2, 6>>, <<5, 3, 6>>}
TPTampers == {<<"index", "+1">>, <<"index", "-1">>, <<"total", "+1">>, <<"total", "-1">>, <<"aunts", "drop">>, <<"aunts", "add">>,
              <<"leaf", "otherHeight">>, <<"leaf", "outside">>, <<"leaf", "wrongRoot">>, <<"leaf", "empty">>,
              <<"root", "otherRange">>, <<"root", "empty">>, <<"proof", "otherHeight">>}
OtherHeight(o) == IF o[1] + 1 < o[3] THEN o[1] + 1 ELSE o[2]         \* another height of the range (or the same if single)
HonestTPPres(o) == [proof |-> HonestTP(o[1], o[2], o[3]), root |-> TupleRoot(o[2], o[3]), leaf |-> Tuple(o[1], HDataRoot(o[1]))]
ApplyTP(t, o, v) ==
  CASE t = <<"index", "+1">> -> [v EXCEPT !.proof.index = v.proof.index + 1]
    [] t = <<"index", "-1">> -> [v EXCEPT !.proof.index = v.proof.index - 1]
    [] t = <<"total", "+1">> -> [v EXCEPT !.proof.total = v.proof.total + 1]
    [] t = <<"total", "-1">> -> [v EXCEPT !.proof.total = v.proof.total - 1]
    [] t = <<"aunts", "drop">> -> [v EXCEPT !.proof.aunts = DropLast(v.proof.aunts)]
    [] t = <<"aunts", "add">> -> [v EXCEPT !.proof.aunts = Append(v.proof.aunts, "x")]
    [] t = <<"leaf", "otherHeight">> -> [v EXCEPT !.leaf = Tuple(OtherHeight(o), HDataRoot(OtherHeight(o)))]
    [] t = <<"leaf", "outside">> -> [v EXCEPT !.leaf = Tuple(o[3], HDataRoot(o[3]))]
    [] t = <<"leaf", "wrongRoot">> -> [v EXCEPT !.leaf = Tuple(o[1], HDataRoot(OtherHeight(o) + 7))]
    [] t = <<"leaf", "empty">> -> [v EXCEPT !.leaf = <<>>]
    [] t = <<"root", "otherRange">> -> [v EXCEPT !.root = IF o[3] <= HEAD THEN TupleRoot(o[2], o[3] + 1) ELSE TupleRoot(o[2], o[3] - 1)]
    [] t = <<"root", "empty">> -> [v EXCEPT !.root = <<>>]
    [] t = <<"proof", "otherHeight">> -> [v EXCEPT !.proof = HonestTP(OtherHeight(o), o[2], o[3])]

\* Included: object = blob <<s,b>>; the node's own proof is HonestBlobProof
INCObjs == CPObjs
INCTampers == ({"proof"} \X SeqOps) \cup ({"proof0"} \X (NPOps \cup {"altLeafHash"})) \cup
              {<<"com", "other">>, <<"com", "absent">>, <<"ns", "other">>, <<"proof", "other">>, <<"proof", "empty">>}
HonestINCPres(o) == [s |-> o[1], ns |-> BNs(o[1], o[2]), proof |-> HonestBlobProof(o[1], o[2]), com |-> Commitment(o[1], o[2]), lh |-> "ok"]
ApplyINC(t, o, v) ==
  LET oth == HonestBlobProof(CPOther(o)[1], CPOther(o)[2]) IN
  CASE t[1] = "proof" /\ t[2] \in SeqOps -> [v EXCEPT !.proof = ApplySeq(t[2], v.proof, oth, Nil)]
    [] t = <<"proof0", "altLeafHash">> -> IF v.proof = <<>> THEN v ELSE IF v.proof[1] = Nil THEN v ELSE [v EXCEPT !.lh = "alt"]
    [] t[1] = "proof0" /\ t[2] # "altLeafHash" -> [v EXCEPT !.proof = ApplyNP0(t[2], v.proof)]
    [] t = <<"com", "other">> -> [v EXCEPT !.com = Commitment(CPOther(o)[1], CPOther(o)[2])]
    [] t = <<"com", "absent">> -> [v EXCEPT !.com = Hash(<< <<"sr", <<"absent">> >> >>)]
    [] t = <<"ns", "other">> -> [v EXCEPT !.ns = IF v.ns = 2 THEN 4 ELSE 2]
    [] t = <<"proof", "other">> -> [v EXCEPT !.proof = oth]
    [] t = <<"proof", "empty">> -> [v EXCEPT !.proof = <<>>]

(***************************************************************************)
(* The verifiers, transcribed.  Outcomes: "ok" | "err" | "panic".          *)
(* A sequence of checks is written as nested IFs in the order of the code. *)
(***************************************************************************)
\* RowProof.Validate(root) of celestia-app pkg/proof (commitment proofs) and of celestia-core types
\* (range results): same checks in a slightly different order; VerifyProof dereferences every proof.
RowProofValidate(rp, root) ==
  IF rp.startRow < 0 \/ rp.endRow < rp.startRow THEN "err"       \* a negative startRow stands for 2^32 + startRow (compared as integers, no wrap)
  ELSE IF rp.endRow - rp.startRow + 1 # Len(rp.rowRoots) THEN "err"
  ELSE IF Len(rp.rowRoots) = 0 THEN "err"
  ELSE IF Len(rp.proofs) # Len(rp.rowRoots) THEN "err"
  ELSE IF \E i \in 1..Len(rp.proofs) : rp.proofs[i] = Nil /\ \A j \in 1..i - 1 : MPVerifies(rp.proofs[j], root, rp.rowRoots[j])
       THEN "panic"                    \* proof.Verify on a nil *Proof (reached if the earlier ones verify)
  ELSE IF \E i \in 1..Len(rp.proofs) : rp.proofs[i] # Nil /\ ~MPVerifies(rp.proofs[i], root, rp.rowRoots[i]) THEN "err"
  ELSE "ok"

\* number of shares proven (Verify sums proof.End()-proof.Start(): a nil element is dereferenced)
SumRanges(nps) ==
  LET acc[k \in 0..Len(nps)] == IF k = 0 THEN 0 ELSE acc[k - 1] + (nps[k].end - nps[k].start) IN acc[Len(nps)]

(* CommitmentProof.Verify(dataRoot, commitment)  blob/commitment_proof.go  *)
VerifyCP(v) ==
  LET p == v.proof rp == v.proof.rowProof IN
  IF v.root = <<>> THEN "err"                                            \* len(dataRoot) == 0
  ELSE IF v.com = <<>> THEN "err"                                        \* len(commitment) == 0
  \* Validate()
  ELSE IF Len(p.subtreeRoots) < Len(p.subtreeRootProofs) THEN "err"
  ELSE IF Len(p.subtreeRootProofs) # Len(rp.proofs) THEN "err"
  ELSE IF rp.endRow - rp.startRow + 1 # Len(rp.rowRoots) THEN "err"
  ELSE IF Len(rp.proofs) # Len(rp.rowRoots) THEN "err"
  ELSE IF GUARDS /\ ((\E i \in 1..Len(p.subtreeRootProofs) : p.subtreeRootProofs[i] = Nil)
                     \/ (\E i \in 1..Len(rp.proofs) : rp.proofs[i] = Nil)) THEN "err"     \* fix: nil elements
  \* commitment == merkle.HashFromByteSlices(SubtreeRoots)
  ELSE IF v.com # Hash(p.subtreeRoots) THEN "err"
  ELSE LET rv == RowProofValidate(rp, v.root) IN
  IF rv # "ok" THEN rv
  ELSE IF \E i \in 1..Len(p.subtreeRootProofs) : p.subtreeRootProofs[i] = Nil THEN "panic"  \* proof.End() on nil
  ELSE
    \* cursor loop: proof i consumes (end-start) subtree roots (width 1) and must verify against rowRoots[i]
    LET n == Len(p.subtreeRootProofs)
        cur[k \in 0..n] == IF k = 0 THEN 0 ELSE cur[k - 1] + (p.subtreeRootProofs[k].end - p.subtreeRootProofs[k].start)
        Bad(k) == LET np == p.subtreeRootProofs[k] IN
                  \/ np.start < 0 \/ np.end <= np.start                   \* nmt.ToLeafRanges error
                  \/ Len(p.subtreeRoots) < cur[k]                         \* not enough subtree roots
                  \/ ~NPVerifiesSubRoots(np, SubSeq(p.subtreeRoots, cur[k - 1] + 1, cur[k]), rp.rowRoots[k])
    IN IF \E k \in 1..n : Bad(k) THEN "err"
       ELSE IF cur[n] # Len(p.subtreeRoots) THEN "err"                   \* not all subtree roots were verified
       ELSE "ok"                                                          \* (VerifyProof again: already ok)

(* GetRangeResult.Verify(dataRoot)  nodebuilder/share/get_range_result.go  *)
(* followed by celestia-core types.ShareProof.Validate(root)               *)
VerifyRR(v) ==
  LET r == v.res IN
  IF r.proof = Nil THEN (IF GUARDS THEN "err" ELSE "panic")              \* r.Proof.Data on a nil *ShareProof
  ELSE LET pr == r.proof
           data == pr.data IN
  IF GUARDS /\ Len(r.shares) # Len(data) THEN "err"                       \* fix: lengths must agree
  ELSE IF ~GUARDS /\ (\E i \in 1..Len(r.shares) : i > Len(data) /\ \A j \in 1..i - 1 : r.shares[j] = data[j]) THEN "panic"
  ELSE IF \E i \in 1..Len(r.shares) : i <= Len(data) /\ r.shares[i] # data[i] THEN "err"   \* share data mismatch
  ELSE IF \E i \in 1..Len(pr.shareProofs) : pr.shareProofs[i] = Nil THEN (IF GUARDS THEN "err" ELSE "panic")
  ELSE IF GUARDS /\ (\E i \in 1..Len(pr.rowProof.proofs) : pr.rowProof.proofs[i] = Nil) THEN "err"
  \* ShareProof.Validate
  ELSE IF Len(pr.shareProofs) # Len(pr.rowProof.rowRoots) THEN "err"
  ELSE IF Len(data) # SumRanges(pr.shareProofs) THEN "err"
  ELSE IF \E i \in 1..Len(pr.shareProofs) : pr.shareProofs[i].start < 0 \/ pr.shareProofs[i].end - pr.shareProofs[i].start <= 0 THEN "err"
  ELSE LET rv == RowProofValidate(pr.rowProof, v.root) IN
  IF rv # "ok" THEN rv
  ELSE LET n == Len(pr.shareProofs)
           cur[k \in 0..n] == IF k = 0 THEN 0 ELSE cur[k - 1] + (pr.shareProofs[k].end - pr.shareProofs[k].start)
       IN IF \E k \in 1..n : ~NPVerifiesLeaves(pr.shareProofs[k], pr.ns, SubSeq(data, cur[k - 1] + 1, cur[k]), pr.rowProof.rowRoots[k])
          THEN "err" ELSE "ok"

(* merkle proof verification of a data-root tuple                          *)
VerifyTP(v) ==
  IF v.root = <<>> THEN "err"
  ELSE IF v.proof.total < 0 \/ v.proof.index < 0 THEN "err"
  ELSE IF TPVerifies(v.proof, v.root, v.leaf) THEN "ok" ELSE "err"

(* Proof.equal(input)  blob/blob.go, and Service.Included                  *)
\* the loop `for i, node := range pNodes { if !bytes.Equal(node, inputNodes[i]) ...` : the first position
\* at which the lists differ ends it with an error; running out of input nodes is an index panic in the
\* tree as found; surplus input nodes are never looked at there
NodesCmp(own, inp) ==
  LET m == IF Len(own) < Len(inp) THEN Len(own) ELSE Len(inp) IN
  IF GUARDS /\ Len(own) # Len(inp) THEN "err"                               \* fix: lengths must agree
  ELSE IF \E i \in 1..m : own[i] # inp[i] THEN "err"
  ELSE IF Len(inp) < Len(own) THEN "panic"
  ELSE "ok"
ProofEqual(own, inp, lh) ==
  IF Len(own) # Len(inp) THEN "err"
  ELSE LET Elem(i) ==
         IF inp[i] = Nil THEN (IF GUARDS THEN "err" ELSE "panic")
         ELSE IF inp[i].key # own[i].key \/ inp[i].for # own[i].for THEN "err"      \* another proof's nodes differ
         ELSE IF NodesCmp(own[i].nodes, inp[i].nodes) # "ok" THEN NodesCmp(own[i].nodes, inp[i].nodes)
         ELSE IF inp[i].start # own[i].start \/ inp[i].end # own[i].end THEN "err"
         ELSE IF i = 1 /\ lh # "ok" THEN "err"
         ELSE "ok"
       first == IF \E i \in 1..Len(own) : Elem(i) # "ok"
                THEN Elem(CHOOSE i \in 1..Len(own) : Elem(i) # "ok" /\ \A j \in 1..i - 1 : Elem(j) = "ok") ELSE "ok"
       IN first

\* Included's retrieval (spec/blob/BlobParser.tla GetExact): the first blob of ns with that commitment
IncFound(v) == {b \in Blobs(v.s) : BNs(v.s, b) = v.ns /\ Commitment(v.s, b) = v.com}
FirstOf(S) == CHOOSE b \in S : \A x \in S : b <= x
\* outcome: "true" = (true,nil); "false" = (false,nil); "err" = (_, error) ; "panic"
VerifyINC(v) ==
  IF IncFound(v) = {} THEN "false"
  ELSE LET e == ProofEqual(HonestBlobProof(v.s, FirstOf(IncFound(v))), v.proof, v.lh) IN
       IF e = "ok" THEN "true" ELSE e

(***************************************************************************)
(* Truth of a claim in the world (independent of the verifier).            *)
(***************************************************************************)
CPTruth(v) == \E s \in Squares : v.root = DataRoot(s) /\ \E b \in Blobs(s) : v.com = Commitment(s, b)

\* the coordinates a range result is BOUND to: the Merkle index of every row proof and the NMT range
\* of every share proof (RowProof.StartRow/EndRow are documented upstream as not validated)
RRTruth(v) ==
  /\ v.res.proof # Nil
  /\ \E s \in Squares :
       /\ v.root = DataRoot(s)
       /\ LET pr == v.res.proof n == Len(pr.shareProofs) IN
          /\ n = Len(pr.rowProof.proofs) /\ n >= 1
          /\ \A k \in 1..n : pr.shareProofs[k] # Nil /\ pr.rowProof.proofs[k] # Nil
          /\ LET Seg(k) == LET np == pr.shareProofs[k] r == pr.rowProof.proofs[k].index IN
                           IF r < W(s) /\ 0 <= np.start /\ np.start < np.end /\ np.end <= W(s)
                           THEN SubSeq(RowLeaves(s, r), np.start + 1, np.end) ELSE << <<"?">> >>
                 cat[k \in 0..n] == IF k = 0 THEN <<>> ELSE cat[k - 1] \o Seg(k)
             IN v.res.shares = cat[n]

TPTruth(v) == \E a \in 1..HEAD, b \in 1..HEAD + 1, h \in 1..HEAD :
                 a < b /\ a <= h /\ h < b /\ v.root = TupleRoot(a, b) /\ v.leaf = Tuple(h, HDataRoot(h))

INCTruth(v) == IncFound(v) # {} /\ v.proof = HonestBlobProof(v.s, FirstOf(IncFound(v))) /\ v.lh = "ok"

(***************************************************************************)
(* The enumeration machine                                                 *)
(***************************************************************************)
VARIABLES pc, kind, obj, tampers, pres, verdict

vars == <<pc, kind, obj, tampers, pres, verdict>>

ObjsOf(k) == CASE k = "cp" -> CPObjs [] k = "rr" -> RRObjs [] k = "tp" -> TPObjs [] k = "inc" -> INCObjs
TampersOf(k) == CASE k = "cp" -> CPTampers [] k = "rr" -> RRTampers [] k = "tp" -> TPTampers [] k = "inc" -> INCTampers
HonestOf(k, o) == CASE k = "cp" -> HonestCPPres(o) [] k = "rr" -> HonestRRPres(o) [] k = "tp" -> HonestTPPres(o) [] k = "inc" -> HonestINCPres(o)
ApplyOf(k, t, o, v) == CASE k = "cp" -> ApplyCP(t, o, v) [] k = "rr" -> ApplyRR(t, o, v) [] k = "tp" -> ApplyTP(t, o, v) [] k = "inc" -> ApplyINC(t, o, v)
VerifyOf(k, v) == CASE k = "cp" -> VerifyCP(v) [] k = "rr" -> VerifyRR(v) [] k = "tp" -> VerifyTP(v) [] k = "inc" -> VerifyINC(v)
TruthOf(k, v) == CASE k = "cp" -> CPTruth(v) [] k = "rr" -> RRTruth(v) [] k = "tp" -> TPTruth(v) [] k = "inc" -> INCTruth(v)

\* request validation of the blobstream producer: <<height, a, b>> over a domain around every boundary
ReqDomain == {<<h, a, b>> : h \in 0..HEAD + 2, a \in 0..3, b \in (0..HEAD + 2) \cup {LIMIT + 1, LIMIT + 2, LIMIT + 3}}

Init == pc = "pick" /\ kind = "none" /\ obj = <<>> /\ tampers = <<>> /\ pres = <<>> /\ verdict = "none"

Pick ==
  /\ pc = "pick"
  /\ \E k \in KINDS \ {"req"} : \E o \in ObjsOf(k) : kind' = k /\ obj' = o /\ pres' = HonestOf(k, o)
  /\ pc' = "tamper" /\ UNCHANGED <<tampers, verdict>>

PickReq ==
  /\ pc = "pick" /\ "req" \in KINDS
  /\ \E o \in ReqDomain : kind' = "req" /\ obj' = o
  /\ verdict' = IF RequestValid(obj'[1], obj'[2], obj'[3]) THEN "ok" ELSE "err"
  /\ pc' = "done" /\ UNCHANGED <<tampers, pres>>

Tamper ==
  /\ pc = "tamper" /\ Len(tampers) < MaxTampers
  /\ \E t \in TampersOf(kind) : tampers' = Append(tampers, t) /\ pres' = ApplyOf(kind, t, obj, pres)
  /\ UNCHANGED <<pc, kind, obj, verdict>>

Present ==
  /\ pc = "tamper"
  /\ verdict' = VerifyOf(kind, pres)
  /\ pc' = "done" /\ UNCHANGED <<kind, obj, tampers, pres>>

Next == Pick \/ PickReq \/ Tamper \/ Present \/ (pc = "done" /\ UNCHANGED vars)
Spec == Init /\ [][Next]_vars

(***************************************************************************)
(* Properties                                                              *)
(***************************************************************************)
IsDone == pc = "done" /\ kind # "req"

ProducedVerifies == (IsDone /\ tampers = <<>>) => verdict = (IF kind = "inc" THEN "true" ELSE "ok")

OnlyForClaim == (IsDone /\ kind \in {"cp", "rr", "tp"} /\ verdict = "ok") => TruthOf(kind, pres)

IncludedExact == (IsDone /\ kind = "inc") => (verdict = "true" <=> INCTruth(pres))

TotalFunction == verdict # "panic"

\* a tuple proof is produced iff the request is valid; proveDataRootTuples indexes proofs[height-start],
\* which is inside the slice exactly when the request is valid
RequestValidation ==
  (pc = "done" /\ kind = "req") =>
     LET h == obj[1] a == obj[2] b == obj[3] IN
     /\ (verdict = "ok") <=> (a >= 1 /\ a < b /\ b - a <= LIMIT /\ b <= HEAD + 1 /\ a <= h /\ h < b)
     /\ verdict = "ok" => (h - a >= 0 /\ h - a < b - a)

EmitCase ==
  pc = "done" =>
     PrintT(<<"CASE", ToJson([kind |-> kind, obj |-> obj, tampers |-> tampers, verdict |-> verdict,
                              truth |-> IF kind = "req" THEN verdict = "ok" ELSE TruthOf(kind, pres)])>>)
=============================================================================
