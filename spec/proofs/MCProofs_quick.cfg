\* all families, up to two composed manipulations, transcription of the FIXED tree
SPECIFICATION Spec
CONSTANTS
  T = 64
  GUARDS = TRUE
  KINDS = {"cp", "rr", "tp", "inc", "req"}
  MaxTampers = 2
INVARIANTS ProducedVerifies OnlyForClaim IncludedExact TotalFunction RequestValidation EmitCase
CHECK_DEADLOCK FALSE
