\* the tree as found, Included only: Proof.equal never looks at surplus nodes of the supplied proof, so
\* TLC is EXPECTED to report IncludedExact ((true,nil) for a proof that is not the node's own)
SPECIFICATION Spec
CONSTANTS
  T = 64
  GUARDS = FALSE
  KINDS = {"inc"}
  MaxTampers = 1
INVARIANTS IncludedExact
CHECK_DEADLOCK FALSE
