------------------------------- MODULE Pruner -------------------------------
(***************************************************************************)
(* C14 -- pruning removes only data older than the availability window,    *)
(* and all of it.                                                          *)
(*                                                                         *)
(* A transcription of celestia-node's pruner.Service (pruner/service.go,   *)
(* find.go, checkpoint.go) together with the part of its environment the   *)
(* property quantifies over: the header chain (irregular, non-decreasing   *)
(* timestamps), a header store whose head grows and whose tail is deleted  *)
(* (OnDelete -> pruneOnHeaderDelete), prune calls that fail in any         *)
(* pattern, restarts (Stop persists / Start reloads and immediately runs a *)
(* cycle), and the archival -> pruned conversion (ResetCheckpoint).        *)
(*                                                                         *)
(* The module is written to be bound (B2, DESIGN.md section 3): one action *)
(* per observable step of the code; the driver harness/drivers/pruner      *)
(* replays behaviours of this module into the real Service.                *)
(*                                                                         *)
(* Code <-> action map                                                     *)
(*   prune(): lock, lastPruned() (tail clamp, un-failing)   CycleBegin     *)
(*   retryFailed(): one Prune call per failed height        RetryStep      *)
(*   findPruneableHeaders()                                 FindStep       *)
(*   s.pruner.Prune(eh) inside the batch loop               PruneStep      *)
(*   updateCheckpoint + `len(headers) < cap` loop exit      UpdStep        *)
(*   pruneOnHeaderDelete: 1st critical section              ODBegin        *)
(*   pruneOnHeaderDelete: Prune + 2nd critical section      ODEnd          *)
(*   Stop; new Service; Start (first cycle starts at once)  Restart        *)
(*   ResetCheckpoint (archival -> pruned conversion)        ResetCheckpoint*)
(*   header store appends a header                          HeadAdvance    *)
(*                                                                         *)
(* prune() holds checkpointMu from CycleBegin until the cycle ends, so     *)
(* ODBegin/ODEnd/Restart/ResetCheckpoint interleave with a cycle only at   *)
(* its boundaries (pc = "idle").  The un-locked middle of                  *)
(* pruneOnHeaderDelete (GetByHeight + Prune of the deleted height) touches *)
(* only the stub pruner, on a height no cycle step prunes (cycle heights   *)
(* are > lp >= tail, the genesis exception has height 1 <= last and never  *)
(* reaches the middle part): it commutes with every cycle step and is      *)
(* merged into ODEnd.                                                      *)
(*                                                                         *)
(* Deviations of the code from the property, kept as the code has them:    *)
(*   Fix13 = FALSE   the loop of prune() as it was before the repair: the  *)
(*                   cursor lp moves only on success, so a full batch      *)
(*                   without success is found again at once (candidate     *)
(*                   #13: the cycle spins).  Fix13 = TRUE is the repaired  *)
(*                   loop (the cursor moves past failed headers, which are *)
(*                   in the failed set and retried by every later cycle).  *)
(*   skipped         lastPruned() sets LastPrunedHeight := tail whenever   *)
(*                   tail >= last.  After on-delete pruning advanced last  *)
(*                   to tail-1 this marks the *unpruned* tail block as     *)
(*                   pruned: no cycle prunes it and the later on-delete    *)
(*                   call skips it (height <= last).  Ghost set `skipped`. *)
(*   dropped         a failed height whose header is deleted is removed    *)
(*                   from the failed set without a retry (the code logs    *)
(*                   "may never be pruned").  Ghost set `dropped`.         *)
(***************************************************************************)
EXTENDS Integers, Sequences, FiniteSets, TLC, Json

CONSTANTS
  N,            \* heights are 1..N
  T,            \* timestamps are 0..T
  Ws, Bs, Ms,   \* windows, block-time estimates, batch caps (maxHeadersPerLoop) to explore
  Tails,        \* initial tail heights (the pruner's starting point)
  Modes,        \* subset of {"pruned", "archival", "convert"}; "convert" = archival node restarted as pruned
  MaxRestarts,  \* bound on Restart
  MaxDeletes,   \* bound on header-store tail deletions
  MaxReadFaults,\* bound on header-store read failures (Tail / GetByHeight / Head / GetRangeByHeight returning an
                \* error: a transient datastore error, or the service context cancelled by Stop)
  MaxAbortFaults,\* (<= MaxReadFaults) a failure that ends a whole cycle (CycleAbort, the finder) is taken only while
                \* fewer than this many failures have happened: keeps simulation from spending the budget on them
  IntraHead,    \* TRUE: the head may also grow between two batches of one cycle (findPruneableHeaders reads
                \* Head() afresh for every batch; growth between its two reads of one call is not modelled)
  Fix13,        \* TRUE: repaired batch loop (see above)
  LazyChain,    \* FALSE: the whole chain's timestamps are chosen in Init; TRUE: a header's timestamp is
                \* chosen when the header arrives (same behaviours, few initial states: for simulation)
  MaxStep,      \* LazyChain: largest difference between two consecutive timestamps
  SimBias,      \* TRUE (simulation only): a cycle is started only after something changed since the last one
                \* (a cycle over an unchanged state repeats the previous one); keeps random walks from
                \* spending their steps on idle cycles
  KeepHist,     \* TRUE: keep the history of actions (simulation / replay generation only)
  Depth         \* simulation: length of a behaviour at which its history is printed

ASSUME /\ N \in Nat /\ T \in Nat /\ Ws \subseteq (Nat \ {0}) /\ Bs \subseteq (Nat \ {0})
       /\ \A m \in Ms : m \in Nat /\ m >= 2   \* cap 1 is degenerate: [genesis] alone is a "full" batch for ever
       /\ Tails \subseteq 1..N
       /\ Modes \subseteq {"pruned", "archival", "convert"}

VARIABLES
  time,         \* [1..N -> 0..T] non-decreasing: header timestamps (fixed per behaviour)
  W, B, M,      \* configuration (fixed per behaviour)
  mode,         \* "pruned" | "archival": what Pruner.Prune does (RemoveODSQ4 | RemoveQ4)
  canConvert,   \* an archival node that may be restarted as a pruned one (once)
  resetPending, \* the conversion happened, ResetCheckpoint not yet called
  head, tail,   \* header store: heights tail..head exist
  cpLast, cpFailed,         \* s.checkpoint (in memory)
  pLast, pFailed,           \* checkpoint in the datastore (pruner/checkpoint)
  pc,           \* "start" (Start returned, first cycle about to take the lock) | "idle" |
                \* "retry" | "find" | "prune"
  lp,           \* height of the local lastPrunedHeader of prune()
  retryTodo,    \* failed heights still to retry in this cycle
  batch, idx, fset,         \* headers of the current batch, next index, failedSet
  od,           \* 0, or the height pruneOnHeaderDelete is working on between its critical sections
  restarts, deletes, rfaults,
  fresh,        \* the cycle has just begun: no retry / find step taken yet
  store,        \* [1..N -> {"odsq4","ods","none"}] what the EDS store holds (all blocks start as ODS+Q4)
  okPruned,     \* ghost: heights with a successful Prune call since the last checkpoint reset
  inside,       \* ghost: heights handed to Prune while their timestamp was inside the window
  startPt,      \* ghost: the pruner's starting point (tail at the last reset)
  skipped, dropped,         \* ghost: deviations, see above
  justEnded,    \* the last step ended a cycle normally
  dirty,        \* SimBias only: something changed since the last cycle began
  act, hist     \* last action (for counterexamples / replay) and optional history

cfgVars  == <<time, W, B, M>>
modeVars == <<mode, canConvert, resetPending>>
hsVars   == <<head, tail>>
cpVars   == <<cpLast, cpFailed>>
pVars    == <<pLast, pFailed>>
cycVars  == <<pc, lp, retryTodo, batch, idx, fset>>
ghost    == <<okPruned, inside, startPt, skipped, dropped>>
vars     == <<cfgVars, modeVars, hsVars, cpVars, pVars, cycVars, od, restarts, deletes, rfaults, fresh, store,
              ghost, justEnded, dirty, act, hist>>
\* the state as far as exhaustive exploration is concerned (act/hist only label the path)
View     == <<cfgVars, modeVars, hsVars, cpVars, pVars, cycVars, od, restarts, deletes, rfaults, fresh, store,
              ghost, justEnded, dirty>>

Min(S) == CHOOSE x \in S : \A y \in S : x <= y

NonDecreasing(f) == \A i \in 1..(N-1) : f[i] <= f[i+1]

(***************************************************************************)
(* The window.  find.go: pruneCutoff = head.Time - window; a header is     *)
(* prunable iff NOT header.Time.After(pruneCutoff).  DESIGN.md section 11: *)
(* "inside the window" is time > cutoff.                                   *)
(***************************************************************************)
Cutoff      == time[head] - W
InsideWin(h) == time[h] > Cutoff
\* "older than the window by more than one configured block time"
Old(h)      == time[h] < Cutoff - B

(***************************************************************************)
(* findPruneableHeaders(lastPruned) -- find.go:17-123, as a function of    *)
(* the cursor l.  Result: sequence of heights (<<>> also stands for the    *)
(* error return: in both cases prune() returns).                           *)
(***************************************************************************)
RECURSIVE Extend(_)
Extend(hs) ==                                        \* the one-by-one extension loop
  IF Len(hs) > M THEN SubSeq(hs, 1, M)               \*   headerCount > maxHeadersPerLoop: trim, stop
  ELSE LET l == hs[Len(hs)] IN
       IF time[l] > Cutoff THEN hs                   \*   lastHeader.Time().After(pruneCutoff): stop
       ELSE IF l + 1 > head THEN <<>>                \*   GetByHeight(head+1) fails: (nil, err)
       ELSE Extend(Append(hs, l + 1))

CutAt(hs) ==                                         \* cut at the first header newer than the cutoff
  LET newer == {i \in 1..Len(hs) : time[hs[i]] > Cutoff} IN
  IF newer = {} THEN hs ELSE SubSeq(hs, 1, Min(newer) - 1)

Find(l) ==
  IF ~(time[l] < Cutoff) THEN <<>>                   \* !lastPruned.Time().Before(pruneCutoff)
  ELSE LET er == (Cutoff - time[l]) \div B           \* calculateEstimatedCutoff
           e0 == l + er
           e1 == IF head < e0 THEN head ELSE e0      \*   clamp to the head
           e  == IF e1 - l > M THEN l + M ELSE e1    \*   clamp to the batch cap
       IN IF l >= e THEN <<>>                        \* nothing left to prune
          ELSE LET rng == [i \in 1..(e - l) |-> l + i]                  \* GetRangeByHeight(lastPruned, e+1)
                   hs0 == IF l = 1 THEN <<1>> \o rng ELSE rng           \* "ensures genesis block gets pruned"
               IN CutAt(Extend(hs0))

(***************************************************************************)
(* Effects of one Pruner.Prune(h) call.                                    *)
(***************************************************************************)
StoreAfterPrune(h) ==
  [store EXCEPT ![h] = IF mode = "archival" THEN (IF @ = "odsq4" THEN "ods" ELSE @) ELSE "none"]

\* ghost bookkeeping of a call (whatever its outcome) and of a successful call
Called(h, ok) ==
  /\ inside' = IF InsideWin(h) THEN inside \cup {h} ELSE inside
  /\ store' = IF ok THEN StoreAfterPrune(h) ELSE store
  /\ okPruned' = IF ok THEN okPruned \cup {h} ELSE okPruned

NoCall == UNCHANGED <<inside, store, okPruned>>

Snap == [last |-> cpLast', failed |-> cpFailed', plast |-> pLast', pfailed |-> pFailed',
         tail |-> tail', head |-> head', od |-> od', mode |-> mode', pc |-> pc']
Log(a) == /\ act' = a
          /\ hist' = IF KeepHist THEN Append(hist, a @@ Snap) ELSE hist

-----------------------------------------------------------------------------
Init ==
  /\ tail \in Tails
  /\ IF LazyChain
     THEN /\ head = tail
          /\ \E t0 \in 0..(IF T < 2 THEN T ELSE 2) : time = [h \in 1..N |-> IF h = tail THEN t0 ELSE 0]
     ELSE /\ head \in tail..N
          /\ time \in {f \in [1..N -> 0..T] : NonDecreasing(f)}
  /\ W \in Ws /\ B \in Bs /\ M \in Ms
  /\ \E m \in Modes : /\ mode = (IF m = "pruned" THEN "pruned" ELSE "archival")
                      /\ canConvert = (m = "convert")
  /\ resetPending = FALSE
  \* a fresh node: NewService, Start -> loadCheckpoint finds nothing -> resetCheckpoint (persisted)
  /\ cpLast = tail /\ cpFailed = {} /\ pLast = tail /\ pFailed = {}
  /\ pc = "start" /\ lp = 0 /\ retryTodo = {} /\ batch = <<>> /\ idx = 0 /\ fset = {}
  /\ od = 0 /\ restarts = 0 /\ deletes = 0 /\ rfaults = 0 /\ fresh = FALSE
  /\ store = [h \in 1..N |-> "odsq4"]
  /\ okPruned = {} /\ inside = {} /\ startPt = tail /\ skipped = {} /\ dropped = {}
  /\ justEnded = FALSE /\ dirty = FALSE
  /\ act = [n |-> "Init", h |-> 0, ok |-> TRUE]
  /\ hist = IF KeepHist
            THEN <<[n |-> "Init", time |-> time, W |-> W, B |-> B, M |-> M, mode |-> mode,
                    tail |-> tail, head |-> head]>>
            ELSE <<>>

-----------------------------------------------------------------------------
(* retryFailed(): every failed height gets one Prune call (map order; the  *)
(* calls on different heights commute, the model takes ascending order).   *)
RetryStep ==
  /\ UNCHANGED dirty
  /\ fresh' = FALSE
  /\ pc = "retry" /\ retryTodo # {}
  /\ LET h == Min(retryTodo)
         gone == h < tail \/ h > head                        \* the header does not exist: GetByHeight fails
         outs == IF gone THEN {"gone"}
                 ELSE {"ok", "fail"} \cup (IF rfaults < MaxReadFaults THEN {"rfail"} ELSE {})
     IN \E o \in outs :
          /\ retryTodo' = retryTodo \ {h}
          \* `h, err := s.hstore.GetByHeight(ctx, failed); if err != nil { log; continue }`: the height is
          \* neither pruned nor removed from the failed set
          /\ IF o \in {"gone", "rfail"} THEN NoCall ELSE Called(h, o = "ok")
          /\ cpFailed' = IF o = "ok" THEN cpFailed \ {h} ELSE cpFailed
          /\ rfaults' = IF o = "rfail" THEN rfaults + 1 ELSE rfaults
          /\ justEnded' = FALSE
          /\ UNCHANGED <<cfgVars, modeVars, hsVars, cpLast, pVars, pc, lp, batch, idx, fset, od, restarts,
                         deletes, startPt, skipped, dropped>>
          /\ Log([n |-> (IF o \in {"gone", "rfail"} THEN "RetrySkip" ELSE "Retry"), h |-> h, ok |-> (o = "ok"),
                  rf |-> (o = "rfail")])

(* findPruneableHeaders(); `err != nil || len(headers) == 0` ends the cycle *)
FindStep ==
  /\ fresh' = FALSE
  /\ UNCHANGED dirty
  /\ \/ pc = "find"
     \/ pc = "retry" /\ retryTodo = {}
  /\ NoCall
  /\ UNCHANGED <<cfgVars, modeVars, hsVars, cpVars, pVars, lp, retryTodo, od, restarts, deletes,
                 startPt, skipped, dropped>>
  /\ \/ /\ UNCHANGED rfaults
        /\ LET hs == Find(lp) IN
           IF hs = <<>>
           THEN /\ pc' = "idle" /\ justEnded' = TRUE
                /\ batch' = <<>> /\ idx' = 0 /\ fset' = {}
                /\ Log([n |-> "CycleEnd", h |-> lp, ok |-> TRUE])
           ELSE /\ pc' = "prune" /\ justEnded' = FALSE
                /\ batch' = hs /\ idx' = 1 /\ fset' = {}
                /\ Log([n |-> "Batch", h |-> hs[1], ok |-> TRUE, hs |-> hs])
     \/ \* a read of the header store fails inside findPruneableHeaders: prune() returns, the cycle is over
        \* (what was checkpointed so far stays; the next cycle goes on from there)
        /\ rfaults < MaxAbortFaults
        /\ rfaults' = rfaults + 1
        /\ pc' = "idle" /\ justEnded' = FALSE
        /\ batch' = <<>> /\ idx' = 0 /\ fset' = {}
        /\ Log([n |-> "FindFail", h |-> lp, ok |-> FALSE])

(* one s.pruner.Prune(ctx, eh) of the batch.  service.go:197-209           *)
PruneStep ==
  /\ fresh' = FALSE
  /\ UNCHANGED rfaults
  /\ UNCHANGED dirty
  /\ pc = "prune" /\ idx <= Len(batch)
  /\ idx' = idx + 1
  /\ justEnded' = FALSE
  /\ UNCHANGED <<cfgVars, modeVars, hsVars, cpVars, pVars, pc, retryTodo, batch, od, restarts, deletes,
                 startPt, skipped, dropped>>
  /\ LET h == batch[idx] IN
     \E ok \in BOOLEAN :
       /\ Called(h, ok)
       /\ fset' = IF ok THEN fset ELSE fset \cup {h}
       /\ lp' = IF ok \/ Fix13 THEN h ELSE lp
       /\ Log([n |-> "Prune", h |-> h, ok |-> ok])

(* updateCheckpoint(lastPrunedHeader.Height(), failedSet) -- persisted --  *)
(* and the loop condition `len(headers) < maxHeadersPerLoop`.              *)
UpdStep ==
  /\ fresh' = FALSE
  /\ UNCHANGED rfaults
  /\ UNCHANGED dirty
  /\ pc = "prune" /\ idx > Len(batch)
  /\ cpLast' = lp
  /\ cpFailed' = cpFailed \cup fset
  /\ pLast' = cpLast' /\ pFailed' = cpFailed'
  /\ IF Len(batch) < M
     THEN pc' = "idle" /\ justEnded' = TRUE
     ELSE pc' = "find" /\ justEnded' = FALSE
  /\ NoCall
  /\ UNCHANGED <<cfgVars, modeVars, hsVars, lp, retryTodo, batch, idx, fset, od, restarts, deletes,
                 startPt, skipped, dropped>>
  /\ Log([n |-> "Upd", h |-> lp, ok |-> (Len(batch) < M)])

-----------------------------------------------------------------------------
(* The header store deletes its tail header h: it calls the handler and    *)
(* removes the header only if the handler returns nil.  Environment        *)
(* assumption (DESIGN.md section 11; nodebuilder/header/config.go enforces *)
(* Syncer.PruningWindow >= StorageWindow): only headers that are not       *)
(* inside the window are deleted.  First critical section of               *)
(* pruneOnHeaderDelete, service.go:262-278.                                *)
ODBegin ==
  /\ fresh' = FALSE
  /\ UNCHANGED rfaults
  /\ dirty' = SimBias
  /\ pc = "idle" /\ od = 0
  /\ tail < head /\ deletes < MaxDeletes
  /\ ~InsideWin(tail)
  /\ deletes' = deletes + 1
  /\ justEnded' = FALSE
  /\ NoCall
  /\ UNCHANGED <<cfgVars, modeVars, head, cpLast, pVars, cycVars, restarts, startPt, skipped>>
  /\ LET h == tail IN
     /\ cpFailed' = cpFailed \ {h}
     /\ IF h <= cpLast
        THEN /\ tail' = h + 1 /\ od' = 0                    \* already covered: handler returns nil
             /\ dropped' = IF h \in cpFailed THEN dropped \cup {h} ELSE dropped
        ELSE /\ tail' = tail /\ od' = h                     \* goes on to prune h without the lock
             /\ dropped' = dropped
     /\ Log([n |-> "ODBegin", h |-> h, ok |-> (h <= cpLast)])

(* GetByHeight + Prune without the lock, then the second critical section  *)
(* (service.go:280-298).  Not persisted ("will be done in pruning routine  *)
(* or Stop").  A failing Prune makes the handler fail: the header stays.   *)
ODEnd ==
  /\ fresh' = FALSE
  /\ dirty' = SimBias
  /\ od # 0 /\ pc = "idle"
  /\ od' = 0
  /\ justEnded' = FALSE
  /\ UNCHANGED <<cfgVars, modeVars, head, cpFailed, pVars, cycVars, restarts, deletes,
                 startPt, skipped, dropped>>
  /\ \E o \in {"ok", "fail"} \cup (IF rfaults < MaxReadFaults THEN {"rfail"} ELSE {}) :
       \* "rfail": GetByHeight of the header being deleted fails: the handler fails, the header stays
       /\ IF o = "rfail" THEN NoCall ELSE Called(od, o = "ok")
       /\ rfaults' = IF o = "rfail" THEN rfaults + 1 ELSE rfaults
       /\ IF o = "ok"
          THEN /\ cpLast' = IF od <= cpLast THEN cpLast ELSE od
               /\ tail' = od + 1
          ELSE UNCHANGED <<cpLast, tail>>
       /\ Log([n |-> "ODEnd", h |-> od, ok |-> (o = "ok"), rf |-> (o = "rfail")])

(* Stop (persists the in-memory checkpoint), a new process / Service over  *)
(* the same datastore, Start (loads the checkpoint, spawns run(), whose    *)
(* first action is a cycle).  An archival node may come back as a pruned   *)
(* one (once): nodebuilder/pruner/module.go convertToPruned then calls     *)
(* ResetCheckpoint as soon as it gets the lock.                            *)
Restart ==
  /\ fresh' = FALSE
  /\ UNCHANGED rfaults
  /\ dirty' = SimBias
  /\ pc = "idle" /\ od = 0 /\ restarts < MaxRestarts
  /\ pLast' = cpLast /\ pFailed' = cpFailed                 \* Stop: storeCheckpoint
  /\ UNCHANGED cpVars                                       \* Start: loadCheckpoint = what was stored
  /\ pc' = "start"
  /\ restarts' = restarts + 1
  /\ justEnded' = FALSE
  /\ NoCall
  /\ UNCHANGED <<cfgVars, hsVars, lp, retryTodo, batch, idx, fset, od, deletes, startPt, skipped, dropped>>
  /\ \E conv \in {FALSE} \cup (IF canConvert /\ mode = "archival" THEN {TRUE} ELSE {}) :
       /\ mode' = IF conv THEN "pruned" ELSE mode
       /\ canConvert' = (canConvert /\ ~conv)
       /\ resetPending' = (resetPending \/ conv)
       /\ Log([n |-> "Restart", h |-> 0, ok |-> conv])

(* checkpoint.go:83-93: back to the tail, failed set emptied, persisted.   *)
ResetCheckpoint ==
  /\ fresh' = FALSE
  /\ UNCHANGED rfaults
  /\ dirty' = SimBias
  /\ pc = "idle" /\ resetPending /\ od = 0
  /\ cpLast' = tail /\ cpFailed' = {}
  /\ pLast' = tail /\ pFailed' = {}
  /\ resetPending' = FALSE
  /\ startPt' = tail /\ okPruned' = {} /\ skipped' = {} /\ dropped' = {}
  /\ justEnded' = FALSE
  /\ UNCHANGED <<cfgVars, mode, canConvert, hsVars, cycVars, od, restarts, deletes, store, inside>>
  /\ Log([n |-> "Reset", h |-> tail, ok |-> TRUE])

HeadAdvance ==
  /\ fresh' = FALSE
  /\ UNCHANGED rfaults
  /\ dirty' = SimBias
  /\ head < N
  /\ \/ pc = "idle"
     \/ IntraHead /\ pc = "find"
  /\ head' = head + 1
  /\ IF LazyChain
     THEN \E t \in time[head]..(IF time[head] + MaxStep < T THEN time[head] + MaxStep ELSE T) :
             time' = [time EXCEPT ![head + 1] = t]
     ELSE UNCHANGED time
  /\ justEnded' = FALSE
  /\ NoCall
  /\ UNCHANGED <<W, B, M, modeVars, tail, cpVars, pVars, cycVars, od, restarts, deletes,
                 startPt, skipped, dropped>>
  /\ Log([n |-> "Head", h |-> head + 1, ok |-> TRUE, t |-> time'[head + 1]])

EnvStep == ODBegin \/ ODEnd \/ Restart \/ ResetCheckpoint \/ HeadAdvance

(* prune(): take the lock, lastPruned().  checkpoint.go:117-136            *)
CycleBegin ==
  /\ fresh' = TRUE /\ UNCHANGED rfaults
  /\ pc \in {"idle", "start"}
  /\ SimBias => (dirty \/ pc = "start" \/ cpFailed # {} \/ ~ENABLED EnvStep)
  /\ dirty' = FALSE
  /\ IF tail < cpLast
     THEN /\ lp' = cpLast                                    \* GetByHeight(LastPrunedHeight)
          /\ UNCHANGED <<cpLast, cpFailed, skipped, dropped>>
     ELSE /\ cpLast' = tail                                  \* clamp to the tail
          /\ cpFailed' = {f \in cpFailed : f >= tail}        \* "unfailing unavailable header"
          /\ dropped' = dropped \cup {f \in cpFailed : f < tail}
          \* deviation: a tail that is ahead of the checkpoint and was never pruned is marked pruned
          /\ skipped' = IF tail > cpLast /\ tail \notin okPruned THEN skipped \cup {tail} ELSE skipped
          /\ lp' = tail
  /\ retryTodo' = cpFailed'
  /\ pc' = "retry"
  /\ justEnded' = FALSE
  /\ NoCall
  /\ UNCHANGED <<cfgVars, modeVars, hsVars, pVars, batch, idx, fset, od, restarts, deletes, startPt>>
  /\ Log([n |-> "CycleBegin", h |-> lp', ok |-> TRUE])

(* lastPruned() cannot load what it needs: hstore.Tail fails, or (tail < last) the header of      *)
(* LastPrunedHeight cannot be read.  prune() logs and returns; nothing changes.                  *)
CycleAbort ==
  /\ pc \in {"idle", "start"}
  /\ rfaults < MaxAbortFaults
  /\ SimBias => (dirty \/ pc = "start" \/ cpFailed # {})
  /\ rfaults' = rfaults + 1
  /\ pc' = "idle"
  /\ fresh' = FALSE /\ justEnded' = FALSE
  /\ NoCall
  /\ UNCHANGED <<cfgVars, modeVars, hsVars, cpVars, pVars, lp, retryTodo, batch, idx, fset, od, restarts, deletes,
                 startPt, skipped, dropped, dirty>>
  /\ \E k \in {"tail"} \cup (IF tail < cpLast THEN {"last"} ELSE {}) :
       Log([n |-> "CycleAbort", h |-> 0, ok |-> FALSE, k |-> k])

(* Stop while the retry pass of a cycle is running: Stop cancels the service context, the Prune  *)
(* call in flight fails, the header store (which honours the context) fails every further read,  *)
(* so every remaining failed height is skipped; the loop sees the cancelled context and          *)
(* returns; Stop persists the checkpoint; a new Service is started over the same datastore.      *)
(* (Taken as the first step of the retry pass: which height is in flight depends on Go's map     *)
(* order, all of them stay failed.)                                                              *)
StopMidRetry ==
  /\ pc = "retry" /\ fresh /\ retryTodo # {} /\ od = 0 /\ restarts < MaxRestarts
  /\ \A h \in retryTodo : h \in tail..head
  /\ Called(Min(retryTodo), FALSE)
  /\ retryTodo' = {}
  /\ UNCHANGED cpVars
  /\ pLast' = cpLast /\ pFailed' = cpFailed
  /\ pc' = "start"
  /\ restarts' = restarts + 1
  /\ fresh' = FALSE /\ justEnded' = FALSE /\ dirty' = SimBias
  /\ UNCHANGED <<cfgVars, modeVars, hsVars, lp, batch, idx, fset, od, deletes, rfaults, startPt, skipped, dropped>>
  /\ Log([n |-> "StopMidRetry", h |-> Min(retryTodo), ok |-> FALSE])

CycleStep == RetryStep \/ FindStep \/ PruneStep \/ UpdStep
Next == CycleBegin \/ CycleAbort \/ CycleStep \/ StopMidRetry \/ EnvStep

Spec == Init /\ [][Next]_vars

\* cycles keep being run (the ticker) and each of their steps is taken
FairSpec == Spec /\ WF_vars(CycleBegin) /\ WF_vars(CycleStep) /\ WF_vars(ODEnd) /\ WF_vars(ResetCheckpoint)

-----------------------------------------------------------------------------
TypeOK ==
  /\ head \in 1..N /\ tail \in 1..head
  /\ cpLast \in 1..N /\ cpFailed \subseteq 1..N
  /\ pLast \in 1..N /\ pFailed \subseteq 1..N
  /\ pc \in {"start", "idle", "retry", "find", "prune"}
  /\ od \in 0..N
  /\ store \in [1..N -> {"odsq4", "ods", "none"}]

\* the code relies on these (GetByHeight(LastPrunedHeight) must succeed, ...)
Sane ==
  /\ \A h \in tail..(head - 1) : time[h] <= time[h + 1]
  /\ cpLast <= head
  /\ cpFailed \subseteq tail..head
  /\ pLast <= cpLast                       \* what is on disk is never ahead of memory
  /\ (od # 0 => od = tail)

(* --- the property ------------------------------------------------------ *)

\* "never deletes data of a block whose timestamp lies within the availability window measured
\*  from the current chain head": no height was ever handed to Prune while inside the window
NeverInsideWindow == inside = {}

\* "the last-pruned checkpoint never moves backwards" (ResetCheckpoint is the designed exception)
CheckpointMonotone ==
  [][cpLast' >= cpLast \/ (resetPending /\ ~resetPending')]_vars
\* "... and survives restarts": Restart reloads exactly what Stop stored (identity in the model,
\* compared with the real datastore round-trip by the driver) and nothing on disk is ahead
PersistedMonotone ==
  [][pLast' >= pLast \/ (resetPending /\ ~resetPending')]_vars

\* "... or is recorded as failed and retried": a height leaves the failed set only because it was pruned, because
\* its header is gone (out of the pruner's reach), because a header deletion is about to prune it, or by the
\* designed reset -- never because a read of the header store failed or the node was stopped
FailedKept ==
  [][\A h \in cpFailed \ cpFailed' :
        h \in okPruned' \/ h < tail' \/ od' = h \/ (resetPending /\ ~resetPending')]_vars
\* "an archival node's pruning removes only the parity quadrant"
ArchivalKeepsODS == mode = "archival" => \A h \in 1..N : store[h] \in {"odsq4", "ods"}

Done(h) == IF mode = "archival" THEN store[h] # "odsq4" ELSE store[h] = "none"

\* "every block older than the window by more than one configured block time that lies after the
\*  pruner's starting point is pruned ... or is recorded as failed": safety form -- whenever a
\*  cycle has just ended, every such block whose header the store still has is pruned or failed.
\*  Known deviations are named (skipped) and have their own invariants below.
Owed(h) == /\ h \in tail..head /\ h > startPt /\ Old(h)
           /\ h # od                               \* an on-delete call for h is in flight
AllOldPrunedAtCycleEnd ==
  (justEnded /\ ~resetPending) =>
     \A h \in 1..N : Owed(h) => (Done(h) \/ h \in cpFailed \/ h \in skipped)

\* the same without excusing the deviation: violated by the current code (tail clamp)
AllOldPrunedStrict ==
  (justEnded /\ ~resetPending) =>
     \A h \in 1..N : Owed(h) => (Done(h) \/ h \in cpFailed)

NoTailSkip   == skipped = {}
NoFailedDrop == dropped = {}

(* --- liveness (FairSpec) ------------------------------------------------ *)
CycleTerminates == (pc \in {"retry", "find", "prune"}) ~> (pc = "idle")
AllOldPruned ==
  \A h \in 1..N :
    (Owed(h) /\ ~resetPending) ~>
       (Done(h) \/ h \in cpFailed \/ h \in skipped \/ h < tail \/ resetPending \/ h <= startPt)

(* --- behaviours for the replay driver ----------------------------------- *)
\* simulation: print the history when the trace has reached its depth
PrintBehaviour ==
  (KeepHist /\ TLCGet("level") >= Depth) => PrintT(<<"BEH", ToJson(hist)>>)

=============================================================================
