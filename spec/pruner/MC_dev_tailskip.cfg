\* Deviation "tail clamp marks an unpruned tail as pruned": AllOldPrunedStrict is expected to be
\* VIOLATED; the shortest counterexample is replayed on the real Service by the driver.
SPECIFICATION Spec
CONSTANTS
  N = 4
  T = 5
  Ws = {1}
  Bs = {1}
  Ms = {2}
  Tails = {1}
  Modes = {"pruned"}
  MaxRestarts = 0
  MaxDeletes = 2
  MaxReadFaults = 0
  MaxAbortFaults = 0
  IntraHead = FALSE
  LazyChain = FALSE
  SimBias = FALSE
  MaxStep = 3
  Fix13 = TRUE
  KeepHist = FALSE
  Depth = 0
VIEW View
INVARIANTS AllOldPrunedStrict
CHECK_DEADLOCK FALSE
