\* C14 liveness, repaired loop: every started cycle ends; every old block after the starting point is
\* eventually pruned or recorded as failed (FairSpec: cycles keep running, their steps are taken).
SPECIFICATION FairSpec
CONSTANTS
  N = 4
  T = 4
  Ws = {1}
  Bs = {1, 2}
  Ms = {2}
  Tails = {1, 2}
  Modes = {"pruned"}
  MaxRestarts = 1
  MaxDeletes = 1
  MaxReadFaults = 1
  MaxAbortFaults = 1
  IntraHead = FALSE
  LazyChain = FALSE
  SimBias = FALSE
  MaxStep = 3
  Fix13 = TRUE
  KeepHist = FALSE
  Depth = 0
VIEW View
INVARIANTS TypeOK
PROPERTIES CycleTerminates AllOldPruned
CHECK_DEADLOCK FALSE
