\* C14 fine-grained finder: exhaustive, every chain of 5 headers over 4 instants, caps 1 and 2,
\* head growth / tail-deletion requests between any two reads of a running finder
SPECIFICATION Spec
CONSTANTS
  N = 5
  T = 3
  Ws = {1, 2}
  Bs = {1, 2}
  Ms = {1, 2}
  Tails = {1, 2}
  MaxDeletes = 2
  KeepHist = FALSE
  Depth = 0
INVARIANTS TypeOK Sane NeverInsideWindow AllOldPrunedAtCycleEnd
PROPERTIES CheckpointMonotone PersistedMonotone
CHECK_DEADLOCK FALSE
