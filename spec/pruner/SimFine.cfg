\* C14 fine-grained finder: behaviours for the replay driver (simulation, history printed at depth Depth)
SPECIFICATION Spec
CONSTANTS
  N = 6
  T = 4
  Ws = {1, 2}
  Bs = {1, 2}
  Ms = {1, 2}
  Tails = {1, 2}
  MaxDeletes = 3
  KeepHist = TRUE
  Depth = 45
INVARIANTS TypeOK Sane NeverInsideWindow AllOldPrunedAtCycleEnd PrintBehaviour
PROPERTIES CheckpointMonotone
CHECK_DEADLOCK FALSE
