\* The loop of prune() as it was before the repair (Fix13 = FALSE): CycleTerminates is expected to be
\* VIOLATED (a full batch whose Prune calls all fail is found again for ever).  Run to show that the
\* model distinguishes the two versions of the loop; the real code is checked by the driver's watchdog.
SPECIFICATION FairSpec
CONSTANTS
  N = 3
  T = 3
  Ws = {1}
  Bs = {1}
  Ms = {2}
  Tails = {1}
  Modes = {"pruned"}
  MaxRestarts = 0
  MaxDeletes = 0
  MaxReadFaults = 0
  MaxAbortFaults = 0
  IntraHead = FALSE
  LazyChain = FALSE
  SimBias = FALSE
  MaxStep = 3
  Fix13 = FALSE
  KeepHist = FALSE
  Depth = 0
VIEW View
INVARIANTS TypeOK
PROPERTIES CycleTerminates
CHECK_DEADLOCK FALSE
