\* C14 quick: exhaustive, repaired loop, every chain of 4 headers over 5 instants.
\* ("convert" starts as an archival node that may or may not be converted, so it covers "archival".)
SPECIFICATION Spec
CONSTANTS
  N = 4
  T = 4
  Ws = {1, 2}
  Bs = {1, 2}
  Ms = {2}
  Tails = {1, 2}
  Modes = {"pruned", "convert"}
  MaxRestarts = 1
  MaxDeletes = 2
  IntraHead = FALSE
  LazyChain = FALSE
  SimBias = FALSE
  MaxStep = 3
  Fix13 = TRUE
  KeepHist = FALSE
  Depth = 0
VIEW View
INVARIANTS TypeOK Sane NeverInsideWindow ArchivalKeepsODS AllOldPrunedAtCycleEnd
PROPERTIES CheckpointMonotone PersistedMonotone
CHECK_DEADLOCK FALSE
