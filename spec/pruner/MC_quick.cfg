\* C14 quick: exhaustive, repaired loop, every chain of 4 headers over 4 instants, <= 1 header-store read failure.
\* ("convert" starts as an archival node that may or may not be converted, so it covers "archival".)
SPECIFICATION Spec
CONSTANTS
  N = 4
  T = 3
  Ws = {1, 2}
  Bs = {1, 2}
  Ms = {2}
  Tails = {1, 2}
  Modes = {"pruned", "convert"}
  MaxRestarts = 1
  MaxDeletes = 2
  MaxReadFaults = 1
  MaxAbortFaults = 1
  IntraHead = FALSE
  LazyChain = FALSE
  SimBias = FALSE
  MaxStep = 3
  Fix13 = TRUE
  KeepHist = FALSE
  Depth = 0
VIEW View
INVARIANTS TypeOK Sane NeverInsideWindow ArchivalKeepsODS AllOldPrunedAtCycleEnd
PROPERTIES CheckpointMonotone PersistedMonotone FailedKept
CHECK_DEADLOCK FALSE
