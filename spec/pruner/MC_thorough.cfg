\* C14 thorough: exhaustive, repaired loop, chains of 5 headers, caps 2 and 3, head growing inside a cycle
SPECIFICATION Spec
CONSTANTS
  N = 5
  T = 4
  Ws = {1, 2}
  Bs = {1, 2}
  Ms = {2, 3}
  Tails = {1, 2}
  Modes = {"pruned", "convert"}
  MaxRestarts = 1
  MaxDeletes = 2
  MaxReadFaults = 1
  MaxAbortFaults = 1
  IntraHead = TRUE
  LazyChain = FALSE
  SimBias = FALSE
  MaxStep = 3
  Fix13 = TRUE
  KeepHist = FALSE
  Depth = 0
VIEW View
INVARIANTS TypeOK Sane NeverInsideWindow ArchivalKeepsODS AllOldPrunedAtCycleEnd
PROPERTIES CheckpointMonotone PersistedMonotone FailedKept
CHECK_DEADLOCK FALSE
