----------------------------- MODULE PrunerFine -----------------------------
(***************************************************************************)
(* C14, refinement of the finder of Pruner.tla (closes DESIGN.md 12.6:     *)
(* "head growth between the two Head() reads of one findPruneableHeaders   *)
(* call, batch cap 1").                                                    *)
(*                                                                         *)
(* Pruner.tla takes findPruneableHeaders() as ONE step (FindStep) over a   *)
(* frozen header store.  Here every read the finder makes of the header    *)
(* store is its own action, and the store moves between any two of them:   *)
(*                                                                         *)
(*   find.go:24   head, _ := hstore.Head()         -> cutoff     R1        *)
(*   find.go:107  head, _ := hstore.Head()         -> estimate   R2        *)
(*   find.go:50   hstore.GetRangeByHeight(lp, e+1)               R3        *)
(*   find.go:65-  one loop iteration: trim | stop | GetByHeight  Ext       *)
(*   find.go:88-  cut at the first header newer than the cutoff  (in Ext)  *)
(*   service.go   Prune per header / updateCheckpoint / loop     PruneStep *)
(*                                                                / Upd    *)
(*   environment  the header store appends a header              HeadGrow  *)
(*   environment  the header store starts deleting its tail:     DelReq    *)
(*                OnDelete -> pruneOnHeaderDelete, which needs             *)
(*                checkpointMu -- held by prune() for the whole            *)
(*                cycle -- so the deletion *takes effect* only             *)
(*                after the cycle                                DelApply  *)
(*                                                                         *)
(* So: the head really moves under a running finder; the tail cannot (the  *)
(* handler is called before the header is removed and blocks on the lock); *)
(* the model says so and the driver checks both on the real Service.       *)
(*                                                                         *)
(* Left to Pruner.tla (not repeated here): Prune failures / retryFailed,   *)
(* restarts, read failures, the conversion.  Every Prune call succeeds.    *)
(*                                                                         *)
(* `reads` counts the finder's reads of the current cycle; an environment  *)
(* step logged with r = k happens after read k and before read k+1 of the  *)
(* cycle: the driver's scripted store applies it when read k+1 arrives.    *)
(***************************************************************************)
EXTENDS Integers, Sequences, FiniteSets, TLC, Json

CONSTANTS N, T, Ws, Bs, Ms, Tails, MaxDeletes, KeepHist, Depth

VARIABLES
  time, W, B, M,        \* chain and configuration, fixed per behaviour
  head, tail,           \* header store
  cpLast, pLast,        \* checkpoint in memory / persisted
  pc,                   \* "idle" | "r1" | "r2" | "r3" | "ext" | "prune"
  lp,                   \* cursor of prune()
  cut,                  \* pruneCutoff of the current finder call (head time at R1 - W)
  est,                  \* estimatedCutoffHeight (after R2)
  hs,                   \* headers the finder has collected
  batch, idx,           \* what the finder returned, next index
  reads,                \* finder reads made in this cycle
  delReq,               \* a tail deletion is waiting for checkpointMu
  deletes,
  inside, okPruned, startPt, skipped,   \* ghosts, as in Pruner.tla
  justEnded,
  hist

vars == <<time, W, B, M, head, tail, cpLast, pLast, pc, lp, cut, est, hs, batch, idx, reads, delReq, deletes,
          inside, okPruned, startPt, skipped, justEnded, hist>>

Min(S) == CHOOSE x \in S : \A y \in S : x <= y
NonDecreasing(f) == \A i \in 1..(N-1) : f[i] <= f[i+1]

\* the window measured from the CURRENT head (the property's words)
CutoffNow    == time[head] - W
InsideWin(h) == time[h] > CutoffNow

Log(a) == hist' = IF KeepHist
                  THEN Append(hist, a @@ [last |-> cpLast', plast |-> pLast', tail |-> tail', head |-> head',
                                          r |-> reads', pc |-> pc'])
                  ELSE hist

Called(h) == /\ inside' = IF InsideWin(h) THEN inside \cup {h} ELSE inside
             /\ okPruned' = okPruned \cup {h}
NoCall == UNCHANGED <<inside, okPruned>>

Init ==
  /\ tail \in Tails /\ head \in tail..N
  /\ time \in {f \in [1..N -> 0..T] : NonDecreasing(f)}
  /\ W \in Ws /\ B \in Bs /\ M \in Ms
  \* cap 1 and a cursor on genesis: <<genesis>> alone is a full batch for ever (Pruner.tla's ASSUME);
  \* maxHeadersPerLoop is a package constant (512), not a configuration -- excluded, not alarmed
  /\ (M = 1 => tail >= 2)
  /\ cpLast = tail /\ pLast = tail
  /\ pc = "idle" /\ lp = 0 /\ cut = 0 /\ est = 0 /\ hs = <<>> /\ batch = <<>> /\ idx = 0 /\ reads = 0
  /\ delReq = FALSE /\ deletes = 0
  /\ inside = {} /\ okPruned = {} /\ startPt = tail /\ skipped = {}
  /\ justEnded = FALSE
  /\ hist = IF KeepHist
            THEN <<[n |-> "Init", time |-> time, W |-> W, B |-> B, M |-> M, tail |-> tail, head |-> head]>>
            ELSE <<>>

cfg == <<time, W, B, M>>

(* prune(): lock, lastPruned() with the tail clamp (as CycleBegin of Pruner.tla) *)
CycleBegin ==
  /\ pc = "idle" /\ ~delReq
  /\ IF tail < cpLast
     THEN lp' = cpLast /\ UNCHANGED <<cpLast, skipped>>
     ELSE /\ cpLast' = tail /\ lp' = tail
          /\ skipped' = IF tail > cpLast /\ tail \notin okPruned THEN skipped \cup {tail} ELSE skipped
  /\ pc' = "r1" /\ reads' = 0 /\ justEnded' = FALSE
  /\ NoCall
  /\ UNCHANGED <<cfg, head, tail, pLast, cut, est, hs, batch, idx, delReq, deletes, startPt>>
  /\ Log([n |-> "CycleBegin", h |-> lp'])

\* the cycle ends: prune() returns and releases the lock
End(why) ==
  /\ pc' = "idle" /\ justEnded' = TRUE
  /\ Log([n |-> "End", h |-> lp', why |-> why])

(* find.go:24-34: first Head() read, cutoff, "all blocks still within the window" *)
R1 ==
  /\ pc = "r1"
  /\ reads' = reads + 1
  /\ cut' = time[head] - W
  /\ NoCall
  /\ UNCHANGED <<cfg, head, tail, cpLast, pLast, lp, est, hs, batch, idx, delReq, deletes, startPt, skipped>>
  /\ IF ~(time[lp] < cut')
     THEN End("young")
     ELSE /\ pc' = "r2" /\ justEnded' = FALSE /\ Log([n |-> "R1", h |-> head])

(* calculateEstimatedCutoff: second Head() read -- the head may be higher than at R1 *)
R2 ==
  /\ pc = "r2"
  /\ reads' = reads + 1
  /\ NoCall
  /\ UNCHANGED <<cfg, head, tail, cpLast, pLast, lp, cut, hs, batch, idx, delReq, deletes, startPt, skipped>>
  /\ LET er == (cut - time[lp]) \div B
         e0 == lp + er
         e1 == IF head < e0 THEN head ELSE e0
         e  == IF e1 - lp > M THEN lp + M ELSE e1
     IN /\ est' = e
        /\ IF lp >= e
           THEN End("nothing")
           ELSE /\ pc' = "r3" /\ justEnded' = FALSE /\ Log([n |-> "R2", h |-> e])

(* GetRangeByHeight(lastPruned, est+1) = heights lp+1..est, all of which exist: est <= head at R2, the  *)
(* head only grows, and the tail does not move while the cycle holds the lock                           *)
R3 ==
  /\ pc = "r3"
  /\ reads' = reads + 1
  /\ NoCall
  /\ UNCHANGED <<cfg, head, tail, cpLast, pLast, lp, cut, est, batch, idx, delReq, deletes, startPt, skipped>>
  /\ LET rng == [i \in 1..(est - lp) |-> lp + i]
     IN hs' = IF lp = 1 THEN <<1>> \o rng ELSE rng
  /\ pc' = "ext" /\ justEnded' = FALSE
  /\ Log([n |-> "R3", h |-> est])

CutAt(x) ==
  LET newer == {i \in 1..Len(x) : time[x[i]] > cut} IN
  IF newer = {} THEN x ELSE SubSeq(x, 1, Min(newer) - 1)

\* the loop is left with x: cut, return
Finish(x) ==
  /\ UNCHANGED <<reads, hs>>
  /\ LET b == CutAt(x) IN
     IF b = <<>>
     THEN /\ UNCHANGED <<batch, idx>> /\ End("cut-empty")
     ELSE /\ batch' = b /\ idx' = 1 /\ pc' = "prune" /\ justEnded' = FALSE
          /\ Log([n |-> "Batch", h |-> b[1], hs |-> b])

(* one iteration of the extension loop: at most one read (GetByHeight(last+1)) *)
Ext ==
  /\ pc = "ext"
  /\ NoCall
  /\ UNCHANGED <<cfg, head, tail, cpLast, pLast, lp, cut, est, delReq, deletes, startPt, skipped>>
  /\ IF Len(hs) > M THEN Finish(SubSeq(hs, 1, M))
     ELSE LET l == hs[Len(hs)] IN
          IF time[l] > cut THEN Finish(hs)
          ELSE /\ reads' = reads + 1
               /\ UNCHANGED <<batch, idx>>
               /\ IF l + 1 > head
                  THEN /\ UNCHANGED hs /\ End("ext-error")    \* GetByHeight fails: (nil, err), prune() returns
                  ELSE /\ hs' = Append(hs, l + 1)
                       /\ pc' = "ext" /\ justEnded' = FALSE
                       /\ Log([n |-> "Ext", h |-> l + 1])

PruneStep ==
  /\ pc = "prune" /\ idx <= Len(batch)
  /\ Called(batch[idx])
  /\ lp' = batch[idx] /\ idx' = idx + 1
  /\ justEnded' = FALSE
  /\ UNCHANGED <<cfg, head, tail, cpLast, pLast, pc, cut, est, hs, batch, reads, delReq, deletes, startPt, skipped>>
  /\ Log([n |-> "Prune", h |-> batch[idx]])

Upd ==
  /\ pc = "prune" /\ idx > Len(batch)
  /\ cpLast' = lp /\ pLast' = lp
  /\ NoCall
  /\ UNCHANGED <<cfg, head, tail, lp, cut, est, hs, batch, idx, reads, delReq, deletes, startPt, skipped>>
  /\ IF Len(batch) < M
     THEN End("short-batch")
     ELSE /\ pc' = "r1" /\ justEnded' = FALSE /\ Log([n |-> "Upd", h |-> lp])

InFinder == pc \in {"r1", "r2", "r3", "ext"}

(* the header store appends a header: between cycles, and between any two reads of a running finder *)
HeadGrow ==
  /\ head < N /\ (pc = "idle" \/ InFinder)
  /\ head' = head + 1
  /\ justEnded' = FALSE
  /\ NoCall
  /\ UNCHANGED <<cfg, tail, cpLast, pLast, pc, lp, cut, est, hs, batch, idx, reads, delReq, deletes, startPt, skipped>>
  /\ Log([n |-> "Head", h |-> head + 1])

(* the header store starts deleting its tail (only headers outside the window: DESIGN.md section 11).    *)
(* It calls pruneOnHeaderDelete first; under a running cycle that call waits for checkpointMu.           *)
DelReq ==
  /\ (pc = "idle" \/ InFinder) /\ ~delReq
  /\ tail < head /\ deletes < MaxDeletes /\ ~InsideWin(tail)
  /\ delReq' = TRUE /\ deletes' = deletes + 1
  /\ justEnded' = FALSE
  /\ NoCall
  /\ UNCHANGED <<cfg, head, tail, cpLast, pLast, pc, lp, cut, est, hs, batch, idx, reads, startPt, skipped>>
  /\ Log([n |-> "DelReq", h |-> tail])

(* ... and goes through once the lock is free: both critical sections and the Prune in between *)
DelApply ==
  /\ pc = "idle" /\ delReq
  /\ delReq' = FALSE
  /\ justEnded' = FALSE
  /\ tail' = tail + 1
  /\ IF tail <= cpLast
     THEN NoCall /\ UNCHANGED cpLast
     ELSE Called(tail) /\ cpLast' = tail
  /\ UNCHANGED <<cfg, head, pLast, pc, lp, cut, est, hs, batch, idx, reads, deletes, startPt, skipped>>
  /\ Log([n |-> "DelApply", h |-> tail, call |-> (tail > cpLast)])

CycleStep == R1 \/ R2 \/ R3 \/ Ext \/ PruneStep \/ Upd
Next == CycleBegin \/ CycleStep \/ HeadGrow \/ DelReq \/ DelApply
Spec == Init /\ [][Next]_vars
FairSpec == Spec /\ WF_vars(CycleBegin) /\ WF_vars(CycleStep) /\ WF_vars(DelApply)

-----------------------------------------------------------------------------
TypeOK == /\ head \in 1..N /\ tail \in 1..head /\ cpLast \in 1..N /\ pLast \in 1..N
          /\ pc \in {"idle", "r1", "r2", "r3", "ext", "prune"}
Sane == /\ cpLast <= head /\ pLast <= cpLast
        /\ (pc # "idle" => tail <= lp /\ lp <= head)

\* never a Prune call for a header inside the window measured from the head at the time of the call
NeverInsideWindow == inside = {}
CheckpointMonotone == [][cpLast' >= cpLast]_vars
PersistedMonotone  == [][pLast' >= pLast]_vars

\* everything older than the window (by more than one block time) is pruned when a cycle ends -- measured from
\* the head the cycle's last finder call saw (cut).  Measured from the *current* head the statement is false for
\* a head that grew under the finder (those blocks are owed to the next cycle: AllOldPruned below).
AllOldPrunedAtCycleEnd ==
  justEnded => \A h \in tail..head : (h > startPt /\ time[h] < cut - B) => (h \in okPruned \/ h \in skipped)

\* liveness: whatever is old measured from the current head is pruned (or out of reach) eventually
AllOldPruned ==
  \A h \in 1..N :
    (h \in tail..head /\ h > startPt /\ time[h] < CutoffNow - B) ~> (h \in okPruned \/ h \in skipped \/ h < tail)
CycleTerminates == (pc # "idle") ~> (pc = "idle")

\* vacuity witnesses (expected to be violated when listed as invariants): the head grows between R1 and R2
PrintBehaviour ==
  (KeepHist /\ TLCGet("level") >= Depth) => PrintT(<<"BEH", ToJson(hist)>>)
=============================================================================
