\* C14 fine-grained finder: liveness under fair cycles (everything old is eventually pruned although the head
\* moves under the finder; every cycle terminates)
SPECIFICATION FairSpec
CONSTANTS
  N = 4
  T = 3
  Ws = {1}
  Bs = {1, 2}
  Ms = {1, 2}
  Tails = {1, 2}
  MaxDeletes = 1
  KeepHist = FALSE
  Depth = 0
INVARIANTS TypeOK
PROPERTIES AllOldPruned CycleTerminates
CHECK_DEADLOCK FALSE
