\* C14: behaviours for the replay driver (simulation; history kept and printed at depth Depth)
SPECIFICATION Spec
CONSTANTS
  N = 6
  T = 15
  Ws = {1, 2, 3}
  Bs = {1, 2, 3}
  Ms = {2, 3}
  Tails = {1, 2}
  Modes = {"pruned", "archival", "convert"}
  MaxRestarts = 2
  MaxDeletes = 3
  MaxReadFaults = 3
  MaxAbortFaults = 1
  IntraHead = TRUE
  LazyChain = TRUE
  SimBias = TRUE
  MaxStep = 3
  Fix13 = TRUE
  KeepHist = TRUE
  Depth = 70
INVARIANTS TypeOK Sane NeverInsideWindow ArchivalKeepsODS AllOldPrunedAtCycleEnd PrintBehaviour
PROPERTIES CheckpointMonotone FailedKept
CHECK_DEADLOCK FALSE
