SPECIFICATION Spec
CONSTANTS
  K = 1
  AvailChoices <- MCAvailAll
  CorruptChoices <- MCCorrupt1
  Gran = "cell"
  AllowCancel = FALSE
PROPERTIES EventuallyOk CancelTerminates ByzEventually
CHECK_DEADLOCK FALSE
