---------------------------- MODULE MCRetriever ----------------------------
(* Model-checking instance of Retriever: constant families + the CASE printer used by the binding. *)
EXTENDS Retriever, Json

\* K = 1: every availability pattern of the 2x2 square
MCAvailAll == SUBSET Cells

\* K = 2: everything minus a withheld rectangle R x C (3x3 is the smallest stopping set of the 4x4 code),
\* optionally with one more cell withheld / one cell of the rectangle served
MCSubs == {{}, {0, 1}, {1, 2, 3}, {0, 1, 2, 3}}
MCRects == {Cells \ (R \X C) : R \in MCSubs, C \in MCSubs}
MCAvailRect == MCRects
MCAvailRectPlus == MCRects \cup {A \ {<<2, 2>>} : A \in MCRects} \cup {A \cup {<<1, 1>>} : A \in MCRects}
                    \cup {A \cup {<<3, 2>>} : A \in MCRects}

MCCorruptNone == {NoCell}
MCCorrupt1 == {NoCell, <<0, 0>>, <<1, 1>>}
MCCorrupt2 == {NoCell, <<1, 2>>}
MCCorruptAll == Cells \cup {NoCell}

\* terminal summaries of the session: the binding checks that what the real Retrieve did is one of these
PrintCase ==
    (outcome # "none" /\ inflight = {} /\ ~sig) =>
        PrintT(<<"CASE", ToJson([k |-> K, avail |-> Enc(avail),
                                 corrupt |-> IF corrupt = NoCell THEN 999 ELSE corrupt[1] * W + corrupt[2],
                                 outcome |-> outcome, nq |-> Cardinality(requested),
                                 axis |-> byzLine[1], idx |-> byzLine[2],
                                 rec |-> Recoverable])>>)
=============================================================================
