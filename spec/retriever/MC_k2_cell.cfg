SPECIFICATION Spec
CONSTANTS
  K = 2
  AvailChoices <- MCAvailRect
  CorruptChoices <- MCCorrupt2
  Gran = "cell"
  AllowCancel = TRUE
INVARIANTS TypeOK OkIsFullAndCommitted ByzOnlyForBadLine NoByzOnGoodSquare SquareFromRequested 
PROPERTIES NoRequestAfterFinish OkSquareStable OutcomeFinal
CHECK_DEADLOCK FALSE
