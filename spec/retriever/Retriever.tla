----------------------------- MODULE Retriever -----------------------------
(***************************************************************************)
(* One retrieval session of share/eds.Retriever.Retrieve over an extended  *)
(* data square of ODS width K (EDS width W = 2K).                          *)
(*                                                                         *)
(* Code modelled (celestia-node /repo):                                    *)
(*   share/eds/retriever.go           Retrieve, newSession, request,       *)
(*                                    doRequest (per-share callback),      *)
(*                                    Reconstruct, isReconstructed, close  *)
(*   share/eds/retriever_quadrant.go  newQuadrants (8 quadrants = 4 per    *)
(*                                    source Row/Col, random order), pos   *)
(*   share/eds/byzantine/*.go         NewErrByzantine / GetShareWithProof  *)
(*   rsmt2d v0.15 Repair              preRepairSanityCheck + solveCrossword*)
(*                                                                         *)
(* Ideal Reed-Solomon: a row/column is solvable iff >= K of its 2K cells   *)
(* are known; Repair iterates to the fixpoint.  Ideal hashing: shares      *)
(* fetched through the NMT/IPLD tree below a committed root ARE the        *)
(* committed shares (content addressing), so the only adversarial freedom  *)
(* is (a) withholding leaves (Avail) and (b) committing, in the DAH, to a  *)
(* square that is not a codeword: Corrupt = one cell <<r,c>> changed after *)
(* extension and roots recomputed => exactly row r and column c are not    *)
(* codewords (this is what edstest.RandByzantineEDS does with cell 0,0).   *)
(*                                                                         *)
(* The retriever is currently a dangling component (no production caller   *)
(* of eds.NewRetriever in /repo; share/availability/full does not use it). *)
(***************************************************************************)
EXTENDS Naturals, FiniteSets, TLC

CONSTANTS K,            \* ODS width (1 or 2)
          AvailChoices, \* set of sets of cells: which leaves the network serves
          CorruptChoices, \* subset of Cells \cup {NoCell}
          Gran,         \* "cell": one action per arriving share; "quadrant": all in-flight shares at once
          AllowCancel   \* whether the caller's context may be cancelled

W == 2 * K
Idx == 0 .. (W - 1)
Cells == Idx \X Idx                 \* <<row, col>>
NoCell == <<99, 99>>
Quadrants == 0 .. 7                 \* 0..3 source Row, 4..7 source Col; i = q % 4, x = i % 2, y = i \div 2

Half(h) == (K * h) .. (K * (h + 1) - 1)
\* quadrant.pos: Row source -> (root, cell) = (row, col); Col source -> (cell, root) = (row, col)
QCells(q) == LET i == q % 4  x == i % 2  y == i \div 2 IN
             IF q < 4 THEN Half(y) \X Half(x)      \* rows from roots [Ky..), cols from half x
                      ELSE Half(x) \X Half(y)      \* cols from roots [Ky..), rows from half x

RowOf(r) == {<<r, c>> : c \in Idx}
ColOf(c) == {<<r, c>> : r \in Idx}

VARIABLES avail,      \* cells whose leaf block can be fetched (fixed per behaviour)
          corrupt,    \* NoCell, or the cell that makes row/col of the committed square non-codewords
          requested,  \* quadrants handed to doRequest so far
          inflight,   \* requested cells whose share is on its way to the put-callback
          locked,     \* cells whose squareCellsLks[x][y].TryLock succeeded (never unlocked)
          square,     \* cells set in rs.square (fetched or rebuilt by Repair)
          count,      \* squareCellsCount
          sig,        \* squareSig (buffered channel of size 1) holds a token
          ctx,        \* caller's context: "live" / "cancelled"
          outcome,    \* "none" | "ok" | "byz" | "prooffail" | "cancelled"   (what Retrieve returned)
          byzLine     \* <<axis, idx>> reported in ErrByzantine ("row"/"col"), or <<"-", 0>>

vars == <<avail, corrupt, requested, inflight, locked, square, count, sig, ctx, outcome, byzLine>>

BadLines == IF corrupt = NoCell THEN {} ELSE {<<"row", corrupt[1]>>, <<"col", corrupt[2]>>}
LineCells(l) == IF l[1] = "row" THEN RowOf(l[2]) ELSE ColOf(l[2])
GoodLines == ({"row", "col"} \X Idx) \ BadLines

\* one sweep of solveCrossword over the lines that are codewords
Sweep(S) == S \cup UNION {LineCells(l) : l \in {g \in GoodLines : Cardinality(LineCells(g) \cap S) >= K}}
RECURSIVE Closure(_)
Closure(S) == LET T == Sweep(S) IN IF T = S THEN S ELSE Closure(T)

\* lines of the committed square that Repair will find inconsistent, given the known cells S:
\* a non-codeword line with >= K known cells is either complete (preRepairSanityCheck: verifyEncoding
\* fails / orthogonal completion check fails) or gets rebuilt (root mismatch) in the sweep.
Detected(S) == {l \in BadLines : Cardinality(LineCells(l) \cap Closure(S)) >= K}

Recoverable == corrupt = NoCell /\ Closure(avail) = Cells

Init == /\ avail \in AvailChoices
        /\ corrupt \in CorruptChoices
        /\ requested = {} /\ inflight = {} /\ locked = {} /\ square = {}
        /\ count = 0 /\ sig = FALSE /\ ctx = "live" /\ outcome = "none" /\ byzLine = <<"-", 0>>

(* request(): doRequest(q) for the next quadrant of the shuffled list; the first at once, each next one
   after RetrieveQuadrantTimeout.  The goroutine leaves on ctx.Done (Retrieve's deferred cancel fires
   when it returns).  Environment assumption: the timeout is much longer than a fetch, so the fetches of
   the previous quadrant have ended (delivered or failed: withheld leaves fail silently). *)
RequestNext(q) ==
    /\ outcome = "none" /\ ctx = "live"
    /\ q \notin requested /\ inflight = {}
    /\ requested' = requested \cup {q}
    /\ inflight' = QCells(q) \cap avail
    /\ UNCHANGED <<avail, corrupt, locked, square, count, sig, ctx, outcome, byzLine>>

(* the put-callback of ipld.GetShares for one share *)
Put(c, sq, lk, cnt, sg) ==
    IF c \in lk THEN <<sq, lk, cnt, sg>>                               \* TryLock fails: written before
    ELSE IF outcome = "ok" \/ c \in sq THEN <<sq, lk \cup {c}, cnt, sg>> \* isReconstructed / SetCell error
    ELSE <<sq \cup {c}, lk \cup {c}, cnt + 1, sg \/ (cnt + 1 >= K * K)>>

ArriveCell(c) ==
    /\ Gran = "cell" /\ c \in inflight
    /\ inflight' = inflight \ {c}
    /\ LET p == Put(c, square, locked, count, sig) IN
         /\ square' = p[1] /\ locked' = p[2] /\ count' = p[3] /\ sig' = p[4]
    /\ UNCHANGED <<avail, corrupt, requested, ctx, outcome, byzLine>>

ArriveAll ==
    /\ Gran = "quadrant" /\ inflight # {}
    /\ inflight' = {}
    /\ LET new == IF outcome = "ok" THEN {} ELSE (inflight \ locked) \ square
           cnt == count + Cardinality(new) IN
         /\ square' = square \cup new /\ locked' = locked \cup inflight
         /\ count' = cnt /\ sig' = (sig \/ (new # {} /\ cnt >= K * K))
    /\ UNCHANGED <<avail, corrupt, requested, ctx, outcome, byzLine>>

(* Retrieve's loop: <-ses.Done() ; ses.Reconstruct ; classify the error *)
Reconstruct ==
    /\ outcome = "none" /\ sig
    /\ sig' = FALSE
    /\ LET G == Closure(square)  D == Detected(square) IN
         IF D # {}
         THEN /\ \E l \in D : byzLine' = l
              /\ outcome' \in {"byz"} \cup (IF avail # Cells THEN {"prooffail"} ELSE {})
              /\ square' = square                 \* (partially repaired; irrelevant afterwards)
         ELSE IF G = Cells
         THEN /\ outcome' = "ok" /\ square' = Cells /\ byzLine' = byzLine
         ELSE /\ outcome' = "none" /\ square' = G /\ byzLine' = byzLine   \* ErrUnrepairableDataSquare: wait for more
    /\ UNCHANGED <<avail, corrupt, requested, inflight, locked, count, ctx>>

Cancel == /\ AllowCancel /\ ctx = "live" /\ outcome = "none"
          /\ ctx' = "cancelled"
          /\ UNCHANGED <<avail, corrupt, requested, inflight, locked, square, count, sig, outcome, byzLine>>

ObserveCancel == /\ ctx = "cancelled" /\ outcome = "none"
                 /\ outcome' = "cancelled"
                 /\ UNCHANGED <<avail, corrupt, requested, inflight, locked, square, count, sig, ctx, byzLine>>

Next == \/ \E q \in Quadrants : RequestNext(q)
        \/ \E c \in Cells : ArriveCell(c)
        \/ ArriveAll
        \/ Reconstruct
        \/ Cancel
        \/ ObserveCancel

Fairness == /\ WF_vars(\E q \in Quadrants : RequestNext(q))
            /\ WF_vars(\E c \in Cells : ArriveCell(c))
            /\ WF_vars(ArriveAll)
            /\ WF_vars(Reconstruct)
            /\ WF_vars(ObserveCancel)

Spec == Init /\ [][Next]_vars /\ Fairness

---------------------------------------------------------------------------
TypeOK == /\ avail \subseteq Cells /\ requested \subseteq Quadrants
          /\ inflight \subseteq avail /\ locked \subseteq avail /\ square \subseteq Cells
          /\ count \in 0 .. (W * W) /\ sig \in BOOLEAN
          /\ outcome \in {"none", "ok", "byz", "prooffail", "cancelled"}

\* (1)+(4) success returns the complete square, and only when the committed square is a codeword square
\*         (rebuilt rows/cols are verified against the DAH roots, so complete + verified = the committed square)
OkIsFullAndCommitted == outcome = "ok" => (square = Cells /\ corrupt = NoCell)
\* (2) ErrByzantine names a line that really is not a codeword
ByzOnlyForBadLine == outcome \in {"byz", "prooffail"} => byzLine \in BadLines
NoByzOnGoodSquare == corrupt = NoCell => outcome \notin {"byz", "prooffail"}
\* fetched cells are only ever cells that were requested and served
SquareFromRequested == outcome = "none" => square \subseteq Closure(UNION {QCells(q) : q \in requested} \cap avail)
\* (5) no quadrant is requested after Retrieve returned; the returned square never changes afterwards
NoRequestAfterFinish == [][outcome # "none" => requested' = requested]_vars
OkSquareStable == [][outcome = "ok" => square' = square]_vars
OutcomeFinal == [][outcome # "none" => outcome' = outcome]_vars
\* (3) recoverable and not cancelled => the full square is returned; (4) cancel => terminates
EventuallyOk == (Recoverable /\ ~AllowCancel) => <>(outcome = "ok")
CancelTerminates == [](ctx = "cancelled" => <>(outcome # "none"))
ByzEventually == (corrupt # NoCell /\ avail = Cells /\ ~AllowCancel) => <>(outcome = "byz")

\* lower bound used by the binding: with fewer quadrants than this the code cannot have succeeded
Enc(S) == {c[1] * W + c[2] : c \in S}
=============================================================================
