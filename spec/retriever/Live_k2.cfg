SPECIFICATION Spec
CONSTANTS
  K = 2
  AvailChoices <- MCAvailRect
  CorruptChoices <- MCCorrupt2
  Gran = "quadrant"
  AllowCancel = FALSE
PROPERTIES EventuallyOk CancelTerminates ByzEventually
CHECK_DEADLOCK FALSE
