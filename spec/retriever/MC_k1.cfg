SPECIFICATION Spec
CONSTANTS
  K = 1
  AvailChoices <- MCAvailAll
  CorruptChoices <- MCCorrupt1
  Gran = "quadrant"
  AllowCancel = TRUE
INVARIANTS TypeOK OkIsFullAndCommitted ByzOnlyForBadLine NoByzOnGoodSquare SquareFromRequested PrintCase
PROPERTIES NoRequestAfterFinish OkSquareStable OutcomeFinal
CHECK_DEADLOCK FALSE
