SPECIFICATION Spec
CONSTANTS
  K = 1
  AvailChoices <- MCAvailAll
  CorruptChoices <- MCCorrupt1
  Gran = "cell"
  AllowCancel = TRUE
PROPERTIES EventuallyOk CancelTerminates ByzEventually
CHECK_DEADLOCK FALSE
