SPECIFICATION Spec
CONSTANTS
  K = 2
  AvailChoices <- MCAvailRectPlus
  CorruptChoices <- MCCorruptAll
  Gran = "quadrant"
  AllowCancel = TRUE
INVARIANTS TypeOK OkIsFullAndCommitted ByzOnlyForBadLine NoByzOnGoodSquare SquareFromRequested PrintCase
PROPERTIES NoRequestAfterFinish OkSquareStable OutcomeFinal
CHECK_DEADLOCK FALSE
