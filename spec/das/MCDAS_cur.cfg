\* The code as it is on the current tree: exhaustive check of all C04/C13 invariants.
CONSTANTS
  MaxHeight = 4
  Range = 2
  Conc = 1
  TailH = 1
  FailBudget = 1
  CancelBudget = 1
  StopBudget = 1
  BgStore = TRUE
  FixSilentExit = FALSE
  FixResumeDone = FALSE
  FixRecentCp = FALSE
  MaxSteps = 1000
  SimDepth = 1000
INIT MCInit
NEXT MCNext
VIEW View
INVARIANTS TypeOK NoLostHeight SampledHeadSound CheckpointCovers ConcBound DoneExact EveryJobReports
PROPERTIES BackoffMonotone
CHECK_DEADLOCK FALSE
