------------------------------- MODULE MCDAS -------------------------------
(***************************************************************************)
(* Model-checking wrapper of DAS: adds a history variable `hist` with the  *)
(* sequence of *stimuli* (what the environment / the harness does: start,  *)
(* announce a head, let a worker sample one height with a given outcome,   *)
(* let a finished worker deliver, request statistics, let a back-off       *)
(* elapse, background-store tick/persist, stop, crash).  Steps the code    *)
(* takes on its own (job loop, reacting to a cancelled context) leave hist *)
(* unchanged.  hist is hidden from the state identity by VIEW, so it costs *)
(* no states; the hist of a counterexample / of a simulated behaviour is   *)
(* the script that the Go driver replays on the real DASer.                *)
(***************************************************************************)
EXTENDS DAS, Json

CONSTANTS MaxSteps, SimDepth
VARIABLE hist

mcvars == <<vars, hist>>
View == vars

Rec(op, a, b) == [op |-> op, a |-> a, b |-> b]
Log(r) == hist' = Append(hist, r)

MCInit == Init /\ hist = <<[op |-> "init", a |-> storeHead, b |-> 0]>>

MCNext ==
  /\ Len(hist) < MaxSteps
  /\ \/ Start /\ Log(Rec("start", 0, 0))
     \/ (\E h \in Heights : SpawnRetry(h)) /\ UNCHANGED hist
     \/ SpawnCatchup /\ UNCHANGED hist
     \/ SpawnEnd /\ UNCHANGED hist
     \/ \E h \in Heights : NewHead(h) /\ Log(Rec("head", h, 0))
     \/ \E id \in DOMAIN jobs : Deliver(id) /\ Log(Rec("deliver", id, 0))
     \/ Poke /\ Log(Rec("poke", 0, 0))
     \/ BgSnapshot /\ Log(Rec("bgsnap", 0, 0))
     \/ BgPersist /\ Log(Rec("bgpersist", 0, 0))
     \/ StopBegin /\ Log(Rec("stop", 0, 0))
     \/ StopCancel /\ UNCHANGED hist
     \/ CoordCtxDone /\ UNCHANGED hist
     \/ (\E id \in DOMAIN jobs : WorkerCtxDone(id)) /\ UNCHANGED hist
     \/ StopFinal /\ UNCHANGED hist
     \/ Crash /\ Log(Rec("crash", 0, 0))
     \/ \E h \in Heights : StoreAdvance(h) /\ Log(Rec("storeadvance", h, 0))
     \/ \E id \in DOMAIN jobs, o \in {"ok", "outside", "fail", "cancel"} :
          WorkerStep(id, o) /\ Log(Rec("step", id, o))
     \/ \E h \in Heights : BackoffExpire(h) /\ Log(Rec("expire", h, 0))

MCSpec == MCInit /\ [][MCNext]_mcvars

(* simulation mode: print the script of each behaviour once it reaches SimDepth states *)
EmitBehaviour == TLCGet("level") < SimDepth \/ PrintT(<<"BEH", ToJson(hist)>>)
=============================================================================
