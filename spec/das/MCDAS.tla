------------------------------- MODULE MCDAS -------------------------------
(***************************************************************************)
(* Model-checking wrapper of DAS: adds a history variable `hist` with the  *)
(* sequence of *stimuli* (what the environment / the harness does: start,  *)
(* announce a head, let a worker sample one height with a given outcome,   *)
(* let a finished worker deliver, request statistics, let a back-off       *)
(* elapse, background-store tick/persist, stop, crash).  Steps the code    *)
(* takes on its own (job loop, reacting to a cancelled context) leave hist *)
(* unchanged.  hist is hidden from the state identity by VIEW, so it costs *)
(* no states; the hist of a counterexample / of a simulated behaviour is   *)
(* the script that the Go driver replays on the real DASer.                *)
(***************************************************************************)
EXTENDS DAS, Json

CONSTANTS MaxSteps, SimDepth,
          AllowTailAdvance,   \* BOOLEAN: the header store may prune while the DASer is down

          SpawnFirst   \* TRUE (simulation configs): the environment waits while the coordinator is
                       \* in its job loop -- scripts the driver can follow step by step; FALSE
                       \* (exhaustive configs): every interleaving
VARIABLE hist

mcvars == <<vars, hist>>
View == vars

Rec(op, a, b) == [op |-> op, a |-> a, b |-> b]
Log(r) == hist' = Append(hist, r)

MCInit == Init /\ hist = <<[op |-> "init", a |-> storeHead, b |-> 0]>>

Bounded == Len(hist) < MaxSteps
Quiet == SpawnFirst => ~(CoordAlive /\ cpc = "spawn")

\* one named action per disjunct, so that TLC's coverage statistics are per action
MCStart == Bounded /\ Start /\ Log(Rec("start", 0, 0))
MCSpawnRetry == Bounded /\ (\E h \in Heights : SpawnRetry(h)) /\ UNCHANGED hist
MCSpawnCatchup == Bounded /\ SpawnCatchup /\ UNCHANGED hist
MCSpawnEnd == Bounded /\ SpawnEnd /\ UNCHANGED hist
MCNewHead == Bounded /\ \E h \in Heights : NewHead(h) /\ Log(Rec("head", h, 0))
MCDeliver == Bounded /\ \E id \in DOMAIN jobs : Deliver(id) /\ Log(Rec("deliver", id, 0))
MCPoke == Bounded /\ Poke /\ Log(Rec("poke", 0, 0))
MCBgSnapshot == Bounded /\ BgSnapshot /\ Log(Rec("bgsnap", 0, 0))
MCBgPersist == Bounded /\ Quiet /\ BgPersist /\ Log(Rec("bgpersist", 0, 0))
MCStopBegin == Bounded /\ StopBegin /\ Log(Rec("stop", 0, 0))
MCStopCancel == Bounded /\ Quiet /\ StopCancel /\ UNCHANGED hist
MCCoordCtxDone == Bounded /\ CoordCtxDone /\ UNCHANGED hist
MCWorkerCtxDone == Bounded /\ Quiet /\ (\E id \in DOMAIN jobs : WorkerCtxDone(id)) /\ UNCHANGED hist
MCStopFinal == Bounded /\ StopFinal /\ UNCHANGED hist
MCCrash == Bounded /\ Quiet /\ Crash /\ Log(Rec("crash", 0, 0))
MCStoreAdvance == Bounded /\ \E h \in Heights : StoreAdvance(h) /\ Log(Rec("storeadvance", h, 0))
MCTailAdvance == Bounded /\ AllowTailAdvance /\ \E t \in Heights : TailAdvance(t) /\ Log(Rec("tailadvance", t, 0))
MCWorkerStep == Bounded /\ Quiet /\ \E id \in DOMAIN jobs, o \in {"ok", "outside", "fail", "cancel"} :
                  WorkerStep(id, o) /\ Log(Rec("step", id, o))
MCBackoffExpire == Bounded /\ Quiet /\ \E h \in Heights : BackoffExpire(h) /\ Log(Rec("expire", h, 0))

MCNext ==
  \/ MCStart \/ MCSpawnRetry \/ MCSpawnCatchup \/ MCSpawnEnd \/ MCNewHead \/ MCDeliver \/ MCPoke
  \/ MCBgSnapshot \/ MCBgPersist \/ MCStopBegin \/ MCStopCancel \/ MCCoordCtxDone
  \/ MCWorkerCtxDone \/ MCStopFinal \/ MCCrash \/ MCStoreAdvance \/ MCTailAdvance \/ MCWorkerStep \/ MCBackoffExpire

MCSpec == MCInit /\ [][MCNext]_mcvars

(* simulation mode: print the script of each behaviour once it reaches SimDepth states *)
EmitBehaviour == TLCGet("level") < SimDepth \/ PrintT(<<"BEH", ToJson(hist)>>)
=============================================================================
