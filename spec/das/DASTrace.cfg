CONSTANTS
  MaxHeight = 12
  Range = 2
  Conc = 2
  TailH = 1
  FailBudget = 100000
  CancelBudget = 100000
  StopBudget = 100000
  BgStore = TRUE
  FixSilentExit = FALSE
  FixResumeDone = FALSE
  FixRecentCp = FALSE
INIT TraceInit
NEXT TraceNext
INVARIANTS NoLostHeight SampledHeadSound CheckpointCovers ConcBound DoneExact EveryJobReports
PROPERTIES BackoffMonotone
POSTCONDITION TraceAccepted
CHECK_DEADLOCK FALSE
