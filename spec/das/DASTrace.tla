----------------------------- MODULE DASTrace -----------------------------
(***************************************************************************)
(* Trace validation: executions recorded from the REAL DASer (hooks in     *)
(* /repo/das under the build tag `verif`, emitted from the coordinator     *)
(* goroutine after each critical section and from the workers under their  *)
(* lock; harness stimuli) are checked to be behaviours of DAS.  Every      *)
(* event binds one DAS action, its arguments and the logged post-state;    *)
(* all invariants of DAS are evaluated on every state of the matched       *)
(* behaviour.  Many scenarios are concatenated in one file, separated by   *)
(* "reset" events.                                                         *)
(***************************************************************************)
EXTENDS DAS, Json, IOUtils

Trace == ndJsonDeserialize(IOEnv.VERIF_TRACE)

VARIABLE l        \* index of the next trace line
tvars == <<vars, l>>

Ev == Trace[l]
IsEvent(e) == l <= Len(Trace) /\ Trace[l].ev = e /\ l' = l + 1

SeqToSet(s) == {s[i] : i \in DOMAIN s}
PairKeys(s) == {s[i][1] : i \in DOMAIN s}
PairVal(s, k) == LET i == CHOOSE i \in DOMAIN s : s[i][1] = k IN s[i][2]

(* logged coordinator state (after the action) equals the specification's next state *)
CoordMatches(e) ==
  /\ next' = e.next /\ head' = e.head /\ nextId' = e.nextId /\ done' = e.done
  /\ DOMAIN jobs' = SeqToSet(e.jobs)
  /\ DOMAIN failed' = PairKeys(e.failed)
  /\ \A h \in DOMAIN failed' : failed'[h].count = PairVal(e.failed, h)
  /\ {h \in DOMAIN failed' : failed'[h].due} = SeqToSet(e.due)
  /\ DOMAIN inRetry' = PairKeys(e.inRetry)
  /\ \A h \in DOMAIN inRetry' : inRetry'[h] = PairVal(e.inRetry, h)

CpOfJson(c) ==
  [from |-> c.from, head |-> c.head,
   failed |-> [h \in PairKeys(c.failed) |-> PairVal(c.failed, h)],
   workers |-> {[from |-> c.workers[i][1], to |-> c.workers[i][2], type |-> c.workers[i][3]] :
                  i \in DOMAIN c.workers}]

TraceInit ==
  /\ l = 1
  /\ phase = "stopped" /\ cpc = "gone"
  /\ next = 0 /\ head = 0 /\ nextId = 0 /\ done = FALSE
  /\ failed = EmptyFn /\ inRetry = EmptyFn /\ jobs = EmptyFn
  /\ persisted = None /\ snap = None /\ bgPrev = 0
  /\ storeHead = TailH /\ tail = TailH
  /\ sampledOK = {}
  /\ budget = [fail |-> FailBudget, cancel |-> CancelBudget, stop |-> StopBudget]

(* a new scenario starts: fresh datastore, fresh header store *)
TReset ==
  /\ IsEvent("reset")
  /\ phase' = "stopped" /\ cpc' = "gone"
  /\ next' = 0 /\ head' = 0 /\ nextId' = 0 /\ done' = FALSE
  /\ failed' = EmptyFn /\ inRetry' = EmptyFn /\ jobs' = EmptyFn
  /\ persisted' = None /\ snap' = None /\ bgPrev' = 0
  /\ storeHead' = Ev.storeHead /\ tail' = TailH
  /\ sampledOK' = {}
  /\ budget' = [fail |-> FailBudget, cancel |-> CancelBudget, stop |-> StopBudget]

Skip(e) == IsEvent(e) /\ UNCHANGED vars

TStoreAdvance == IsEvent("storeadvance") /\ StoreAdvance(Ev.h)
TTailAdvance == IsEvent("tailadvance") /\ TailAdvance(Ev.h)

(* resumed workers are spawned (and logged) before the "resume" hook: skipped here, matched there *)
TSpawnBeforeResume == IsEvent("spawn") /\ phase = "stopped" /\ UNCHANGED vars
TResume ==
  /\ IsEvent("resume") /\ Start /\ CoordMatches(Ev)
  /\ \A i \in DOMAIN jobs' :     \* the resumed workers are the ones the spawn events announced
       \E k \in 1..(l - 1) : /\ Trace[k].ev = "spawn" /\ Trace[k].id = i
                             /\ \A m \in k..(l - 1) : Trace[m].ev = "spawn"
                             /\ Trace[k].from = jobs'[i].from /\ Trace[k].to = jobs'[i].to
                             /\ Trace[k].type = jobs'[i].type

TSpawn ==
  /\ IsEvent("spawn") /\ phase # "stopped"
  /\ \/ /\ Ev.type = "retry" /\ SpawnRetry(Ev.from) /\ CoordMatches(Ev)
        /\ jobs'[Ev.id].from = Ev.from /\ jobs'[Ev.id].to = Ev.to
     \/ /\ Ev.type = "catchup" /\ SpawnCatchup /\ CoordMatches(Ev)
        /\ jobs'[Ev.id].from = Ev.from /\ jobs'[Ev.id].to = Ev.to
     \/ /\ Ev.type = "recent" /\ cpc = "select" /\ UNCHANGED vars   \* part of NewHead, matched at "head"

TSelect == IsEvent("select") /\ SpawnEnd /\ CoordMatches(Ev)
TNewHead == IsEvent("head") /\ NewHead(Ev.h) /\ CoordMatches(Ev)
TResult == IsEvent("result") /\ Deliver(Ev.id) /\ CoordMatches(Ev)
TPoke == IsEvent("poke") /\ Poke /\ CoordMatches(Ev)
TBgPoke == IsEvent("bgpoke") /\ BgSnapshot /\ CoordMatches(Ev)
TBgDone ==
  /\ IsEvent("bgdone") /\ BgPersist
  /\ Ev.wrote <=> (snap.from > bgPrev)
  /\ Ev.wrote => persisted' = CpOfJson(Ev.cp)
TStopPoke == IsEvent("stoppoke") /\ StopBegin /\ CoordMatches(Ev)
TExpire == /\ IsEvent("expire")
           /\ \/ BackoffExpire(Ev.h)
              \/ Ev.h \in DOMAIN failed /\ failed[Ev.h].due /\ UNCHANGED vars   \* already due: no effect

(* the run context is cancelled and the coordinator's select picks ctx.Done: StopCancel ; CoordCtxDone *)
TCtxDone ==
  /\ IsEvent("ctxdone")
  /\ phase = "stopping" /\ cpc = "select"
  /\ phase' = "cancelled" /\ cpc' = "gone"
  /\ UNCHANGED <<next, head, failed, inRetry, jobs, nextId, done, persisted, snap, bgPrev,
                 storeHead, tail, sampledOK, budget>>

TSet == IsEvent("set") /\ WorkerStep(Ev.id, IF Ev.err THEN "fail" ELSE "ok")
        /\ jobs'[Ev.id].curr = Ev.h
TSilentExit ==
  /\ IsEvent("silentExit")
  /\ \/ phase \in {"running", "stopping"} /\ WorkerStep(Ev.id, "cancel") /\ jobs'[Ev.id].st = "silent"
     \/ phase = "cancelled" /\ WorkerCtxDone(Ev.id)
TDropped == IsEvent("dropped") /\ WorkerCtxDone(Ev.id)
TGone == IsEvent("gone") /\ cpc = "gone" /\ UNCHANGED vars
        /\ \A id \in DOMAIN jobs : jobs[id].st \in {"exited", "silent"}
TStopped == IsEvent("stopped") /\ StopFinal /\ persisted' = CpOfJson(Ev.cp2)
TCrash == IsEvent("crash") /\ Crash

TraceNext ==
  \/ TReset \/ TStoreAdvance \/ TTailAdvance \/ TSpawnBeforeResume \/ TResume \/ TSpawn \/ TSelect \/ TNewHead
  \/ TResult \/ TPoke \/ TBgPoke \/ TBgDone \/ TStopPoke \/ TExpire \/ TCtxDone \/ TSet
  \/ TSilentExit \/ TDropped \/ TGone \/ TStopped \/ TCrash

TraceSpec == TraceInit /\ [][TraceNext]_tvars

(* every line of the trace was matched by some behaviour of DAS *)
TraceAccepted ==
  LET d == TLCGet("stats").diameter IN
  IF d - 1 = Len(Trace) THEN TRUE
  ELSE Print(<<"TRACE_REJECTED_AT", d, Trace[d]>>, FALSE)
=============================================================================
