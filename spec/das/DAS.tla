------------------------------- MODULE DAS -------------------------------
(***************************************************************************)
(* The data-availability sampling coordinator of celestia-node (package    *)
(* das): samplingCoordinator.run, coordinatorState, worker.run,            *)
(* checkpoint / checkpointStore and DASer.Start/Stop.                      *)
(*                                                                         *)
(* The specification is shaped like the code so that it can be bound to    *)
(* it: the variables are the code's own (next, networkHead, failed,        *)
(* inRetry, inProgress, nextJobID, catchUpDone), there is one action per   *)
(* critical section of the coordinator goroutine (each `select` branch,    *)
(* each iteration of the job-spawning loop), one per worker step, and the  *)
(* stop sequence is split exactly where other goroutines can interleave.   *)
(* Known oddities of the code are modelled as they are and named.          *)
(*                                                                         *)
(* Decides C04 (no height is ever lost, also across stop/crash/restart)    *)
(* and C13 (progress, bounds, exact catch-up flag, monotone back-off).     *)
(***************************************************************************)
EXTENDS Integers, Sequences, FiniteSets, TLC

CONSTANTS
  MaxHeight,     \* heights are 1..MaxHeight
  Range,         \* Parameters.SamplingRange
  Conc,          \* Parameters.ConcurrencyLimit
  TailH,          \* height of the header store's tail (first height to sample)
  FailBudget,    \* environment: how many sampling attempts may fail
  CancelBudget,  \* environment: how many attempts may return an error that Is(context.Canceled)
                 \*              while the DASer keeps running
  StopBudget,    \* environment: how many graceful stops / crashes
  BgStore,       \* BOOLEAN: background checkpoint store enabled
  \* Behaviour switches: TRUE = the code as it is on the tree with the repair, FALSE = before.
  FixSilentExit, \* worker.run: exit silently on context.Canceled only if its own context is done
  FixResumeDone, \* coordinator.run: checkDone once after resuming from the checkpoint
  FixRecentCp    \* newCheckpoint: in-flight recent jobs are persisted too

Heights == 1..MaxHeight
Min(a, b) == IF a < b THEN a ELSE b
Max(a, b) == IF a > b THEN a ELSE b
MinOf(S) == CHOOSE x \in S : \A y \in S : x <= y

VARIABLES
  phase,      \* "stopped" | "running" | "stopping" (Stop(): first checkpoint taken, context alive)
              \* | "cancelled" (run context cancelled)
  cpc,        \* coordinator goroutine: "spawn" (job loop) | "select" | "gone" (left run())
  next,       \* coordinatorState.next
  head,       \* coordinatorState.networkHead
  failed,     \* coordinatorState.failed : height -> [count, due]   (due <=> after.Before(now))
  inRetry,    \* coordinatorState.inRetry: height -> count
  jobs,       \* coordinatorState.inProgress: id -> worker state
  nextId,     \* coordinatorState.nextJobID
  done,       \* coordinatorState.catchUpDone
  persisted,  \* the checkpoint in the datastore (None or a checkpoint)
  snap,       \* checkpoint obtained by getCheckpoint, not yet written (None or checkpoint)
  bgPrev,     \* runBackgroundStore's `prev`
  storeHead,  \* head of the header store
  tail,       \* tail of the header store (it advances when old headers are pruned, while the DASer is down)
  sampledOK,  \* ghost: heights whose availability check returned success / outside window
  budget      \* [fail, cancel, stop] remaining environment budgets

vars == <<phase, cpc, next, head, failed, inRetry, jobs, nextId, done, persisted, snap, bgPrev,
          storeHead, tail, sampledOK, budget>>

EmptyFn == [x \in {} |-> 0]
(* "no checkpoint": a record no real checkpoint equals (SampleFrom >= TailH >= 1) *)
None == [from |-> 0, head |-> 0, failed |-> EmptyFn, workers |-> {}]
Restrict(f, S) == [x \in S |-> f[x]]

(* A worker: job [type, from, to] plus workerState.curr / failed and where its goroutine is:   *)
(* "sampling", "finished" (loop done, blocked sending its result), "silent" (left run() without *)
(* reporting while the DASer was running), "exited" (left because the run context is done).     *)
Job(type, from, to) ==
  [type |-> type, from |-> from, to |-> to, curr |-> from, started |-> FALSE,
   wfailed |-> {}, st |-> "sampling"]

NextHeightOf(j) == IF j.started THEN j.curr + 1 ELSE j.from
DoneHeights(j) == IF j.started THEN j.from..j.curr ELSE {}

CoordAlive == phase \in {"running", "stopping", "cancelled"} /\ cpc # "gone"

(***************************************************************************)
(* Pure functions of the coordinator state: unsafeStats and newCheckpoint. *)
(***************************************************************************)
WorkerFailCount(h) == Cardinality({id \in DOMAIN jobs : h \in jobs[id].wfailed})
FailedKeys == DOMAIN failed \cup DOMAIN inRetry \cup UNION {jobs[id].wfailed : id \in DOMAIN jobs}
StatsFailed ==
  [h \in FailedKeys |->
     WorkerFailCount(h) + (IF h \in DOMAIN failed THEN failed[h].count ELSE 0)
                        + (IF h \in DOMAIN inRetry THEN inRetry[h] ELSE 0)]
LowestFailedOrInProgress ==
  MinOf({next} \cup {jobs[id].curr : id \in DOMAIN jobs}
               \cup UNION {jobs[id].wfailed : id \in DOMAIN jobs} \cup DOMAIN failed)
SampledChainHead == LowestFailedOrInProgress - 1
CatchupHead == next - 1

CheckpointedTypes == IF FixRecentCp THEN {"catchup", "recent"} ELSE {"catchup"}
Checkpoint ==
  [from    |-> next,
   head    |-> head,
   failed  |-> StatsFailed,
   workers |-> {[from |-> jobs[id].curr, to |-> jobs[id].to, type |-> jobs[id].type] :
                  id \in {i \in DOMAIN jobs : jobs[i].type \in CheckpointedTypes}}]

CheckDone(js, fl, nx, hd) == js = {} /\ fl = {} /\ nx > hd

(***************************************************************************)
(* DASer.Start: load the checkpoint (or initialise from the header store), *)
(* clamp, resumeFromCheckpoint, one worker per checkpointed worker.        *)
(***************************************************************************)
Start ==
  /\ phase = "stopped"
  /\ LET cp0 == IF persisted = None
                  THEN [from |-> tail, head |-> storeHead, failed |-> EmptyFn, workers |-> {}]
                  ELSE \* DASer.checkpoint(): clamp the loaded checkpoint to the header store
                       [from    |-> Max(persisted.from, tail),
                        head    |-> Max(persisted.head, storeHead),
                        failed  |-> Restrict(persisted.failed, {h \in DOMAIN persisted.failed : h >= tail}),
                        workers |-> {[w EXCEPT !.from = Max(w.from, tail)] :
                                       w \in {x \in persisted.workers : x.to >= tail}}]
         n == Cardinality(cp0.workers)
     IN \E f \in [1..n -> cp0.workers] :       \* resumed in (random) slice order
          /\ \A a, b \in 1..n : a # b => f[a] # f[b]
          /\ jobs' = [i \in 1..n |-> Job(f[i].type, f[i].from, f[i].to)]
          /\ nextId' = n
          /\ next' = cp0.from
          /\ head' = cp0.head
          /\ failed' = [h \in DOMAIN cp0.failed |-> [count |-> cp0.failed[h], due |-> TRUE]]
          /\ done' = IF FixResumeDone
                       THEN CheckDone(1..n, DOMAIN cp0.failed, cp0.from, cp0.head)
                       ELSE FALSE
  /\ inRetry' = EmptyFn
  /\ phase' = "running" /\ cpc' = "spawn"
  /\ snap' = None /\ bgPrev' = 0
  /\ UNCHANGED <<persisted, storeHead, tail, sampledOK, budget>>

(***************************************************************************)
(* The job loop at the top of run(): retry first, then catch-up, while the *)
(* concurrency limit is not reached.                                       *)
(***************************************************************************)
DueFailed == {h \in DOMAIN failed : failed[h].due}
LimitReached == Cardinality(DOMAIN jobs) >= Conc

SpawnRetry(h) ==
  /\ CoordAlive /\ cpc = "spawn" /\ ~LimitReached
  /\ h \in DueFailed
  /\ failed' = Restrict(failed, DOMAIN failed \ {h})
  /\ inRetry' = [x \in DOMAIN inRetry \cup {h} |-> IF x = h THEN failed[h].count ELSE inRetry[x]]
  /\ nextId' = nextId + 1
  /\ jobs' = [i \in DOMAIN jobs \cup {nextId + 1} |->
                IF i = nextId + 1 THEN Job("retry", h, h) ELSE jobs[i]]
  /\ UNCHANGED <<phase, cpc, next, head, done, persisted, snap, bgPrev, storeHead, tail, sampledOK, budget>>

SpawnCatchup ==
  /\ CoordAlive /\ cpc = "spawn" /\ ~LimitReached
  /\ DueFailed = {}
  /\ next <= head
  /\ LET to == Min(next + Range - 1, head) IN
       /\ nextId' = nextId + 1
       /\ jobs' = [i \in DOMAIN jobs \cup {nextId + 1} |->
                     IF i = nextId + 1 THEN Job("catchup", next, to) ELSE jobs[i]]
       /\ next' = to + 1
  /\ UNCHANGED <<phase, cpc, head, failed, inRetry, done, persisted, snap, bgPrev, storeHead, tail,
                 sampledOK, budget>>

SpawnEnd ==      \* nothing (more) to spawn: block in select
  /\ CoordAlive /\ cpc = "spawn"
  /\ LimitReached \/ (DueFailed = {} /\ next > head)
  /\ cpc' = "select"
  /\ UNCHANGED <<phase, next, head, failed, inRetry, jobs, nextId, done, persisted, snap, bgPrev,
                 storeHead, tail, sampledOK, budget>>

(***************************************************************************)
(* select branch: a header from the subscription.  Any height may be      *)
(* announced: consecutive, skipping, duplicate, stale.                     *)
(***************************************************************************)
NewHead(h) ==
  /\ CoordAlive /\ cpc = "select"
  /\ h \in Heights
  /\ storeHead' = Max(storeHead, h)
  /\ IF h <= head
       THEN UNCHANGED <<next, head, jobs, nextId, done>>       \* isNewHead = false
       ELSE /\ head' = h
            /\ IF Cardinality(DOMAIN jobs) < 2 * Conc          \* recentJobsLimitReached
                 THEN /\ next' = IF next = h THEN h + 1 ELSE next
                      /\ nextId' = nextId + 1
                      /\ jobs' = [i \in DOMAIN jobs \cup {nextId + 1} |->
                                    IF i = nextId + 1 THEN Job("recent", h, h) ELSE jobs[i]]
                 ELSE UNCHANGED <<next, nextId, jobs>>
            /\ done' = CheckDone(DOMAIN jobs', DOMAIN failed, next', h)   \* updateHead -> checkDone
  /\ cpc' = "spawn"
  /\ UNCHANGED <<phase, failed, inRetry, persisted, snap, bgPrev, sampledOK, budget, tail>>

(***************************************************************************)
(* select branch: a worker's result (handleResult).                        *)
(***************************************************************************)
Deliver(id) ==
  /\ CoordAlive /\ cpc = "select"
  /\ id \in DOMAIN jobs /\ jobs[id].st = "finished"
  /\ LET j == jobs[id]
         js == DOMAIN jobs \ {id}
     IN /\ jobs' = Restrict(jobs, js)
        /\ IF j.type \in {"recent", "catchup"}
             THEN \* heights of the range that did not fail again leave `failed`; failed ones are
                  \* (re)inserted with attempt count 1 (RetryCountReset: even if the height already
                  \* had a higher count -- reachable only when a resumed worker overlaps cp.Failed)
                  LET keep == {h \in DOMAIN failed : ~(h \in j.from..j.to) \/ h \in j.wfailed}
                      dom  == keep \cup j.wfailed
                  IN /\ failed' = [h \in dom |->
                                     IF h \in j.wfailed
                                       THEN [count |-> 1, due |-> FALSE]
                                       ELSE failed[h]]
                     /\ UNCHANGED inRetry
             ELSE \* retry job: failed again -> back to `failed` with count+1; inRetry cleaned
                  /\ failed' = [h \in DOMAIN failed \cup j.wfailed |->
                                  IF h \in j.wfailed
                                    THEN [count |-> (IF h \in DOMAIN inRetry THEN inRetry[h] ELSE 0) + 1,
                                          due |-> FALSE]
                                    ELSE failed[h]]
                  /\ inRetry' = Restrict(inRetry, DOMAIN inRetry \ (j.from..j.to))
        /\ done' = CheckDone(js, DOMAIN failed', next, head)
  /\ cpc' = "spawn"
  /\ UNCHANGED <<phase, next, head, nextId, persisted, snap, bgPrev, storeHead, tail, sampledOK, budget>>

(***************************************************************************)
(* select branch: waitCh -- SamplingStats / getCheckpoint pause the        *)
(* coordinator, read unsafeStats, and let it continue (it then re-runs the *)
(* job loop).  Poke = a plain statistics request.                          *)
(***************************************************************************)
Poke ==
  /\ CoordAlive /\ cpc = "select"
  /\ cpc' = "spawn"
  /\ UNCHANGED <<phase, next, head, failed, inRetry, jobs, nextId, done, persisted, snap, bgPrev,
                 storeHead, tail, sampledOK, budget>>

(* runBackgroundStore tick: getCheckpoint ... *)
BgSnapshot ==
  /\ BgStore /\ phase = "running" /\ CoordAlive /\ cpc = "select" /\ snap = None
  /\ snap' = Checkpoint
  /\ cpc' = "spawn"
  /\ UNCHANGED <<phase, next, head, failed, inRetry, jobs, nextId, done, persisted, bgPrev,
                 storeHead, tail, sampledOK, budget>>

(* ... and, possibly after further coordinator steps, store it iff SampleFrom advanced *)
BgPersist ==
  /\ phase = "running" /\ snap # None
  /\ IF snap.from > bgPrev
       THEN persisted' = snap /\ bgPrev' = snap.from
       ELSE UNCHANGED <<persisted, bgPrev>>
  /\ snap' = None
  /\ UNCHANGED <<phase, cpc, next, head, failed, inRetry, jobs, nextId, done, storeHead, tail,
                 sampledOK, budget>>

(***************************************************************************)
(* DASer.Stop: checkpoint #1 while everything runs; cancel; the            *)
(* coordinator leaves on ctx.Done and waits for the workers; checkpoint #2 *)
(* from the quiescent state.                                               *)
(***************************************************************************)
StopBegin ==     \* getCheckpoint + store, context still alive
  /\ phase = "running" /\ CoordAlive /\ cpc = "select" /\ snap = None
  /\ budget.stop > 0
  /\ budget' = [budget EXCEPT !.stop = @ - 1]
  /\ persisted' = Checkpoint
  /\ phase' = "stopping"
  /\ cpc' = "spawn"
  /\ UNCHANGED <<next, head, failed, inRetry, jobs, nextId, done, snap, bgPrev, storeHead, tail, sampledOK>>

StopCancel ==
  /\ phase = "stopping"
  /\ phase' = "cancelled"
  /\ UNCHANGED <<cpc, next, head, failed, inRetry, jobs, nextId, done, persisted, snap, bgPrev,
                 storeHead, tail, sampledOK, budget>>

CoordCtxDone ==  \* the coordinator's select picks ctx.Done
  /\ phase = "cancelled" /\ cpc = "select"
  /\ cpc' = "gone"
  /\ UNCHANGED <<phase, next, head, failed, inRetry, jobs, nextId, done, persisted, snap, bgPrev,
                 storeHead, tail, sampledOK, budget>>

WorkerCtxDone(id) ==   \* a worker notices the cancelled context: leaves without reporting
  /\ phase = "cancelled"
  /\ id \in DOMAIN jobs /\ jobs[id].st \in {"sampling", "finished"}
  /\ jobs' = [jobs EXCEPT ![id].st = "exited"]
  /\ UNCHANGED <<phase, cpc, next, head, failed, inRetry, nextId, done, persisted, snap, bgPrev,
                 storeHead, tail, sampledOK, budget>>

StopFinal ==     \* checkpoint #2 from the quiescent coordinator state
  /\ phase = "cancelled" /\ cpc = "gone"
  /\ \A id \in DOMAIN jobs : jobs[id].st \in {"exited", "silent"}
  /\ persisted' = Checkpoint
  /\ phase' = "stopped"
  /\ jobs' = EmptyFn /\ failed' = EmptyFn /\ inRetry' = EmptyFn
  /\ next' = 0 /\ head' = 0 /\ nextId' = 0 /\ done' = FALSE /\ snap' = None /\ bgPrev' = 0
  /\ cpc' = "gone"
  /\ UNCHANGED <<storeHead, tail, sampledOK, budget>>

(* The process dies: only the datastore survives. *)
Crash ==
  /\ phase # "stopped"
  /\ budget.stop > 0
  /\ budget' = [budget EXCEPT !.stop = @ - 1]
  /\ phase' = "stopped"
  /\ jobs' = EmptyFn /\ failed' = EmptyFn /\ inRetry' = EmptyFn
  /\ next' = 0 /\ head' = 0 /\ nextId' = 0 /\ done' = FALSE /\ snap' = None /\ bgPrev' = 0
  /\ cpc' = "gone"
  /\ UNCHANGED <<persisted, storeHead, tail, sampledOK>>

(* The header store keeps syncing while the DASer is down. *)
StoreAdvance(h) ==
  /\ phase = "stopped" /\ h \in Heights /\ h > storeHead
  /\ storeHead' = h
  /\ UNCHANGED <<phase, cpc, next, head, failed, inRetry, jobs, nextId, done, persisted, snap,
                 bgPrev, sampledOK, budget, tail>>

(* The header store prunes old headers while the DASer is down: its tail advances. *)
TailAdvance(t) ==
  /\ phase = "stopped" /\ t \in Heights /\ t > tail /\ t <= storeHead
  /\ tail' = t
  /\ UNCHANGED <<phase, cpc, next, head, failed, inRetry, jobs, nextId, done, persisted, snap,
                 bgPrev, storeHead, sampledOK, budget>>

(***************************************************************************)
(* A worker samples its next height (worker.run loop body + setResult).    *)
(* Outcomes: "ok", "outside" (outside the sampling window: skipped,        *)
(* counts as done), "fail", "cancel" (an error that Is(context.Canceled)   *)
(* although the run context is alive).                                     *)
(***************************************************************************)
WorkerStep(id, o) ==
  \* also after the run context was cancelled: an availability implementation need not answer a
  \* cancelled context with context.Canceled (the light availability answers ErrNotAvailable when
  \* its getter returned nothing), and then the worker records the outcome and goes on
  /\ phase \in {"running", "stopping", "cancelled"}
  /\ id \in DOMAIN jobs /\ jobs[id].st = "sampling"
  /\ LET j == jobs[id]
         h == NextHeightOf(j)
         fin == IF h = j.to THEN "finished" ELSE "sampling"
         isFail == o = "fail" \/ (o = "cancel" /\ FixSilentExit)
     IN /\ o \in {"ok", "outside", "fail", "cancel"}
        /\ o = "fail" => budget.fail > 0
        /\ o = "cancel" => budget.cancel > 0
        /\ budget' = [budget EXCEPT !.fail = IF o = "fail" THEN @ - 1 ELSE @,
                                    !.cancel = IF o = "cancel" THEN @ - 1 ELSE @]
        /\ IF o = "cancel" /\ ~FixSilentExit
             THEN \* WorkerSilentExit: `return` without setResult and without sending a result
                  /\ jobs' = [jobs EXCEPT ![id].st = "silent"]
                  /\ UNCHANGED sampledOK
             ELSE /\ jobs' = [jobs EXCEPT ![id] =
                       [j EXCEPT !.curr = h, !.started = TRUE, !.st = fin,
                                 !.wfailed = IF isFail THEN j.wfailed \cup {h} ELSE j.wfailed]]
                  /\ sampledOK' = IF isFail THEN sampledOK ELSE sampledOK \cup {h}
  /\ UNCHANGED <<phase, cpc, next, head, failed, inRetry, nextId, done, persisted, snap, bgPrev,
                 storeHead, tail>>

(* Time passes: the back-off of a failed height elapses. *)
BackoffExpire(h) ==
  /\ phase \in {"running", "stopping"}
  /\ h \in DOMAIN failed /\ ~failed[h].due
  /\ failed' = [failed EXCEPT ![h].due = TRUE]
  /\ UNCHANGED <<phase, cpc, next, head, inRetry, jobs, nextId, done, persisted, snap, bgPrev,
                 storeHead, tail, sampledOK, budget>>

Init ==
  /\ phase = "stopped" /\ cpc = "gone"
  /\ next = 0 /\ head = 0 /\ nextId = 0 /\ done = FALSE
  /\ failed = EmptyFn /\ inRetry = EmptyFn /\ jobs = EmptyFn
  /\ persisted = None /\ snap = None /\ bgPrev = 0
  /\ storeHead \in TailH..MaxHeight
  /\ tail = TailH
  /\ sampledOK = {}
  /\ budget = [fail |-> FailBudget, cancel |-> CancelBudget, stop |-> StopBudget]

Next ==
  \/ Start
  \/ \E h \in Heights : SpawnRetry(h)
  \/ SpawnCatchup \/ SpawnEnd
  \/ \E h \in Heights : NewHead(h)
  \/ \E id \in DOMAIN jobs : Deliver(id)
  \/ Poke \/ BgSnapshot \/ BgPersist
  \/ StopBegin \/ StopCancel \/ CoordCtxDone
  \/ \E id \in DOMAIN jobs : WorkerCtxDone(id)
  \/ StopFinal \/ Crash
  \/ \E h \in Heights : StoreAdvance(h)
  \/ \E t \in Heights : TailAdvance(t)
  \/ \E id \in DOMAIN jobs, o \in {"ok", "outside", "fail", "cancel"} : WorkerStep(id, o)
  \/ \E h \in Heights : BackoffExpire(h)

Spec == Init /\ [][Next]_vars

(***************************************************************************)
(*                           C04 -- safety                                 *)
(***************************************************************************)
(* A job still accounts for h: h is in its range and either not yet sampled by it or recorded   *)
(* as failed by it.  A worker that left silently while the DASer runs accounts for nothing.     *)
Covers(j, h) == /\ h \in j.from..j.to
                /\ h \notin DoneHeights(j) \/ h \in j.wfailed
                /\ j.st # "silent"

NoLostHeight ==
  phase \in {"running", "stopping"} =>
    \A h \in tail..head :
      \/ h \in sampledOK
      \/ h >= next
      \/ h \in DOMAIN failed \/ h \in DOMAIN inRetry
      \/ \E id \in DOMAIN jobs : Covers(jobs[id], h)

SampledHeadSound ==
  phase \in {"running", "stopping"} => \A h \in tail..SampledChainHead : h \in sampledOK

(* Whatever checkpoint is in the datastore covers every height that is not sampled: resuming    *)
(* from it samples that height again.  (sampledOK only grows, so it suffices to state it as a   *)
(* state invariant.)                                                                            *)
CpCovers(cp) ==
  \A h \in tail..cp.head :
    \/ h \in sampledOK
    \/ h >= cp.from
    \/ h \in DOMAIN cp.failed
    \/ \E w \in cp.workers : h \in w.from..w.to
CheckpointCovers == persisted # None => CpCovers(persisted)

(***************************************************************************)
(*                           C13 -- bounds, exactness                      *)
(***************************************************************************)
ConcBound ==
  /\ Cardinality(DOMAIN jobs) <= 2 * Conc
  /\ Cardinality({id \in DOMAIN jobs : jobs[id].type # "recent"}) <= Conc

DoneExact ==
  (phase = "running" /\ cpc = "select") =>
    (done <=> (DOMAIN jobs = {} /\ DOMAIN failed = {} /\ next > head))

EveryJobReports ==   \* no worker has left without reporting while the DASer runs
  phase = "running" => \A id \in DOMAIN jobs : jobs[id].st # "silent"

AttemptCount(f, r, h) == IF h \in DOMAIN f THEN f[h].count ELSE IF h \in DOMAIN r THEN r[h] ELSE 0
BackoffMonotoneStep ==
  (phase # "stopped" /\ phase' # "stopped") =>
    \A h \in Heights :
      (h \in DOMAIN failed \cup DOMAIN inRetry /\ h \in DOMAIN failed' \cup DOMAIN inRetry')
        => AttemptCount(failed', inRetry', h) >= AttemptCount(failed, inRetry, h)
BackoffMonotone == [][BackoffMonotoneStep]_vars

TypeOK ==
  /\ phase \in {"stopped", "running", "stopping", "cancelled"}
  /\ cpc \in {"spawn", "select", "gone"}
  /\ next \in 0..MaxHeight + 1 /\ head \in 0..MaxHeight
  /\ DOMAIN failed \subseteq Heights /\ DOMAIN inRetry \subseteq Heights
  /\ sampledOK \subseteq Heights

(***************************************************************************)
(*                           C13 -- liveness                               *)
(***************************************************************************)
Fairness ==
  /\ WF_vars(\E h \in Heights : SpawnRetry(h)) /\ WF_vars(SpawnCatchup) /\ WF_vars(SpawnEnd)
  \* Go's select chooses among its ready cases at random: a case that is ready infinitely often is
  \* eventually taken (strong fairness) even if stale heads / statistics requests keep arriving
  /\ SF_vars(\E id \in DOMAIN jobs : Deliver(id))
  /\ WF_vars(\E id \in DOMAIN jobs : WorkerStep(id, "ok"))
  /\ WF_vars(\E h \in Heights : BackoffExpire(h))
  /\ SF_vars(Poke)     \* events keep arriving (in practice: new heads every few seconds)
  /\ SF_vars(CoordCtxDone)
  /\ WF_vars(Start) /\ WF_vars(StopCancel) /\ WF_vars(StopFinal)
  /\ WF_vars(\E id \in DOMAIN jobs : WorkerCtxDone(id))
  /\ WF_vars(BgPersist)
LiveSpec == Spec /\ Fairness

AllSampled == \A h \in tail..head : h \in sampledOK
EventuallyAllSampled == <>[](phase = "running" /\ AllSampled)
EventuallyDone == <>[](phase = "running" => done)
=============================================================================
