\* every history of one token on one server: 3 uses over 4 representative methods, expiry before / between /
\* after / never
SPECIFICATION Spec
CONSTANTS
  MaxUses = 3
  Emit = TRUE
INVARIANTS
  ExpiredGrantsNothingOverTime
  ValidUntilExpiry
  HistoryFree
  NoResurrection
  EmitBehaviour
CHECK_DEADLOCK FALSE
