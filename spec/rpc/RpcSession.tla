----------------------------- MODULE RpcSession -----------------------------
(***************************************************************************)
(* C19, histories.  RpcAuth.tla decides one call at a time; this module    *)
(* says that authorisation has NO MEMORY: what a call is allowed to do is  *)
(* a function of the method, of what the presented token is worth AT THAT  *)
(* MOMENT, and of the authentication mode -- never of what the same token  *)
(* was allowed earlier on the same server.                                 *)
(*                                                                         *)
(* One behaviour = one token used up to MaxUses times against ONE server   *)
(* process.  The token is minted for a class (read / read+write / admin),  *)
(* with or without an expiry; time is the single action  Expire  (the      *)
(* clock passes the token's ExpiresAt), which may happen before the first  *)
(* use, between two uses, or never.  From then on the token is of class    *)
(* "expired".  Every use records the verdict the policy demands.           *)
(*                                                                         *)
(* TLC enumerates all behaviours (valid use; valid use again = cache-hit   *)
(* path of any memoising server; expire; use again ...), checks the        *)
(* invariants below and prints each complete behaviour; harness/drivers/   *)
(* rpc replays every behaviour with ONE real token against the real        *)
(* server: the uses before Expire while the token is valid, then a real    *)
(* wait past ExpiresAt, then the uses after it.                            *)
(***************************************************************************)
EXTENDS Naturals, Sequences, FiniteSets, TLC, Json

CONSTANTS MaxUses, Emit

\* the policy (table, Granted, Reach): the matrix variables are irrelevant here
P == INSTANCE RpcAuth WITH m <- "node.Ready", cred <- "none", form <- "json", auth <- TRUE, Emit <- FALSE

VARIABLES auth,      \* authentication enabled on this server
          base,      \* the class the token was minted for
          ttl,       \* the token carries an expiry
          expired,   \* ... which has passed
          hist       \* what happened so far
vars == <<auth, base, ttl, expired, hist>>

\* one representative method per required level, plus a second sensitive one
RepMethods == {"header.LocalHead", "blob.Submit", "node.AuthNew", "p2p.Info"}
ASSUME RepMethods \subseteq P!Methods
ASSUME {P!Required[x] : x \in RepMethods} = {"read", "write", "admin"}

Bases == {"read", "readwrite", "admin"}

ClassNow == IF ttl /\ expired THEN "expired" ELSE base

Ev(e, x, c, r) == [ev |-> e, m |-> x, class |-> c, reach |-> r]

Uses == Cardinality({i \in DOMAIN hist : hist[i].ev = "use"})

Init == /\ auth \in BOOLEAN /\ base \in Bases /\ ttl \in BOOLEAN
        /\ expired = FALSE /\ hist = <<>>

Use(x) == /\ Uses < MaxUses
          /\ hist' = Append(hist, Ev("use", x, ClassNow, P!Reach(x, ClassNow, "bearer", auth)))
          /\ UNCHANGED <<auth, base, ttl, expired>>

Expire == /\ ttl /\ ~expired /\ Uses < MaxUses
          /\ expired' = TRUE
          /\ hist' = Append(hist, Ev("expire", "-", "expired", FALSE))
          /\ UNCHANGED <<auth, base, ttl>>

Next == Expire \/ \E x \in RepMethods : Use(x)
Spec == Init /\ [][Next]_vars

IsUse(i) == hist[i].ev = "use"
After(i) == \E j \in 1..(i - 1) : hist[j].ev = "expire"

\* expired tokens grant nothing -- also when the server has seen them valid before
ExpiredGrantsNothingOverTime ==
    \A i \in DOMAIN hist : (auth /\ IsUse(i) /\ After(i)) => ~hist[i].reach

\* until then the token is worth what it was minted for, at every use (first or repeated)
ValidUntilExpiry ==
    \A i \in DOMAIN hist : (IsUse(i) /\ ~After(i)) => (hist[i].reach <=> P!Reach(hist[i].m, base, "bearer", auth))

\* no memory: equal method, equal class of the token at that moment => equal verdict
HistoryFree ==
    \A i, j \in DOMAIN hist :
        (IsUse(i) /\ IsUse(j) /\ hist[i].m = hist[j].m /\ hist[i].class = hist[j].class) => hist[i].reach = hist[j].reach

\* time never gives permissions back
NoResurrection ==
    \A i, j \in DOMAIN hist :
        (auth /\ IsUse(i) /\ IsUse(j) /\ i < j /\ hist[i].m = hist[j].m /\ ~hist[i].reach) => ~hist[j].reach

\* a complete behaviour, for the driver
EmitBehaviour ==
    (Emit /\ Uses = MaxUses) =>
        PrintT(<<"BEH", ToJson([auth |-> auth, base |-> base, ttl |-> ttl, hist |-> hist])>>)
=============================================================================
