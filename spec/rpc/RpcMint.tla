------------------------------- MODULE RpcMint -------------------------------
(***************************************************************************)
(* C19, credentials minted BY THE NODE.  RpcAuth.tla / RpcSession.tla use  *)
(* tokens the harness signs itself; here the token comes out of the node's *)
(* own admin module, over RPC:                                             *)
(*                                                                         *)
(*   node.AuthNew(perms)                   -- no expiry                    *)
(*   node.AuthNewWithExpiry(perms, ttl)    -- ttl: +1h, +short, 0 (= no    *)
(*                                            expiry, as documented),      *)
(*                                            -1ns, -1h                    *)
(*                                                                         *)
(* called by an admin (allowed to mint) or by a read+write caller (not     *)
(* allowed: no credential results).  What the minted credential is worth:  *)
(*   * while it is alive, EXACTLY the requested permission set -- never    *)
(*     more;                                                               *)
(*   * a positive ttl ends its life (action Expire); afterwards nothing;   *)
(*   * a NEGATIVE ttl never yields a usable credential: either the call is *)
(*     refused or the token is born expired;                               *)
(*   * node.AuthVerify(token) tells the truth about it at every moment:    *)
(*     the requested set while alive, an error otherwise -- i.e. it agrees *)
(*     with what the server enforces.                                      *)
(*                                                                         *)
(* A behaviour = mint, then up to MaxUses uses of the minted token on the  *)
(* authenticated server (each with a look at AuthVerify), with Expire in   *)
(* between for the short ttl.  TLC enumerates all of them and prints each; *)
(* harness/drivers/rpc performs them against the real rpc.Server whose     *)
(* node.Auth* methods are bound to the REAL nodebuilder/node module.       *)
(***************************************************************************)
EXTENDS Naturals, Sequences, FiniteSets, TLC, Json

CONSTANTS MaxUses, Emit

P == INSTANCE RpcAuth WITH m <- "node.Ready", cred <- "none", form <- "json", auth <- TRUE, Emit <- FALSE

VARIABLES via,      \* the minting method
          ttl,      \* "none" (AuthNew) | "long" | "short" | "zero" | "neg1ns" | "neg1h"
          req,      \* requested permission set
          minter,   \* credential class of the caller who asks for the token
          expired,  \* the short ttl has run out
          hist
vars == <<via, ttl, req, minter, expired, hist>>

Requests == {{}, {"public"}, {"read"}, {"public", "read"}, {"public", "read", "write"},
             {"public", "read", "write", "admin"}, {"admin"}}
Minters == {"admin", "readwrite"}
RepMethods == {"header.LocalHead", "blob.Submit", "p2p.Info"}
ASSUME RepMethods \subseteq P!Methods

MintMethod == "node." \o via
\* is the caller allowed to mint at all?
Minted == P!Reach(MintMethod, minter, "bearer", TRUE)

Negative == ttl \in {"neg1ns", "neg1h"}
\* does the token grant anything right now?
Alive == Minted /\ ~Negative /\ ~(ttl = "short" /\ expired)
Worth == IF Alive THEN req ELSE {}

Ev(e, x, a, r, v) == [ev |-> e, m |-> x, alive |-> a, reach |-> r, verify |-> v]
Uses == Cardinality({i \in DOMAIN hist : hist[i].ev = "use"})

Init == /\ via \in {"AuthNew", "AuthNewWithExpiry"}
        /\ ttl \in IF via = "AuthNew" THEN {"none"} ELSE {"long", "short", "zero", "neg1ns", "neg1h"}
        /\ req \in Requests /\ minter \in Minters
        /\ expired = FALSE
        /\ hist = << Ev("mint", MintMethod, Alive, Minted, {}) >>

\* a use of the minted token on the authenticated server, and what AuthVerify says at that moment
Use(x) == /\ Minted /\ Uses < MaxUses
          /\ hist' = Append(hist, Ev("use", x, Alive, P!Required[x] \in Worth, Worth))
          /\ UNCHANGED <<via, ttl, req, minter, expired>>

Expire == /\ Minted /\ ttl = "short" /\ ~expired /\ Uses < MaxUses
          /\ expired' = TRUE
          /\ hist' = Append(hist, Ev("expire", "-", FALSE, FALSE, {}))
          /\ UNCHANGED <<via, ttl, req, minter>>

Next == Expire \/ \E x \in RepMethods : Use(x)
Spec == Init /\ [][Next]_vars

IsUse(i) == hist[i].ev = "use"

\* a minted token never carries more than was asked for
NeverMoreThanRequested == \A i \in DOMAIN hist : IsUse(i) => (hist[i].verify \subseteq req /\ (hist[i].reach => P!Required[hist[i].m] \in req))

\* a negative ttl never yields a usable credential
NegativeTtlUnusable == Negative => \A i \in DOMAIN hist : IsUse(i) => (~hist[i].reach /\ ~hist[i].alive)

\* ttl = 0 and AuthNew mean "no expiry", a long ttl is alive throughout: exactly the requested set
NoExpiryExact == (Minted /\ ttl \in {"none", "zero", "long"}) =>
                     \A i \in DOMAIN hist : IsUse(i) => (hist[i].reach <=> P!Required[hist[i].m] \in req)

\* after its expiry the token grants nothing, and AuthVerify says so
ExpiredGrantsNothing == \A i \in DOMAIN hist :
                            (IsUse(i) /\ \E j \in 1..(i - 1) : hist[j].ev = "expire") => (~hist[i].reach /\ hist[i].verify = {} /\ ~hist[i].alive)

\* what AuthVerify reports is what the server enforces
VerifyAgreesWithEnforcement == \A i \in DOMAIN hist : IsUse(i) => (hist[i].reach <=> P!Required[hist[i].m] \in hist[i].verify)

\* only administrators mint
OnlyAdminsMint == Minted <=> "admin" \in P!Granted(minter)

EmitBehaviour ==
    (Emit /\ (Uses = MaxUses \/ ~Minted)) =>
        PrintT(<<"MINT", ToJson([via |-> via, ttl |-> ttl, req |-> req, minter |-> minter, minted |-> Minted, hist |-> hist])>>)
=============================================================================
