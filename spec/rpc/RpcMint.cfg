\* every way of asking the node for a credential, and every history of 2 uses of what comes back
SPECIFICATION Spec
CONSTANTS
  MaxUses = 2
  Emit = TRUE
INVARIANTS
  NeverMoreThanRequested
  NegativeTtlUnusable
  NoExpiryExact
  ExpiredGrantsNothing
  VerifyAgreesWithEnforcement
  OnlyAdminsMint
  EmitBehaviour
CHECK_DEADLOCK FALSE
