\* the full matrix: 72 methods x (9 token classes x 5 presentation forms + no credentials x 2 content types)
\* x authentication on/off = 6768 cells
SPECIFICATION Spec
CONSTANTS
  Emit = TRUE
INVARIANTS
  TypeOK
  Monotone
  Lattice
  NoTokenOnlyPublic
  BadTokensGrantNothing
  MalformedPresentationGrantsNothing
  SensitiveProtected
  Exact
  AuthOffOpensAll
  EmitCase
CHECK_DEADLOCK FALSE
