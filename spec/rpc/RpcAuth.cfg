\* the full matrix: 72 methods x 10 credential classes x authentication on/off = 1440 cells
SPECIFICATION Spec
CONSTANTS
  Emit = TRUE
INVARIANTS
  TypeOK
  Monotone
  Lattice
  NoTokenOnlyPublic
  BadTokensGrantNothing
  SensitiveProtected
  Exact
  AuthOffOpensAll
  EmitCase
CHECK_DEADLOCK FALSE
