------------------------------ MODULE RpcAuth ------------------------------
(***************************************************************************)
(* C19 -- RPC methods are reachable only with the permission they require. *)
(*                                                                         *)
(* The specification IS the access policy of the node's JSON-RPC API:      *)
(*                                                                         *)
(*   * the permission levels and what each class of credential grants;     *)
(*   * the POLICY TABLE  Required[module.method]  written out for every    *)
(*     method of the eight registered modules.  It is the source of truth, *)
(*     not derived from the code: the driver obtains the method set and    *)
(*     the `perm:"..."` tags of the real API structs by reflection and     *)
(*     compares -- a method whose tag differs from the table has been      *)
(*     re-tagged, a method missing from the table is UNCLASSIFIED;         *)
(*   * the set  Sensitive  of methods that move funds / submit data, mint  *)
(*     or verify credentials, reveal node identity or peers, or            *)
(*     reconfigure the node, with the ASSUMPTION (checked by TLC) that     *)
(*     each of them needs write or admin;                                  *)
(*   * Reach(m, cred, auth): who gets through.                             *)
(*                                                                         *)
(* The state space is the full matrix  method x credential class x form of *)
(* presentation x authentication on/off -- one state per cell, no          *)
(* transitions (histories of credential use are in RpcSession.tla).  TLC   *)
(* checks the lattice / monotonicity / exposure invariants in every cell   *)
(* and prints every cell with its expected verdict; harness/drivers/rpc    *)
(* performs every cell as one real JSON-RPC call (HTTP, WebSocket for      *)
(* subscriptions) against the real rpc.Server with the real API structs    *)
(* registered the way nodebuilder/rpc does, real JWTs, and reflection      *)
(* generated module stubs that record being reached.                       *)
(***************************************************************************)
EXTENDS Naturals, Sequences, FiniteSets, TLC, Json

CONSTANT Emit          \* TRUE: print the matrix and the tables for the driver

VARIABLES m, cred, form, auth
vars == <<m, cred, form, auth>>

(***************************************************************************)
(* Permissions.  A token carries a SET of permission names; the levels are *)
(* ordered only through the sets the node mints (api/rpc/perms).           *)
(***************************************************************************)
PermOrder == <<"public", "read", "write", "admin">>
Perms == {PermOrder[i] : i \in DOMAIN PermOrder}
Level(p) == CHOOSE i \in DOMAIN PermOrder : PermOrder[i] = p
UpTo(p) == {PermOrder[i] : i \in 1..Level(p)}

(***************************************************************************)
(* Credential classes.  "none" = no Authorization header at all.  The last *)
(* four are refused outright when authentication is enabled:               *)
(*   expired   a token with ALL permissions, properly signed, past expiry  *)
(*   otherKey  a token with ALL permissions signed with a different secret *)
(*   garbage   not a token of this node: random text, truncated or         *)
(*             re-assembled tokens, "alg":"none", missing Bearer prefix    *)
(*   tampered  a properly signed read token whose payload was edited to    *)
(*             claim admin (signature no longer matches)                   *)
(* "adminOnly" is a properly signed token listing ONLY "admin": the        *)
(* permission list is a set, not a level -- it opens admin methods and     *)
(* nothing else (not even public ones).                                    *)
(***************************************************************************)
GoodCreds == {"none", "public", "read", "readwrite", "admin", "adminOnly"}
BadCreds  == {"expired", "otherKey", "garbage", "tampered"}
Creds == GoodCreds \cup BadCreds

Granted(c) ==
    CASE c = "none"      -> {"public"}            \* perms.DefaultPerms
      [] c = "public"    -> UpTo("public")
      [] c = "read"      -> UpTo("read")
      [] c = "readwrite" -> UpTo("write")
      [] c = "admin"     -> UpTo("admin")
      [] c = "adminOnly" -> {"admin"}
      [] OTHER           -> {}                    \* refused: grants nothing

\* c2 is at least as strong a credential as c1
Stronger(c1, c2) == Granted(c1) \subseteq Granted(c2)

(***************************************************************************)
(* Presentation forms: HOW a credential reaches the server.                *)
(*   bearer  `Authorization: Bearer <token>`          (the canonical form) *)
(*   query   `?token=<token>` in the URL              (accepted as well)   *)
(*   bare    `Authorization: <token>`                 no scheme            *)
(*   lower   `Authorization: bearer <token>`          wrong case           *)
(*   basic   `Authorization: Basic <token>`           another scheme       *)
(* and for a caller WITHOUT credentials the content type of the POST:      *)
(*   json    `Content-Type: application/json`                              *)
(*   urlenc  `Content-Type: application/x-www-form-urlencoded` (what       *)
(*           `curl -d` sends), the body being the same JSON-RPC request    *)
(* A credential that is not presented in a well-formed way is a malformed  *)
(* credential: with authentication enabled it grants nothing, whatever the *)
(* token inside is.  With authentication disabled nobody looks at it.      *)
(***************************************************************************)
TokenForms == {"bearer", "query", "bare", "lower", "basic"}
NoCredForms == {"json", "urlenc"}
WellFormed == {"bearer", "query"}
FormsOf(c) == IF c = "none" THEN NoCredForms ELSE TokenForms

\* the class a presented credential counts as
Eff(c, f) == IF c = "none" THEN "none" ELSE IF f \in WellFormed THEN c ELSE "garbage"

(***************************************************************************)
(* The policy table.                                                       *)
(***************************************************************************)
T(ns, level, names) == [x \in {ns \o "." \o n : n \in names} |-> level]

Required ==
    \* das: sampling statistics are read-only
    T("das", "read", {"SamplingStats", "WaitCatchUp"}) @@
    \* header: chain data, read-only
    T("header", "read", {"LocalHead", "GetByHash", "GetRangeByHeight", "GetByHeight", "WaitForHeight",
                         "SyncState", "SyncWait", "NetworkHead", "Tail", "Subscribe"}) @@
    \* state: queries read, everything that signs and broadcasts a transaction write
    T("state", "read", {"AccountAddress", "Balance", "BalanceForAddress", "QueryDelegationRewards",
                        "QueryDelegation", "QueryUnbonding", "QueryRedelegations"}) @@
    T("state", "write", {"Transfer", "SubmitPayForBlob", "CancelUnbondingDelegation", "BeginRedelegate",
                         "Undelegate", "Delegate", "WithdrawDelegatorReward", "GrantFee", "RevokeGrantFee"}) @@
    \* share: block data, read-only
    T("share", "read", {"SharesAvailable", "GetShare", "GetSamples", "GetEDS", "GetRow", "GetNamespaceData",
                        "GetRange"}) @@
    \* p2p: identity, peers, connection management -- administrators only
    T("p2p", "admin", {"Info", "Network", "Peers", "PeerInfo", "Connect", "ClosePeer", "Connectedness",
                       "NATStatus", "BlockPeer", "UnblockPeer", "ListBlockedPeers", "Protect", "Unprotect",
                       "IsProtected", "BandwidthStats", "BandwidthForPeer", "BandwidthForProtocol",
                       "ResourceState", "PubSubPeers", "PubSubTopics", "Ping", "ConnectionState"}) @@
    \* node: readiness probe read; identity, log levels, credentials admin
    T("node", "read", {"Ready"}) @@
    T("node", "admin", {"Info", "LogLevelSet", "AuthVerify", "AuthNew", "AuthNewWithExpiry"}) @@
    \* blob: retrieval and proofs read, submission write
    T("blob", "read", {"Get", "GetAll", "GetProof", "Included", "GetCommitmentProof", "Subscribe"}) @@
    T("blob", "write", {"Submit"}) @@
    \* blobstream: read-only
    T("blobstream", "read", {"GetDataRootTupleRoot", "GetDataRootTupleInclusionProof"})

Methods == DOMAIN Required
Modules == {"das", "header", "state", "share", "p2p", "node", "blob", "blobstream"}

(***************************************************************************)
(* Sensitive methods (the second sentence of the property).                *)
(***************************************************************************)
S(ns, names) == {ns \o "." \o n : n \in names}

Sensitive ==
    \* move funds / submit data
    S("state", {"Transfer", "SubmitPayForBlob", "CancelUnbondingDelegation", "BeginRedelegate", "Undelegate",
                "Delegate", "WithdrawDelegatorReward", "GrantFee", "RevokeGrantFee"}) \cup
    S("blob", {"Submit"}) \cup
    \* mint or verify credentials
    S("node", {"AuthVerify", "AuthNew", "AuthNewWithExpiry"}) \cup
    \* reveal node identity or peers
    S("node", {"Info"}) \cup
    S("p2p", {"Info", "Peers", "PeerInfo", "ListBlockedPeers", "PubSubPeers", "ConnectionState", "Connectedness"}) \cup
    \* reconfigure the node
    S("node", {"LogLevelSet"}) \cup
    S("p2p", {"Connect", "ClosePeer", "BlockPeer", "UnblockPeer", "Protect", "Unprotect"})

\* For methods the table does not know (added to the code later) the driver cannot decide sensitivity; it
\* flags a method as "looks sensitive" when its module or a part of its name is listed here.
SensitiveModules == {"p2p"}
SensitiveNameParts == {"Submit", "Transfer", "Delegate", "Redelegate", "Withdraw", "Grant", "Auth", "Token",
                       "Key", "Sign", "Info", "Peer", "Connect", "Block", "Protect", "LogLevel", "Set",
                       "Config", "Shutdown", "Stop", "Prune", "Delete", "Remove"}

ASSUME SensitiveInTable == Sensitive \subseteq Methods
ASSUME SensitiveNeedWriteOrAdmin == \A x \in Sensitive : Required[x] \in {"write", "admin"}
ASSUME TableWellFormed == \A x \in Methods : Required[x] \in Perms
ASSUME TableSize == Cardinality(Methods) = 72

(***************************************************************************)
(* Who gets through.                                                       *)
(***************************************************************************)
Reach(x, c, f, a) == (~a) \/ (Required[x] \in Granted(Eff(c, f)))

\* how a refused call is refused: the token itself is rejected (HTTP 401) or the permissioned proxy answers
\* "missing permission"
Refusal(x, c, f, a) ==
    IF Reach(x, c, f, a) THEN "-" ELSE IF Eff(c, f) \in BadCreds THEN "unauthorized" ELSE "missing-permission"

(***************************************************************************)
(* The matrix as a state space                                             *)
(***************************************************************************)
Init == m \in Methods /\ cred \in Creds /\ form \in FormsOf(cred) /\ auth \in BOOLEAN
Next == UNCHANGED vars
Spec == Init /\ [][Next]_vars

TypeOK == m \in Methods /\ cred \in Creds /\ form \in FormsOf(cred) /\ auth \in BOOLEAN

\* a stronger credential (presented the same way) reaches a superset
Monotone == \A c2 \in Creds \ {"none"} :
               (cred # "none" /\ Stronger(cred, c2) /\ Reach(m, cred, form, auth)) => Reach(m, c2, form, auth)

\* the minted token classes form a chain
Lattice == /\ Stronger("none", "public") /\ Stronger("public", "read")
           /\ Stronger("read", "readwrite") /\ Stronger("readwrite", "admin")
           /\ Granted("none") = Granted("public")

\* with authentication enabled a caller without a token reaches only public methods
NoTokenOnlyPublic == (auth /\ cred = "none" /\ Reach(m, cred, form, auth)) => Required[m] = "public"

\* expired, malformed or wrongly signed tokens grant nothing
BadTokensGrantNothing == (auth /\ cred \in BadCreds) => ~Reach(m, cred, form, auth)

\* ... and so does any token that is not presented as `Bearer <token>` / `?token=<token>`
MalformedPresentationGrantsNothing == (auth /\ cred # "none" /\ form \notin WellFormed) => ~Reach(m, cred, form, auth)

\* sensitive methods are out of reach of everything below write
SensitiveProtected ==
    (auth /\ m \in Sensitive /\ Reach(m, cred, form, auth)) => (Granted(Eff(cred, form)) \cap {"write", "admin"} # {})

\* exactness: reach is decided by the required level being granted, by nothing else
Exact == auth => (Reach(m, cred, form, auth) <=> Required[m] \in Granted(Eff(cred, form)))

\* authentication disabled opens everything to everybody (by design: --rpc.skip-auth), however odd the
\* credential a caller (or a proxy in front of the node) attaches
AuthOffOpensAll == ~auth => Reach(m, cred, form, auth)

(***************************************************************************)
(* Output for the driver                                                   *)
(***************************************************************************)
EmitCase == Emit => PrintT(<<"CASE", ToJson([m |-> m, cred |-> cred, form |-> form, auth |-> auth,
                                            reach |-> Reach(m, cred, form, auth), refusal |-> Refusal(m, cred, form, auth),
                                            required |-> Required[m], sensitive |-> m \in Sensitive])>>)

ASSUME Emit =>
    /\ PrintT(<<"TABLE", ToJson([x \in Methods |-> Required[x]])>>)
    /\ PrintT(<<"GRANTED", ToJson([c \in Creds |-> Granted(c)])>>)
    /\ PrintT(<<"SENSITIVE", ToJson([methods |-> Sensitive, modules |-> SensitiveModules, parts |-> SensitiveNameParts])>>)
=============================================================================
