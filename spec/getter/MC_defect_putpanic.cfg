\* generated by spec/getter/gen_cfgs.sh -- MC_defect_putpanic
SPECIFICATION Spec
CONSTANTS
  ReqTypes <- TypesSamples
  NItems = 1
  MaxAnswers = 1
  Chains <- ChainsAll
  NPeers = 3
  BlockStores <- StoresAll
  ClearOnFail = TRUE
  FreshDecode = FALSE
  PutPanics = TRUE
  AttemptTimeouts = FALSE
  CanonDecode = FALSE
  QuietCtxOnly = FALSE
INVARIANTS
  TypeOK
  NoPanic
VIEW View
CHECK_DEADLOCK FALSE
