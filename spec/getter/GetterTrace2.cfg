\* trace validation, calls with two items
SPECIFICATION TraceSpec
CONSTANTS
  ReqTypes <- TypesAll
  NItems = 2
  MaxAnswers = 8
  Chains <- ChainsAll
  NPeers = 20
  BlockStores <- StoresAll
  ClearOnFail = TRUE
  FreshDecode = TRUE
  PutPanics = FALSE
  AttemptTimeouts = TRUE
  CanonDecode = FALSE
  QuietCtxOnly = FALSE
INVARIANTS
  Accept
  OnlyVerified
  SuccessComplete
  NoPoisoning
  NotFoundIsNotFound
  NoPanic
  CascadeNoPartial
  BlockStoreSink
  PopulationRule
  BufferClean
POSTCONDITION Report
CHECK_DEADLOCK FALSE
