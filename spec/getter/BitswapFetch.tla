---------------------------- MODULE BitswapFetch ----------------------------
(***************************************************************************)
(* C06, bitswap getter: Fetch with overlapping calls.                      *)
(*                                                                         *)
(* Transcribes share/shwap/p2p/bitswap/block_fetch.go `fetch` together     *)
(* with the per-block UnmarshalFn (sample_block.go, row_block.go, ...) and *)
(* the multihash `hasher` that Bitswap runs on every incoming block:       *)
(*                                                                         *)
(*  - a call registers, per CID, the verifying unmarshal function of ITS   *)
(*    Block in the process-wide registry `unmarshalFns` -- unless another  *)
(*    call registered that CID before: then the Block is a *duplicate*,    *)
(*    still asked for, and unmarshalled by the call itself when the block  *)
(*    arrives through the channel;                                         *)
(*  - every incoming message is hashed once: the hasher looks up the       *)
(*    registered function by the CID inside the message and runs it; the   *)
(*    function starts with `if !Container.IsEmpty() { return nil }`, then  *)
(*    decodes, verifies against the roots and only then assigns the        *)
(*    container; a message the hasher rejects is dropped;                  *)
(*  - an accepted message is handed to every call that still wants the     *)
(*    CID; GetBlocks closes the channel when a call has everything it      *)
(*    asked for (at once for an empty want list) or when its context ends; *)
(*    fetch returns ctx.Err().                                             *)
(*                                                                         *)
(* Switches (the value of the code as it is in brackets):                  *)
(*   WantDuplicates [TRUE]  duplicates stay in the call's want list        *)
(*   VerifyBeforeAssign [TRUE] the container is assigned after verification*)
(*   ShortcutWhenPopulated [FALSE] the unmarshal function accepts anything *)
(*                      once its Block is populated (`if !IsEmpty() return *)
(*                      nil`): the code before repo commit 64c8839.  A     *)
(*                      duplicate that joins while the first requester     *)
(*                      still waits for its other blocks is then handed    *)
(*                      unverified bytes and fetch panics (found by this   *)
(*                      model, reproduced by the driver, repaired).        *)
(*   AtomicReceive      hashing a message and handing it to the sessions   *)
(*                      is one step.  FALSE separates the two, as the      *)
(*                      Bitswap client does (hash while decoding the       *)
(*                      network message, distribute later): see            *)
(*                      MCFetch_race.cfg (only matters together with the   *)
(*                      shortcut).                                         *)
(***************************************************************************)
EXTENDS Naturals, Sequences, FiniteSets, TLC, Json

CONSTANTS NCalls, NBlocks, MaxMsgs,
          WantDuplicates, VerifyBeforeAssign, ShortcutWhenPopulated, AtomicReceive,
          Staging   \* when messages may arrive relative to the calls entering fetch:
                    \*  "all"  only after every call has entered
                    \*  "join" once a call has entered; a later call joins only while every earlier one is
                    \*         still waiting for some block (the two stagings the replay can force)
                    \*  "free" any time

Calls == 1..NCalls
CIDs  == 1..NBlocks
Kinds == {"correct", "bad"}     \* bad: decodes as the container type, fails verification for this CID
                                \* (undecodable bytes never get past the hasher and change nothing)

VARIABLES
    phase,    \* per call: "idle" | "waiting" | "returned"
    reg,      \* registry: CID -> owning call, 0 if none
    wants,    \* per call: CIDs handed to GetBlocks
    dup,      \* per call: CIDs marked duplicate
    recv,     \* per call: CIDs received through the channel
    cont,     \* per call, per CID: Block.Container  "empty" | "good" | "bad"
    ret,      \* per call: "none" | "nil" | "err" | "panic"
    ctx,      \* "live" | "ended"   (one context for all calls)
    flight,   \* messages hashed and accepted, not yet handed to the sessions (only when ~AtomicReceive)
    stored,   \* message kinds the owner handed to the block store (WithStore)
    sent,     \* per CID: the messages that arrived, in order: kind, and how many calls had entered by then
    nmsg

vars == <<phase, reg, wants, dup, recv, cont, ret, ctx, flight, stored, sent, nmsg>>

Init ==
    /\ phase = [c \in Calls |-> "idle"] /\ reg = [b \in CIDs |-> 0]
    /\ wants = [c \in Calls |-> {}] /\ dup = [c \in Calls |-> {}] /\ recv = [c \in Calls |-> {}]
    /\ cont = [c \in Calls |-> [b \in CIDs |-> "empty"]]
    /\ ret = [c \in Calls |-> "none"] /\ ctx = "live" /\ flight = {} /\ stored = {}
    /\ sent = [b \in CIDs |-> <<>>] /\ nmsg = 0

(* fetch(): register or mark duplicate, build the want list, call GetBlocks.  Calls enter in order. *)
Enter(c) ==
    /\ phase[c] = "idle" /\ ctx = "live" /\ \A d \in Calls : d < c => phase[d] # "idle"
    /\ Staging = "join" => \A d \in Calls : d < c => (phase[d] = "waiting" /\ recv[d] # wants[d])
    /\ LET mine == {b \in CIDs : reg[b] = 0} IN
       /\ reg' = [b \in CIDs |-> IF b \in mine THEN c ELSE reg[b]]
       /\ dup' = [dup EXCEPT ![c] = CIDs \ mine]
       /\ wants' = [wants EXCEPT ![c] = IF WantDuplicates THEN CIDs ELSE mine]
    /\ phase' = [phase EXCEPT ![c] = "waiting"]
    /\ UNCHANGED <<recv, cont, ret, ctx, flight, stored, sent, nmsg>>

(* hasher.Write -> registered UnmarshalFn(owner's Block).  Returns <<accepted, owner's new container>>. *)
Hashed(b, k) ==
    LET o == reg[b] IN
    IF o = 0 THEN <<FALSE, "empty">>
    ELSE IF ShortcutWhenPopulated /\ cont[o][b] # "empty" THEN <<TRUE, cont[o][b]>>   \* accepted unseen
    ELSE IF k = "correct" THEN <<TRUE, "good">>
    ELSE IF VerifyBeforeAssign THEN <<FALSE, cont[o][b]>>     \* rejected, container untouched
    ELSE <<FALSE, "bad">>                                     \* decoded in place: rejected, but it stays there

(* the session hands block (b, k) to every call that still wants b *)
Distribute(b, k, cnt) ==
    LET takers == {c \in Calls : phase[c] = "waiting" /\ b \in wants[c] \ recv[c]} IN
    /\ recv' = [c \in Calls |-> IF c \in takers THEN recv[c] \cup {b} ELSE recv[c]]
    \* a duplicate unmarshals the bytes itself; a failure there is `panic("unmarshaling duplicate block")`
    /\ cont' = [c \in Calls |-> IF c \in takers /\ b \in dup[c]
                                THEN [cnt[c] EXCEPT ![b] = IF k = "correct" THEN "good" ELSE @]
                                ELSE cnt[c]]
    /\ ret' = [c \in Calls |-> IF c \in takers /\ b \in dup[c] /\ k # "correct" THEN "panic" ELSE ret[c]]
    /\ phase' = [c \in Calls |-> IF c \in takers /\ b \in dup[c] /\ k # "correct" THEN "returned" ELSE phase[c]]
    \* the owner (common case: populated by the hasher) stores the received bytes if asked to
    /\ stored' = IF \E c \in takers : b \notin dup[c] THEN stored \cup {k} ELSE stored

Message(b, k) ==
    /\ nmsg < MaxMsgs /\ ctx = "live"
    /\ Staging = "all" => \A c \in Calls : phase[c] # "idle"
    /\ Staging = "join" => \E c \in Calls : phase[c] # "idle"
    /\ nmsg' = nmsg + 1
    /\ sent' = [sent EXCEPT ![b] = Append(@, [k |-> k, e |-> Cardinality({c \in Calls : phase[c] # "idle"})])]
    /\ LET h == Hashed(b, k)
           cnt == IF reg[b] = 0 THEN cont ELSE [cont EXCEPT ![reg[b]][b] = h[2]] IN
       IF ~h[1] THEN cont' = cnt /\ UNCHANGED <<recv, ret, phase, stored, flight>>
       ELSE IF AtomicReceive THEN Distribute(b, k, cnt) /\ UNCHANGED flight
       ELSE cont' = cnt /\ flight' = flight \cup {<<b, k, nmsg>>} /\ UNCHANGED <<recv, ret, phase, stored>>
    /\ UNCHANGED <<reg, wants, dup, ctx>>

Deliver(m) ==
    /\ ~AtomicReceive /\ m \in flight
    /\ flight' = flight \ {m}
    /\ Distribute(m[1], m[2], cont)
    /\ UNCHANGED <<reg, wants, dup, ctx, sent, nmsg>>

Unregister(c) == reg' = [b \in CIDs |-> IF reg[b] = c THEN 0 ELSE reg[b]]

(* the channel closes: everything asked for arrived (or nothing was asked for) *)
Finish(c) ==
    /\ phase[c] = "waiting" /\ recv[c] = wants[c] /\ ctx = "live"
    /\ phase' = [phase EXCEPT ![c] = "returned"] /\ ret' = [ret EXCEPT ![c] = "nil"]
    /\ Unregister(c)
    /\ UNCHANGED <<wants, dup, recv, cont, ctx, flight, stored, sent, nmsg>>

CtxEnds ==
    /\ ctx = "live" /\ \A c \in Calls : phase[c] # "idle"
    /\ ctx' = "ended"
    /\ UNCHANGED <<phase, reg, wants, dup, recv, cont, ret, flight, stored, sent, nmsg>>

ReturnErr(c) ==
    /\ phase[c] = "waiting" /\ ctx = "ended"
    /\ phase' = [phase EXCEPT ![c] = "returned"] /\ ret' = [ret EXCEPT ![c] = "err"]
    /\ Unregister(c)
    /\ UNCHANGED <<wants, dup, recv, cont, ctx, flight, stored, sent, nmsg>>

Next ==
    \/ \E c \in Calls : Enter(c) \/ Finish(c) \/ ReturnErr(c)
    \/ \E b \in CIDs, k \in Kinds : Message(b, k)
    \/ \E m \in flight : Deliver(m)
    \/ CtxEnds

AllReturned == \A c \in Calls : phase[c] = "returned"
Spec == Init /\ [][Next \/ (AllReturned /\ UNCHANGED vars)]_vars
FairSpec == Spec /\ WF_vars(Next) /\ WF_vars(CtxEnds)

-----------------------------------------------------------------------------
(* a call that returns no error has every one of its Blocks populated with verified data *)
NilMeansPopulated == \A c \in Calls : ret[c] = "nil" => \A b \in CIDs : cont[c][b] = "good"
(* whatever a call returns: no container holds data that failed verification *)
OnlyVerified == \A c \in Calls : ret[c] \in {"nil", "err"} => \A b \in CIDs : cont[c][b] \in {"empty", "good"}
(* fetch never panics *)
NoPanic == \A c \in Calls : ret[c] # "panic"
(* only verified bytes reach the block store *)
StoreSink == stored \subseteq {"correct"}
(* when every CID's last message was honest and nothing is in flight, nobody is left without data *)
Terminates == <>AllReturned

TypeOK == /\ \A c \in Calls : phase[c] \in {"idle", "waiting", "returned"} /\ ret[c] \in {"none", "nil", "err", "panic"}
          /\ \A b \in CIDs : reg[b] \in 0..NCalls

CaseRecord == [calls |-> NCalls, blocks |-> NBlocks, offers |-> sent, ctx |-> ctx,
               ret |-> ret, cont |-> cont]
PrintCases == AllReturned => PrintT(<<"CASE", ToJson(CaseRecord)>>)
=============================================================================
