\* BitswapFetch.tla -- MCFetch_defect_nodupwant
SPECIFICATION Spec
CONSTANTS
  NCalls = 2
  NBlocks = 1
  MaxMsgs = 2
  WantDuplicates = FALSE
  VerifyBeforeAssign = TRUE
  ShortcutWhenPopulated = FALSE
  AtomicReceive = TRUE
  Staging = "free"
INVARIANTS
  TypeOK
  NilMeansPopulated
CHECK_DEADLOCK FALSE
