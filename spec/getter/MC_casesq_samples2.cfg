\* generated by spec/getter/gen_cfgs.sh -- MC_casesq_samples2
SPECIFICATION Spec
CONSTANTS
  ReqTypes <- TypesSamples
  NItems = 2
  MaxAnswers = 1
  Chains <- ChainsDirect
  NPeers = 3
  BlockStores <- StoresAll
  ClearOnFail = TRUE
  FreshDecode = TRUE
  PutPanics = FALSE
  AttemptTimeouts = FALSE
  CanonDecode = TRUE
  QuietCtxOnly = TRUE
INVARIANTS
  TypeOK
  PrintCases

CHECK_DEADLOCK FALSE
