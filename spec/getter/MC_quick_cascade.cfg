\* generated by spec/getter/gen_cfgs.sh -- MC_quick_cascade
SPECIFICATION Spec
CONSTANTS
  ReqTypes <- TypesAll
  NItems = 1
  MaxAnswers = 1
  Chains <- ChainsCascade
  NPeers = 2
  BlockStores <- StoresAll
  ClearOnFail = TRUE
  FreshDecode = TRUE
  PutPanics = FALSE
  AttemptTimeouts = TRUE
  CanonDecode = FALSE
  QuietCtxOnly = FALSE
INVARIANTS
  TypeOK
  OnlyVerified
  SuccessComplete
  NoPoisoning
  NotFoundIsNotFound
  NoPanic
  CascadeNoPartial
  BlockStoreSink
  PopulationRule
  BufferClean
VIEW View
CHECK_DEADLOCK FALSE
