\* generated by spec/getter/gen_cfgs.sh -- MC_cases_timeouts
SPECIFICATION Spec
CONSTANTS
  ReqTypes <- TypesAll
  NItems = 1
  MaxAnswers = 2
  Chains <- ChainsShrexOnly
  NPeers = 3
  BlockStores <- StoresLight
  ClearOnFail = TRUE
  FreshDecode = TRUE
  PutPanics = FALSE
  AttemptTimeouts = TRUE
  CanonDecode = TRUE
  QuietCtxOnly = TRUE
INVARIANTS
  TypeOK
  PrintCases

CHECK_DEADLOCK FALSE
