------------------------------ MODULE MCGetter ------------------------------
(* Model-checking instances of Getter.tla.  Configuration files cannot write sequences or sets of
   strings conveniently, so the parameter sets are operators here. *)
EXTENDS Getter

TypesAll     == {"samples", "row", "eds", "nd", "range"}
TypesSamples == {"samples"}
TypesRange   == {"range"}

ChainsShrexOnly == {<<"shrex">>}
ChainsDirect    == {<<"shrex">>, <<"bitswap">>}
ChainsCascade   == {<<"shrex", "bitswap">>, <<"store", "shrex", "bitswap">>}
ChainsAll       == ChainsDirect \cup ChainsCascade

StoresLight == {"datastore"}
StoresAll   == {"datastore", "edsstore"}
=============================================================================
