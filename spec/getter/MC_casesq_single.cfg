\* generated by spec/getter/gen_cfgs.sh -- MC_casesq_single
SPECIFICATION Spec
CONSTANTS
  ReqTypes <- TypesAll
  NItems = 1
  MaxAnswers = 2
  Chains <- ChainsDirect
  NPeers = 3
  BlockStores <- StoresAll
  ClearOnFail = TRUE
  FreshDecode = TRUE
  PutPanics = FALSE
  AttemptTimeouts = FALSE
  CanonDecode = TRUE
  QuietCtxOnly = TRUE
INVARIANTS
  TypeOK
  PrintCases

CHECK_DEADLOCK FALSE
