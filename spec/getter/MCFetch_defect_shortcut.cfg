\* BitswapFetch.tla -- MCFetch_defect_shortcut
SPECIFICATION Spec
CONSTANTS
  NCalls = 2
  NBlocks = 2
  MaxMsgs = 3
  WantDuplicates = TRUE
  VerifyBeforeAssign = TRUE
  ShortcutWhenPopulated = TRUE
  AtomicReceive = TRUE
  Staging = "join"
INVARIANTS
  TypeOK
  NoPanic
CHECK_DEADLOCK FALSE
