---------------------------- MODULE MCGetterTrace ----------------------------
EXTENDS GetterTrace
TypesAll   == {"samples", "row", "eds", "nd", "range"}
ChainsAll  == {<<"shrex">>, <<"bitswap">>, <<"shrex", "bitswap">>, <<"store", "shrex", "bitswap">>}
StoresAll  == {"datastore", "edsstore"}
=============================================================================
