\* BitswapFetch.tla -- MCFetch_cases2
SPECIFICATION Spec
CONSTANTS
  NCalls = 2
  NBlocks = 1
  MaxMsgs = 2
  WantDuplicates = TRUE
  VerifyBeforeAssign = TRUE
  ShortcutWhenPopulated = FALSE
  AtomicReceive = TRUE
  Staging = "all"
INVARIANTS
  TypeOK
  PrintCases
CHECK_DEADLOCK FALSE
