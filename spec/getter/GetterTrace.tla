---------------------------- MODULE GetterTrace ----------------------------
(***************************************************************************)
(* Trace validation of the real getters against Getter.tla (binding B1).   *)
(*                                                                         *)
(* harness/drivers/getter replays fault sequences on the real shrex        *)
(* getter, bitswap getter and cascades and writes one NDJSON line per      *)
(* call: the request, the cascade order, what the peers actually served    *)
(* per item (kinds, in order), what the exchange offered per block, how    *)
(* and at which kind of point the caller's context ended, and what came    *)
(* back (error or not, class of every item of the returned value as judged *)
(* by the harness' oracle, panic).                                         *)
(*                                                                         *)
(* Every line is one initial state here (`tr`).  The environment's choices *)
(* of Getter.tla are pinned to the recorded ones; what stays free is what  *)
(* the harness cannot observe: how the bytes decoded (Decode), the         *)
(* interleaving of the items, and -- for wall-clock cases -- the moment    *)
(* the context ended.  A line is accepted iff some behaviour of the        *)
(* specification ends with exactly the recorded outcome.  Accepted lines   *)
(* are collected in TLC register 1; the post-condition prints the          *)
(* rejected ones (conformance drift, or a violation the oracle reported).  *)
(* All invariants of Getter.tla are evaluated on the matched behaviours.   *)
(***************************************************************************)
EXTENDS Getter, IOUtils

VARIABLE tr

Log   == ndJsonDeserialize(IOEnv.VERIF_TRACE)
Mine  == {n \in 1..Len(Log) : Len(Log[n].items) = NItems}
T     == Log[tr]

ASSUME TLCSet(1, {})

TraceInit ==
    /\ tr \in Mine
    /\ p = [type |-> T.type, rows |-> T.rows, chain |-> T.chain, storeHas |-> T.storeHas,
            blockstore |-> T.blockstore]
    /\ InitRest

ShrexConsumed == \A i \in Items : Len(hist[i]) = Len(T.items[i])
BsConsumed    == \A i \in Items : Len(bshist[i]) = Len(T.bs[i])

CtxPoint ==
    CASE T.timing = "start"     -> g = 0
      [] T.timing = "quiescent" -> /\ g > 0
                                   /\ Running("shrex") => (ShrexConsumed /\ \A i \in Items : pc[i] \in {"wait", "done"})
                                   /\ Running("bitswap") => BsConsumed
      [] OTHER                  -> TRUE       \* wall clock: anywhere

TraceNext ==
    /\ UNCHANGED tr
    /\ \/ Call \/ StoreGet \/ ShrexReturn \/ BsDone \/ BsCtx
       \/ (T.timing = "wall" /\ SubDeadline)
       \/ (T.ctx # "live" /\ CtxPoint /\ CtxEnds(T.ctx))
       \/ \E i \in Items :
            \/ ReturnCtx(i) \/ NextAttempt(i) \/ PickPeer(i) \/ PickPeerCtx(i) \/ Interrupt(i)
            \/ (Timeout(i) /\ (ICtx # "live" \/ T.ato))    \* an attempt of its own times out only where the
                                                            \* driver lowered the getter's one-minute floor
            \/ VerifyOK(i) \/ VerifyFail(i) \/ Classify(i)
            \/ /\ Len(hist[i]) < Len(T.items[i])
               /\ \E dec \in {"good", "bad", "bad2", "nil", "same", "zero", "none"} :
                     Request(i, T.items[i][Len(hist[i]) + 1], dec)
            \/ /\ Len(bshist[i]) < Len(T.bs[i])
               /\ \E acc \in BOOLEAN : BsOffer(i, T.bs[i][Len(bshist[i]) + 1], acc)
            \/ BsStore(i)

TraceSpec == TraceInit /\ [][TraceNext]_<<vars, tr>>

Matches ==
    /\ ShrexConsumed /\ BsConsumed
    /\ panic = T.panic
    /\ ~panic => /\ final.ok = T.ok
                 /\ \A i \in Items : final.items[i] = T.out[i]
    /\ ctx = T.ctx

Accept == (Done /\ Matches) => TLCSet(1, TLCGet(1) \cup {tr})

Report ==
    /\ PrintT(<<"TRACES", ToJson([mine |-> Cardinality(Mine), accepted |-> Cardinality(TLCGet(1))])>>)
    /\ PrintT(<<"REJECTED", ToJson(Mine \ TLCGet(1))>>)

TraceView == <<View, tr, hist, bshist>>
=============================================================================
