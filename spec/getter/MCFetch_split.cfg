\* BitswapFetch.tla -- MCFetch_split
SPECIFICATION Spec
CONSTANTS
  NCalls = 2
  NBlocks = 2
  MaxMsgs = 3
  WantDuplicates = TRUE
  VerifyBeforeAssign = TRUE
  ShortcutWhenPopulated = FALSE
  AtomicReceive = FALSE
  Staging = "free"
INVARIANTS
  TypeOK
  NilMeansPopulated
  OnlyVerified
  NoPanic
  StoreSink
CHECK_DEADLOCK FALSE
