\* BitswapFetch.tla -- MCFetch_cases1
SPECIFICATION Spec
CONSTANTS
  NCalls = 1
  NBlocks = 1
  MaxMsgs = 2
  WantDuplicates = TRUE
  VerifyBeforeAssign = TRUE
  ShortcutWhenPopulated = FALSE
  AtomicReceive = TRUE
  Staging = "all"
INVARIANTS
  TypeOK
  PrintCases
CHECK_DEADLOCK FALSE
