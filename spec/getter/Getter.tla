------------------------------- MODULE Getter -------------------------------
(***************************************************************************)
(* C06 -- getters hand back only verified data, even when peers misbehave. *)
(*                                                                         *)
(* The module transcribes, action by action,                               *)
(*   share/shwap/p2p/shrex/shrex_getter/shrex.go   executeRequest and the  *)
(*        five Get* methods built on it (response buffer + verify closure) *)
(*   share/shwap/p2p/shrex/client.go               status / payload decode *)
(*   share/shwap/p2p/bitswap/getter.go, block_fetch.go  (population rule,  *)
(*        block-store sink)                                                *)
(*   share/shwap/getters/cascade.go                cascadeGetters          *)
(*   store/getter.go                               local store in front    *)
(*                                                                         *)
(* It is written to be bound: the history variables `hist`/`bshist` are    *)
(* the fault sequences; every terminal state prints one CASE record that   *)
(* harness/drivers/getter replays against the real getters on a mock       *)
(* network and compares with what the model says comes back (B2).          *)
(*                                                                         *)
(* The code's oddities are kept as switches so that TLC shows them (the    *)
(* values of the code before its repair, commits f0aff97 / af855f8 of the  *)
(* repository, and 1e47c79 for the container's ReadFrom; the MC_defect_*   *)
(* configurations set them and must fail):                                 *)
(*   ClearOnFail = FALSE : a payload that decoded but failed verification  *)
(*       stays in the response buffer (samples[i]) -- returned next to the  *)
(*       error when the remaining attempts bring no payload                *)
(*   FreshDecode = FALSE : RangeNamespaceData.ReadFrom leaves the previous *)
(*       answer's last-row proof in place when the new answer has one row  *)
(*   PutPanics  = TRUE   : bitswap.Blockstore.Put panics ("not             *)
(*       implemented"); the bitswap getter stores fetched samples there    *)
(***************************************************************************)
EXTENDS Naturals, Sequences, FiniteSets, TLC, Json

CONSTANTS
    ReqTypes,         \* subset of {"samples","row","eds","nd","range"} explored by this run
    NItems,           \* items fetched in parallel: coordinates of a samples request, else 1
                      \* (for the bitswap getter: blocks of the request)
    MaxAnswers,       \* length bound of the fault sequence per item
    Chains,           \* set of cascade orders over {"store","shrex","bitswap"}; <<"shrex">> = the getter by itself
    NPeers,           \* peers in the pool the peer manager hands out
    BlockStores,      \* sinks of the bitswap getter explored: "datastore" (light) | "edsstore" (bridge)
    ClearOnFail, FreshDecode, PutPanics,
    AttemptTimeouts,  \* a single attempt may time out while the caller's context is alive (split timeout)
    QuietCtxOnly,     \* TRUE: the caller's context ends only before the call or at a quiescent point (the
                      \* points the replay can force without a wall clock); FALSE: anywhere
    CanonDecode       \* TRUE: every answer kind decodes in one canonical way (used to enumerate the fault
                      \* sequences for the replay: behaviours then correspond one-to-one to kind sequences)

(* The request is chosen in the initial state and never changes: one TLC run covers every request
   type, cascade order, block store, and both outcomes of the local store. *)
VARIABLE p
ReqType    == p.type
ReqRows    == p.rows        \* range requests only: 1 = inside one row, 2 = spans rows (has a last-row proof)
Chain      == p.chain
StoreHas   == p.storeHas    \* the local store holds the block (store getter hit)
BlockStore == p.blockstore

InChain(c, name) == \E n \in 1..Len(c) : c[n] = name
Params ==
    {q \in [type : ReqTypes, rows : {1, 2}, chain : Chains, storeHas : BOOLEAN, blockstore : BlockStores] :
        /\ (q.rows = 2 => q.type = "range")
        /\ (q.storeHas => InChain(q.chain, "store"))
        /\ (~(InChain(q.chain, "bitswap") /\ q.type = "samples") => q.blockstore = CHOOSE b \in BlockStores : TRUE)}
           \* only GetSamples writes to the block store

Items == 1..NItems

(* What a peer can do with one request. *)
PayloadKinds == {"correct", "other", "trunc", "ext", "garble", "emptyok"}
StatusKinds  == {"notfound", "internal", "badstatus", "reset"}
Kinds        == PayloadKinds \cup StatusKinds \cup {"silent"}
BsKinds      == {"correct", "other", "trunc", "ext", "garble"}      \* candidate blocks the exchange may see

(***************************************************************************)
(* Decoding (client.go doRequest -> resp.ReadFrom).  What the bytes do to  *)
(* the response buffer:                                                    *)
(*   good  decoded, is the committed data for the requested position       *)
(*   bad   decoded, well-formed, not the committed data for that position  *)
(*   bad2  (range) as bad, and the answer spans rows: it sets a last-row   *)
(*         proof                                                           *)
(*   nil   decoded to the empty container (zero messages)                  *)
(*   same  decode error before anything was assigned: buffer untouched     *)
(*   zero  decode error after the container was overwritten with its zero  *)
(*         value (`*s, err = SampleFromProto(..)`, `*r, err = RowFromProto`)*)
(* The sets are what the concrete variants of each kind can produce for    *)
(* some container type; they over-approximate per type (sound for the      *)
(* invariants; the replay compares against the set).                       *)
(***************************************************************************)
CanonDec(k) ==
    CASE k = "correct" -> {"good"}
      [] k = "other"   -> IF ReqType = "range" /\ ReqRows = 1 THEN {"bad2"} ELSE {"bad"}
      [] k = "trunc"   -> {"same"}
      [] k = "ext"     -> {"bad"}
      [] k = "garble"  -> {"bad"}
      [] k = "emptyok" -> {"nil"}
      [] OTHER         -> {}

Decode(k) ==
    IF CanonDecode THEN CanonDec(k) ELSE
    CASE k = "correct" -> {"good"}
      [] k = "other"   -> IF ReqType = "range" THEN {"bad", "bad2"} ELSE {"bad"}
      [] k = "trunc"   -> {"bad", "same", "zero", "nil"} \cup (IF ReqType = "eds" THEN {"good"} ELSE {})
                          \* eds: a cut at a share boundary inside the tail padding is refilled by ReadShares
      [] k = "ext"     -> {"good", "bad", "same", "zero"}
                          \* one-message containers ignore trailing bytes; stream containers do not
      [] k = "garble"  -> {"good", "bad", "same", "zero"}
                          \* a flipped bit in an unused proto field / ignored proof field (the proof's leaf hash)
                          \* decodes to the same value
      [] k = "emptyok" -> {"nil", "same"}
      [] OTHER         -> {}

Empty == [main |-> "empty", last |-> "nil"]

VARIABLES
    ctx,      \* caller's context: "live" | "deadline" | "cancelled"
    g,        \* index in Chain of the running getter; 0 before the call, Len(Chain)+1 after
    gctx,     \* the running getter's context (child of ctx; the cascade gives it a split deadline)
    pc,       \* shrex getter, per item: "idle","loop","pick","req","verify","fail","wait","done"
    buf,      \* shrex getter, per item: the response buffer [main: empty|good|bad, last: nil|own|stale]
    getErr,   \* shrex getter, per item: error class of the attempt being classified
    err,      \* shrex getter, per item: joined error classes so far
    res,      \* shrex getter, per item: "run" | "ok" | "err"
    nAns,     \* answers consumed per item
    lastK,    \* kind of the last answer per item
    avail,    \* peers the manager can still hand out
    blk,      \* bitswap getter, per block: "empty" | "good"  (Block.Container)
    bsN,      \* candidate blocks seen per block
    toStore,  \* blocks received from the channel and not yet offered to the block store
    stored,   \* what the bitswap getter has put into the block store
    rets,     \* sequence of getter returns [getter, ok, items, errs]
    final,    \* what the caller gets: [done, ok, items, errs]
    panic,    \* a panic reached the caller
    \* ---- ghosts
    poisoned, \* a correct answer was rejected
    onlyNF,   \* per item: every answer so far was "not found" (or silence)
    sawNF,    \* per item: some answer was "not found"
    popBy,    \* per block: kind of the candidate that populated it
    hist, bshist, timing, usedTimeout

vars == <<p, ctx, g, gctx, pc, buf, getErr, err, res, nAns, lastK, avail, blk, bsN, toStore, stored, rets, final,
          panic, poisoned, onlyNF, sawNF, popBy, hist, bshist, timing, usedTimeout>>

shrexVars == <<pc, buf, getErr, err, res, nAns, lastK, avail, poisoned, onlyNF, sawNF, hist, usedTimeout>>
bsVars    == <<blk, bsN, toStore, stored, popBy, bshist>>

Running(name) == g \in 1..Len(Chain) /\ Chain[g] = name /\ ~final.done /\ ~panic
Zero  == [i \in Items |-> "empty"]
AllGood == [i \in Items |-> "good"]

InitRest ==
    /\ ctx = "live" /\ g = 0 /\ gctx = "live"
    /\ pc = [i \in Items |-> "idle"] /\ buf = [i \in Items |-> Empty]
    /\ getErr = [i \in Items |-> "none"] /\ err = [i \in Items |-> {}]
    /\ res = [i \in Items |-> "run"] /\ nAns = [i \in Items |-> 0] /\ lastK = [i \in Items |-> "none"]
    /\ avail = NPeers
    /\ blk = [i \in Items |-> "empty"] /\ bsN = [i \in Items |-> 0] /\ toStore = {} /\ stored = {}
    /\ rets = <<>> /\ final = [done |-> FALSE, ok |-> FALSE, items |-> Zero, errs |-> {}]
    /\ panic = FALSE /\ poisoned = FALSE /\ onlyNF = [i \in Items |-> TRUE] /\ sawNF = [i \in Items |-> FALSE]
    /\ popBy = [i \in Items |-> "none"]
    /\ hist = [i \in Items |-> <<>>] /\ bshist = [i \in Items |-> <<>>]
    /\ timing = "none" /\ usedTimeout = FALSE

Init == p \in Params /\ InitRest

(***************************************************************************)
(* The caller's context.  `timing` remembers at which kind of point it     *)
(* ended, so that the replay knows whether it can force the same point     *)
(* without a wall clock: "start" (before the call), "quiescent" (every     *)
(* unfinished item is waiting on a silent peer / no block is in flight),   *)
(* "other" (somewhere in between: replayed with a wall clock, outcome not  *)
(* compared).                                                              *)
(***************************************************************************)
Quiescent ==
    \/ g = 0
    \/ Running("shrex")  /\ \A i \in Items : pc[i] \in {"wait", "done"} \/ (pc[i] = "pick" /\ avail = 0)
    \/ Running("bitswap") /\ toStore = {}
    \/ Running("store")

CtxEnds(c) ==
    /\ ctx = "live" /\ ~final.done /\ ~panic
    /\ QuietCtxOnly => Quiescent
    /\ ctx' = c
    /\ gctx' = IF gctx = "live" THEN c ELSE gctx
    /\ timing' = IF g = 0 THEN "start" ELSE IF Quiescent THEN "quiescent" ELSE "other"
    /\ UNCHANGED <<p, g, shrexVars, bsVars, rets, final, panic>>

(* cascade.go: CtxWithSplitTimeout gives every getter but the last a share of the remaining time *)
SubDeadline ==
    /\ Len(Chain) > 1 /\ g \in 1..(Len(Chain) - 1) /\ ctx = "live" /\ gctx = "live" /\ ~final.done /\ ~panic
    /\ gctx' = "deadline"
    /\ timing' = IF timing = "none" THEN "sub" ELSE timing
    /\ UNCHANGED <<p, ctx, g, shrexVars, bsVars, rets, final, panic>>

(***************************************************************************)
(* Call start / cascade.                                                   *)
(***************************************************************************)
StartGetter(n) ==
    /\ g' = n
    /\ gctx' = ctx
    /\ pc' = [i \in Items |-> IF Chain[n] = "shrex" THEN "loop" ELSE "idle"]
    /\ buf' = [i \in Items |-> Empty] /\ getErr' = [i \in Items |-> "none"] /\ err' = [i \in Items |-> {}]
    /\ res' = [i \in Items |-> "run"]

Call ==
    /\ g = 0
    /\ StartGetter(1)
    /\ UNCHANGED <<p, ctx, nAns, lastK, avail, bsVars, rets, final, panic, poisoned, onlyNF, sawNF,
                   hist, timing, usedTimeout>>

(* A getter returned r.  Alone, its result is the caller's.  In a cascade: first error-free result
   wins, a failed getter's partial value is discarded, the context's end ends the cascade with the
   context's error, the last failure ends it with "all getters failed". *)
Deliver(r) ==
    /\ rets' = Append(rets, r)
    /\ IF Len(Chain) = 1
       THEN /\ final' = [done |-> TRUE, ok |-> r.ok, items |-> r.items, errs |-> r.errs]
            /\ UNCHANGED <<g, gctx, pc, buf, getErr, err, res>>
       ELSE IF r.ok
       THEN /\ final' = [done |-> TRUE, ok |-> TRUE, items |-> r.items, errs |-> {}]
            /\ UNCHANGED <<g, gctx, pc, buf, getErr, err, res>>
       ELSE IF ctx # "live"
       THEN /\ final' = [done |-> TRUE, ok |-> FALSE, items |-> Zero, errs |-> {ctx}]
            /\ UNCHANGED <<g, gctx, pc, buf, getErr, err, res>>
       ELSE IF g = Len(Chain)
       THEN /\ final' = [done |-> TRUE, ok |-> FALSE, items |-> Zero, errs |-> {"allfailed"}]
            /\ UNCHANGED <<g, gctx, pc, buf, getErr, err, res>>
       ELSE /\ StartGetter(g + 1)
            /\ UNCHANGED final

(***************************************************************************)
(* store/getter.go                                                         *)
(***************************************************************************)
(* The accessor calls behind the store getter take the context: with a context that is already over
   some of them fail (namespace data is gathered by an errgroup bound to it), others do not look. *)
StoreGet ==
    /\ Running("store")
    /\ \E hit \in BOOLEAN :
         /\ hit => StoreHas
         /\ (~hit /\ StoreHas) => gctx # "live"
         /\ Deliver(IF hit THEN [getter |-> "store", ok |-> TRUE, items |-> AllGood, errs |-> {}]
                    ELSE [getter |-> "store", ok |-> FALSE, items |-> Zero,
                          errs |-> IF StoreHas THEN {gctx} ELSE {"notfound"}])
    /\ UNCHANGED <<p, ctx, nAns, lastK, avail, bsVars, panic, poisoned, onlyNF, sawNF, hist, timing, usedTimeout>>

(***************************************************************************)
(* shrex getter: executeRequest, one instance per item (errgroup).         *)
(* The errgroup context ends for everybody once one item has failed.       *)
(***************************************************************************)
ICtx == IF gctx # "live" THEN gctx
        ELSE IF \E j \in Items : res[j] = "err" THEN "cancelled" ELSE "live"

ItemReturnsErr(i, cls) ==
    /\ res' = [res EXCEPT ![i] = "err"]
    /\ err' = [err EXCEPT ![i] = @ \cup cls]
    /\ pc'  = [pc EXCEPT ![i] = "done"]

(* shrex.go:427-430  `if ctx.Err() != nil { return errors.Join(err, ctx.Err()) }` *)
ReturnCtx(i) ==
    /\ Running("shrex") /\ pc[i] = "loop" /\ ICtx # "live"
    /\ ItemReturnsErr(i, {ICtx})
    /\ UNCHANGED <<p, ctx, g, gctx, buf, getErr, nAns, lastK, avail, bsVars, rets, final, panic, poisoned, onlyNF, sawNF,
                   hist, timing, usedTimeout>>

NextAttempt(i) ==
    /\ Running("shrex") /\ pc[i] = "loop" /\ ICtx = "live"
    /\ pc' = [pc EXCEPT ![i] = "pick"]
    /\ UNCHANGED <<p, ctx, g, gctx, buf, getErr, err, res, nAns, lastK, avail, bsVars, rets, final, panic, poisoned,
                   onlyNF, sawNF, hist, timing, usedTimeout>>

(* peers.Manager.Peer: a peer if one is active, else it waits until one appears or the context ends *)
PickPeer(i) ==
    /\ Running("shrex") /\ pc[i] = "pick" /\ avail > 0 /\ ICtx = "live"
    /\ pc' = [pc EXCEPT ![i] = "req"]
    /\ UNCHANGED <<p, ctx, g, gctx, buf, getErr, err, res, nAns, lastK, avail, bsVars, rets, final, panic, poisoned,
                   onlyNF, sawNF, hist, timing, usedTimeout>>

PickPeerCtx(i) ==       \* shrex.go:435-441 getPeer error -> return errors.Join(err, getErr)
    /\ Running("shrex") /\ pc[i] = "pick" /\ ICtx # "live"
    /\ ItemReturnsErr(i, {ICtx})
    /\ UNCHANGED <<p, ctx, g, gctx, buf, getErr, nAns, lastK, avail, bsVars, rets, final, panic, poisoned, onlyNF, sawNF,
                   hist, timing, usedTimeout>>

DecodeInto(b, dec) ==
    CASE dec = "good" -> [main |-> "good",
                          last |-> IF ReqType = "range" /\ ReqRows = 2 THEN "own"
                                   ELSE IF b.last = "nil" \/ FreshDecode THEN "nil" ELSE "stale"]
      [] dec = "bad"  -> [main |-> "bad", last |-> IF b.last = "nil" \/ FreshDecode THEN "nil" ELSE "stale"]
      [] dec = "bad2" -> [main |-> "bad", last |-> "own"]
      [] dec = "nil"  -> [main |-> "empty", last |-> IF FreshDecode THEN "nil" ELSE b.last]
      [] dec = "zero" -> Empty
      [] OTHER        -> b                       \* "same"

(* req(reqCtx, peer): the peer's answer k, decoded as dec *)
Request(i, k, dec) ==
    /\ Running("shrex") /\ pc[i] = "req" /\ ICtx = "live"
    /\ k \in Kinds /\ (nAns[i] < MaxAnswers \/ k = "silent")
    /\ IF k \in PayloadKinds THEN dec \in Decode(k) ELSE dec = "none"
    /\ nAns' = [nAns EXCEPT ![i] = IF k = "silent" /\ @ >= MaxAnswers THEN @ ELSE @ + 1]
    /\ hist' = [hist EXCEPT ![i] = Append(@, <<k, dec>>)]
    /\ lastK' = [lastK EXCEPT ![i] = k]
    /\ onlyNF' = [onlyNF EXCEPT ![i] = @ /\ k \in {"notfound", "silent"}]
    /\ sawNF' = [sawNF EXCEPT ![i] = @ \/ k = "notfound"]
    /\ IF k \in PayloadKinds
       THEN /\ buf' = [buf EXCEPT ![i] = DecodeInto(@, dec)]
            /\ IF dec \in {"good", "bad", "bad2", "nil"}
               THEN pc' = [pc EXCEPT ![i] = "verify"] /\ UNCHANGED getErr
               ELSE pc' = [pc EXCEPT ![i] = "fail"] /\ getErr' = [getErr EXCEPT ![i] = "invalid"]
       ELSE /\ UNCHANGED buf
            /\ IF k = "silent"
               THEN pc' = [pc EXCEPT ![i] = "wait"] /\ UNCHANGED getErr
               ELSE /\ pc' = [pc EXCEPT ![i] = "fail"]
                    /\ getErr' = [getErr EXCEPT ![i] = IF k = "notfound" THEN "notfound" ELSE "peer"]
                          \* "peer": INTERNAL status, unknown status, reset -- all take the default branch
    /\ UNCHANGED <<p, ctx, g, gctx, err, res, avail, bsVars, rets, final, panic, poisoned, timing, usedTimeout>>

(* the context ended before / while the request was made: Get returns the context's error *)
Interrupt(i) ==
    /\ Running("shrex") /\ pc[i] = "req" /\ ICtx # "live"
    /\ pc' = [pc EXCEPT ![i] = "fail"]
    /\ getErr' = [getErr EXCEPT ![i] = ICtx]
    /\ UNCHANGED <<p, ctx, g, gctx, buf, err, res, nAns, lastK, avail, bsVars, rets, final, panic, poisoned, onlyNF, sawNF,
                   hist, timing, usedTimeout>>

(* the silent peer: the attempt ends when its context does -- the caller's, or the split timeout *)
Timeout(i) ==
    /\ Running("shrex") /\ pc[i] = "wait"
    /\ ICtx # "live" \/ AttemptTimeouts
    /\ pc' = [pc EXCEPT ![i] = "fail"]
    /\ getErr' = [getErr EXCEPT ![i] = IF ICtx # "live" THEN ICtx ELSE "deadline"]
    /\ usedTimeout' = (usedTimeout \/ ICtx = "live")
    /\ UNCHANGED <<p, ctx, g, gctx, buf, err, res, nAns, lastK, avail, bsVars, rets, final, panic, poisoned, onlyNF, sawNF,
                   hist, timing>>

BufVerifies(b) == b.main = "good" /\ b.last # "stale"

(* shrex.go:449-458  getErr == nil: verify; success returns *)
VerifyOK(i) ==
    /\ Running("shrex") /\ pc[i] = "verify" /\ BufVerifies(buf[i])
    /\ res' = [res EXCEPT ![i] = "ok"]
    /\ pc' = [pc EXCEPT ![i] = "done"]
    /\ UNCHANGED <<p, ctx, g, gctx, buf, getErr, err, nAns, lastK, avail, bsVars, rets, final, panic, poisoned, onlyNF, sawNF,
                   hist, timing, usedTimeout>>

(* verification failed ("nil response" for the empty container): black-list, keep looping.
   The buffer is left as decoded unless the implementation clears it. *)
VerifyFail(i) ==
    /\ Running("shrex") /\ pc[i] = "verify" /\ ~BufVerifies(buf[i])
    /\ err' = [err EXCEPT ![i] = @ \cup {IF buf[i].main = "empty" THEN "nilresp" ELSE "verify"}]
    /\ buf' = [buf EXCEPT ![i] = IF ClearOnFail \/ ReqType = "eds" THEN Empty ELSE @]
              \* GetEDS keeps raw bytes and assigns `response` only from a successful ReadAccessor
    /\ poisoned' = (poisoned \/ lastK[i] = "correct")
    /\ pc' = [pc EXCEPT ![i] = "loop"]
    /\ UNCHANGED <<p, ctx, g, gctx, getErr, res, nAns, lastK, avail, bsVars, rets, final, panic, onlyNF, sawNF, hist, timing,
                   usedTimeout>>

(* shrex.go:459-478 the error switch: not-found is mapped to the getter-level not-found; time-outs,
   not-found, overload and unknown errors cool the peer down; invalid responses black-list it *)
Classify(i) ==
    /\ Running("shrex") /\ pc[i] = "fail"
    /\ err' = [err EXCEPT ![i] = @ \cup {getErr[i]}]
    /\ avail' = IF getErr[i] \in {"invalid"} THEN avail ELSE IF avail > 0 THEN avail - 1 ELSE 0
    /\ getErr' = [getErr EXCEPT ![i] = "none"]
    /\ pc' = [pc EXCEPT ![i] = "loop"]
    /\ UNCHANGED <<p, ctx, g, gctx, buf, res, nAns, lastK, bsVars, rets, final, panic, poisoned, onlyNF, sawNF, hist, timing,
                   usedTimeout>>

(* errGroup.Wait() and the return statements of the five methods: GetSamples hands out the
   positional slice next to the error; the others hand out the zero value on error. *)
ShrexReturn ==
    /\ Running("shrex") /\ \A i \in Items : pc[i] = "done"
    /\ LET ok == \A i \in Items : res[i] = "ok"
           items == IF ReqType = "samples" \/ ok THEN [i \in Items |-> buf[i].main] ELSE Zero
       IN Deliver([getter |-> "shrex", ok |-> ok, items |-> items, errs |-> UNION {err[i] : i \in Items}])
    /\ UNCHANGED <<p, ctx, nAns, lastK, avail, bsVars, panic, poisoned, onlyNF, sawNF, hist, timing, usedTimeout>>

(***************************************************************************)
(* bitswap getter: Fetch.  A candidate block reaches the requester only    *)
(* through the registered multihash, whose Write runs the block's          *)
(* UnmarshalFn: decode, compare the ID, verify against the roots, and only *)
(* then assign Block.Container (the population rule).                      *)
(***************************************************************************)
(* Does a candidate of kind k pass the verifying unmarshal?  Trailing bytes that parse as unknown
   protobuf fields and bit flips in ignored fields leave the container intact. *)
BsAccept(k) ==
    IF CanonDecode THEN {k = "correct"}
    ELSE CASE k = "correct" -> {TRUE}
           [] k \in {"ext", "garble"} -> {TRUE, FALSE}
           [] OTHER -> {FALSE}

BsOffer(i, k, acc) ==
    /\ Running("bitswap") /\ blk[i] = "empty" /\ bsN[i] < MaxAnswers /\ k \in BsKinds /\ acc \in BsAccept(k)
       \* (a block already in flight is still hashed -- and populates -- after the context ended)
    /\ bsN' = [bsN EXCEPT ![i] = @ + 1]
    /\ bshist' = [bshist EXCEPT ![i] = Append(@, k)]
    /\ IF acc
       THEN /\ blk' = [blk EXCEPT ![i] = "good"] /\ toStore' = toStore \cup {i}
            /\ popBy' = [popBy EXCEPT ![i] = "verified"]
       ELSE UNCHANGED <<blk, toStore, popBy>>
    /\ UNCHANGED <<p, ctx, g, gctx, shrexVars, stored, rets, final, panic, timing>>

(* block_fetch.go: `options.store(ctx, bitswapBlk)` -- only GetSamples passes WithStore(g.bstore) *)
BsStore(i) ==
    /\ Running("bitswap") /\ i \in toStore
    /\ toStore' = toStore \ {i}
    /\ IF ReqType = "samples"
       THEN IF BlockStore = "edsstore" /\ PutPanics
            THEN panic' = TRUE /\ UNCHANGED stored
            ELSE stored' = stored \cup {i} /\ UNCHANGED panic
       ELSE UNCHANGED <<stored, panic>>
    /\ UNCHANGED <<p, ctx, g, gctx, shrexVars, blk, bsN, popBy, bshist, rets, final, timing>>

BsDone ==
    /\ Running("bitswap") /\ toStore = {} /\ \A i \in Items : blk[i] = "good"
    /\ gctx = "live"      \* Fetch ends with `return ctx.Err()`
    /\ Deliver([getter |-> "bitswap", ok |-> TRUE, items |-> AllGood, errs |-> {}])
    /\ UNCHANGED <<p, ctx, nAns, lastK, avail, bsVars, panic, poisoned, onlyNF, sawNF, hist, timing, usedTimeout>>

(* the context ended: GetSamples returns what was fetched next to the error, the others nothing *)
BsCtx ==
    /\ Running("bitswap") /\ toStore = {} /\ gctx # "live"
    /\ LET items == IF ReqType = "samples" THEN blk ELSE Zero
       IN Deliver([getter |-> "bitswap", ok |-> FALSE, items |-> items, errs |-> {gctx}])
    /\ UNCHANGED <<p, ctx, nAns, lastK, avail, bsVars, panic, poisoned, onlyNF, sawNF, hist, timing, usedTimeout>>

Next ==
    \/ Call
    \/ \E c \in {"deadline", "cancelled"} : CtxEnds(c)
    \/ SubDeadline
    \/ StoreGet
    \/ \E i \in Items :
         \/ ReturnCtx(i) \/ NextAttempt(i) \/ PickPeer(i) \/ PickPeerCtx(i) \/ Interrupt(i) \/ Timeout(i)
         \/ VerifyOK(i) \/ VerifyFail(i) \/ Classify(i)
         \/ \E k \in Kinds : \E dec \in {"good", "bad", "bad2", "nil", "same", "zero", "none"} : Request(i, k, dec)
         \/ \E k \in BsKinds : \E acc \in BOOLEAN : BsOffer(i, k, acc)
         \/ BsStore(i)
    \/ ShrexReturn \/ BsDone \/ BsCtx

Done == final.done \/ panic
Terminal == Done /\ UNCHANGED vars

Spec == Init /\ [][Next \/ Terminal]_vars
(* fairness for Terminates: the machine keeps stepping and the caller's context ends eventually *)
FairSpec == Spec /\ WF_vars(Next) /\ WF_vars(\E c \in {"deadline"} : CtxEnds(c))

-----------------------------------------------------------------------------
(* Properties *)

AllReturns == {rets[n] : n \in 1..Len(rets)} \cup
              (IF final.done THEN {[getter |-> "caller", ok |-> final.ok, items |-> final.items, errs |-> final.errs]}
               ELSE {})

(* Whatever any getter -- or the cascade -- returns, on success and next to an error, is verified *)
OnlyVerified == \A r \in AllReturns : \A i \in Items : r.items[i] \in {"empty", "good"}

(* a result without error is complete *)
SuccessComplete == \A r \in AllReturns : r.ok => \A i \in Items : r.items[i] = "good"

(* a bad answer cannot make a later correct answer fail *)
NoPoisoning == ~poisoned

(* an item that only ever met "not found" ends as not found: not success, not corruption *)
NotFoundIsNotFound ==
    \A i \in Items : (res[i] # "run" /\ onlyNF[i] /\ sawNF[i])
        => /\ res[i] = "err"
           /\ "notfound" \in err[i]
           /\ err[i] \cap {"verify", "invalid", "nilresp"} = {}

NoPanic == ~panic

(* cascade: all or nothing *)
CascadeNoPartial ==
    (final.done /\ Len(Chain) > 1) =>
        IF final.ok THEN \A i \in Items : final.items[i] = "good" ELSE \A i \in Items : final.items[i] = "empty"

(* only verified blocks reach the node's block store *)
BlockStoreSink == \A i \in stored : blk[i] = "good"

(* population rule: a block is filled only by a candidate that verifies *)
PopulationRule == \A i \in Items : blk[i] = "good" <=> popBy[i] = "verified"

(* with the repaired buffer handling, an unverified payload lives in the buffer only between decode
   and verify *)
BufferClean == ClearOnFail => \A i \in Items : pc[i] # "verify" => buf[i].main \in {"empty", "good"}

TypeOK ==
    /\ ctx \in {"live", "deadline", "cancelled"} /\ gctx \in {"live", "deadline", "cancelled"}
    /\ g \in 0..Len(Chain)
    /\ \A i \in Items : /\ buf[i].main \in {"empty", "good", "bad"} /\ buf[i].last \in {"nil", "own", "stale"}
                        /\ res[i] \in {"run", "ok", "err"} /\ blk[i] \in {"empty", "good"}
    /\ avail \in 0..NPeers

Terminates == <>Done

-----------------------------------------------------------------------------
(* Behaviours for the replay: one record per terminal state. *)
KindsOf(h) == [n \in 1..Len(h) |-> h[n][1]]

CaseRecord ==
    [type |-> ReqType, chain |-> Chain, rows |-> ReqRows, storeHas |-> StoreHas, blockstore |-> BlockStore,
     items |-> [i \in Items |-> KindsOf(hist[i])],
     bs |-> bshist, ctx |-> ctx, timing |-> timing, usedTimeout |-> usedTimeout,
     panic |-> panic, ok |-> final.ok, out |-> final.items]

PrintCases == Done => PrintT(<<"CASE", ToJson(CaseRecord)>>)

(* exhaustive runs hide the histories *)
View == <<p, ctx, g, gctx, pc, buf, getErr, err, res, nAns, lastK, avail, blk, bsN, toStore, stored, rets, final,
          panic, poisoned, onlyNF, sawNF, popBy, usedTimeout>>
=============================================================================
