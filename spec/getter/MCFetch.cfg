\* BitswapFetch.tla -- MCFetch
SPECIFICATION Spec
CONSTANTS
  NCalls = 3
  NBlocks = 2
  MaxMsgs = 4
  WantDuplicates = TRUE
  VerifyBeforeAssign = TRUE
  ShortcutWhenPopulated = FALSE
  AtomicReceive = TRUE
  Staging = "free"
INVARIANTS
  TypeOK
  NilMeansPopulated
  OnlyVerified
  NoPanic
  StoreSink
CHECK_DEADLOCK FALSE
