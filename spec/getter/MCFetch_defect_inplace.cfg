\* BitswapFetch.tla -- MCFetch_defect_inplace
SPECIFICATION Spec
CONSTANTS
  NCalls = 1
  NBlocks = 1
  MaxMsgs = 2
  WantDuplicates = TRUE
  VerifyBeforeAssign = FALSE
  ShortcutWhenPopulated = TRUE
  AtomicReceive = TRUE
  Staging = "free"
INVARIANTS
  TypeOK
  OnlyVerified
CHECK_DEADLOCK FALSE
