\* BitswapFetch.tla -- MCFetch_cases22
SPECIFICATION Spec
CONSTANTS
  NCalls = 2
  NBlocks = 2
  MaxMsgs = 3
  WantDuplicates = TRUE
  VerifyBeforeAssign = TRUE
  ShortcutWhenPopulated = FALSE
  AtomicReceive = TRUE
  Staging = "join"
INVARIANTS
  TypeOK
  PrintCases
CHECK_DEADLOCK FALSE
