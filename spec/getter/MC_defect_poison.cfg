\* generated by spec/getter/gen_cfgs.sh -- MC_defect_poison
SPECIFICATION Spec
CONSTANTS
  ReqTypes <- TypesRange
  NItems = 1
  MaxAnswers = 2
  Chains <- ChainsShrexOnly
  NPeers = 2
  BlockStores <- StoresLight
  ClearOnFail = FALSE
  FreshDecode = FALSE
  PutPanics = FALSE
  AttemptTimeouts = FALSE
  CanonDecode = FALSE
  QuietCtxOnly = FALSE
INVARIANTS
  TypeOK
  NoPoisoning
VIEW View
CHECK_DEADLOCK FALSE
