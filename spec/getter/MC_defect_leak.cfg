\* generated by spec/getter/gen_cfgs.sh -- MC_defect_leak
SPECIFICATION Spec
CONSTANTS
  ReqTypes <- TypesSamples
  NItems = 2
  MaxAnswers = 1
  Chains <- ChainsShrexOnly
  NPeers = 2
  BlockStores <- StoresLight
  ClearOnFail = FALSE
  FreshDecode = FALSE
  PutPanics = FALSE
  AttemptTimeouts = FALSE
  CanonDecode = FALSE
  QuietCtxOnly = FALSE
INVARIANTS
  TypeOK
  OnlyVerified
VIEW View
CHECK_DEADLOCK FALSE
