\* BitswapFetch.tla -- MCFetch_race
SPECIFICATION Spec
CONSTANTS
  NCalls = 2
  NBlocks = 1
  MaxMsgs = 2
  WantDuplicates = TRUE
  VerifyBeforeAssign = TRUE
  ShortcutWhenPopulated = TRUE
  AtomicReceive = FALSE
  Staging = "all"
INVARIANTS
  TypeOK
  NoPanic
CHECK_DEADLOCK FALSE
