\* generated by spec/getter/gen_cfgs.sh -- MC_live
SPECIFICATION FairSpec
CONSTANTS
  ReqTypes <- TypesAll
  NItems = 1
  MaxAnswers = 1
  Chains <- ChainsAll
  NPeers = 1
  BlockStores <- StoresLight
  ClearOnFail = TRUE
  FreshDecode = TRUE
  PutPanics = FALSE
  AttemptTimeouts = TRUE
  CanonDecode = FALSE
  QuietCtxOnly = FALSE
INVARIANTS
  TypeOK

PROPERTIES
  Terminates
CHECK_DEADLOCK FALSE
