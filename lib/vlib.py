"""Shared machinery for /verif checks.

A check is a Python module checks/<ID>.py with a function run(ctx).  It uses
  ctx.tlc(...)        run TLC on a specification (exhaustive / simulate / trace validation)
  ctx.go_driver(...)  build and run a Go driver of the harness module against /repo (tag verif)
  ctx.violation(...)  report a property violation OBSERVED ON THE REAL CODE (with a replay file)
  ctx.inconclusive()  tool failure / drift / vacuity  -> exit 2, never a violation
  ctx.cover(...)      accumulate evidence counters
and returns; bin/check calls ctx.finish() which writes evidence/<ID>.json and exits.

Exit codes: 0 held (KNOWN-FINDING lines allowed), 1 violation, 2 inconclusive.
"""
import json
import os
import re
import shutil
import subprocess
import sys
import time
import hashlib

VERIF = os.path.dirname(os.path.dirname(os.path.abspath(__file__)))
REPO = os.path.abspath(os.environ.get("VERIF_REPO", "/repo"))
# Sensitivity experiments: VERIF_REPO=<scratch copy of /repo with a patch applied> runs the same check
# against that tree, with its own work dir, its own copy of the harness module and its own evidence
# dir, so that it never disturbs checks running against /repo itself.
ALT = REPO != "/repo"
WORK = os.path.join(VERIF, ".work") if not ALT else os.path.join(os.path.dirname(REPO), "work_" + os.path.basename(REPO))
HARNESS_SRC = os.path.join(VERIF, "harness")
HARNESS = HARNESS_SRC if not ALT else os.path.join(os.path.dirname(REPO), "harness_" + os.path.basename(REPO))
EVIDENCE_DIR = os.path.join(VERIF, "evidence") if not ALT else os.path.join(WORK, "evidence")
REPLAY_ROOT = os.path.join(VERIF, "replays") if not ALT else os.path.join(WORK, "replays")
NCPU = os.cpu_count() or 4
TLA_CP = "/opt/veriftools/tla/tla2tools.jar:/opt/veriftools/tla/CommunityModules-deps.jar"


def go_env():
    env = dict(os.environ)
    env["GOFLAGS"] = "-mod=mod"
    env["GOPROXY"] = "off"
    # GOSUMDB / GOTOOLCHAIN must stay at their defaults: the system go (1.23) switches to the
    # cached 1.26.x toolchain that /repo/go.mod asks for; GOSUMDB=off or GOTOOLCHAIN=local break that.
    env.pop("GOSUMDB", None)
    env.pop("GOTOOLCHAIN", None)
    env.setdefault("GOCACHE", os.path.expanduser("~/.cache/go-build"))
    return env


def gen_go_mod():
    """(Re)generate harness/go.mod + go.sum from /repo's, so the harness always builds against the
    current working tree of /repo with exactly its dependency versions."""
    if ALT:
        subprocess.run(["rsync", "-a", "--delete", "--exclude", "go.mod", "--exclude", "go.sum",
                        HARNESS_SRC + "/", HARNESS + "/"], check=True)
    src = open(os.path.join(REPO, "go.mod")).read()
    out = []
    for line in src.splitlines():
        if line.startswith("module "):
            out.append("module verifharness")
        else:
            out.append(line)
    out.append("")
    out.append("require github.com/celestiaorg/celestia-node v0.0.0")
    out.append("replace github.com/celestiaorg/celestia-node => " + REPO)
    txt = "\n".join(out) + "\n"
    p = os.path.join(HARNESS, "go.mod")
    old = open(p).read() if os.path.exists(p) else None
    if old != txt:
        open(p, "w").write(txt)
    shutil.copyfile(os.path.join(REPO, "go.sum"), os.path.join(HARNESS, "go.sum"))


# --------------------------------------------------------------------------- TLA+ value parser
class _P:
    def __init__(self, s):
        self.s = s
        self.i = 0

    def ws(self):
        while self.i < len(self.s) and self.s[self.i] in " \t\r\n":
            self.i += 1

    def peek(self, t):
        self.ws()
        return self.s.startswith(t, self.i)

    def eat(self, t):
        self.ws()
        if not self.s.startswith(t, self.i):
            raise ValueError("expected %r at %d: %r" % (t, self.i, self.s[self.i:self.i + 40]))
        self.i += len(t)

    def value(self):
        self.ws()
        s = self.s
        c = s[self.i]
        if c == '"':
            j = self.i + 1
            buf = []
            while s[j] != '"':
                if s[j] == "\\":
                    j += 1
                    buf.append({"n": "\n", "t": "\t", "r": "\r"}.get(s[j], s[j]))
                else:
                    buf.append(s[j])
                j += 1
            self.i = j + 1
            return "".join(buf)
        if s.startswith("<<", self.i):
            self.i += 2
            out = []
            if self.peek(">>"):
                self.eat(">>")
                return out
            while True:
                out.append(self.value())
                if self.peek(","):
                    self.eat(",")
                    continue
                self.eat(">>")
                return out
        if c == "{":
            self.i += 1
            out = []
            if self.peek("}"):
                self.eat("}")
                return {"#set": out}
            while True:
                out.append(self.value())
                if self.peek(","):
                    self.eat(",")
                    continue
                self.eat("}")
                return {"#set": out}
        if c == "[":
            self.i += 1
            out = {}
            if self.peek("]"):
                self.eat("]")
                return out
            while True:
                self.ws()
                m = re.match(r"[A-Za-z_][A-Za-z0-9_]*", s[self.i:])
                k = m.group(0)
                self.i += len(k)
                self.eat("|->")
                out[k] = self.value()
                if self.peek(","):
                    self.eat(",")
                    continue
                self.eat("]")
                return out
        if c == "(":
            # function:  (k :> v @@ k :> v)
            self.i += 1
            out = []
            while True:
                k = self.value()
                self.eat(":>")
                v = self.value()
                out.append([k, v])
                if self.peek("@@"):
                    self.eat("@@")
                    continue
                self.eat(")")
                return {"#fun": out}
        m = re.match(r"-?\d+", s[self.i:])
        if m:
            self.i += len(m.group(0))
            return int(m.group(0))
        m = re.match(r"[A-Za-z_][A-Za-z0-9_]*", s[self.i:])
        if m:
            w = m.group(0)
            self.i += len(w)
            if w == "TRUE":
                return True
            if w == "FALSE":
                return False
            return {"#mv": w}
        raise ValueError("cannot parse at %d: %r" % (self.i, s[self.i:self.i + 40]))


def parse_tla_value(s):
    p = _P(s)
    v = p.value()
    return v


def parse_tla_state(txt):
    """'/\\ a = v\\n/\\ b = w' -> {a: v, b: w}"""
    out = {}
    parts = re.split(r"(?m)^/\\ ", txt.strip())
    for part in parts:
        part = part.strip()
        if not part:
            continue
        m = re.match(r"([A-Za-z_][A-Za-z0-9_]*) = ", part)
        if not m:
            continue
        out[m.group(1)] = parse_tla_value(part[m.end():])
    return out


class TLCResult:
    def __init__(self):
        self.rc = None
        self.stdout = ""
        self.generated = 0
        self.distinct = 0
        self.depth = 0
        self.ok = False          # finished, no error
        self.violated = None     # name of violated invariant/property, "deadlock", or None
        self.error = None        # tool / spec error text (not a property violation)
        self.trace = []          # counterexample: list of (action_label, state dict)
        self.coverage = {}       # action name -> count of distinct states found through it
        self.printed = {}        # tag -> list of decoded JSON payloads printed by the spec
        self.wall = 0.0
        self.timed_out = False
        self.log_path = None


_PRINT_RE = re.compile(r'^<<"([A-Z_]+)", "(.*)">>$')


def _parse_tlc_output(res, out):
    res.stdout = out
    for line in out.splitlines():
        m = _PRINT_RE.match(line)
        if m:
            try:
                payload = json.loads(json.loads('"' + m.group(2) + '"'))
            except Exception:
                try:
                    payload = json.loads('"' + m.group(2) + '"')
                except Exception:
                    payload = m.group(2)
            res.printed.setdefault(m.group(1), []).append(payload)
    m = re.search(r"(\d+) states generated, (\d+) distinct states found", out)
    if m:
        res.generated = int(m.group(1))
        res.distinct = int(m.group(2))
    m = re.search(r"The number of states generated: (\d+)", out)
    if m and not res.generated:
        res.generated = int(m.group(1))
        res.distinct = res.distinct or 0
    m = re.search(r"The depth of the complete state graph search is (\d+)", out)
    if m:
        res.depth = int(m.group(1))
    # coverage: "<Action line L, col C to line L, col C of module M>: distinct:generated"
    for m in re.finditer(r"(?m)^<([A-Za-z_][A-Za-z0-9_]*) line \d+, col \d+ to line \d+, col \d+ of module ([A-Za-z0-9_]+)>: (\d+):(\d+)", out):
        res.coverage[m.group(1)] = res.coverage.get(m.group(1), 0) + int(m.group(4))
    if "Model checking completed. No error has been found." in out or \
            (re.search(r"Progress: \d+ states checked", out) and "Error:" not in out and "The number of states generated" in out):
        res.ok = True
    m = re.search(r"Error: Invariant ([A-Za-z0-9_]+) is violated", out)
    if m:
        res.violated = m.group(1)
    m = re.search(r"Error: Action property ([A-Za-z0-9_]+) is violated", out)
    if m:
        res.violated = m.group(1)
    if "Error: Temporal properties were violated" in out:
        res.violated = "temporal"
    m = re.search(r"Error: Temporal property ([A-Za-z0-9_]+) was violated", out)
    if m:
        res.violated = m.group(1)
    if "Error: Deadlock reached" in out:
        res.violated = "deadlock"
    m = re.search(r"Error: The postcondition ([A-Za-z0-9_]+)? ?.*is violated|Error: Postcondition.*violated|postcondition.*(?:false|violated)", out, re.I)
    if m:
        res.violated = res.violated or "postcondition"
    if res.violated is None and not res.ok:
        m = re.search(r"(?s)Error: (.*?)(?:\n\n|\Z)", out)
        res.error = m.group(1)[:2000] if m else "TLC did not finish normally"
    # counterexample trace
    for m in re.finditer(r"(?s)State (\d+): <([^\n]*)>\n(.*?)(?=\n\n|\nState \d+:|\Z)", out):
        label = m.group(2)
        am = re.match(r"([A-Za-z_][A-Za-z0-9_]*)", label)
        try:
            st = parse_tla_state(m.group(3))
        except Exception:
            st = {"#raw": m.group(3)}
        res.trace.append((am.group(1) if am else label, st))


def run_tlc(spec, cfg, workdir, workers=None, simulate=None, depth=None, seed=None, timeout=600,
            coverage=False, deadlock=None, extra=None, java_opts=None, dfs=False, heap="8g", include=None):
    """Runs TLC in a scratch copy of the spec's directory tree (spec root = VERIF/spec)."""
    res = TLCResult()
    specroot = os.path.join(VERIF, "spec")
    scratch = os.path.join(workdir, "tlc_%s_%s" % (os.path.basename(cfg).replace(".cfg", ""), os.getpid()))
    if os.path.exists(scratch):
        shutil.rmtree(scratch)
    os.makedirs(scratch)
    # flatten: copy every .tla of spec/common and of the spec's own directory, plus the cfg
    sdir = os.path.dirname(os.path.abspath(spec))
    incl = [os.path.join(specroot, x) for x in (include or [])]
    for d in [os.path.join(specroot, "common")] + incl + [sdir]:
        if os.path.isdir(d):
            for f in os.listdir(d):
                if f.endswith(".tla") or f.endswith(".cfg"):
                    shutil.copy(os.path.join(d, f), scratch)
    if os.path.dirname(os.path.abspath(cfg)) != sdir:
        shutil.copy(cfg, scratch)
    cmd = ["java", "-XX:+UseParallelGC", "-Xss256m"]
    if heap:
        cmd.append("-Xmx" + heap)
    if dfs:
        cmd.append("-Dtlc2.tool.queue.IStateQueue=StateDeque")
    for o in (java_opts or []):
        cmd.append(o)
    cmd += ["-cp", TLA_CP, "tlc2.TLC", "-metadir", os.path.join(scratch, "meta"),
            "-workers", str(workers or NCPU)]
    if simulate:
        cmd += ["-simulate", simulate]
    if depth:
        cmd += ["-depth", str(depth)]
    if seed is not None:
        cmd += ["-seed", str(seed)]
    if coverage:
        cmd += ["-coverage", "1"]
    if deadlock is False:
        cmd += ["-deadlock"]
    cmd += (extra or [])
    cmd += ["-config", os.path.basename(cfg), os.path.basename(spec)]
    t0 = time.time()
    try:
        p = subprocess.run(cmd, cwd=scratch, stdout=subprocess.PIPE, stderr=subprocess.STDOUT,
                           timeout=timeout, text=True, errors="replace")
        out = p.stdout
        res.rc = p.returncode
    except subprocess.TimeoutExpired as e:
        out = (e.stdout or b"")
        if isinstance(out, bytes):
            out = out.decode("utf-8", "replace")
        res.timed_out = True
        res.rc = -1
        subprocess.run(["pkill", "-f", scratch], stdout=subprocess.DEVNULL, stderr=subprocess.DEVNULL)
    res.wall = time.time() - t0
    _parse_tlc_output(res, out)
    if res.timed_out:
        res.ok = False
        res.error = "timeout after %ss" % timeout
    res.log_path = os.path.join(workdir, "tlc_%s.log" % os.path.basename(cfg).replace(".cfg", ""))
    with open(res.log_path, "w") as f:
        f.write(" ".join(cmd) + "\n" + out)
    shutil.rmtree(scratch, ignore_errors=True)
    return res


# --------------------------------------------------------------------------- known findings
def load_known_findings():
    p = os.path.join(VERIF, "known_findings.jsonl")
    out = []
    if os.path.exists(p):
        for line in open(p):
            line = line.strip()
            if line and not line.startswith("#"):
                out.append(json.loads(line))
    return out


class Inconclusive(Exception):
    pass


class Ctx:
    def __init__(self, prop, tier, seed, replay=None):
        self.prop = prop
        self.tier = tier
        self.seed = seed
        self.replay = replay
        self.t0 = time.time()
        self.work = os.path.join(WORK, prop)
        shutil.rmtree(self.work, ignore_errors=True)
        os.makedirs(self.work, exist_ok=True)
        self.replay_dir = os.path.join(REPLAY_ROOT, prop)
        os.makedirs(self.replay_dir, exist_ok=True)
        self.cov = {"states": 0, "transitions": 0, "traces_validated_against_impl": 0, "samples": [],
                    "evaluations": 0, "distinct_nontrivial": 0, "exhaustive": False,
                    "tlc_runs": [], "drivers": []}
        self.assumptions = []
        self.violations = []       # new (unlisted) violations
        self.known_hits = []       # listed findings seen again
        self.inconclusives = []
        self.notes = []
        self.known = [k for k in load_known_findings() if k.get("property") == prop]
        self.quick = (tier == "quick")

    # ---- logging
    def log(self, *a):
        print("[%s %6.1fs]" % (self.prop, time.time() - self.t0), *a, flush=True)

    def note(self, s):
        self.notes.append(s)
        self.log("note:", s)

    def assume(self, s):
        if s not in self.assumptions:
            self.assumptions.append(s)

    def sample(self, obj, limit=6):
        if len(self.cov["samples"]) < limit:
            self.cov["samples"].append(obj)

    def cover(self, **kw):
        for k, v in kw.items():
            if isinstance(v, bool):
                self.cov[k] = v
            elif isinstance(v, (int, float)):
                self.cov[k] = self.cov.get(k, 0) + v
            else:
                self.cov[k] = v

    # ---- TLC
    def tlc(self, spec, cfg, must_pass=True, count=True, **kw):
        """spec/cfg relative to VERIF/spec.  must_pass: a violated invariant in the MODEL is not a
        verdict on the code (rule 1) -- it makes the run inconclusive unless the caller handles it
        (must_pass=False) and reproduces it on the real code."""
        spec_p = os.path.join(VERIF, "spec", spec)
        cfg_p = os.path.join(VERIF, "spec", cfg)
        kw.setdefault("seed", self.seed if kw.get("simulate") else None)
        r = run_tlc(spec_p, cfg_p, self.work, **kw)
        self.log("TLC %s/%s: generated=%d distinct=%d depth=%d ok=%s violated=%s wall=%.1fs%s" % (
            spec, os.path.basename(cfg), r.generated, r.distinct, r.depth, r.ok, r.violated, r.wall,
            (" ERROR=" + (r.error or "")[:300]) if r.error else ""))
        if count:
            self.cov["states"] += r.distinct or r.generated
            self.cov["transitions"] += r.generated
        self.cov["tlc_runs"].append({"spec": spec, "cfg": os.path.basename(cfg), "generated": r.generated,
                                     "distinct": r.distinct, "depth": r.depth, "ok": r.ok,
                                     "violated": r.violated, "wall_s": round(r.wall, 1),
                                     "simulate": kw.get("simulate"),
                                     "coverage": r.coverage if kw.get("coverage") else None})
        if r.error:
            self.inconclusive("TLC failed on %s: %s (log %s)" % (cfg, r.error[:300], r.log_path))
        elif r.violated and must_pass:
            self.inconclusive("model %s violates %s (log %s): model counterexample not bound to a real-code "
                              "reproduction" % (cfg, r.violated, r.log_path))
        return r

    def require_coverage(self, r, actions):
        """vacuity guard: every listed action must have produced states"""
        missing = [a for a in actions if r.coverage.get(a, 0) == 0]
        if missing:
            self.inconclusive("vacuity: actions never taken in model run: %s" % missing)

    # ---- Go driver
    def go_driver(self, pkg, env=None, timeout=1200, race=False, run="TestDriver", tags="verif", extra=None, keep=None):
        """go test -tags verif ./drivers/<pkg>; the driver writes a JSON report to $VERIF_OUT."""
        gen_go_mod()
        out_path = os.path.join(self.work, "driver_%s_%d.json" % (pkg.replace("/", "_"), len(self.cov["drivers"])))
        e = go_env()
        e["VERIF_OUT"] = out_path
        e["VERIF_SEED"] = str(self.seed)
        e["VERIF_TIER"] = self.tier
        e["VERIF_WORK"] = self.work
        e["VERIF_REPLAY_DIR"] = self.replay_dir
        for k, v in (env or {}).items():
            e[k] = str(v)
        cmd = ["go", "test", "-tags", tags, "-count=1", "-vet=off", "-timeout", "%ds" % timeout, "-run", run]
        if race:
            cmd.append("-race")
        cmd += (extra or [])
        cmd.append("./drivers/" + pkg)
        t0 = time.time()
        log_path = os.path.join(self.work, "driver_%s_%d.log" % (pkg.replace("/", "_"), len(self.cov["drivers"])))
        try:
            p = subprocess.run(cmd, cwd=HARNESS, env=e, stdout=subprocess.PIPE, stderr=subprocess.STDOUT,
                               timeout=timeout + 600, text=True, errors="replace")
            out, rc = p.stdout, p.returncode
        except subprocess.TimeoutExpired as ex:
            out = ex.stdout or ""
            if isinstance(out, bytes):
                out = out.decode("utf-8", "replace")
            rc = -1
        open(log_path, "w").write(" ".join(cmd) + "\n" + out)
        wall = time.time() - t0
        rep = None
        if os.path.exists(out_path):
            try:
                rep = json.load(open(out_path))
            except Exception as ex:
                rep = None
        self.cov["drivers"].append({"pkg": pkg, "rc": rc, "wall_s": round(wall, 1),
                                    "summary": (rep or {}).get("summary")})
        self.log("driver %s rc=%s wall=%.1fs summary=%s" % (pkg, rc, wall, json.dumps((rep or {}).get("summary"))[:400]))
        if rc != 0 or rep is None:
            tail = "\n".join(out.splitlines()[-40:])
            self.inconclusive("driver %s failed (rc=%s, report=%s), log %s:\n%s" % (pkg, rc, rep is not None, log_path, tail))
            return rep or {"violations": [], "summary": {}}
        # standard report handling
        for v in (rep.get("violations") or []):
            if keep is not None and not keep(v.get("signature", "")):
                continue   # belongs to another property decided by the same driver
            self.violation(v.get("signature", "unspecified"), v.get("what", ""), v.get("replay"))
        for s in (rep.get("samples") or [])[:4]:
            self.sample(s)
        for n in (rep.get("inconclusive") or []):
            self.inconclusive("driver %s: %s" % (pkg, n))
        c = rep.get("counters") or {}
        for k, v in c.items():
            if isinstance(v, (int, float)) and not isinstance(v, bool):
                self.cov[k] = self.cov.get(k, 0) + v
        return rep

    # ---- verdicts
    def violation(self, signature, what, replay_obj=None):
        for k in self.known:
            if k.get("status") == "known" and k.get("signature") == signature:
                if signature not in [h[0] for h in self.known_hits]:
                    self.known_hits.append((signature, what))
                return
        n = len(self.violations)
        path = os.path.join(self.replay_dir, "%s_%s_%d.json" % (self.tier, hashlib.sha1(signature.encode()).hexdigest()[:8], n))
        if isinstance(replay_obj, str) and os.path.exists(replay_obj):
            path = replay_obj
        else:
            with open(path, "w") as f:
                json.dump({"property": self.prop, "signature": signature, "what": what, "seed": self.seed,
                           "tier": self.tier, "replay": replay_obj}, f, indent=1, default=str)
        self.violations.append({"signature": signature, "what": what, "replay": path})

    def inconclusive(self, why):
        self.inconclusives.append(why)
        self.log("INCONCLUSIVE:", why)

    def finish(self):
        wall = time.time() - self.t0
        cov = self.cov
        cov["known_findings_seen"] = [s for s, _ in self.known_hits]
        cov["notes"] = self.notes
        cov["inconclusive"] = self.inconclusives
        if not cov["samples"]:
            cov["samples"] = [{"note": "no sample recorded"}]
        if cov["states"] < 1:
            # keep the file schema-valid through the generic fallback keys
            cov.pop("states")
            cov.pop("transitions")
            cov["evaluations"] = max(1, int(cov.get("evaluations", 0)))
            cov["distinct_nontrivial"] = int(cov.get("distinct_nontrivial", 0))
        ev = {"property_id": self.prop, "tier": self.tier, "seed": self.seed, "level": "model_checking",
              "coverage": cov, "assumptions": self.assumptions, "wall_s": round(wall, 1),
              "violations": len(self.violations)}
        ev_dir = EVIDENCE_DIR if not self.replay else self.work   # a replay does not overwrite the evidence
        os.makedirs(ev_dir, exist_ok=True)
        with open(os.path.join(ev_dir, self.prop + ".json"), "w") as f:
            json.dump(ev, f, indent=1, default=str)
        for sig, what in self.known_hits:
            print("KNOWN-FINDING: property=%s %s: %s" % (self.prop, sig, what.replace("\n", " ")[:400]))
        if self.violations:
            for v in self.violations:
                print("VIOLATION property=%s replay=%s" % (self.prop, v["replay"]))
                print("  signature=%s %s" % (v["signature"], v["what"].replace("\n", " ")[:600]))
            return 1
        if self.inconclusives:
            print("INCONCLUSIVE property=%s (%d reasons; first: %s)" % (self.prop, len(self.inconclusives), self.inconclusives[0][:500]))
            return 2
        print("OK property=%s tier=%s seed=%d wall=%.1fs states=%s traces=%s" % (
            self.prop, self.tier, self.seed, wall, cov.get("states"), cov.get("traces_validated_against_impl")))
        return 0
