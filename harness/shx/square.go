// Package shx holds what the C06 (getters) and C09 (shrex server) drivers share: reference squares
// built deterministically from the seed, honest wire payloads produced by the repository's own
// response builders, structured tamperings of those payloads, and the oracle that re-verifies every
// returned container against the header with the real verifiers AND compares it with the reference
// square.
package shx

import (
	"bytes"
	"context"
	"fmt"
	"math/rand"
	"testing"

	"github.com/celestiaorg/celestia-app/v9/pkg/wrapper"
	libshare "github.com/celestiaorg/go-square/v4/share"
	"github.com/celestiaorg/rsmt2d"

	"github.com/celestiaorg/celestia-node/header"
	"github.com/celestiaorg/celestia-node/header/headertest"
	"github.com/celestiaorg/celestia-node/share"
	"github.com/celestiaorg/celestia-node/share/eds"
	"github.com/celestiaorg/celestia-node/share/shwap"
)

// Ref is a reference block: the square, its roots, a header committing to it, and the namespaces
// that occur in the original data square.
type Ref struct {
	W      int // ODS width
	Height uint64
	EDS    *rsmt2d.ExtendedDataSquare
	Roots  *share.AxisRoots
	Header *header.ExtendedHeader
	Acc    *eds.Rsmt2D
	// NsIdx[i] is the abstract namespace number of ODS cell i (row-major), -1 for tail padding.
	NsIdx []int
}

// Namespace k of the abstract layout: a version-0 namespace above all reserved ones; k and k+1 leave
// room for AbsentBetween(k).
func Namespace(k int) libshare.Namespace {
	return libshare.MustNewV0Namespace([]byte{0, 0, 0, 0, 0, 0, 0, 0, byte(1 + k), 0x10})
}

// AbsentBetween returns a namespace that no square uses and that sorts strictly between Namespace(k)
// and Namespace(k+1) (so that it is inside the range of a row that holds both).
func AbsentBetween(k int) libshare.Namespace {
	return libshare.MustNewV0Namespace([]byte{0, 0, 0, 0, 0, 0, 0, 0, byte(1 + k), 0x20})
}

// AbsentBelow sorts below every Namespace(k) but above the reserved namespaces.
func AbsentBelow() libshare.Namespace {
	return libshare.MustNewV0Namespace([]byte{0, 0, 0, 0, 0, 0, 0, 0, 0, 0xF0})
}

// AbsentAbove sorts above every Namespace(k), k < 200.
func AbsentAbove() libshare.Namespace {
	return libshare.MustNewV0Namespace([]byte{0, 0, 0, 0, 0, 0, 0, 0, 0xFE, 0x10})
}

// Layout returns a namespace layout for an ODS of width w: non-decreasing abstract namespaces with
// runs of seeded lengths, and `pad` tail-padding cells at the end.
func Layout(rng *rand.Rand, w, maxNs, pad int) []int {
	n := w * w
	out := make([]int, n)
	k := 0
	for i := 0; i < n; i++ {
		if i >= n-pad {
			out[i] = -1
			continue
		}
		if i > 0 && k < maxNs-1 && rng.Intn(3) == 0 {
			k++
		}
		out[i] = k
	}
	return out
}

// UniformLayout is one namespace everywhere (every [from,to) is then a well-formed range request).
func UniformLayout(w int) []int {
	return make([]int, w*w)
}

// Build materialises a layout as real bytes: real namespaces, seeded payloads, real tail padding,
// real erasure coding and a header that commits to the square at the given height.
func Build(t testing.TB, rng *rand.Rand, w int, height uint64, layout []int) *Ref {
	if len(layout) != w*w {
		panic("layout size")
	}
	shares := make([][]byte, w*w)
	for i, k := range layout {
		if k < 0 {
			tp := libshare.TailPaddingShare()
			shares[i] = tp.ToBytes()
			continue
		}
		b := make([]byte, libshare.ShareSize)
		rng.Read(b)
		copy(b, Namespace(k).Bytes())
		b[libshare.NamespaceSize] = 0x01 // share version 0, sequence start
		shares[i] = b
	}
	sq, err := rsmt2d.ComputeExtendedDataSquare(shares, share.DefaultRSMT2DCodec(), wrapper.NewConstructor(uint64(w)))
	if err != nil {
		t.Fatalf("shx.Build: %v", err)
	}
	roots, err := share.NewAxisRoots(sq)
	if err != nil {
		t.Fatalf("shx.Build roots: %v", err)
	}
	eh := headertest.RandExtendedHeaderWithRoot(t, roots)
	eh.RawHeader.Height = int64(height)
	return &Ref{W: w, Height: height, EDS: sq, Roots: roots, Header: eh, Acc: &eds.Rsmt2D{ExtendedDataSquare: sq},
		NsIdx: append([]int(nil), layout...)}
}

// PresentNamespaces lists the abstract namespaces that occur in the ODS.
func (r *Ref) PresentNamespaces() []int {
	var out []int
	seen := map[int]bool{}
	for _, k := range r.NsIdx {
		if k >= 0 && !seen[k] {
			seen[k] = true
			out = append(out, k)
		}
	}
	return out
}

// SingleNamespace reports whether ODS cells [from,to) all carry the same namespace (the server
// refuses to build a range response otherwise, and the client's verifier demands it).
func (r *Ref) SingleNamespace(from, to int) bool {
	if from < 0 || to > len(r.NsIdx) || from >= to {
		return false
	}
	for i := from; i < to; i++ {
		if r.NsIdx[i] != r.NsIdx[from] {
			return false
		}
	}
	return true
}

// Cell returns the committed bytes of EDS cell (row, col).
func (r *Ref) Cell(row, col int) []byte {
	return r.EDS.GetCell(uint(row), uint(col))
}

// ---------------------------------------------------------------------------------- oracle

// CheckSample: the real verifier accepts the sample for (row,col) under the header AND its bytes are
// the committed bytes of that cell.
func (r *Ref) CheckSample(s shwap.Sample, c shwap.SampleCoords) error {
	if s.IsEmpty() {
		return fmt.Errorf("empty sample")
	}
	if err := s.Verify(r.Roots, c.Row, c.Col); err != nil {
		return fmt.Errorf("does not verify for (%d,%d): %w", c.Row, c.Col, err)
	}
	if !bytes.Equal(s.ToBytes(), r.Cell(c.Row, c.Col)) {
		return fmt.Errorf("verifies for (%d,%d) but differs from the committed cell", c.Row, c.Col)
	}
	return nil
}

// CheckRow: verifies for row idx and equals the committed extended row.
func (r *Ref) CheckRow(row shwap.Row, idx int) error {
	if row.IsEmpty() {
		return fmt.Errorf("empty row")
	}
	if err := row.Verify(r.Roots, idx); err != nil {
		return fmt.Errorf("does not verify for row %d: %w", idx, err)
	}
	shrs, err := row.Shares()
	if err != nil {
		return fmt.Errorf("extending row: %w", err)
	}
	want := r.EDS.Row(uint(idx))
	if len(shrs) != len(want) {
		return fmt.Errorf("row %d has %d shares, want %d", idx, len(shrs), len(want))
	}
	for i := range want {
		if !bytes.Equal(shrs[i].ToBytes(), want[i]) {
			return fmt.Errorf("row %d verifies but share %d differs from the committed one", idx, i)
		}
	}
	return nil
}

// CheckEDS: the square equals the committed square cell by cell (which implies the data root).
func (r *Ref) CheckEDS(sq *rsmt2d.ExtendedDataSquare) error {
	if sq == nil {
		return fmt.Errorf("nil square")
	}
	if sq.Width() != r.EDS.Width() {
		return fmt.Errorf("width %d, want %d", sq.Width(), r.EDS.Width())
	}
	roots, err := share.NewAxisRoots(sq)
	if err != nil {
		return fmt.Errorf("roots of returned square: %w", err)
	}
	if !bytes.Equal(roots.Hash(), r.Roots.Hash()) {
		return fmt.Errorf("data root of returned square differs from the header's")
	}
	if !bytes.Equal(bytes.Join(sq.Flattened(), nil), bytes.Join(r.EDS.Flattened(), nil)) {
		return fmt.Errorf("square has the header's data root but differs from the committed square")
	}
	return nil
}

// NsShares returns the committed ODS shares of abstract namespace k in row-major order grouped by row.
func (r *Ref) nsRows(ns libshare.Namespace) [][]byte {
	var out [][]byte
	for i := 0; i < r.W*r.W; i++ {
		c := r.Cell(i/r.W, i%r.W)
		if bytes.Equal(c[:libshare.NamespaceSize], ns.Bytes()) {
			out = append(out, c)
		}
	}
	return out
}

// CheckND: verifies (completeness included) for the namespace and the flattened shares are exactly
// the committed shares of that namespace.
func (r *Ref) CheckND(nd shwap.NamespaceData, ns libshare.Namespace) error {
	if err := nd.Verify(r.Roots, ns); err != nil {
		return fmt.Errorf("does not verify: %w", err)
	}
	got := nd.Flatten()
	want := r.nsRows(ns)
	if len(got) != len(want) {
		return fmt.Errorf("verifies but has %d shares, the block has %d in that namespace", len(got), len(want))
	}
	for i := range want {
		if !bytes.Equal(got[i].ToBytes(), want[i]) {
			return fmt.Errorf("verifies but share %d differs from the committed one", i)
		}
	}
	return nil
}

// CheckRange: verifies inclusion for ODS cells [from,to) and equals exactly those cells.
// mustVerify=false only compares bytes (used where the verifier is known to demand a single namespace).
func (r *Ref) CheckRange(rd shwap.RangeNamespaceData, from, to int, mustVerify bool) error {
	if rd.IsEmpty() {
		return fmt.Errorf("empty range data")
	}
	if mustVerify {
		fc, err := shwap.SampleCoordsFrom1DIndex(from, r.W)
		if err != nil {
			return err
		}
		tc, err := shwap.SampleCoordsFrom1DIndex(to-1, r.W)
		if err != nil {
			return err
		}
		if err := rd.VerifyInclusion(fc, tc, r.W, r.Roots.RowRoots[fc.Row:tc.Row+1]); err != nil {
			return fmt.Errorf("does not verify for [%d,%d): %w", from, to, err)
		}
	}
	got := rd.Flatten()
	if len(got) != to-from {
		return fmt.Errorf("range [%d,%d) has %d shares", from, to, len(got))
	}
	for i := from; i < to; i++ {
		if !bytes.Equal(got[i-from].ToBytes(), r.Cell(i/r.W, i%r.W)) {
			return fmt.Errorf("range [%d,%d): share %d differs from the committed one", from, to, i)
		}
	}
	return nil
}

// Ctx is a background context for accessor calls on in-memory squares.
var Ctx = context.Background()

// DecodeAndCheck decodes the bytes that follow an OK status with the repository's own container
// decoder for the request type and runs the oracle on the result: nil means "a client that receives
// exactly these bytes for q ends up with verified, committed data".
func (r *Ref) DecodeAndCheck(q Req, payload []byte) error {
	rd := bytes.NewReader(payload)
	switch q.Type {
	case "sample":
		var s shwap.Sample
		if _, err := s.ReadFrom(rd); err != nil {
			return err
		}
		return r.CheckSample(s, shwap.SampleCoords{Row: q.Row, Col: q.Col})
	case "row":
		var row shwap.Row
		if _, err := row.ReadFrom(rd); err != nil {
			return err
		}
		return r.CheckRow(row, q.Row)
	case "eds":
		if len(payload) == 0 {
			return fmt.Errorf("empty payload")
		}
		acc, err := eds.ReadAccessor(Ctx, rd, r.Roots)
		if err != nil {
			return err
		}
		return r.CheckEDS(acc.ExtendedDataSquare)
	case "nd":
		var nd shwap.NamespaceData
		if _, err := nd.ReadFrom(rd); err != nil {
			return err
		}
		if nd.IsEmpty() {
			// no rows: right exactly when no row root's namespace range contains the namespace
			rows, err := share.RowsWithNamespace(r.Roots, NsOf(q.Ns))
			if err != nil {
				return err
			}
			if len(rows) != 0 {
				return fmt.Errorf("empty namespace data although %d rows may hold the namespace", len(rows))
			}
			return nil
		}
		return r.CheckND(nd, NsOf(q.Ns))
	case "range":
		var rg shwap.RangeNamespaceData
		if _, err := rg.ReadFrom(rd); err != nil {
			return err
		}
		return r.CheckRange(rg, q.From, q.To, true)
	}
	return fmt.Errorf("unknown type %q", q.Type)
}

// WithHeight returns a copy of the reference block under a fresh header at another height (the
// square, and therefore every payload, is shared).
func (r *Ref) WithHeight(t testing.TB, height uint64) *Ref {
	c := *r
	eh := headertest.RandExtendedHeaderWithRoot(t, r.Roots)
	eh.RawHeader.Height = int64(height)
	c.Header = eh
	c.Height = height
	return &c
}
