package shx

import (
	"context"
	"encoding/binary"
	"fmt"
	"io"
	"math/rand"

	libshare "github.com/celestiaorg/go-square/v4/share"

	"github.com/celestiaorg/celestia-node/share/shwap"
)

// Req names one request of the shrex protocol family in abstract terms.
type Req struct {
	Type string `json:"type"` // sample | row | eds | nd | range
	Row  int    `json:"row,omitempty"`
	Col  int    `json:"col,omitempty"`
	Ns   int    `json:"ns,omitempty"` // abstract namespace number (Namespace(k)), or a negative code of AbsentNs
	From int    `json:"from,omitempty"`
	To   int    `json:"to,omitempty"`
}

func (q Req) String() string {
	switch q.Type {
	case "sample":
		return fmt.Sprintf("sample(%d,%d)", q.Row, q.Col)
	case "row":
		return fmt.Sprintf("row(%d)", q.Row)
	case "nd":
		return fmt.Sprintf("nd(ns%d)", q.Ns)
	case "range":
		return fmt.Sprintf("range[%d,%d)", q.From, q.To)
	}
	return q.Type
}

// Absent namespace codes for Req.Ns.
const (
	NsAbsentBelow = -1
	NsAbsentAbove = -2
	// NsTx is the reserved transaction namespace (valid for data requests, absent from the test squares)
	NsTx = -3
	// NsAbsentBetweenBase-k is AbsentBetween(k)
	NsAbsentBetweenBase = -100
)

// NsOf maps Req.Ns to a real namespace.
func NsOf(k int) libshare.Namespace {
	switch {
	case k >= 0:
		return Namespace(k)
	case k == NsAbsentBelow:
		return AbsentBelow()
	case k == NsAbsentAbove:
		return AbsentAbove()
	case k == NsTx:
		return libshare.TxNamespace
	default:
		return AbsentBetween(NsAbsentBetweenBase - k)
	}
}

// ID builds the real identifier of the request for the reference block (validated against its size,
// as the getters do).
func (r *Ref) ID(q Req) (any, error) {
	switch q.Type {
	case "sample":
		id, err := shwap.NewSampleID(r.Height, shwap.SampleCoords{Row: q.Row, Col: q.Col}, 2*r.W)
		return &id, err
	case "row":
		id, err := shwap.NewRowID(r.Height, q.Row, 2*r.W)
		return &id, err
	case "eds":
		id, err := shwap.NewEdsID(r.Height)
		return &id, err
	case "nd":
		id, err := shwap.NewNamespaceDataID(r.Height, NsOf(q.Ns))
		return &id, err
	case "range":
		e, err := shwap.NewEdsID(r.Height)
		if err != nil {
			return nil, err
		}
		id, err := shwap.NewRangeNamespaceDataID(e, q.From, q.To, r.W)
		return &id, err
	}
	return nil, fmt.Errorf("unknown request type %q", q.Type)
}

// Honest returns the bytes an honest server puts on the wire after the OK status for request q: the
// repository's own ResponseReader run over the in-memory reference square.
func (r *Ref) Honest(q Req) ([]byte, error) {
	id, err := r.ID(q)
	if err != nil {
		return nil, err
	}
	rr, ok := id.(interface {
		ResponseReader(context.Context, shwap.Accessor) (io.Reader, error)
	})
	if !ok {
		return nil, fmt.Errorf("%T has no ResponseReader", id)
	}
	rd, err := rr.ResponseReader(Ctx, r.Acc)
	if err != nil {
		return nil, err
	}
	return io.ReadAll(rd)
}

// Other returns a well-formed request of the same type for a different position of the same block
// (the "data for other coordinates" answer); ok=false when the block is too small to have one.
func (r *Ref) Other(q Req, rng *rand.Rand) (Req, bool) {
	e := 2 * r.W
	switch q.Type {
	case "sample":
		o := q
		o.Row, o.Col = (q.Row+1+rng.Intn(e-1))%e, (q.Col+rng.Intn(e))%e
		return o, true
	case "row":
		o := q
		o.Row = (q.Row + 1 + rng.Intn(e-1)) % e
		return o, true
	case "nd":
		for _, k := range r.PresentNamespaces() {
			if k != q.Ns {
				o := q
				o.Ns = k
				return o, true
			}
		}
		return q, false
	case "range":
		n := r.W * r.W
		// a different single-namespace range, preferring one with a different number of rows
		var cands []Req
		for f := 0; f < n; f++ {
			for t := f + 1; t <= n; t++ {
				if (f != q.From || t != q.To) && r.SingleNamespace(f, t) {
					cands = append(cands, Req{Type: "range", From: f, To: t})
				}
			}
		}
		if len(cands) == 0 {
			return q, false
		}
		return cands[rng.Intn(len(cands))], true
	}
	return q, false
}

// messages splits a stream of length-delimited messages (uvarint prefix) into its messages
// (each returned with its prefix). ok=false if the bytes are not such a stream.
func messages(p []byte) (out [][]byte, ok bool) {
	for len(p) > 0 {
		l, n := binary.Uvarint(p)
		if n <= 0 || l > uint64(len(p)-n) {
			return nil, false
		}
		out = append(out, p[:n+int(l)])
		p = p[n+int(l):]
	}
	return out, true
}

// Tamper derives a hostile payload of the given kind from an honest one. variant selects among the
// structured ways of being of that kind; the returned label says which was used.
//
//	trunc:  0 cut in the middle of the bytes, 1 drop the last message (or last share for eds), 2 keep one byte
//	ext:    0 append seeded garbage, 1 append a copy of the last message (share), 2 append one zero byte
//	garble: 0 flip a bit inside the largest message body (share bytes), 1 flip a seeded bit anywhere,
//	        2 flip a bit of the first length prefix
func Tamper(kind string, variant int, typ string, honest []byte, rng *rand.Rand) ([]byte, string) {
	p := append([]byte(nil), honest...)
	unit := func() [][]byte { // messages, or shares for the raw eds stream
		if typ == "eds" {
			var u [][]byte
			for i := 0; i+libshare.ShareSize <= len(p); i += libshare.ShareSize {
				u = append(u, p[i:i+libshare.ShareSize])
			}
			return u
		}
		m, _ := messages(p)
		return m
	}
	switch kind {
	case "trunc":
		switch variant % 3 {
		case 0:
			return p[:len(p)/2], "trunc/middle"
		case 1:
			u := unit()
			if len(u) > 1 {
				return p[:len(p)-len(u[len(u)-1])], "trunc/last-unit"
			}
			return p[:len(p)-1], "trunc/last-byte"
		default:
			if len(p) > 1 {
				return p[:1], "trunc/one-byte"
			}
			return nil, "trunc/none"
		}
	case "ext":
		switch variant % 3 {
		case 0:
			g := make([]byte, 1+rng.Intn(64))
			rng.Read(g)
			return append(p, g...), "ext/garbage"
		case 1:
			u := unit()
			if len(u) > 0 {
				return append(p, u[len(u)-1]...), "ext/dup-last-unit"
			}
			return append(p, 0), "ext/zero"
		default:
			return append(p, 0), "ext/zero"
		}
	case "garble":
		if len(p) == 0 {
			return p, "garble/none"
		}
		switch variant % 3 {
		case 0:
			// the middle of the payload is share bytes for every container type used here
			i := len(p)/2 + rng.Intn(max(1, len(p)/8))
			if i >= len(p) {
				i = len(p) - 1
			}
			p[i] ^= 1 << uint(rng.Intn(8))
			return p, "garble/share-bit"
		case 1:
			i := rng.Intn(len(p))
			p[i] ^= 1 << uint(rng.Intn(8))
			return p, "garble/any-bit"
		default:
			p[0] ^= 0x40
			return p, "garble/prefix"
		}
	case "emptyok":
		return nil, "emptyok"
	}
	return p, kind
}
