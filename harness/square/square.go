// Package square turns the abstract squares of spec/common/Square.tla into real celestia data
// squares: real namespaces, real padding shares, real Reed-Solomon extension (rsmt2d + Leopard), real
// NMT roots (celestia-app's ErasuredNamespacedMerkleTree wrapper).
//
// Abstract square ("layout") = ODS width W and W*W cells in row-major order; a cell is a pair
// (NS, PID):
//
//	NS  abstract namespace, a small integer ordered like the real namespaces
//	      1 = TxNamespace (primary reserved)         2 = PrimaryReservedPaddingNamespace
//	      3..7 = user (blob) namespaces, version 0    8 = TailPaddingNamespace
//	      9 = ParitySharesNamespace (never in a layout: it is what the extension produces)
//	PID payload identity: 0 = the padding share of that namespace (all padding shares of one
//	    namespace are byte-identical, exactly as in real squares), > 0 = a data share whose payload
//	    is a deterministic pseudo-random function of (salt, NS, PID). Two squares built with the same
//	    salt contain byte-identical shares wherever (NS, PID) coincide -- that is how a specification
//	    describes "material of a second square that partly overlaps the first".
//
// A layout is valid when namespaces are non-decreasing in row-major order (the only thing the NMTs
// need); Build refuses anything else. Everything is deterministic.
//
// Typical use:
//
//	sq, err := square.Build(square.Layout{W: 2, Cells: []square.Cell{{3, 1}, {3, 2}, {5, 3}, {8, 0}}}, salt)
//	sq.EDS, sq.Roots, sq.Acc (an *eds.Rsmt2D accessor), sq.Share(r, c), sq.Row(r), sq.NamespaceShares(ns)
package square

import (
	"crypto/sha256"
	"encoding/binary"
	"fmt"

	"github.com/celestiaorg/celestia-app/v9/pkg/wrapper"
	libshare "github.com/celestiaorg/go-square/v4/share"
	"github.com/celestiaorg/rsmt2d"

	"github.com/celestiaorg/celestia-node/share"
	"github.com/celestiaorg/celestia-node/share/eds"
)

// Abstract namespaces (keep in sync with spec/common/Square.tla).
const (
	NsTx      = 1
	NsPrimPad = 2
	NsUserMin = 3
	NsUserMax = 7
	NsTail    = 8
	NsParity  = 9
)

// Cell is one ODS cell of a layout.
type Cell struct {
	NS  int `json:"ns"`
	PID int `json:"pid"`
}

// Layout is an abstract ODS.
type Layout struct {
	W     int    `json:"w"`
	Cells []Cell `json:"cells"`
}

// LayoutFrom builds a layout from two parallel slices (the compact form the specs print).
func LayoutFrom(w int, ns, pid []int) (Layout, error) {
	if len(ns) != w*w || len(pid) != w*w {
		return Layout{}, fmt.Errorf("square: need %d cells, got ns=%d pid=%d", w*w, len(ns), len(pid))
	}
	l := Layout{W: w, Cells: make([]Cell, w*w)}
	for i := range ns {
		l.Cells[i] = Cell{NS: ns[i], PID: pid[i]}
	}
	return l, nil
}

// Key is a canonical string for a layout (map key / cache key).
func (l Layout) Key() string {
	b := make([]byte, 0, 8+len(l.Cells)*6)
	b = append(b, fmt.Sprintf("w%d:", l.W)...)
	for _, c := range l.Cells {
		b = append(b, fmt.Sprintf("%d.%d,", c.NS, c.PID)...)
	}
	return string(b)
}

// Validate checks the structural rules of a data square that the commitment scheme relies on.
func (l Layout) Validate() error {
	if l.W < 1 || len(l.Cells) != l.W*l.W {
		return fmt.Errorf("square: bad layout size w=%d cells=%d", l.W, len(l.Cells))
	}
	prev := 0
	for i, c := range l.Cells {
		if c.NS < NsTx || c.NS > NsTail {
			return fmt.Errorf("square: cell %d has namespace %d outside 1..8", i, c.NS)
		}
		if c.NS < prev {
			return fmt.Errorf("square: namespaces decrease at cell %d (%d after %d)", i, c.NS, prev)
		}
		if (c.NS == NsTail || c.NS == NsPrimPad) && c.PID != 0 {
			return fmt.Errorf("square: cell %d: padding namespace %d with a payload", i, c.NS)
		}
		if c.NS == NsTx && c.PID == 0 {
			return fmt.Errorf("square: cell %d: tx namespace has no padding share", i)
		}
		prev = c.NS
	}
	return nil
}

// Namespace maps an abstract namespace to the real one.
func Namespace(ns int) libshare.Namespace {
	switch {
	case ns == NsTx:
		return libshare.TxNamespace
	case ns == NsPrimPad:
		return libshare.PrimaryReservedPaddingNamespace
	case ns >= NsUserMin && ns <= NsUserMax:
		// version-0 user namespaces, ordered like the abstract ones
		id := make([]byte, libshare.NamespaceVersionZeroIDSize)
		id[0] = 0x10
		id[len(id)-1] = byte(ns * 16)
		return libshare.MustNewV0Namespace(id)
	case ns == NsTail:
		return libshare.TailPaddingNamespace
	case ns == NsParity:
		return libshare.ParitySharesNamespace
	}
	panic(fmt.Sprintf("square: unknown abstract namespace %d", ns))
}

// AbstractNamespace is the inverse of Namespace (0 when the namespace is not one of ours).
func AbstractNamespace(n libshare.Namespace) int {
	for i := NsTx; i <= NsParity; i++ {
		if Namespace(i).Equals(n) {
			return i
		}
	}
	return 0
}

// ShareFor returns the real share of an abstract cell.
func ShareFor(salt int64, c Cell) libshare.Share {
	if c.PID == 0 {
		switch c.NS {
		case NsTail:
			return libshare.TailPaddingShare()
		case NsPrimPad:
			return libshare.ReservedPaddingShare()
		default:
			s, err := libshare.NamespacePaddingShare(Namespace(c.NS), libshare.ShareVersionZero)
			if err != nil {
				panic(err)
			}
			return s
		}
	}
	raw := make([]byte, 0, libshare.ShareSize)
	raw = append(raw, Namespace(c.NS).Bytes()...)
	raw = append(raw, 0x00) // info byte: share version 0, not a sequence start
	var ctr uint32
	for len(raw) < libshare.ShareSize {
		var seed [8 + 4 + 4 + 4]byte
		binary.BigEndian.PutUint64(seed[0:], uint64(salt))
		binary.BigEndian.PutUint32(seed[8:], uint32(c.NS))
		binary.BigEndian.PutUint32(seed[12:], uint32(c.PID))
		binary.BigEndian.PutUint32(seed[16:], ctr)
		h := sha256.Sum256(seed[:])
		raw = append(raw, h[:]...)
		ctr++
	}
	s, err := libshare.NewShare(raw[:libshare.ShareSize])
	if err != nil {
		panic(err)
	}
	return s
}

// Square is a layout materialised as real bytes.
type Square struct {
	Layout Layout
	Salt   int64
	EDS    *rsmt2d.ExtendedDataSquare
	Roots  *share.AxisRoots
	Acc    *eds.Rsmt2D // in-memory accessor of the repository (honest producer)
	cells  [][]libshare.Share
}

// Build extends the layout into a real EDS and computes its data availability header.
func Build(l Layout, salt int64) (*Square, error) {
	if err := l.Validate(); err != nil {
		return nil, err
	}
	shares := make([]libshare.Share, len(l.Cells))
	for i, c := range l.Cells {
		shares[i] = ShareFor(salt, c)
	}
	ext, err := rsmt2d.ComputeExtendedDataSquare(
		libshare.ToBytes(shares), share.DefaultRSMT2DCodec(), wrapper.NewConstructor(uint64(l.W)))
	if err != nil {
		return nil, fmt.Errorf("square: extending: %w", err)
	}
	roots, err := share.NewAxisRoots(ext)
	if err != nil {
		return nil, fmt.Errorf("square: roots: %w", err)
	}
	sq := &Square{Layout: l, Salt: salt, EDS: ext, Roots: roots, Acc: &eds.Rsmt2D{ExtendedDataSquare: ext}}
	n := 2 * l.W
	sq.cells = make([][]libshare.Share, n)
	for r := 0; r < n; r++ {
		row, err := libshare.FromBytes(ext.Row(uint(r)))
		if err != nil {
			return nil, err
		}
		sq.cells[r] = row
	}
	return sq, nil
}

// W is the ODS width, EDS width is 2*W.
func (s *Square) W() int { return s.Layout.W }

// Share returns the share at EDS coordinates (r, c), 0 <= r, c < 2*W.
func (s *Square) Share(r, c int) libshare.Share { return s.cells[r][c] }

// Row returns a copy of the full EDS row r (2*W shares).
func (s *Square) Row(r int) []libshare.Share {
	return append([]libshare.Share(nil), s.cells[r]...)
}

// Col returns a copy of the full EDS column c (2*W shares).
func (s *Square) Col(c int) []libshare.Share {
	out := make([]libshare.Share, 2*s.W())
	for r := range out {
		out[r] = s.cells[r][c]
	}
	return out
}

// ODSShares returns the original data shares in row-major order.
func (s *Square) ODSShares() []libshare.Share {
	out := make([]libshare.Share, 0, s.W()*s.W())
	for r := 0; r < s.W(); r++ {
		out = append(out, s.cells[r][:s.W()]...)
	}
	return out
}

// Range returns the ODS shares with row-major ODS indices [from, to).
func (s *Square) Range(from, to int) []libshare.Share {
	all := s.ODSShares()
	return append([]libshare.Share(nil), all[from:to]...)
}

// NamespaceShares returns every ODS share of the abstract namespace, in block order (data and
// namespace-padding shares alike: that is what the commitment covers).
func (s *Square) NamespaceShares(ns int) []libshare.Share {
	var out []libshare.Share
	for i, c := range s.Layout.Cells {
		if c.NS == ns {
			out = append(out, s.cells[i/s.W()][i%s.W()])
		}
	}
	return out
}

// RowsCovering returns the ODS rows whose namespace range [min,max] contains ns (computed from the
// layout, independently of the repository's RowsWithNamespace).
func (s *Square) RowsCovering(ns int) []int {
	var rows []int
	w := s.W()
	for r := 0; r < w; r++ {
		lo, hi := s.Layout.Cells[r*w].NS, s.Layout.Cells[r*w+w-1].NS
		if lo <= ns && ns <= hi {
			rows = append(rows, r)
		}
	}
	return rows
}

// AxisTree builds the real NMT of a row (axis == rsmt2d.Row) or column of the EDS, exactly as the
// repository's producers do, so that range proofs for arbitrary [start,end) can be taken from it.
func (s *Square) AxisTree(axis rsmt2d.Axis, idx int) (*wrapper.ErasuredNamespacedMerkleTree, error) {
	var leaves []libshare.Share
	if axis == rsmt2d.Row {
		leaves = s.Row(idx)
	} else {
		leaves = s.Col(idx)
	}
	tree := wrapper.NewErasuredNamespacedMerkleTree(uint64(s.W()), uint(idx))
	for _, l := range leaves {
		if err := tree.Push(l.ToBytes()); err != nil {
			return nil, err
		}
	}
	return &tree, nil
}
