// Package blobsq builds REAL blocks (go-square builder -> ODS -> rsmt2d EDS -> DAH -> header) from the
// abstract block descriptions enumerated by spec/blob/BlobLayout.tla / BlobParser.tla, reads the
// layout the real builder produced back from the real shares, and serves the square to the code
// under test through a real accessor. Shared by the C11 (drivers/blob) and C12 (drivers/proofs) drivers.
package blobsq

import (
	"bytes"
	"context"
	"crypto/sha256"
	"encoding/binary"
	"fmt"
	"math/rand"

	"github.com/celestiaorg/celestia-app/v9/pkg/appconsts"
	"github.com/celestiaorg/celestia-app/v9/pkg/da"
	square "github.com/celestiaorg/go-square/v4"
	libshare "github.com/celestiaorg/go-square/v4/share"
	gstx "github.com/celestiaorg/go-square/v4/tx"
	"github.com/celestiaorg/rsmt2d"
	core "github.com/cometbft/cometbft/types"

	"github.com/celestiaorg/celestia-node/header"
	"github.com/celestiaorg/celestia-node/share"
	"github.com/celestiaorg/celestia-node/share/eds"
	"github.com/celestiaorg/celestia-node/share/shwap"
)

// Model namespaces (BlobLayout.tla).
const (
	NsCompact = 0
	NsResPad  = 1
	NsTail    = 9
)

// MBlob is a blob of the model: namespace, length in shares, share version, content tag.
type MBlob struct {
	Ns  int `json:"ns"`
	Len int `json:"len"`
	Ver int `json:"ver"`
	C   int `json:"c"`
}

// Seg is a run of equal cells of the model layout (BlobLayout!Segs).
type Seg struct {
	K  string `json:"k"`
	Ns int    `json:"ns"`
	At int    `json:"at"`
	N  int    `json:"n"`
}

// Case is one block enumerated by TLC.
type Case struct {
	Blobs   []MBlob `json:"blobs"` // block order (namespace sorted, stable)
	Compact int     `json:"compact"`
	T       int     `json:"T"`
	W       int     `json:"w"`
	Starts  []int   `json:"starts"`
	Segs    []Seg   `json:"segs"`
}

// Namespace maps a model user namespace (2..8) to a real version-0 namespace; order preserving.
func Namespace(n int) libshare.Namespace {
	id := bytes.Repeat([]byte{0}, libshare.NamespaceVersionZeroIDSize)
	id[len(id)-1] = byte(n)
	id[len(id)-2] = 0x10 // keep clear of the reserved range
	return libshare.MustNewV0Namespace(id)
}

// ModelNs maps a real namespace back to the model's.
func ModelNs(ns libshare.Namespace) int {
	switch {
	case ns.Equals(libshare.TxNamespace), ns.Equals(libshare.PayForBlobNamespace):
		return NsCompact
	case ns.Equals(libshare.PrimaryReservedPaddingNamespace):
		return NsResPad
	case ns.Equals(libshare.TailPaddingNamespace):
		return NsTail
	}
	for n := 2; n <= 8; n++ {
		if ns.Equals(Namespace(n)) {
			return n
		}
	}
	return -1
}

var (
	signerA = bytes.Repeat([]byte{0xA5}, libshare.SignerSize)
	signerB = bytes.Repeat([]byte{0x3C}, libshare.SignerSize)
)

// capacity of n sparse shares for the given share version
func capacity(n, ver int) int {
	first := libshare.FirstSparseShareContentSize
	if ver == 1 {
		first -= libshare.SignerSize
	}
	return first + (n-1)*libshare.ContinuationSparseShareContentSize
}

// DataLen returns a data length (bytes) for which a blob of share version ver occupies exactly n shares.
//
//	fill 0: the minimum for that version (one byte into the last share) -- for version 1 this is inside the
//	        20-byte window in which the signer costs an extra share
//	fill 1: the maximum for that version (last share full)
//	fill 2: a length that needs n shares under BOTH share versions (so that the very same payload can be
//	        posted as v0 and as v1)
func DataLen(n, ver, fill int) int {
	switch fill {
	case 0:
		if n == 1 {
			return 1
		}
		return capacity(n-1, ver) + 1
	case 1:
		return capacity(n, ver)
	default:
		lo, hi := 1, capacity(n, 1) // v1 has the smaller capacity
		if n > 1 {
			lo = capacity(n-1, 0) + 1 // v0 has the larger one
		}
		return lo + (hi-lo)/2
	}
}

// MakeBlob builds the real blob of a model blob. Two model blobs with equal <<ns,len,ver,c>> are
// byte-identical (same commitment); blobs that differ in any of the four differ in (namespace, data,
// share version, signer) -- but NOT necessarily in the payload: the payload bytes are a function of
// (ns, len, salt) and, for v0 blobs, of c only, and half of the (ns,len) shapes use a data length that is
// valid for both share versions. So blocks regularly contain the very same payload as a v0 blob, as a v1
// blob of signer A (c=1) and as a v1 blob of signer B (c=2): three different commitments.
func MakeBlob(mb MBlob, salt int64) (*libshare.Blob, error) {
	var key [40]byte
	binary.LittleEndian.PutUint64(key[0:], uint64(mb.Ns))
	binary.LittleEndian.PutUint64(key[8:], uint64(mb.Len))
	binary.LittleEndian.PutUint64(key[32:], uint64(salt))
	shape := sha256.Sum256(key[:])
	fill := int(shape[9]) % 4 // 0: min, 1: max, 2/3: common to both versions
	c := mb.C
	if mb.Ver == 1 && c <= 2 {
		c = 1 // signed blobs are told apart by their signer, not by their payload
	}
	binary.LittleEndian.PutUint64(key[24:], uint64(c))
	h := sha256.Sum256(key[:])
	r := rand.New(rand.NewSource(int64(binary.LittleEndian.Uint64(h[:8]))))
	// generate the longest candidate and cut: payloads of the same shape share their prefix
	data := make([]byte, capacity(mb.Len, 0))
	r.Read(data)
	data = data[:DataLen(mb.Len, mb.Ver, fill)]
	if mb.Ver == 1 {
		sg := signerA
		if mb.C == 2 {
			sg = signerB
		}
		return libshare.NewV1Blob(Namespace(mb.Ns), data, sg)
	}
	return libshare.NewV0Blob(Namespace(mb.Ns), data)
}

// Block is a real block built from a Case.
type Block struct {
	Case       Case
	Height     uint64
	Txs        [][]byte
	Blobs      []*libshare.Blob // block order: Blobs[i] is Case.Blobs[i]
	RealStarts []int            // ODS start index of every blob as recorded by the real builder (PFB share indexes)
	Reserved   int              // TxCounter.Size()+PfbCounter.Size() of the real builder
	ODS        []libshare.Share
	W          int
	EDS        *rsmt2d.ExtendedDataSquare
	Roots      *share.AxisRoots
	Header     *header.ExtendedHeader
}

// Build constructs the block with the real builder. The submission order is a seeded shuffle of the
// block order that keeps the relative order inside every namespace (the builder sorts stably), and
// the blobs are grouped into blob transactions at seeded boundaries (several blobs, possibly of
// different namespaces, per transaction).
func Build(c Case, height uint64, salt int64, rng *rand.Rand) (*Block, error) {
	b := &Block{Case: c, Height: height}
	n := len(c.Blobs)
	b.Blobs = make([]*libshare.Blob, n)
	for i, mb := range c.Blobs {
		bl, err := MakeBlob(mb, salt)
		if err != nil {
			return nil, fmt.Errorf("blob %d: %w", i, err)
		}
		if got := libshare.SparseSharesNeeded(uint32(bl.DataLen()), bl.HasSigner()); got != mb.Len {
			return nil, fmt.Errorf("blob %d: needs %d shares, model says %d", i, got, mb.Len)
		}
		b.Blobs[i] = bl
	}
	// submission order: merge the per-namespace queues in random order
	order := make([]int, 0, n)
	{
		queues := map[int][]int{}
		keys := []int{}
		for i, mb := range c.Blobs {
			if _, ok := queues[mb.Ns]; !ok {
				keys = append(keys, mb.Ns)
			}
			queues[mb.Ns] = append(queues[mb.Ns], i)
		}
		for len(order) < n {
			k := keys[rng.Intn(len(keys))]
			if len(queues[k]) == 0 {
				continue
			}
			order = append(order, queues[k][0])
			queues[k] = queues[k][1:]
		}
	}
	// ordinary transactions: they only reserve compact shares
	pfbShares := 0
	if n > 0 {
		pfbShares = 1
	}
	txShares := c.Compact - pfbShares
	if txShares < 0 {
		return nil, fmt.Errorf("compact=%d impossible with %d blobs", c.Compact, n)
	}
	if txShares > 0 {
		size := (txShares-1)*libshare.ContinuationCompactShareContentSize + 100
		t := bytes.Repeat([]byte{0xFF}, size) // not a BlobTx, not an SDK tx
		b.Txs = append(b.Txs, t)
	}
	nNormal := len(b.Txs)
	// blob transactions
	type ref struct{ tx, idx int }
	where := make([]ref, n)
	for i := 0; i < n; {
		k := 1 + rng.Intn(n-i)
		grp := order[i : i+k]
		bl := make([]*libshare.Blob, k)
		for j, o := range grp {
			bl[j] = b.Blobs[o]
			where[o] = ref{len(b.Txs), j}
		}
		inner := make([]byte, 10)
		rng.Read(inner)
		inner[0] = 0xFF
		raw, err := gstx.MarshalBlobTx(inner, bl...)
		if err != nil {
			return nil, err
		}
		b.Txs = append(b.Txs, raw)
		i += k
	}
	_ = nNormal
	// the real builder (the code da.ConstructEDS / square.Construct run)
	bld, err := square.NewBuilder(appconsts.SquareSizeUpperBound, c.T, b.Txs...)
	if err != nil {
		return nil, fmt.Errorf("builder: %w", err)
	}
	b.Reserved = bld.TxCounter.Size() + bld.PfbCounter.Size()
	sq, err := bld.Export()
	if err != nil {
		return nil, fmt.Errorf("export: %w", err)
	}
	b.RealStarts = make([]int, n)
	for o := range c.Blobs {
		st, err := bld.FindBlobStartingIndex(where[o].tx, where[o].idx)
		if err != nil {
			return nil, fmt.Errorf("blob start: %w", err)
		}
		b.RealStarts[o] = st
	}
	b.ODS = sq
	if b.W, err = sq.Size(); err != nil {
		return nil, err
	}
	if c.T == appconsts.SubtreeRootThreshold {
		// production path
		b.EDS, err = da.ConstructEDS(b.Txs, appconsts.Version, -1)
		if err != nil {
			return nil, fmt.Errorf("ConstructEDS: %w", err)
		}
		flat := b.EDS.FlattenedODS()
		if len(flat) != len(sq) {
			return nil, fmt.Errorf("ConstructEDS and Builder disagree on the size: %d vs %d", len(flat), len(sq))
		}
		for i := range flat {
			if !bytes.Equal(flat[i], sq[i].ToBytes()) {
				return nil, fmt.Errorf("ConstructEDS and Builder disagree on share %d", i)
			}
		}
	} else {
		b.EDS, err = da.ExtendShares(libshare.ToBytes(sq))
		if err != nil {
			return nil, err
		}
	}
	b.Roots, err = share.NewAxisRoots(b.EDS)
	if err != nil {
		return nil, err
	}
	b.Header = &header.ExtendedHeader{
		RawHeader: core.Header{Height: int64(height), DataHash: b.Roots.Hash(), ChainID: "verif"},
		DAH:       b.Roots,
	}
	return b, nil
}

// RealSegs reads the layout back from the real shares in the run-length form of BlobLayout!Segs.
func (b *Block) RealSegs() ([]Seg, error) {
	type cell struct {
		k  string
		ns int
	}
	cells := make([]cell, len(b.ODS))
	seenBlob := false
	for i, sh := range b.ODS {
		ns := ModelNs(sh.Namespace())
		if ns < 0 {
			return nil, fmt.Errorf("share %d: unknown namespace %s", i, sh.Namespace().String())
		}
		var k string
		switch {
		case ns == NsCompact:
			k = "compact"
		case ns == NsResPad:
			k = "rpad"
		case ns == NsTail:
			k = "tail"
		case sh.IsPadding():
			k = "nspad"
		case sh.IsSequenceStart():
			k = "start"
			seenBlob = true
		default:
			k = "cont"
		}
		if (k == "rpad" || k == "tail") && !sh.IsPadding() {
			return nil, fmt.Errorf("share %d: reserved padding namespace but not a padding share", i)
		}
		cells[i] = cell{k, ns}
	}
	_ = seenBlob
	var segs []Seg
	for i, c := range cells {
		if i == 0 || c != cells[i-1] || c.k == "start" {
			segs = append(segs, Seg{K: c.k, Ns: c.ns, At: i, N: 1})
		} else {
			segs[len(segs)-1].N++
		}
	}
	return segs, nil
}

// CompareLayout returns the differences between the real layout and the model's (empty = equal).
func (b *Block) CompareLayout() []string {
	var diff []string
	c := b.Case
	if b.Reserved != c.Compact {
		diff = append(diff, fmt.Sprintf("reserved compact shares: real %d model %d", b.Reserved, c.Compact))
	}
	if b.W != c.W {
		diff = append(diff, fmt.Sprintf("width: real %d model %d", b.W, c.W))
	}
	for i := range c.Blobs {
		if i < len(c.Starts) && b.RealStarts[i] != c.Starts[i] {
			diff = append(diff, fmt.Sprintf("start of blob %d: real %d model %d", i, b.RealStarts[i], c.Starts[i]))
		}
	}
	real, err := b.RealSegs()
	if err != nil {
		return append(diff, err.Error())
	}
	if len(c.Segs) == 0 {
		// arithmetic-only case (MCBlobLayoutWide): width and start indices were compared above; the kinds
		// of the real shares must still be consistent with them: a sequence start exactly at every start
		n := 0
		for _, s := range real {
			if s.K == "start" {
				if n >= len(c.Starts) || s.At != c.Starts[n] {
					diff = append(diff, fmt.Sprintf("sequence start %d at %d, model %v", n, s.At, c.Starts))
				}
				n++
			}
		}
		if n != len(c.Starts) {
			diff = append(diff, fmt.Sprintf("%d sequence starts, model has %d blobs", n, len(c.Starts)))
		}
		return diff
	}
	if len(real) != len(c.Segs) {
		diff = append(diff, fmt.Sprintf("segments: real %v model %v", real, c.Segs))
	} else {
		for i := range real {
			if real[i] != c.Segs[i] {
				diff = append(diff, fmt.Sprintf("segment %d: real %+v model %+v", i, real[i], c.Segs[i]))
			}
		}
	}
	return diff
}

// EdsIndex converts an ODS share index into the index in the extended square (Blob.Index()).
func (b *Block) EdsIndex(i int) int { return (i/b.W)*(2*b.W) + i%b.W }

// MemGetter serves blocks through the real in-memory accessor (share/eds.Rsmt2D): the same
// NamespaceData / RangeNamespaceData code the store accessors run.
type MemGetter struct {
	Blocks map[uint64]*Block
}

var _ shwap.Getter = (*MemGetter)(nil)

func NewMemGetter() *MemGetter { return &MemGetter{Blocks: map[uint64]*Block{}} }

func (g *MemGetter) Add(b *Block) { g.Blocks[b.Height] = b }

func (g *MemGetter) acc(h *header.ExtendedHeader) (*eds.Rsmt2D, error) {
	b, ok := g.Blocks[h.Height()]
	if !ok {
		return nil, shwap.ErrNotFound
	}
	return &eds.Rsmt2D{ExtendedDataSquare: b.EDS}, nil
}

func (g *MemGetter) GetSamples(ctx context.Context, h *header.ExtendedHeader, idx []shwap.SampleCoords) ([]shwap.Sample, error) {
	a, err := g.acc(h)
	if err != nil {
		return nil, err
	}
	out := make([]shwap.Sample, len(idx))
	for i, c := range idx {
		if out[i], err = a.Sample(ctx, c); err != nil {
			return nil, err
		}
	}
	return out, nil
}

func (g *MemGetter) GetEDS(_ context.Context, h *header.ExtendedHeader) (*rsmt2d.ExtendedDataSquare, error) {
	a, err := g.acc(h)
	if err != nil {
		return nil, err
	}
	return a.ExtendedDataSquare, nil
}

func (g *MemGetter) GetRow(ctx context.Context, h *header.ExtendedHeader, rowIdx int) (shwap.Row, error) {
	a, err := g.acc(h)
	if err != nil {
		return shwap.Row{}, err
	}
	half, err := a.AxisHalf(ctx, rsmt2d.Row, rowIdx)
	if err != nil {
		return shwap.Row{}, err
	}
	return half.ToRow(), nil
}

func (g *MemGetter) GetNamespaceData(ctx context.Context, h *header.ExtendedHeader, ns libshare.Namespace) (shwap.NamespaceData, error) {
	a, err := g.acc(h)
	if err != nil {
		return nil, err
	}
	return eds.NamespaceData(ctx, a, ns)
}

func (g *MemGetter) GetRangeNamespaceData(ctx context.Context, h *header.ExtendedHeader, from, to int) (shwap.RangeNamespaceData, error) {
	a, err := g.acc(h)
	if err != nil {
		return shwap.RangeNamespaceData{}, err
	}
	return a.RangeNamespaceData(ctx, from, to)
}

// HeaderByHeight is the header getter handed to blob.NewService.
func (g *MemGetter) HeaderByHeight(_ context.Context, height uint64) (*header.ExtendedHeader, error) {
	b, ok := g.Blocks[height]
	if !ok {
		return nil, fmt.Errorf("no header at %d", height)
	}
	return b.Header, nil
}

// InRowPaddingThenTwoStarts reports whether the REAL square has a row of one namespace shaped
// [shares of earlier blob(s)][namespace padding][blob completing in the row][another blob start]
// (BlobLayout!InRowPaddingThenTwoStarts, read from the real shares).
func (b *Block) InRowPaddingThenTwoStarts() bool {
	for r := 0; r < b.W; r++ {
		row := b.ODS[r*b.W : (r+1)*b.W]
		for c := 1; c < b.W; c++ {
			ns := row[c].Namespace()
			if ModelNs(ns) < 2 || ModelNs(ns) > 8 || !row[c].IsPadding() {
				continue
			}
			// a non-padding share of the namespace before the padding, in this row
			before := false
			for d := 0; d < c; d++ {
				if row[d].Namespace().Equals(ns) && !row[d].IsPadding() {
					before = true
				}
			}
			if !before {
				continue
			}
			// two sequence starts of the namespace behind it, in this row
			starts := 0
			for d := c + 1; d < b.W; d++ {
				sh := row[d]
				if sh.Namespace().Equals(ns) && !sh.IsPadding() && sh.IsSequenceStart() {
					starts++
				}
			}
			if starts >= 2 {
				return true
			}
		}
	}
	return false
}
