// Package storeref is the read-back oracle of the store drivers (C07 storecrash, C08 storeconc):
// seeded reference squares and a comparison of EVERY read path of an accessor handed out by the
// real store with the square that was put (byte equality + verification of proofs against the
// reference roots). It is deliberately independent of the C05 driver.
package storeref

import (
	"bytes"
	"context"
	"fmt"
	"io"
	"math/rand"
	"sort"

	"github.com/celestiaorg/celestia-app/v9/pkg/wrapper"
	libshare "github.com/celestiaorg/go-square/v4/share"
	"github.com/celestiaorg/rsmt2d"

	"github.com/celestiaorg/celestia-node/share"
	"github.com/celestiaorg/celestia-node/share/eds"
	"github.com/celestiaorg/celestia-node/share/shwap"
)

// Ref is a reference block: the square that is put into the store and everything derived from it.
type Ref struct {
	Name  string
	OdsW  int // ODS width
	W     int // EDS width
	Pad   int // tail padding shares at the end of the ODS
	Seed  int64
	Empty bool
	EDS   *rsmt2d.ExtendedDataSquare
	Roots *share.AxisRoots
	Hash  share.DataHash
	Acc   *eds.Rsmt2D // in-memory accessor of the repository over the same square
	cells [][]byte    // EDS cells, row-major
	NS    []libshare.Namespace
	// expected file sizes (store/file format: 65 byte header, 2*W roots of 90 bytes, shares up to the
	// first tail padding share; Q4 = OdsW*OdsW shares)
	OdsFileSize int64
	Q4FileSize  int64
	HdrSize     int64

	odsImage, q4Image []byte
}

const hdrSize = 65

// Build creates a seeded square of ODS width odsW whose last pad shares are tail padding.
func Build(name string, seed int64, odsW, pad int) (*Ref, error) {
	rnd := rand.New(rand.NewSource(seed*7919 + int64(odsW)*31 + int64(pad)))
	n := odsW * odsW
	if pad < 0 || pad >= n {
		return nil, fmt.Errorf("storeref: bad padding %d for %d shares", pad, n)
	}
	// a handful of version-0 namespaces so that several shares share one and rows hold several
	nns := 1 + rnd.Intn(4)
	nss := make([]libshare.Namespace, 0, nns)
	for len(nss) < nns {
		id := make([]byte, libshare.NamespaceVersionZeroIDSize)
		rnd.Read(id)
		id[0] |= 0x01
		ns, err := libshare.NewV0Namespace(id)
		if err != nil {
			continue
		}
		if ns.ValidateForData() != nil {
			continue
		}
		nss = append(nss, ns)
	}
	raw := make([][]byte, 0, n)
	for i := 0; i < n-pad; i++ {
		shr := make([]byte, libshare.ShareSize)
		rnd.Read(shr)
		copy(shr[:libshare.NamespaceSize], nss[rnd.Intn(len(nss))].Bytes())
		raw = append(raw, shr)
	}
	sort.Slice(raw, func(i, j int) bool { return bytes.Compare(raw[i], raw[j]) < 0 })
	for i := 0; i < pad; i++ {
		tp := libshare.TailPaddingShare()
		raw = append(raw, tp.ToBytes())
	}
	ext, err := rsmt2d.ComputeExtendedDataSquare(raw, share.DefaultRSMT2DCodec(), wrapper.NewConstructor(uint64(odsW)))
	if err != nil {
		return nil, fmt.Errorf("storeref: extending: %w", err)
	}
	r, err := FromEDS(name, ext)
	if err != nil {
		return nil, err
	}
	r.Seed, r.Pad = seed, pad
	seen := map[string]bool{}
	for i := 0; i < n-pad; i++ {
		k := string(raw[i][:libshare.NamespaceSize])
		if !seen[k] {
			seen[k] = true
			ns, _ := libshare.NewNamespaceFromBytes(raw[i][:libshare.NamespaceSize])
			r.NS = append(r.NS, ns)
		}
	}
	return r, nil
}

// EmptyRef is the empty block.
func EmptyRef() *Ref {
	r, err := FromEDS("empty", share.EmptyEDS())
	if err != nil {
		panic(err)
	}
	r.Empty = true
	r.Pad = 1
	return r
}

// FromEDS derives the reference from an extended square.
func FromEDS(name string, ext *rsmt2d.ExtendedDataSquare) (*Ref, error) {
	roots, err := share.NewAxisRoots(ext)
	if err != nil {
		return nil, err
	}
	w := int(ext.Width())
	r := &Ref{Name: name, OdsW: w / 2, W: w, EDS: ext, Roots: roots, Hash: roots.Hash(),
		Acc: &eds.Rsmt2D{ExtendedDataSquare: ext}, HdrSize: hdrSize}
	r.cells = make([][]byte, w*w)
	for i := 0; i < w; i++ {
		for j := 0; j < w; j++ {
			r.cells[i*w+j] = ext.GetCell(uint(i), uint(j))
		}
	}
	filled := 0
	for i := 0; i < r.OdsW*r.OdsW; i++ {
		c := r.Cell(i/r.OdsW, i%r.OdsW)
		ns, _ := libshare.NewNamespaceFromBytes(c[:libshare.NamespaceSize])
		if ns.Equals(libshare.TailPaddingNamespace) {
			break
		}
		filled++
	}
	r.Pad = r.OdsW*r.OdsW - filled
	r.OdsFileSize = int64(hdrSize + 2*w*share.AxisRootSize + filled*libshare.ShareSize)
	r.Q4FileSize = int64(r.OdsW * r.OdsW * libshare.ShareSize)
	return r, nil
}

func (r *Ref) Cell(row, col int) []byte { return r.cells[row*r.W+col] }

// Mismatch is one read that did not return the reference data.
type Mismatch struct {
	Path   string `json:"path"`
	Detail string `json:"detail"`
}

func (m Mismatch) String() string { return m.Path + ": " + m.Detail }

// Opts selects how much is read.
type Opts struct {
	Rnd        *rand.Rand // source of sampled arguments (never nil when MaxSamples < all)
	MaxSamples int        // 0 = every coordinate
	LowerFirst bool       // read a lower-half axis first (forces the lazy Q4 open before anything else)
	Max        int        // stop after this many mismatches (0 = 8)
}

// ReadBack reads the accessor through every read path and compares with the reference.
// An error returned by a read path that must succeed on a stored block is a mismatch too.
func ReadBack(ctx context.Context, acc eds.AccessorStreamer, ref *Ref, o Opts) (out []Mismatch, reads int) {
	max := o.Max
	if max == 0 {
		max = 8
	}
	bad := func(path, f string, a ...any) {
		if len(out) < max {
			out = append(out, Mismatch{Path: path, Detail: fmt.Sprintf(f, a...)})
		}
	}
	full := func() bool { return len(out) >= max }

	size, err := acc.Size(ctx)
	reads++
	if err != nil || size != ref.W {
		bad("Size", "got %d err=%v want %d", size, err, ref.W)
		return out, reads
	}
	dh, err := acc.DataHash(ctx)
	reads++
	if err != nil || !bytes.Equal(dh, ref.Hash) {
		bad("DataHash", "got %X err=%v want %X", []byte(dh), err, []byte(ref.Hash))
	}

	axisCheck := func(axis rsmt2d.Axis, idx int) {
		half, err := acc.AxisHalf(ctx, axis, idx)
		reads++
		name := fmt.Sprintf("AxisHalf(%s,%d)", axisName(axis), idx)
		if err != nil {
			bad(name, "error %v", err)
			return
		}
		ext, err := half.Extended()
		if err != nil {
			bad(name, "extending: %v", err)
			return
		}
		if len(ext) != ref.W {
			bad(name, "len %d want %d", len(ext), ref.W)
			return
		}
		for k := 0; k < ref.W; k++ {
			want := ref.Cell(idx, k)
			if axis == rsmt2d.Col {
				want = ref.Cell(k, idx)
			}
			if !bytes.Equal(ext[k].ToBytes(), want) {
				bad(name, "share %d differs (parityHalf=%v)", k, half.IsParity)
				return
			}
		}
	}
	order := make([]int, 0, ref.W)
	if o.LowerFirst {
		for i := ref.W - 1; i >= 0; i-- {
			order = append(order, i)
		}
	} else {
		for i := 0; i < ref.W; i++ {
			order = append(order, i)
		}
	}
	for _, i := range order {
		if full() {
			return out, reads
		}
		axisCheck(rsmt2d.Row, i)
	}
	for _, i := range order {
		if full() {
			return out, reads
		}
		axisCheck(rsmt2d.Col, i)
	}

	roots, err := acc.AxisRoots(ctx)
	reads++
	if err != nil {
		bad("AxisRoots", "error %v", err)
	} else if !rootsEqual(roots, ref.Roots) {
		bad("AxisRoots", "differ")
	}

	// samples: every coordinate, or a seeded subset that always contains the four quadrants' corners
	var coords [][2]int
	if o.MaxSamples == 0 || ref.W*ref.W <= o.MaxSamples {
		for r := 0; r < ref.W; r++ {
			for c := 0; c < ref.W; c++ {
				coords = append(coords, [2]int{r, c})
			}
		}
	} else {
		h := ref.OdsW
		coords = append(coords, [2]int{0, 0}, [2]int{h - 1, h - 1}, [2]int{0, h}, [2]int{h - 1, ref.W - 1},
			[2]int{h, 0}, [2]int{ref.W - 1, h - 1}, [2]int{h, h}, [2]int{ref.W - 1, ref.W - 1})
		for len(coords) < o.MaxSamples {
			coords = append(coords, [2]int{o.Rnd.Intn(ref.W), o.Rnd.Intn(ref.W)})
		}
	}
	for _, rc := range coords {
		if full() {
			return out, reads
		}
		name := fmt.Sprintf("Sample(%d,%d)", rc[0], rc[1])
		s, err := acc.Sample(ctx, shwap.SampleCoords{Row: rc[0], Col: rc[1]})
		reads++
		if err != nil {
			bad(name, "error %v", err)
			continue
		}
		if !bytes.Equal(s.Share.ToBytes(), ref.Cell(rc[0], rc[1])) {
			bad(name, "share differs")
			continue
		}
		if err := s.Verify(ref.Roots, rc[0], rc[1]); err != nil {
			bad(name, "proof does not verify against the block's roots: %v", err)
		}
	}

	// namespace data of every row for every namespace of the block (+ differential against the
	// in-memory reference accessor for rows that do not hold the namespace)
	for _, ns := range ref.NS {
		for row := 0; row < ref.OdsW; row++ {
			if full() {
				return out, reads
			}
			name := fmt.Sprintf("RowNamespaceData(%X..,%d)", ns.ID()[len(ns.ID())-4:], row)
			want, werr := ref.Acc.RowNamespaceData(ctx, ns, row)
			got, gerr := acc.RowNamespaceData(ctx, ns, row)
			reads++
			if (werr == nil) != (gerr == nil) {
				bad(name, "error mismatch: got %v, reference %v", gerr, werr)
				continue
			}
			if werr != nil {
				continue
			}
			if !sharesEqual(got.Shares, want.Shares) {
				bad(name, "shares differ from reference (%d vs %d)", len(got.Shares), len(want.Shares))
				continue
			}
			if err := got.Verify(ref.Roots, ns, row); err != nil {
				bad(name, "does not verify: %v", err)
			}
		}
	}

	// whole ODS
	shs, err := acc.Shares(ctx)
	reads++
	if err != nil {
		bad("Shares", "error %v", err)
	} else if len(shs) != ref.OdsW*ref.OdsW {
		bad("Shares", "len %d want %d", len(shs), ref.OdsW*ref.OdsW)
	} else {
		for i, s := range shs {
			if !bytes.Equal(s.ToBytes(), ref.Cell(i/ref.OdsW, i%ref.OdsW)) {
				bad("Shares", "share %d differs", i)
				break
			}
		}
	}

	rd, err := acc.Reader()
	reads++
	if err != nil {
		bad("Reader", "error %v", err)
	} else {
		want := make([]byte, 0, ref.OdsW*ref.OdsW*libshare.ShareSize)
		for i := 0; i < ref.OdsW*ref.OdsW; i++ {
			want = append(want, ref.Cell(i/ref.OdsW, i%ref.OdsW)...)
		}
		got, err := io.ReadAll(rd)
		if err != nil {
			bad("Reader", "read error %v", err)
		} else if !bytes.Equal(trimTail(got, ref), trimTail(want, ref)) || len(got) > len(want) {
			bad("Reader", "stream differs (got %d bytes, want %d)", len(got), len(want))
		}
	}

	// ranges: differential against the in-memory accessor
	n := ref.OdsW * ref.OdsW
	ranges := [][2]int{{0, 1}, {0, n}, {n - 1, n}}
	if n > 2 {
		ranges = append(ranges, [2]int{1, n - 1})
	}
	if o.Rnd != nil {
		for i := 0; i < 3; i++ {
			a := o.Rnd.Intn(n)
			b := a + 1 + o.Rnd.Intn(n-a)
			ranges = append(ranges, [2]int{a, b})
		}
	}
	for _, ab := range ranges {
		if full() {
			return out, reads
		}
		name := fmt.Sprintf("RangeNamespaceData(%d,%d)", ab[0], ab[1])
		want, werr := ref.Acc.RangeNamespaceData(ctx, ab[0], ab[1])
		got, gerr := acc.RangeNamespaceData(ctx, ab[0], ab[1])
		reads++
		if (werr == nil) != (gerr == nil) {
			bad(name, "error mismatch: got %v, reference %v", gerr, werr)
			continue
		}
		if werr != nil {
			continue
		}
		if !sharesEqual(got.Flatten(), want.Flatten()) {
			bad(name, "shares differ from reference")
		}
	}
	return out, reads
}

// trimTail: a streamed ODS may stop at the first tail padding share or contain the padding; both
// are the same block. Compare the non-padding prefix and require the rest to be padding.
func trimTail(b []byte, ref *Ref) []byte {
	filled := (ref.OdsW*ref.OdsW - ref.Pad) * libshare.ShareSize
	if len(b) < filled {
		return b
	}
	tp := libshare.TailPaddingShare()
	pad := tp.ToBytes()
	for off := filled; off+libshare.ShareSize <= len(b); off += libshare.ShareSize {
		if !bytes.Equal(b[off:off+libshare.ShareSize], pad) {
			return b
		}
	}
	if (len(b)-filled)%libshare.ShareSize != 0 {
		return b
	}
	return b[:filled]
}

func sharesEqual(a, b []libshare.Share) bool {
	if len(a) != len(b) {
		return false
	}
	for i := range a {
		if !bytes.Equal(a[i].ToBytes(), b[i].ToBytes()) {
			return false
		}
	}
	return true
}

func axisName(a rsmt2d.Axis) string {
	if a == rsmt2d.Row {
		return "row"
	}
	return "col"
}

// ReadSome performs n seeded random reads through the accessor and compares each with the reference.
// lowerFirst makes the first read an axis of the lower half (the read that opens the Q4 file lazily).
func ReadSome(ctx context.Context, acc eds.AccessorStreamer, ref *Ref, rnd *rand.Rand, n int, lowerFirst bool) (out []Mismatch, reads int) {
	bad := func(path, f string, a ...any) {
		if len(out) < 8 {
			out = append(out, Mismatch{Path: path, Detail: fmt.Sprintf(f, a...)})
		}
	}
	axis := func(ax rsmt2d.Axis, idx int) {
		name := fmt.Sprintf("AxisHalf(%s,%d)", axisName(ax), idx)
		half, err := acc.AxisHalf(ctx, ax, idx)
		reads++
		if err != nil {
			bad(name, "error %v", err)
			return
		}
		ext, err := half.Extended()
		if err != nil || len(ext) != ref.W {
			bad(name, "extending: %v (len %d)", err, len(ext))
			return
		}
		for k := 0; k < ref.W; k++ {
			want := ref.Cell(idx, k)
			if ax == rsmt2d.Col {
				want = ref.Cell(k, idx)
			}
			if !bytes.Equal(ext[k].ToBytes(), want) {
				bad(name, "share %d differs (parityHalf=%v)", k, half.IsParity)
				return
			}
		}
	}
	sample := func(r, c int) {
		name := fmt.Sprintf("Sample(%d,%d)", r, c)
		s, err := acc.Sample(ctx, shwap.SampleCoords{Row: r, Col: c})
		reads++
		if err != nil {
			bad(name, "error %v", err)
			return
		}
		if !bytes.Equal(s.Share.ToBytes(), ref.Cell(r, c)) {
			bad(name, "share differs")
			return
		}
		if err := s.Verify(ref.Roots, r, c); err != nil {
			bad(name, "proof does not verify: %v", err)
		}
	}
	for i := 0; i < n && len(out) < 8; i++ {
		k := rnd.Intn(10)
		if i == 0 && lowerFirst {
			k = 0
		}
		switch {
		case k == 0: // lower-half row / right-half column: served from Q4 when it is bound
			if rnd.Intn(2) == 0 {
				axis(rsmt2d.Row, ref.OdsW+rnd.Intn(ref.OdsW))
			} else {
				axis(rsmt2d.Col, ref.OdsW+rnd.Intn(ref.OdsW))
			}
		case k == 1:
			axis(rsmt2d.Axis(rnd.Intn(2)), rnd.Intn(ref.OdsW))
		case k <= 5:
			sample(rnd.Intn(ref.W), rnd.Intn(ref.W))
		case k == 6 && len(ref.NS) > 0:
			ns := ref.NS[rnd.Intn(len(ref.NS))]
			row := rnd.Intn(ref.OdsW)
			name := fmt.Sprintf("RowNamespaceData(%d)", row)
			want, werr := ref.Acc.RowNamespaceData(ctx, ns, row)
			got, gerr := acc.RowNamespaceData(ctx, ns, row)
			reads++
			if (werr == nil) != (gerr == nil) {
				bad(name, "error mismatch: got %v, reference %v", gerr, werr)
			} else if werr == nil && !sharesEqual(got.Shares, want.Shares) {
				bad(name, "shares differ")
			}
		case k == 7:
			roots, err := acc.AxisRoots(ctx)
			reads++
			if err != nil || !rootsEqual(roots, ref.Roots) {
				bad("AxisRoots", "err=%v / differ", err)
			}
			dh, err := acc.DataHash(ctx)
			if err != nil || !bytes.Equal(dh, ref.Hash) {
				bad("DataHash", "err=%v / differs", err)
			}
		case k == 8:
			shs, err := acc.Shares(ctx)
			reads++
			if err != nil || len(shs) != ref.OdsW*ref.OdsW {
				bad("Shares", "err=%v len=%d", err, len(shs))
				break
			}
			for j, s := range shs {
				if !bytes.Equal(s.ToBytes(), ref.Cell(j/ref.OdsW, j%ref.OdsW)) {
					bad("Shares", "share %d differs", j)
					break
				}
			}
		default:
			sample(ref.OdsW+rnd.Intn(ref.OdsW), rnd.Intn(ref.W)) // lower half: Q4 / Q3
		}
	}
	return out, reads
}

// rootsEqual compares axis roots slice by slice. It deliberately does not use AxisRoots.Equals/Hash:
// Hash() memoizes its result inside the object without synchronisation and the store hands the SAME
// *AxisRoots to every reader of a cached accessor, so hashing it from two readers is a data race of
// the caller's making.
func rootsEqual(a, b *share.AxisRoots) bool {
	if a == nil || b == nil || len(a.RowRoots) != len(b.RowRoots) || len(a.ColumnRoots) != len(b.ColumnRoots) {
		return false
	}
	for i := range a.RowRoots {
		if !bytes.Equal(a.RowRoots[i], b.RowRoots[i]) {
			return false
		}
	}
	for i := range a.ColumnRoots {
		if !bytes.Equal(a.ColumnRoots[i], b.ColumnRoots[i]) {
			return false
		}
	}
	return true
}

// OdsImage is the byte image of a complete blocks/<hash>.ods file of the block, built from the format
// (store/file/header.go, ods.go) independently of the code that writes it: 1 version byte, 64 byte
// header (file version, share size, square size, data hash), row roots, column roots, then the ODS
// shares row-major up to the first tail padding share.
func (r *Ref) OdsImage() []byte {
	if r.odsImage != nil {
		return r.odsImage
	}
	b := make([]byte, 0, r.OdsFileSize)
	b = append(b, 1) // headerVersionV0
	hdr := make([]byte, 64)
	hdr[0] = 1 // fileV0
	hdr[28], hdr[29] = byte(libshare.ShareSize&0xff), byte(libshare.ShareSize>>8)
	hdr[30], hdr[31] = byte(r.W), byte(r.W>>8)
	copy(hdr[32:64], r.Hash)
	b = append(b, hdr...)
	for _, root := range r.Roots.RowRoots {
		b = append(b, root...)
	}
	for _, root := range r.Roots.ColumnRoots {
		b = append(b, root...)
	}
	filled := r.OdsW*r.OdsW - r.Pad
	for i := 0; i < filled; i++ {
		b = append(b, r.Cell(i/r.OdsW, i%r.OdsW)...)
	}
	r.odsImage = b
	return b
}

// Q4Image is the byte image of a complete blocks/<hash>.q4 file: the fourth quadrant row-major.
func (r *Ref) Q4Image() []byte {
	if r.q4Image != nil {
		return r.q4Image
	}
	b := make([]byte, 0, r.Q4FileSize)
	for i := 0; i < r.OdsW; i++ {
		for j := 0; j < r.OdsW; j++ {
			b = append(b, r.Cell(r.OdsW+i, r.OdsW+j)...)
		}
	}
	r.q4Image = b
	return b
}
