// Package dasdrv drives the REAL das.DASer (public constructor, stub availability / header
// subscription / header store / datastore) through scripts of stimuli and records its behaviour.
//
// Scripts come from TLC (counterexamples of the models with a repair switched off, simulated
// behaviours of spec/das/MCDAS.tla) and from a seeded random walk. Workers are gated through the
// `verif` hooks of /repo/das, so that exactly one stimulus is in flight at any time and the
// schedule is the script's. Recorded: every coordinator critical section with its state (hook),
// every worker step, every checkpoint written to the datastore.
//
// Property monitors are evaluated on what a user can observe: SamplingStats, the persisted
// checkpoint JSON, which heights the availability check really accepted, WaitCatchUp, and an
// end-to-end drain (restart if needed, let everything succeed, every height must get sampled).
// The NDJSON trace is validated afterwards against spec/das/DASTrace.tla by TLC.
package dasdrv

import (
	"context"
	"encoding/json"
	"errors"
	"fmt"
	"math/rand"
	"os"
	"path/filepath"
	"sort"
	"strings"
	"sync"
	"sync/atomic"
	"testing"
	"time"

	"github.com/cometbft/cometbft/types"
	"github.com/ipfs/go-datastore"
	"github.com/ipfs/go-datastore/query"
	dssync "github.com/ipfs/go-datastore/sync"

	libhead "github.com/celestiaorg/go-header"

	"github.com/celestiaorg/celestia-node/das"
	"github.com/celestiaorg/celestia-node/header"
	"github.com/celestiaorg/celestia-node/share"
	"github.com/celestiaorg/celestia-node/share/availability"
	"github.com/celestiaorg/celestia-node/share/availability/light"
	"github.com/celestiaorg/celestia-node/share/eds"
	"github.com/celestiaorg/celestia-node/share/eds/edstest"
	"github.com/celestiaorg/celestia-node/share/shwap"
	"github.com/celestiaorg/celestia-node/header/headertest"
	"github.com/celestiaorg/rsmt2d"

	"verifharness/vh"
)

const waitT = 20 * time.Second

type step struct {
	Op string `json:"op"`
	A  int    `json:"a"`
	B  any    `json:"b"`
}

func (s step) outcome() string {
	if v, ok := s.B.(string); ok {
		return v
	}
	return ""
}

type scenario struct {
	Name   string `json:"name"`
	Range  int    `json:"range"`
	Conc   int    `json:"conc"`
	Bg     bool   `json:"bg"`
	Steps  []step `json:"steps"`
	Random int    `json:"random"` // >0: seeded random walk of that many stimuli instead of Steps
	MaxH   int    `json:"maxh"`
	Node   bool   `json:"node"` // the DASer samples through the real light availability (LightNode.tla)
	K      int    `json:"k"`    // sample amount in node mode
}

func mkHeader(h uint64) *header.ExtendedHeader {
	return &header.ExtendedHeader{
		Commit:    &types.Commit{},
		RawHeader: header.RawHeader{Height: int64(h)},
		DAH:       &share.AxisRoots{RowRoots: make([][]byte, 0)},
	}
}

// ---------------------------------------------------------------- stubs

type gate struct {
	h    uint64
	ch   chan struct{}
	once sync.Once
}

func (g *gate) open() { g.once.Do(func() { close(g.ch) }) }

type hookEv struct {
	ev string
	kv map[string]any
}

// world = one DASer instance (one process life) inside a scenario.
type world struct {
	sc *scen

	mu        sync.Mutex
	cond      *sync.Cond
	events    []hookEv
	dead      bool // abandoned instance: hooks pass through, nothing is recorded
	cancelled bool // the coordinator saw ctx.Done: every gate is open
	at        map[int]*gate
	fin       map[int]*gate
	bgTick    *gate
	bgSnap    *gate
	outcome   map[uint64]string
	pokeLabel string
	silent    []int
	monIdx    int            // events already seen by the attempt-count monitor
	attempt   map[uint64]int // last observed attempt count per height (this instance)

	d    *das.DASer
	la   *light.ShareAvailability // node mode: the real light availability of this instance
	sub  *subStub
	ds   *logDS
	stop chan struct{}
}

// scen = a scenario: datastore content, header store head and the set of sampled heights survive
// restarts and crashes.
type scen struct {
	def       scenario
	rep       *vh.Report
	tr        *vh.Trace
	rng       *rand.Rand
	storeHead uint64
	tail      uint64 // header store tail (heights below it are not demanded any more)
	okSet     map[uint64]bool
	okMu      sync.Mutex
	base      datastore.Batching // current persistent datastore
	w         *world
	diverged  string
	persists  int
	script    []step // what was actually executed (replay file)
	lastStats *das.SamplingStats
	attempt   map[uint64]int // last observed attempt count (hook state), for BackoffMonotone
	lost      map[uint64]bool // heights already reported as lost in this scenario (no derived reports)

	// node mode (spec/node/LightNode.tla): the DASer samples through the REAL light availability
	// over a scripted getter serving real samples of real squares
	node      bool
	k         int
	t         *testing.T
	blocks    map[uint64]*blk
	delivered map[uint64]map[shwap.SampleCoords]bool // coordinates served with a valid sample, per height
	requests  map[uint64][][]shwap.SampleCoords
}

type blk struct {
	eds *rsmt2d.ExtendedDataSquare
	hdr *header.ExtendedHeader
}

// block returns the (cached) real square and header of a height.
func (s *scen) block(h uint64) *blk {
	s.okMu.Lock()
	defer s.okMu.Unlock()
	b := s.blocks[h]
	if b == nil {
		sq := edstest.RandEDS(s.t, 2)
		b = &blk{eds: sq, hdr: headertest.ExtendedHeaderFromEDS(s.t, h, sq)}
		s.blocks[h] = b
	}
	return b
}

func (s *scen) hdr(h uint64) *header.ExtendedHeader {
	if s.node {
		return s.block(h).hdr
	}
	return mkHeader(h)
}

// nodeGetter is the getter behind the real light availability: the scripted outcome of the height
// decides what it serves -- everything asked for ("ok"/"outside"), all but the first coordinate
// ("fail"), or nothing together with an error wrapping context.Canceled ("cancel").
type nodeGetter struct {
	shwap.Getter
	w *world
}

func (g nodeGetter) GetSamples(ctx context.Context, hdr *header.ExtendedHeader, idxs []shwap.SampleCoords) ([]shwap.Sample, error) {
	w := g.w
	s := w.sc
	hh := hdr.Height()
	if err := ctx.Err(); err != nil {
		return nil, err
	}
	w.mu.Lock()
	o := w.outcome[hh]
	delete(w.outcome, hh)
	dead := w.dead
	w.mu.Unlock()
	if dead {
		return nil, errors.New("verif: instance abandoned")
	}
	s.okMu.Lock()
	s.requests[hh] = append(s.requests[hh], append([]shwap.SampleCoords(nil), idxs...))
	s.okMu.Unlock()
	b := s.block(hh)
	acc := eds.Rsmt2D{ExtendedDataSquare: b.eds}
	out := make([]shwap.Sample, len(idxs))
	serve := func(i int) {
		smp, err := acc.Sample(ctx, idxs[i])
		if err != nil {
			s.rep.Inconclusivef("cannot build sample %v of height %d: %v", idxs[i], hh, err)
			return
		}
		out[i] = smp
		s.okMu.Lock()
		if s.delivered[hh] == nil {
			s.delivered[hh] = map[shwap.SampleCoords]bool{}
		}
		s.delivered[hh][idxs[i]] = true
		s.okMu.Unlock()
	}
	switch o {
	case "ok", "outside":
		for i := range idxs {
			serve(i)
		}
		return out, nil
	case "fail":
		for i := 1; i < len(idxs); i++ {
			serve(i)
		}
		return out, errors.New("verif: scripted partial retrieval")
	case "cancel":
		return nil, fmt.Errorf("verif: scripted getter error: %w", context.Canceled)
	}
	s.rep.Inconclusivef("getter called for height %d without a scripted outcome", hh)
	return nil, errors.New("verif: no outcome scripted")
}

// nodeAvail adapts the real light availability: a nil verdict is what the DASer counts as sampled.
type nodeAvail struct{ w *world }

func (a nodeAvail) SharesAvailable(ctx context.Context, h *header.ExtendedHeader) error {
	err := a.w.la.SharesAvailable(ctx, h)
	if err == nil {
		a.w.sc.markOK(h.Height())
	}
	return err
}

// need = min(K, area of the extended square)
func (s *scen) need() int { return min(s.k, 16) }

// verifiedEnough: the end-to-end property of LightNode.tla for one height
func (s *scen) verifiedEnough(h uint64) bool {
	s.okMu.Lock()
	defer s.okMu.Unlock()
	return len(s.delivered[h]) >= s.need()
}

var cur atomic.Pointer[world]

func init() {
	das.VerifHook = func(ev string, kv map[string]any) {
		if w := cur.Load(); w != nil {
			w.onHook(ev, kv)
		}
	}
}

func kvList(kv map[string]any) []any {
	keys := make([]string, 0, len(kv))
	for k := range kv {
		keys = append(keys, k)
	}
	sort.Strings(keys)
	out := make([]any, 0, 2*len(kv))
	for _, k := range keys {
		out = append(out, k, kv[k])
	}
	return out
}

func (w *world) record(ev string, kv map[string]any) {
	// w.mu held
	w.sc.tr.Emit(ev, kvList(kv)...)
	w.events = append(w.events, hookEv{ev, kv})
	w.cond.Broadcast()
}

func (w *world) openAll() {
	for _, g := range w.at {
		g.open()
	}
	for _, g := range w.fin {
		g.open()
	}
	if w.bgTick != nil {
		w.bgTick.open()
	}
	if w.bgSnap != nil {
		w.bgSnap.open()
	}
}

func (w *world) onHook(ev string, kv map[string]any) {
	w.mu.Lock()
	if w.dead {
		w.mu.Unlock()
		return
	}
	switch ev {
	case "resume", "spawn", "select", "head", "result", "poke", "ctxdone", "gone":
		if ev == "poke" && w.pokeLabel != "" {
			ev = w.pokeLabel
			w.pokeLabel = ""
		}
		if ev == "ctxdone" {
			w.cancelled = true
			w.openAll()
		}
		w.record(ev, kv)
		w.mu.Unlock()
	case "expire":
		w.record(ev, kv)
		w.mu.Unlock()
	case "set", "dropped":
		w.record(ev, kv)
		w.mu.Unlock()
	case "silentExit":
		if !w.cancelled {
			w.silent = append(w.silent, kv["id"].(int))
		}
		w.record(ev, kv)
		w.mu.Unlock()
	case "at", "finished", "bg.tick", "bg.snapshot":
		g := &gate{ch: make(chan struct{})}
		switch ev {
		case "at":
			g.h = kv["h"].(uint64)
			w.at[kv["id"].(int)] = g
		case "finished":
			w.fin[kv["id"].(int)] = g
		case "bg.tick":
			w.bgTick = g
		case "bg.snapshot":
			w.bgSnap = g
		}
		if w.cancelled {
			g.open()
		}
		w.events = append(w.events, hookEv{"gate:" + ev, kv})
		w.cond.Broadcast()
		w.mu.Unlock()
		<-g.ch
	default:
		w.mu.Unlock()
	}
}

// waitFor blocks until pred holds (checked under w.mu whenever something happens).
func (w *world) waitFor(what string, pred func() bool) error {
	deadline := time.Now().Add(waitT)
	stopTimer := make(chan struct{})
	go func() {
		t := time.NewTicker(50 * time.Millisecond)
		defer t.Stop()
		for {
			select {
			case <-t.C:
				w.mu.Lock()
				w.cond.Broadcast()
				w.mu.Unlock()
			case <-stopTimer:
				return
			}
		}
	}()
	defer close(stopTimer)
	w.mu.Lock()
	defer w.mu.Unlock()
	for !pred() {
		if time.Now().After(deadline) {
			return fmt.Errorf("timeout waiting for %s", what)
		}
		w.cond.Wait()
	}
	return nil
}

func (w *world) nEvents() int {
	w.mu.Lock()
	defer w.mu.Unlock()
	return len(w.events)
}

// waitEvent waits for an event named ev at index >= from; returns its index.
func (w *world) waitEvent(from int, ev string, match func(map[string]any) bool) (int, error) {
	idx := -1
	err := w.waitFor("event "+ev, func() bool {
		for i := from; i < len(w.events); i++ {
			if w.events[i].ev == ev && (match == nil || match(w.events[i].kv)) {
				idx = i
				return true
			}
		}
		return false
	})
	return idx, err
}

type availStub struct{ w *world }

func (a availStub) SharesAvailable(ctx context.Context, h *header.ExtendedHeader) error {
	if err := ctx.Err(); err != nil {
		return err
	}
	w := a.w
	hh := h.Height()
	w.mu.Lock()
	o := w.outcome[hh]
	delete(w.outcome, hh)
	dead := w.dead
	w.mu.Unlock()
	if dead {
		return errors.New("verif: instance abandoned")
	}
	switch o {
	case "ok":
		w.sc.markOK(hh)
		return nil
	case "outside":
		w.sc.markOK(hh)
		return availability.ErrOutsideSamplingWindow
	case "fail":
		return errors.New("verif: scripted sampling failure")
	case "cancel":
		return fmt.Errorf("verif: scripted getter error: %w", context.Canceled)
	}
	w.sc.rep.Inconclusivef("availability stub called for height %d without a scripted outcome", hh)
	return errors.New("verif: no outcome scripted")
}

func (s *scen) markOK(h uint64) {
	s.okMu.Lock()
	s.okSet[h] = true
	s.okMu.Unlock()
}

func (s *scen) isOK(h uint64) bool {
	s.okMu.Lock()
	defer s.okMu.Unlock()
	return s.okSet[h]
}

type subStub struct {
	ch chan *header.ExtendedHeader
}

func (s *subStub) Subscribe() (libhead.Subscription[*header.ExtendedHeader], error) { return s, nil }
func (s *subStub) SetVerifier(func(context.Context, *header.ExtendedHeader) error) error {
	return nil
}
func (s *subStub) NextHeader(ctx context.Context) (*header.ExtendedHeader, error) {
	select {
	case h := <-s.ch:
		return h, nil
	case <-ctx.Done():
		return nil, ctx.Err()
	}
}
func (s *subStub) Cancel() {}

type storeStub struct {
	libhead.Store[*header.ExtendedHeader]
	sc *scen
}

func (s storeStub) Tail(context.Context) (*header.ExtendedHeader, error) {
	return s.sc.hdr(atomic.LoadUint64(&s.sc.tail)), nil
}
func (s storeStub) Head(context.Context, ...libhead.HeadOption[*header.ExtendedHeader]) (*header.ExtendedHeader, error) {
	return s.sc.hdr(atomic.LoadUint64(&s.sc.storeHead)), nil
}
func (s storeStub) GetByHeight(_ context.Context, h uint64) (*header.ExtendedHeader, error) {
	return s.sc.hdr(h), nil
}

// logDS records every checkpoint written by the DASer.
type logDS struct {
	datastore.Batching
	mu   sync.Mutex
	puts [][]byte
}

func (l *logDS) Put(ctx context.Context, k datastore.Key, v []byte) error {
	err := l.Batching.Put(ctx, k, v)
	l.mu.Lock()
	l.puts = append(l.puts, append([]byte(nil), v...))
	l.mu.Unlock()
	return err
}

func (l *logDS) nPuts() int {
	l.mu.Lock()
	defer l.mu.Unlock()
	return len(l.puts)
}

// ---------------------------------------------------------------- checkpoints

type cpJSON struct {
	SampleFrom  uint64         `json:"sample_from"`
	NetworkHead uint64         `json:"network_head"`
	Failed      map[uint64]int `json:"failed"`
	Workers     []struct {
		From    uint64 `json:"from"`
		To      uint64 `json:"to"`
		JobType string `json:"job_type"`
	} `json:"workers"`
}

func (c cpJSON) forTrace() map[string]any {
	failed := make([][2]uint64, 0)
	for h, n := range c.Failed {
		failed = append(failed, [2]uint64{h, uint64(n)})
	}
	sort.Slice(failed, func(i, j int) bool { return failed[i][0] < failed[j][0] })
	ws := make([][]any, 0)
	for _, w := range c.Workers {
		ws = append(ws, []any{w.From, w.To, w.JobType})
	}
	return map[string]any{"from": c.SampleFrom, "head": c.NetworkHead, "failed": failed, "workers": ws}
}

// checkCp: C04 "resuming from whichever checkpoint was last persisted covers again every height
// that had not been successfully sampled when that checkpoint was written".
func (s *scen) checkCp(raw []byte, why string) cpJSON {
	var c cpJSON
	if err := json.Unmarshal(raw, &c); err != nil {
		s.rep.Inconclusivef("cannot parse persisted checkpoint %q: %v", raw, err)
		return c
	}
	s.persists++
	s.rep.Count("checkpoints_checked", 1)
	for h := s.tail; h <= c.NetworkHead; h++ {
		if s.isOK(h) || h >= c.SampleFrom {
			continue
		}
		if _, f := c.Failed[h]; f {
			continue
		}
		cov := false
		for _, w := range c.Workers {
			if w.From <= h && h <= w.To {
				cov = true
			}
		}
		if !cov && !s.lost[h] {
			s.lost[h] = true
			recent := false
			if s.lastStats != nil {
				for _, w := range s.lastStats.Workers {
					if string(w.JobType) == "recent" && w.From == h {
						recent = true
					}
				}
			}
			sig := "C04/checkpoint/uncovered-height"
			if s.recentInFlight(h) || recent {
				sig = "C04/checkpoint/recent-job-bumped-cursor"
			}
			s.rep.Violate(sig, fmt.Sprintf("checkpoint written at %s does not cover unsampled height %d: %s", why, h, raw), s.replay())
		}
	}
	return c
}

// recentInFlight: was a recent job for h in progress (hook view) when the checkpoint was taken?
func (s *scen) recentInFlight(h uint64) bool {
	w := s.w
	w.mu.Lock()
	defer w.mu.Unlock()
	live := map[int]bool{}
	recentFor := map[int]uint64{}
	for _, e := range w.events {
		switch e.ev {
		case "spawn":
			if e.kv["type"] == "recent" {
				recentFor[e.kv["id"].(int)] = e.kv["from"].(uint64)
			}
			live[e.kv["id"].(int)] = true
		case "result":
			delete(live, e.kv["id"].(int))
		}
	}
	for id, hh := range recentFor {
		if hh == h && live[id] {
			return true
		}
	}
	return false
}

func (s *scen) replay() any {
	return map[string]any{"scenario": s.def.Name, "range": s.def.Range, "conc": s.def.Conc, "bg": s.def.Bg,
		"node": s.node, "k": s.k, "steps": s.script}
}

// ---------------------------------------------------------------- instance life-cycle

func (s *scen) start() error {
	w := &world{sc: s, at: map[int]*gate{}, fin: map[int]*gate{}, outcome: map[uint64]string{}, attempt: map[uint64]int{}}
	w.cond = sync.NewCond(&w.mu)
	w.ds = &logDS{Batching: s.base}
	w.sub = &subStub{ch: make(chan *header.ExtendedHeader)}
	bg := time.Duration(0)
	if s.def.Bg {
		bg = time.Millisecond
	}
	var avail share.Availability = availStub{w}
	if s.node {
		w.la = light.NewShareAvailability(nodeGetter{w: w}, s.base, nil, light.WithSampleAmount(uint(s.k)))
		avail = nodeAvail{w}
	}
	d, err := das.NewDASer(avail, w.sub, storeStub{sc: s}, w.ds,
		das.WithSamplingRange(uint64(s.def.Range)), das.WithConcurrencyLimit(s.def.Conc),
		das.WithBackgroundStoreInterval(bg), das.WithSampleTimeout(time.Hour))
	if err != nil {
		return err
	}
	w.d = d
	s.w = w
	cur.Store(w)
	ctx, cancel := context.WithTimeout(context.Background(), waitT)
	defer cancel()
	if err := d.Start(ctx); err != nil {
		return err
	}
	if _, err := w.waitEvent(0, "select", nil); err != nil {
		return err
	}
	if s.def.Bg {
		if err := w.waitFor("background store at its tick gate", func() bool { return w.bgTick != nil }); err != nil {
			return err
		}
	}
	s.afterCoordEvents()
	return nil
}

func (s *scen) running() bool { return s.w != nil }

// stopInstance runs the real DASer.Stop and checks both checkpoints it writes.
func (s *scen) stopInstance() error {
	w := s.w
	n0 := w.ds.nPuts()
	w.mu.Lock()
	w.pokeLabel = "stoppoke"
	w.mu.Unlock()
	ctx, cancel := context.WithTimeout(context.Background(), waitT)
	defer cancel()
	ok, dump := vh.WithWatchdog(waitT+5*time.Second, func() {
		if err := w.d.Stop(ctx); err != nil {
			s.rep.Violate("C13/stop/does-not-terminate", "DASer.Stop: "+err.Error(), s.replay())
		}
	})
	if !ok {
		s.rep.Inconclusivef("DASer.Stop hung: %s", dump[:min(len(dump), 3000)])
		return errors.New("stop hung")
	}
	w.ds.mu.Lock()
	puts := append([][]byte(nil), w.ds.puts[n0:]...)
	w.ds.mu.Unlock()
	ev := map[string]any{}
	for i, p := range puts {
		c := s.checkCp(p, fmt.Sprintf("Stop (write %d of %d)", i+1, len(puts)))
		ev[fmt.Sprintf("cp%d", i+1)] = c.forTrace()
	}
	if len(puts) != 2 {
		s.rep.Inconclusivef("Stop wrote %d checkpoints, expected 2", len(puts))
	}
	if w.la != nil {
		if err := w.la.Close(ctx); err != nil {
			s.rep.Inconclusivef("light availability Close: %v", err)
		}
	}
	w.mu.Lock()
	w.dead = true
	w.mu.Unlock()
	s.tr.Emit("stopped", kvList(ev)...)
	s.w = nil
	cur.Store(nil)
	return nil
}

// crash: the process dies now. The datastore content of this instant is what the next instance sees.
func (s *scen) crash() error {
	w := s.w
	snap := dssync.MutexWrap(datastore.NewMapDatastore())
	res, err := s.base.Query(context.Background(), dsQueryAll())
	if err != nil {
		return err
	}
	ents, err := res.Rest()
	if err != nil {
		return err
	}
	for _, e := range ents {
		_ = snap.Put(context.Background(), datastore.NewKey(e.Key), e.Value)
	}
	w.mu.Lock()
	w.dead = true
	w.cancelled = true
	w.openAll()
	w.mu.Unlock()
	s.tr.Emit("crash")
	// tear the abandoned instance down (its writes go to the abandoned datastore)
	ctx, cancel := context.WithTimeout(context.Background(), waitT)
	defer cancel()
	done := make(chan struct{})
	go func() { _ = w.d.Stop(ctx); close(done) }()
	// keep opening gates that the dying instance may still register
	for {
		select {
		case <-done:
			s.base = snap
			s.w = nil
			cur.Store(nil)
			return nil
		case <-time.After(5 * time.Millisecond):
			w.mu.Lock()
			w.openAll()
			w.mu.Unlock()
		}
	}
}

// ---------------------------------------------------------------- stimuli

func (s *scen) afterCoordEvents() {
	// BackoffMonotone on the coordinator's own state as logged by the hook: within one instance the
	// attempt count of a height that stays failed / in retry never decreases.
	w := s.w
	w.mu.Lock()
	defer w.mu.Unlock()
	for ; w.monIdx < len(w.events); w.monIdx++ {
		e := w.events[w.monIdx]
		f, ok := e.kv["failed"].([][2]uint64)
		if !ok {
			continue
		}
		now := map[uint64]int{}
		for _, p := range e.kv["inRetry"].([][2]uint64) {
			now[p[0]] = int(p[1])
		}
		for _, p := range f {
			now[p[0]] = int(p[1])
		}
		for h, c := range now {
			if prev, ok := w.attempt[h]; ok && c < prev {
				sig := "C13/backoff/attempt-count-decreased"
				if e.ev == "result" {
					// which kind of job delivered this result?
					typ := ""
					for _, p := range w.events[:w.monIdx] {
						if p.ev == "spawn" && p.kv["id"] == e.kv["id"] {
							typ, _ = p.kv["type"].(string)
						}
					}
					if typ == "catchup" || typ == "recent" {
						sig = "C13/backoff/count-reset-by-catchup-result"
					} else {
						sig = "C13/backoff/count-decreased-by-" + typ + "-result"
					}
				}
				s.rep.Violate(sig, fmt.Sprintf("attempt count of height %d went from %d to %d at coordinator event %q", h, prev, c, e.ev), s.replay())
			}
		}
		w.attempt = now
	}
}

// liveJobs: spawned and not yet delivered (hook view). w.mu held.
func (w *world) liveJobs() map[int]bool {
	live := map[int]bool{}
	for _, e := range w.events {
		switch e.ev {
		case "spawn":
			live[e.kv["id"].(int)] = true
		case "result":
			delete(live, e.kv["id"].(int))
		}
	}
	return live
}

// settle waits until every live worker goroutine sits at one of its gates or has left run().
func (s *scen) settle() error {
	w := s.w
	return w.waitFor("all workers at a gate", func() bool {
		gone := map[int]bool{}
		for _, e := range w.events {
			if e.ev == "silentExit" || e.ev == "dropped" {
				gone[e.kv["id"].(int)] = true
			}
		}
		for id := range w.liveJobs() {
			if w.at[id] == nil && w.fin[id] == nil && !gone[id] {
				return false
			}
		}
		return true
	})
}

func (s *scen) replayLocked() any { return s.replay() }

func (s *scen) doHead(h uint64) error {
	w := s.w
	if h > atomic.LoadUint64(&s.storeHead) {
		atomic.StoreUint64(&s.storeHead, h)
	}
	n := w.nEvents()
	select {
	case w.sub.ch <- s.hdr(h):
	case <-time.After(waitT):
		return errors.New("subscription not consuming")
	}
	i, err := w.waitEvent(n, "head", nil)
	if err != nil {
		return err
	}
	_, err = w.waitEvent(i, "select", nil)
	return err
}

func (s *scen) doStep(id int, o string) error {
	w := s.w
	if err := s.settle(); err != nil {
		return err
	}
	w.mu.Lock()
	g := w.at[id]
	w.mu.Unlock()
	if g == nil {
		return fmt.Errorf("worker %d is not waiting to sample", id)
	}
	n := w.nEvents()
	w.mu.Lock()
	delete(w.at, id)
	w.outcome[g.h] = o
	w.mu.Unlock()
	g.open()
	// the step is over when the worker recorded the result (or left silently) ...
	_, err := w.waitFor2(n, id)
	if err != nil {
		return err
	}
	// ... and sits at its next gate (next height / finished), unless it left
	return w.waitFor(fmt.Sprintf("worker %d at its next gate", id), func() bool {
		if w.at[id] != nil || w.fin[id] != nil {
			return true
		}
		for i := n; i < len(w.events); i++ {
			if w.events[i].ev == "silentExit" && w.events[i].kv["id"].(int) == id {
				return true
			}
		}
		return false
	})
}

func (w *world) waitFor2(from, id int) (int, error) {
	idx := -1
	err := w.waitFor(fmt.Sprintf("result of worker %d", id), func() bool {
		for i := from; i < len(w.events); i++ {
			e := w.events[i]
			if (e.ev == "set" || e.ev == "silentExit") && e.kv["id"].(int) == id {
				idx = i
				return true
			}
		}
		return false
	})
	return idx, err
}

func (s *scen) doDeliver(id int) error {
	w := s.w
	if err := s.settle(); err != nil {
		return err
	}
	w.mu.Lock()
	g := w.fin[id]
	w.mu.Unlock()
	if g == nil {
		return fmt.Errorf("worker %d has not finished its job", id)
	}
	n := w.nEvents()
	w.mu.Lock()
	delete(w.fin, id)
	w.mu.Unlock()
	g.open()
	i, err := w.waitEvent(n, "result", func(kv map[string]any) bool { return kv["id"].(int) == id })
	if err != nil {
		return err
	}
	_, err = w.waitEvent(i, "select", nil)
	return err
}

// doPoke = SamplingStats; evaluates the monitors that are functions of the statistics.
func (s *scen) doPoke() error {
	w := s.w
	n := w.nEvents()
	ctx, cancel := context.WithTimeout(context.Background(), waitT)
	defer cancel()
	st, err := w.d.SamplingStats(ctx)
	if err != nil {
		return err
	}
	i, err := w.waitEvent(n, "poke", nil)
	if err != nil {
		return err
	}
	if _, err = w.waitEvent(i, "select", nil); err != nil {
		return err
	}
	s.lastStats = &st
	s.checkStats(st)
	return nil
}

func (s *scen) checkStats(st das.SamplingStats) {
	s.rep.Count("stats_checked", 1)
	// C04: the reported sampled-chain head is never at or above an unsampled height
	for h := s.tail; h <= st.SampledChainHead; h++ {
		if !s.isOK(h) && !s.lost[h] {
			s.lost[h] = true
			s.rep.Violate("C04/stats/sampled-chain-head-above-unsampled",
				fmt.Sprintf("SampledChainHead=%d but height %d was never sampled successfully (stats %+v)", st.SampledChainHead, h, st), s.replay())
			break
		}
	}
	// LightNode.tla ReportedHeadVerified: below the reported sampled-chain head every height was
	// verified at >= min(K, area) distinct coordinates
	if s.node {
		for h := s.tail; h <= st.SampledChainHead; h++ {
			if !s.verifiedEnough(h) {
				s.rep.Violate("NODE/sampled-head-above-unverified-height",
					fmt.Sprintf("SampledChainHead=%d but only %d distinct coordinates of height %d were delivered with valid samples (need %d)",
						st.SampledChainHead, len(s.delivered[h]), h, s.need()), s.replay())
				break
			}
		}
	}
	// C04: every height up to the network head is sampled, queued, in flight or failed
	for h := s.tail; h <= st.NetworkHead; h++ {
		if s.isOK(h) || h > st.CatchupHead {
			continue
		}
		if _, f := st.Failed[h]; f {
			continue
		}
		cov := false
		for _, wk := range st.Workers {
			if wk.From <= h && h <= wk.To && h >= wk.Curr {
				cov = true
			}
		}
		if !cov && !s.lost[h] {
			s.lost[h] = true
			s.rep.Violate("C04/stats/lost-height",
				fmt.Sprintf("height %d is neither sampled, queued, in flight nor failed (stats %+v)", h, st), s.replay())
		}
	}
	// C13: concurrency bounds
	nonRecent := 0
	for _, wk := range st.Workers {
		if string(wk.JobType) != "recent" {
			nonRecent++
		}
	}
	if nonRecent > s.def.Conc || len(st.Workers) > 2*s.def.Conc {
		s.rep.Violate("C13/concurrency/limit-exceeded",
			fmt.Sprintf("%d catch-up/retry workers, %d workers in total, limit %d (stats %+v)", nonRecent, len(st.Workers), s.def.Conc, st), s.replay())
	}
	// C13: catch-up reported done exactly when nothing is queued, in flight or failed
	want := len(st.Workers) == 0 && len(st.Failed) == 0 && st.CatchupHead >= st.NetworkHead
	if st.CatchUpDone != want {
		sig := "C13/done/flag-wrong"
		if want && !st.CatchUpDone && s.freshlyResumed() {
			sig = "C13/done/not-set-after-resume"
		}
		s.rep.Violate(sig, fmt.Sprintf("CatchUpDone=%v but workers=%d failed=%d catchupHead=%d networkHead=%d",
			st.CatchUpDone, len(st.Workers), len(st.Failed), st.CatchupHead, st.NetworkHead), s.replay())
	}
	if st.Concurrency != len(st.Workers) {
		s.rep.Violate("C13/stats/concurrency-field", fmt.Sprintf("Concurrency=%d, %d workers listed", st.Concurrency, len(st.Workers)), s.replay())
	}
}

// freshlyResumed: no result and no head update has been handled by this instance yet.
func (s *scen) freshlyResumed() bool {
	w := s.w
	w.mu.Lock()
	defer w.mu.Unlock()
	for _, e := range w.events {
		if e.ev == "result" || e.ev == "head" {
			return false
		}
	}
	return true
}

func (s *scen) doExpire(h uint64) error {
	w := s.w
	n := w.nEvents()
	ctx, cancel := context.WithTimeout(context.Background(), waitT)
	defer cancel()
	if !w.d.VerifExpireBackoff(ctx, h) {
		return fmt.Errorf("height %d is not in the failed map", h)
	}
	i, err := w.waitEvent(n, "poke", nil)
	if err != nil {
		return err
	}
	_, err = w.waitEvent(i, "select", nil)
	return err
}

func (s *scen) doBgSnap() error {
	w := s.w
	if w.bgTick == nil {
		return errors.New("no background store")
	}
	n := w.nEvents()
	w.mu.Lock()
	g := w.bgTick
	w.bgTick = nil
	w.pokeLabel = "bgpoke"
	w.mu.Unlock()
	g.open()
	i, err := w.waitEvent(n, "bgpoke", nil)
	if err != nil {
		return err
	}
	if _, err = w.waitEvent(i, "select", nil); err != nil {
		return err
	}
	return w.waitFor("background store holding its snapshot", func() bool { return w.bgSnap != nil })
}

func (s *scen) doBgPersist() error {
	w := s.w
	if w.bgSnap == nil {
		return errors.New("no snapshot pending")
	}
	n0 := w.ds.nPuts()
	w.mu.Lock()
	g := w.bgSnap
	w.bgSnap = nil
	w.mu.Unlock()
	g.open()
	if err := w.waitFor("background store back at its tick gate", func() bool { return w.bgTick != nil }); err != nil {
		return err
	}
	ev := map[string]any{"wrote": false, "cp": map[string]any{}}
	if w.ds.nPuts() > n0 {
		w.ds.mu.Lock()
		raw := w.ds.puts[len(w.ds.puts)-1]
		w.ds.mu.Unlock()
		c := s.checkCp(raw, "background store")
		ev["wrote"] = true
		ev["cp"] = c.forTrace()
	}
	s.tr.Emit("bgdone", kvList(ev)...)
	return nil
}

// ---------------------------------------------------------------- script execution

func (s *scen) exec(st step) error {
	if !s.running() && st.Op != "start" && st.Op != "storeadvance" && st.Op != "tailadvance" && st.Op != "init" {
		return fmt.Errorf("instance not running for %s", st.Op)
	}
	switch st.Op {
	case "init":
		return nil
	case "start":
		if s.running() {
			return errors.New("already running")
		}
		return s.start()
	case "storeadvance":
		if s.running() || uint64(st.A) <= s.storeHead {
			return errors.New("storeadvance not applicable")
		}
		atomic.StoreUint64(&s.storeHead, uint64(st.A))
		s.tr.Emit("storeadvance", "h", st.A)
		return nil
	case "tailadvance":
		if s.running() || uint64(st.A) <= s.tail || uint64(st.A) > s.storeHead {
			return errors.New("tailadvance not applicable")
		}
		atomic.StoreUint64(&s.tail, uint64(st.A))
		s.tr.Emit("tailadvance", "h", st.A)
		return nil
	case "head":
		return s.doHead(uint64(st.A))
	case "step":
		return s.doStep(st.A, st.outcome())
	case "deliver":
		return s.doDeliver(st.A)
	case "poke":
		return s.doPoke()
	case "expire":
		return s.doExpire(uint64(st.A))
	case "bgsnap":
		return s.doBgSnap()
	case "bgpersist":
		return s.doBgPersist()
	case "stop":
		return s.stopInstance()
	case "crash":
		return s.crash()
	}
	return fmt.Errorf("unknown op %q", st.Op)
}

func (s *scen) run1(st step) bool {
	s.script = append(s.script, st)
	if err := s.exec(st); err != nil {
		s.diverged = fmt.Sprintf("%s(%d,%v): %v", st.Op, st.A, st.B, err)
		s.script = s.script[:len(s.script)-1]
		return false
	}
	if s.running() {
		s.afterCoordEvents()
	}
	s.rep.Count("stimuli", 1)
	return true
}

// enabled stimuli on the real instance, for the random walk
func (s *scen) randomStep(maxH int) step {
	r := s.rng
	if !s.running() {
		if r.Intn(4) == 0 && int(s.storeHead) < maxH {
			return step{Op: "storeadvance", A: int(s.storeHead) + 1 + r.Intn(maxH-int(s.storeHead))}
		}
		if r.Intn(6) == 0 && s.tail < s.storeHead {
			return step{Op: "tailadvance", A: int(s.tail) + 1 + r.Intn(int(s.storeHead-s.tail))}
		}
		return step{Op: "start"}
	}
	w := s.w
	if err := s.settle(); err != nil {
		s.rep.Inconclusivef("%s: %v", s.def.Name, err)
	}
	w.mu.Lock()
	var at, fin []int
	for id := range w.at {
		at = append(at, id)
	}
	for id := range w.fin {
		fin = append(fin, id)
	}
	bgTick, bgSnap := w.bgTick != nil, w.bgSnap != nil
	w.mu.Unlock()
	sort.Ints(at)
	sort.Ints(fin)
	var failed []int
	if s.lastStats != nil {
		for h := range s.lastStats.Failed {
			failed = append(failed, int(h))
		}
		sort.Ints(failed)
	}
	for {
		switch k := r.Intn(100); {
		case k < 35 && len(at) > 0:
			o := "ok"
			switch x := r.Intn(10); {
			case x < 3:
				o = "fail"
			case x == 3:
				o = "outside"
			case x == 4:
				o = "cancel"
			}
			return step{Op: "step", A: at[r.Intn(len(at))], B: o}
		case k < 55 && len(fin) > 0:
			return step{Op: "deliver", A: fin[r.Intn(len(fin))]}
		case k < 70:
			return step{Op: "head", A: 1 + r.Intn(maxH)}
		case k < 80:
			return step{Op: "poke"}
		case k < 85 && len(failed) > 0:
			return step{Op: "expire", A: failed[r.Intn(len(failed))]}
		case k < 90 && bgTick:
			return step{Op: "bgsnap"}
		case k < 94 && bgSnap:
			return step{Op: "bgpersist"}
		case k < 97:
			if bgSnap {
				continue
			}
			return step{Op: "stop"}
		case k < 100:
			return step{Op: "crash"}
		}
	}
}

// drain: end-to-end oracle. Whatever happened before, once sampling succeeds from now on every
// height up to the network head must end up sampled and catch-up must be reported done
// (C04: no height lost, also across the restart; C13: progress, done flag).
func (s *scen) drain() {
	if !s.running() {
		if !s.run1(step{Op: "start"}) {
			s.rep.Inconclusivef("drain: cannot start: %s", s.diverged)
			return
		}
	}
	w := s.w
	if w.bgSnap != nil {
		if !s.run1(step{Op: "bgpersist"}) {
			return
		}
	}
	for round := 0; round < 400; round++ {
		if err := s.settle(); err != nil {
			s.rep.Inconclusivef("drain %s: %v", s.def.Name, err)
			return
		}
		w.mu.Lock()
		var at, fin []int
		for id := range w.at {
			at = append(at, id)
		}
		for id := range w.fin {
			fin = append(fin, id)
		}
		silent := len(w.silent)
		w.mu.Unlock()
		sort.Ints(at)
		sort.Ints(fin)
		switch {
		case len(fin) > 0:
			if !s.run1(step{Op: "deliver", A: fin[0]}) {
				return
			}
		case len(at) > 0:
			if !s.run1(step{Op: "step", A: at[0], B: "ok"}) {
				return
			}
		default:
			if !s.run1(step{Op: "poke"}) {
				return
			}
			st := *s.lastStats
			if len(st.Failed) > 0 && len(st.Workers) == 0 {
				hs := make([]int, 0)
				for h := range st.Failed {
					hs = append(hs, int(h))
				}
				sort.Ints(hs)
				if !s.run1(step{Op: "expire", A: hs[0]}) {
					return
				}
				continue
			}
			// quiescent: no gate pending, the coordinator sits in select with nothing to spawn
			if len(st.Workers) > 0 {
				// workers listed but none of them is at a gate: they left without reporting
				sig := "C13/progress/worker-never-reports"
				if silent > 0 {
					sig = "C13/worker/silent-exit-on-canceled-error"
				}
				s.rep.Violate(sig, fmt.Sprintf("quiescent but %d workers still listed, none of them sampling (silent exits: %d): %+v", len(st.Workers), silent, st), s.replay())
				return
			}
			for h := s.tail; h <= st.NetworkHead; h++ {
				if s.isOK(h) {
					continue
				}
				what := fmt.Sprintf("everything succeeded from some point on, the DASer is idle (stats %+v) but height %d was never sampled successfully", st, h)
				if !s.lost[h] { // not already reported by a stats / checkpoint monitor of C04
					s.rep.Violate("C04/drain/height-never-sampled", what, s.replay())
				}
				// the same observation breaks C13's progress clause ("as long as blocks can be sampled the
				// DASer eventually samples every known height") and its "done exactly when ..." clause
				s.rep.Violate("C13/progress/known-height-never-sampled", what, s.replay())
				return
			}
			if s.node {
				for h := s.tail; h <= st.NetworkHead; h++ {
					if !s.verifiedEnough(h) {
						s.rep.Violate("NODE/sampled-without-verifying-the-sample-set",
							fmt.Sprintf("the DASer is idle and reports everything up to %d as sampled, but only %d distinct coordinates of height %d were delivered with valid samples (need %d)",
								st.NetworkHead, len(s.delivered[h]), h, s.need()), s.replay())
						return
					}
				}
				s.rep.Count("node_drains_verified", 1)
			}
			// WaitCatchUp must return now
			ctx, cancel := context.WithTimeout(context.Background(), 3*time.Second)
			err := w.d.WaitCatchUp(ctx)
			cancel()
			if err != nil {
				sig := "C13/done/wait-catch-up-blocks-when-done"
				if s.freshlyResumed() {
					sig = "C13/done/not-set-after-resume"
				}
				s.rep.Violate(sig, "nothing queued, in flight or failed, but WaitCatchUp does not return: "+err.Error(), s.replay())
			}
			s.rep.Count("drains_completed", 1)
			return
		}
	}
	s.rep.Inconclusivef("drain did not converge in 400 rounds (scenario %s)", s.def.Name)
}

func dsQueryAll() query.Query { return query.Query{} }

func runScenario(t *testing.T, def scenario, rep *vh.Report, traceFile *os.File, seed int64) {
	s := &scen{t: t, node: def.Node, k: def.K, blocks: map[uint64]*blk{}, delivered: map[uint64]map[shwap.SampleCoords]bool{},
		requests: map[uint64][][]shwap.SampleCoords{},
		def: def, rep: rep, tr: vh.NewTrace("x"), rng: rand.New(rand.NewSource(seed)),
		storeHead: 1, tail: 1, okSet: map[uint64]bool{}, base: dssync.MutexWrap(datastore.NewMapDatastore()),
		attempt: map[uint64]int{}, lost: map[uint64]bool{}}
	steps := def.Steps
	if len(steps) > 0 && steps[0].Op == "init" {
		s.storeHead = uint64(steps[0].A)
		steps = steps[1:]
	} else if def.Random > 0 {
		s.storeHead = uint64(1 + s.rng.Intn(def.MaxH))
	}
	s.tr.Emit("reset", "storeHead", s.storeHead, "name", def.Name)
	if def.Random > 0 {
		for i := 0; i < def.Random; i++ {
			if !s.run1(s.randomStep(def.MaxH)) {
				// a random stimulus that is not applicable is simply skipped
				s.diverged = ""
			}
		}
	} else {
		for _, st := range steps {
			if !s.run1(st) {
				rep.Count("scripts_diverged", 1)
				rep.Set("last_divergence", def.Name+": "+s.diverged)
				break
			}
		}
	}
	// silent exits while running (C13 "every sampling job ends by reporting its outcome")
	if s.w != nil {
		s.w.mu.Lock()
		sil := append([]int(nil), s.w.silent...)
		s.w.mu.Unlock()
		if len(sil) > 0 {
			rep.Violate("C13/worker/silent-exit-on-canceled-error",
				fmt.Sprintf("workers %v left without reporting while the DASer was running (sampling error wrapping context.Canceled)", sil), s.replay())
		}
	}
	s.diverged = ""
	s.drain()
	// clean up the instance (outside the trace)
	if s.w != nil {
		w := s.w
		w.mu.Lock()
		w.dead = true
		w.cancelled = true
		w.openAll()
		w.mu.Unlock()
		ctx, cancel := context.WithTimeout(context.Background(), waitT)
		done := make(chan struct{})
		go func() { _ = w.d.Stop(ctx); close(done) }()
		for stopped := false; !stopped; {
			select {
			case <-done:
				stopped = true
			case <-time.After(5 * time.Millisecond):
				w.mu.Lock()
				w.openAll()
				w.mu.Unlock()
			}
		}
		cancel()
		cur.Store(nil)
	}
	rep.Count("scenarios", 1)
	rep.Count("trace_events", int64(s.tr.Len()))
	if err := s.tr.AppendTo(traceFile); err != nil {
		rep.Inconclusivef("trace write: %v", err)
	}
	if len(rep.Samples) < 3 {
		rep.Sample(map[string]any{"scenario": def.Name, "range": def.Range, "conc": def.Conc, "script": s.script})
	}
}

func TestDriver(t *testing.T) {
	rep := vh.NewReport()
	defer func() {
		if err := rep.Write(); err != nil {
			t.Fatal(err)
		}
	}()
	das.VerifSetBackoff(time.Hour)
	var scenarios []scenario
	if p := os.Getenv("VERIF_SCENARIOS"); p != "" {
		if err := vh.ReadJSON(p, &scenarios); err != nil {
			t.Fatal(err)
		}
	}
	nRandom := vh.EnvInt("VERIF_RANDOM", 0)
	rng := vh.Rand()
	type combo struct{ r, c int }
	var combos []combo
	for _, part := range strings.Split(vh.Env("VERIF_COMBOS", "2,1;2,2;1,2"), ";") {
		var c combo
		if _, err := fmt.Sscanf(part, "%d,%d", &c.r, &c.c); err == nil {
			combos = append(combos, c)
		}
	}
	for i := 0; i < nRandom; i++ {
		cb := combos[rng.Intn(len(combos))]
		node := vh.EnvInt("VERIF_NODE", 0) == 1
		scenarios = append(scenarios, scenario{Node: node, K: 1 + rng.Intn(4), Name: fmt.Sprintf("random-%d", i), Range: cb.r, Conc: cb.c,
			Bg: rng.Intn(3) == 0, Random: 10 + rng.Intn(40), MaxH: 4 + rng.Intn(8)})
	}
	// one trace file per (range, conc): the trace specification has them as constants
	files := map[string]*os.File{}
	defer func() {
		for _, f := range files {
			f.Close()
		}
	}()
	for i, sc := range scenarios {
		key := fmt.Sprintf("%strace_r%d_c%d.ndjson", vh.Env("VERIF_TRACE_PREFIX", ""), sc.Range, sc.Conc)
		f := files[key]
		if f == nil {
			var err error
			f, err = os.Create(filepath.Join(vh.WorkDir(), key))
			if err != nil {
				t.Fatal(err)
			}
			files[key] = f
		}
		if sc.MaxH == 0 {
			sc.MaxH = 6
		}
		if vh.EnvInt("VERIF_NODE", 0) == 1 {
			sc.Node = true
			if sc.K == 0 {
				sc.K = 1 + i%4
			}
		}
		ok, dump := vh.WithWatchdog(10*time.Minute, func() { runScenario(t, sc, rep, f, vh.Seed()*7919+int64(i)) })
		if !ok {
			rep.Inconclusivef("scenario %s hung: %s", sc.Name, dump[:min(len(dump), 4000)])
			break
		}
	}
	keys := make([]string, 0)
	for k := range files {
		keys = append(keys, k)
	}
	sort.Strings(keys)
	rep.Set("trace_files", keys)
}
