package peersdrv

// pool_test.go: behaviour replay (B2) of PeerPool.tla on the real pool / timedQueue.
//
//  - atomic paths: every step of a path through the state graph of the atomic-method configuration
//    is executed on a fresh real pool driven by a mock clock; after each step the projection
//    (peersList, statuses, activeCount, nextIdx, hasPeer, channel generation, cool-down counters,
//    queue items) and the return value are compared with the model;
//  - fine-grained traces (TLC counterexamples): executed with the gates of sched_test.go; a trace that
//    ends in a model deadlock is reported only after the harness has shown, from goroutine dumps and
//    the hook log, that every goroutine involved is blocked acquiring a mutex held by another one.
//
// Independent of the model, monitors evaluate the property on what the real pool does: a peer handed
// out must be active and past its cool-down, the active counter must equal the number of active peers.

import (
	"context"
	"encoding/json"
	"fmt"
	"reflect"
	"runtime"
	"sort"
	"strings"
	"time"

	"github.com/benbjohnson/clock"
	"github.com/libp2p/go-libp2p/core/peer"

	"github.com/celestiaorg/celestia-node/share/shwap/p2p/shrex/peers"

	"verifharness/vh"
)

const none = "-"

var watchdog = 30 * time.Second
var wakeWatchdog = 15 * time.Second

// ---- the model's JSON ------------------------------------------------------------------------

type MAct struct {
	Th  string          `json:"th"`
	Act string          `json:"act"`
	Arg json.RawMessage `json:"arg"`
	Ret json.RawMessage `json:"ret"`
}

func (a MAct) argString() string {
	var s string
	if json.Unmarshal(a.Arg, &s) == nil {
		return s
	}
	var o struct {
		Op   string `json:"op"`
		Peer string `json:"peer"`
	}
	if json.Unmarshal(a.Arg, &o) == nil {
		return o.Op + ":" + o.Peer
	}
	return string(a.Arg)
}

func (a MAct) enterOp() (op, p string) {
	var o struct {
		Op   string `json:"op"`
		Peer string `json:"peer"`
	}
	_ = json.Unmarshal(a.Arg, &o)
	return o.Op, o.Peer
}

type MPool struct {
	List []string          `json:"list"`
	St   map[string]string `json:"st"`
	Ac   int               `json:"ac"`
	Idx  int               `json:"idx"`
	Hp   bool              `json:"hp"`
	Gen  int               `json:"gen"`
	Cds  map[string]int    `json:"cds"`
}

type MItem struct {
	Peer string `json:"peer"`
	At   int    `json:"at"`
}

type MState struct {
	Pool    MPool    `json:"pool"`
	Items   []MItem  `json:"items"`
	Now     int      `json:"now"`
	Waiting []string `json:"waiting"`
	Timers  []string `json:"timers"`
}

type MStep struct {
	A  MAct              `json:"a"`
	T  *MState           `json:"t,omitempty"`
	Pc map[string]string `json:"pc,omitempty"`
}

type PoolPlan struct {
	TTL     int       `json:"ttl"`
	Cleanup int       `json:"cleanup"`
	Slots   []string  `json:"slots"`
	Paths   [][]MStep `json:"paths"`
}

type Scenario struct {
	Name    string   `json:"name"`
	TTL     int      `json:"ttl"`
	Cleanup int      `json:"cleanup"`
	Slots   []string `json:"slots"`
	Expect  string   `json:"expect"` // what the MODEL VARIANT this trace comes from ends in: "deadlock", "early"
	Steps   []MStep  `json:"steps"`
}

// ---- a real pool with a mock clock --------------------------------------------------------------

type realPool struct {
	vp    peers.VerifPool
	clk   *clock.Mock
	t0    time.Time
	ttl   int
	sched *Sched
	// generation of hasPeerCh, reconstructed from channel identity
	lastCh <-chan struct{}
	gen    int
	// monitors' own ghost: time (ticks) before which a peer must not be offered
	coolUntil map[string]int
	hasCds    bool
}

func newRealPool(ttl, cleanup int, slots []string) *realPool {
	clk := clock.NewMock()
	vp := peers.VerifNewPool(time.Duration(ttl)*time.Second, clk)
	if cleanup > 0 {
		vp.SetCleanupThreshold(cleanup)
	}
	rp := &realPool{vp: vp, clk: clk, t0: clk.Now(), ttl: ttl, coolUntil: map[string]int{}}
	rp.sched = newSched(vp, slots)
	st := vp.State()
	rp.lastCh = st.HasPeerCh
	rp.hasCds = st.Cooldowns != nil
	return rp
}

func (rp *realPool) now() int { return int(rp.clk.Now().Sub(rp.t0) / time.Second) }

var statusName = map[int]string{0: "active", 1: "cooldown", 2: "removed"}

// snapshot reads the real state (must not be called while a managed goroutine is parked holding a mutex).
func (rp *realPool) snapshot() (MPool, []MItem) {
	st := rp.vp.State()
	if st.HasPeerCh != rp.lastCh {
		rp.gen++
		rp.lastCh = st.HasPeerCh
	}
	mp := MPool{List: []string{}, St: map[string]string{}, Ac: st.ActiveCount, Idx: st.NextIdx, Hp: st.HasPeer, Gen: rp.gen, Cds: map[string]int{}}
	for _, id := range st.PeersList {
		mp.List = append(mp.List, string(id))
	}
	for id, s := range st.Statuses {
		mp.St[string(id)] = statusName[s]
	}
	for id, n := range st.Cooldowns {
		if n != 0 {
			mp.Cds[string(id)] = n
		}
	}
	items := []MItem{}
	for _, it := range rp.vp.Queue() {
		items = append(items, MItem{Peer: string(it.ID), At: int(it.CreatedAt.Sub(rp.t0) / time.Second)})
	}
	return mp, items
}

// diffState compares the model's state with the real one; "" = equal.
func (rp *realPool) diffState(m *MState, rpool MPool, ritems []MItem) string {
	var d []string
	if !reflect.DeepEqual(nz(m.Pool.List), nz(rpool.List)) {
		d = append(d, fmt.Sprintf("peersList model=%v real=%v", m.Pool.List, rpool.List))
	}
	for p, s := range m.Pool.St {
		rs, ok := rpool.St[p]
		if !ok {
			rs = "none"
		}
		if rs != s {
			d = append(d, fmt.Sprintf("statuses[%s] model=%s real=%s", p, s, rs))
		}
	}
	for p, rs := range rpool.St {
		if _, ok := m.Pool.St[p]; !ok {
			d = append(d, fmt.Sprintf("statuses[%s] model=<unknown peer> real=%s", p, rs))
		}
	}
	if m.Pool.Ac != rpool.Ac {
		d = append(d, fmt.Sprintf("activeCount model=%d real=%d", m.Pool.Ac, rpool.Ac))
	}
	if m.Pool.Idx != rpool.Idx {
		d = append(d, fmt.Sprintf("nextIdx model=%d real=%d", m.Pool.Idx, rpool.Idx))
	}
	if m.Pool.Hp != rpool.Hp {
		d = append(d, fmt.Sprintf("hasPeer model=%v real=%v", m.Pool.Hp, rpool.Hp))
	}
	if m.Pool.Gen != rpool.Gen {
		d = append(d, fmt.Sprintf("hasPeerCh generation model=%d real=%d", m.Pool.Gen, rpool.Gen))
	}
	if rp.hasCds {
		for p, n := range m.Pool.Cds {
			if rpool.Cds[p] != n {
				d = append(d, fmt.Sprintf("cooldowns[%s] model=%d real=%d", p, n, rpool.Cds[p]))
			}
		}
	}
	if !reflect.DeepEqual(nzi(m.Items), nzi(ritems)) {
		d = append(d, fmt.Sprintf("queue items model=%v real=%v", m.Items, ritems))
	}
	return strings.Join(d, "; ")
}

func nz(s []string) []string {
	if s == nil {
		return []string{}
	}
	return s
}
func nzi(s []MItem) []MItem {
	if s == nil {
		return []MItem{}
	}
	return s
}

// ---- monitors on the real behaviour (independent of the model) ---------------------------------

type monitor struct {
	rep  *vh.Report
	ctx  string // "pool-replay", "witness", ...
	hits int
}

// checkCounters: activeCount = |{active}| ("counts peers correctly"). List layout and the hasPeer flag are internal:
// differences there are conformance drift unless they surface as a wrong hand-out or a waiter that is not woken.
func (mo *monitor) checkCounters(rpool MPool, replay any) {
	n := 0
	for _, s := range rpool.St {
		if s == "active" {
			n++
		}
	}
	if n != rpool.Ac {
		mo.hits++
		mo.rep.Violate("C17/pool/active-count-differs-from-active-peers",
			fmt.Sprintf("%s: activeCount=%d but %d peers have status active (statuses=%v)", mo.ctx, rpool.Ac, n, rpool.St), replay)
	}
}

// offered: the real pool handed out peer p at time now; pre is the pool state before the call.
func (mo *monitor) offered(rp *realPool, p string, pre MPool, replay any) {
	if s, ok := pre.St[p]; !ok || s != "active" {
		mo.hits++
		mo.rep.Violate("C17/pool/offered-peer-not-active",
			fmt.Sprintf("%s: pool handed out %s whose status was %q", mo.ctx, p, pre.St[p]), replay)
	}
	if until, ok := rp.coolUntil[p]; ok && rp.now() < until {
		mo.hits++
		mo.rep.Violate("C17/pool/offered-before-cooldown-elapsed",
			fmt.Sprintf("%s: %s was put on cool-down until t=%d (ttl %d) and handed out again at t=%d", mo.ctx, p, until, rp.ttl, rp.now()), replay)
	}
}

// probe asks the real pool for peers a few times so that a wrong internal state becomes an observable
// outcome (a peer offered although it must not be).
func (mo *monitor) probe(rp *realPool, replay any) {
	pre, _ := rp.snapshot()
	for i := 0; i < len(pre.List)+1; i++ {
		id, ok := rp.vp.TryGet()
		if !ok {
			break
		}
		mo.offered(rp, string(id), pre, replay)
		pre, _ = rp.snapshot()
	}
	mo.checkCounters(pre, replay)
}

// settle lets the queue's timer goroutines run freely and waits until every expired entry has left the real queue
// and no timer goroutine is running any more.
func (rp *realPool) settle() {
	deadline := time.Now().Add(10 * time.Second)
	for time.Now().Before(deadline) {
		time.Sleep(2 * time.Millisecond)
		expired := false
		for _, it := range rp.vp.Queue() {
			if int(it.CreatedAt.Sub(rp.t0)/time.Second)+rp.ttl <= rp.now() {
				expired = true
			}
		}
		if !expired && len(rp.sched.liveTimers()) == 0 {
			return
		}
	}
}

// probeCooldown: the code left the model, possibly only in bookkeeping that decides LATER when a cool-down ends
// (stale queue entries, entry counters). Make that observable: put every peer on a fresh cool-down and watch, tick by
// tick, that the pool does not hand it out before ttl has elapsed. Two rounds, so that entries queued at the current
// time and entries queued earlier both get the chance to end the new cool-down early. Only the real behaviour is
// judged (monitor `offered`), against the property itself.
func (mo *monitor) probeCooldown(rp *realPool, names []string, replay any) {
	if len(names) == 0 {
		return
	}
	rp.sched.freeAll() // timers run on their own from here
	for round := 0; round < 2; round++ {
		for _, p := range names {
			rp.vp.Remove(peer.ID(p))
			delete(rp.coolUntil, p)
			rp.vp.Add(peer.ID(p))
			pre, _ := rp.snapshot()
			rp.vp.PutOnCooldown(peer.ID(p))
			if pre.St[p] == "active" {
				rp.coolUntil[p] = rp.now() + rp.ttl
			}
		}
		for k := 1; k < rp.ttl; k++ {
			rp.clk.Add(time.Second)
			rp.settle()
			mo.probe(rp, replay)
		}
	}
}

// probeWaiters: with an active peer in the pool, every goroutine that waits inside next() (live context) must
// wake up and ask again. The harness is quiescent: nothing else runs.
func (mo *monitor) probeWaiters(rp *realPool, replay any) {
	s := rp.sched
	pre, _ := rp.snapshot()
	if pre.Ac == 0 {
		return
	}
	s.mu.Lock()
	var waiting []string
	for n, g := range s.byName {
		if !g.isTimer && !g.done && g.cancel != nil && !g.parked {
			waiting = append(waiting, n)
		}
	}
	s.mu.Unlock()
	for _, n := range waiting {
		if r := s.waitParked(n, map[string]bool{"tryGet.enter": true}, wakeWatchdog); r == resBlocked {
			notWoken.Add(1)
			mo.hits++
			mo.rep.Violate("C17/pool/waiter-not-woken", fmt.Sprintf("%s: a caller blocked in next() with a live context was not woken within %s although activeCount=%d (harness quiescent)",
				mo.ctx, wakeWatchdog, pre.Ac), replay)
		}
	}
}

// ---- atomic path replay -------------------------------------------------------------------------

type pathResult struct {
	steps    int
	mismatch string // first difference between model and code ("" = none)
	at       int
}

func retString(raw json.RawMessage) string {
	var s string
	if json.Unmarshal(raw, &s) == nil {
		return s
	}
	return string(raw)
}

func retStrings(raw json.RawMessage) []string {
	var s []string
	_ = json.Unmarshal(raw, &s)
	sort.Strings(s)
	return nz(s)
}

// replayAtomicPath executes one path of the atomic-method state graph.
func replayAtomicPath(rep *vh.Report, mo *monitor, ttl, cleanup int, slots []string, path []MStep, replayObj any) pathResult {
	rp := newRealPool(ttl, cleanup, slots)
	s := rp.sched
	s.install()
	defer func() {
		// let everything that is still parked / waiting finish
		s.mu.Lock()
		for _, g := range s.byName {
			if g.cancel != nil {
				g.cancel()
			}
		}
		s.mu.Unlock()
		s.freeAll()
		s.uninstall()
	}()
	res := pathResult{}
	hungAny := false
	fail := func(i int, f string, a ...any) pathResult {
		res.mismatch = fmt.Sprintf(f, a...)
		res.at = i
		if !hungAny {
			// the code left the model: make a wrong internal state observable through the API
			mo.probeWaiters(rp, replayObj)
			mo.probe(rp, replayObj)
			var names []string
			if len(path) > 0 && path[0].T != nil {
				for p := range path[0].T.Pool.St {
					names = append(names, p)
				}
			}
			sort.Strings(names)
			mo.probeCooldown(rp, names, replayObj)
		}
		return res
	}
	for i, st := range path {
		a := st.A
		pre, _ := rp.snapshot()
		var got string
		hung := false
		call := func(f func()) {
			ok, pv, dump := guarded(watchdog, f)
			if pv != "" {
				hung, hungAny = true, true
				rep.Violate("C17/pool/panic", fmt.Sprintf("%s: %s(%s) panicked: %s", mo.ctx, a.Act, a.argString(), pv), replayObj)
				return
			}
			if !ok {
				hung = true
				hungAny = true
				rep.Violate("C17/pool/call-did-not-return", fmt.Sprintf("%s: %s(%s) did not return within %s in a sequential replay (no other thread active)\n%s",
					mo.ctx, a.Act, a.argString(), watchdog, trimDump(dump)), replayObj)
			}
		}
		switch a.Act {
		case "add":
			call(func() { rp.vp.Add(peer.ID(a.argString())) })
		case "remove":
			call(func() { rp.vp.Remove(peer.ID(a.argString())) })
			delete(rp.coolUntil, a.argString())
		case "tryGet":
			call(func() {
				id, ok := rp.vp.TryGet()
				got = none
				if ok {
					got = string(id)
				}
			})
			if got != none && !hung {
				mo.offered(rp, got, pre, replayObj)
			}
			if want := retString(a.Ret); got != want && !hung {
				return fail(i, "tryGet returned %s, model %s", got, want)
			}
		case "putOnCooldown":
			p := a.argString()
			call(func() { rp.vp.PutOnCooldown(peer.ID(p)) })
			if pre.St[p] == "active" {
				rp.coolUntil[p] = rp.now() + rp.ttl
			}
		case "has":
			var r bool
			call(func() { r = rp.vp.Has(peer.ID(a.argString())) })
			if want := retString(a.Ret); fmt.Sprint(r) != want && !hung {
				return fail(i, "has(%s) returned %v, model %s", a.argString(), r, want)
			}
		case "len":
			var r int
			call(func() { r = rp.vp.Len() })
			if want := retString(a.Ret); fmt.Sprint(r) != want && !hung {
				return fail(i, "len returned %d, model %s", r, want)
			}
		case "peers":
			var r []string
			call(func() {
				for _, id := range rp.vp.Peers() {
					r = append(r, string(id))
				}
			})
			sort.Strings(r)
			if want := retStrings(a.Ret); !reflect.DeepEqual(nz(r), want) && !hung {
				return fail(i, "peers returned %v, model %v", r, want)
			}
		case "next":
			g := s.startOp(a.Th, nextOp(rp))
			_ = g
			r := s.runUntil(a.Th, map[string]bool{"next.wait": true}, watchdog)
			got, hung = rp.nextOutcome(rep, mo, a, r, pre, replayObj)
			if hung {
				return fail(i, "next: goroutine neither delivered a peer nor reached its wait point (%s)", r)
			}
			if want := retString(a.Ret); got != want {
				return fail(i, "next returned %s, model %s", got, want)
			}
		case "next_wake":
			// the model says the captured channel is closed: the goroutine inside next() must have woken up
			// and be about to call tryGet again
			r := s.waitParked(a.Th, map[string]bool{"tryGet.enter": true}, wakeWatchdog)
			if r != "tryGet.enter" {
				if pre.Ac > 0 {
					notWoken.Add(1)
					rep.Violate("C17/pool/waiter-not-woken", fmt.Sprintf("%s: a caller blocked in next() with a live context was not woken within %s although activeCount=%d (harness quiescent)",
						mo.ctx, wakeWatchdog, pre.Ac), replayObj)
				}
				return fail(i, "next_wake: waiter not woken (%s)", r)
			}
			r = s.runUntil(a.Th, map[string]bool{"next.wait": true}, watchdog)
			got, hung = rp.nextOutcome(rep, mo, a, r, pre, replayObj)
			if hung {
				return fail(i, "next_wake: goroutine stuck (%s)", r)
			}
			if want := retString(a.Ret); got != want {
				return fail(i, "next (after wake-up) returned %s, model %s", got, want)
			}
		case "next_cancel":
			g := s.get(a.Th)
			if g == nil || g.cancel == nil {
				return fail(i, "next_cancel: no waiting goroutine %s", a.Th)
			}
			g.cancel()
			if r := s.waitParked(a.Th, map[string]bool{}, watchdog); r != resDone {
				rep.Violate("C17/pool/cancel-not-honoured", fmt.Sprintf("%s: next() did not end within %s after its context was cancelled (harness quiescent)", mo.ctx, watchdog), replayObj)
				return fail(i, "next_cancel: goroutine did not end (%s)", r)
			}
			if g.ret != none {
				return fail(i, "next_cancel: goroutine delivered %v", g.ret)
			}
			s.forget(a.Th)
		case "tick":
			rp.clk.Add(time.Second)
			var n int
			_ = json.Unmarshal(a.Ret, &n)
			if n > 0 && !s.waitTimers(len(st.T.Timers), watchdog) {
				return fail(i, "tick: model expects %d timer goroutine(s) to start, real: %v", n, s.liveTimers())
			}
		case "releaseExpired":
			live := s.liveTimers()
			if len(live) == 0 {
				return fail(i, "releaseExpired: no timer goroutine is waiting in the real code")
			}
			sort.Strings(live)
			tn := live[0]
			if r := s.runUntil(tn, map[string]bool{}, watchdog); r != resDone {
				rep.Violate("C17/pool/call-did-not-return", fmt.Sprintf("%s: releaseExpired did not return within %s in a sequential replay\n%s", mo.ctx, watchdog, trimDump(dumpAll())), replayObj)
				return fail(i, "releaseExpired stuck (%s)", r)
			}
			g := s.get(tn)
			if want := retStrings2(a.Ret); !reflect.DeepEqual(nz(g.popped), want) {
				return fail(i, "releaseExpired released %v, model %v", g.popped, want)
			}
			s.forget(tn)
		default:
			return fail(i, "unknown model action %q", a.Act)
		}
		res.steps++
		for _, pv := range s.takePanics() {
			hungAny = true
			rep.Violate("C17/pool/panic", fmt.Sprintf("%s: panic in the real pool during %s(%s): %s", mo.ctx, a.Act, a.argString(), pv), replayObj)
			return fail(i, "panic")
		}
		if hung {
			return fail(i, "call hung or panicked")
		}
		rpool, ritems := rp.snapshot()
		mo.checkCounters(rpool, replayObj)
		if st.T != nil {
			if d := rp.diffState(st.T, rpool, ritems); d != "" {
				return fail(i, "after %s(%s): %s", a.Act, a.argString(), d)
			}
			if lt := len(s.liveTimers()); lt != len(st.T.Timers) {
				return fail(i, "after %s: %d timer goroutine(s) pending in the real code, model %d", a.Act, lt, len(st.T.Timers))
			}
		}
	}
	return res
}

func retStrings2(raw json.RawMessage) []string { // order-preserving
	var s []string
	_ = json.Unmarshal(raw, &s)
	return nz(s)
}

// nextOp is the caller side of pool.next(ctx): wait for the peer or for the goroutine's end.
func nextOp(rp *realPool) func(g *gstate) any {
	return func(g *gstate) any {
		ctx, cancel := context.WithCancel(context.Background())
		rp.sched.mu.Lock()
		g.cancel = cancel
		rp.sched.mu.Unlock()
		ch := rp.vp.Next(ctx)
		select {
		case p := <-ch:
			return string(p)
		case <-g.exited:
			select {
			case p := <-ch:
				return string(p)
			default:
				return none
			}
		}
	}
}

// nextOutcome interprets the result of running the goroutine of next(): delivered a peer (done) or
// parked before its select (then it is released into the select).
func (rp *realPool) nextOutcome(rep *vh.Report, mo *monitor, a MAct, r string, pre MPool, replayObj any) (got string, hung bool) {
	s := rp.sched
	switch r {
	case resDone:
		g := s.get(a.Th)
		got = fmt.Sprint(g.ret)
		if got != none {
			mo.offered(rp, got, pre, replayObj)
		}
		s.forget(a.Th)
		return got, false
	case "next.wait":
		s.release(a.Th) // into the select
		return none, false
	}
	return "", true
}

func dumpAll() string {
	buf := make([]byte, 4<<20)
	return string(buf[:runtime.Stack(buf, true)])
}

func trimDump(d string) string {
	// keep the goroutines that are inside the peers package
	var keep []string
	for _, blk := range strings.Split(d, "\n\n") {
		if strings.Contains(blk, "/shrex/peers.") {
			keep = append(keep, blk)
		}
	}
	out := strings.Join(keep, "\n\n")
	if len(out) > 6000 {
		out = out[:6000] + "\n..."
	}
	return out
}
