package peersdrv

// fine_test.go: execution of a FINE-GRAINED behaviour of PeerPool.tla (a TLC counterexample) on the
// real pool with gates, and the proof obligation for deadlocks.

import (
	"encoding/json"
	"fmt"
	"sort"
	"strings"
	"time"

	"github.com/libp2p/go-libp2p/core/peer"

	"verifharness/vh"
)

// the event at which a goroutine is parked when the model thread is at the given program counter
var pcEvent = map[string][]string{
	"add_lock": {"add.enter"}, "add_body": {"add.locked"},
	"rm_lock": {"remove.enter"}, "rm_body": {"remove.locked"},
	"tg_lock": {"tryGet.enter"}, "tg_body": {"tryGet.locked"},
	"nx_rlock": {"next.loop"}, "nx_read": {"next.rlocked"}, "nx_wait": {"next.wait"},
	"has_rlock": {"has.enter"}, "has_body": {"has.rlocked"},
	"len_rlock": {"len.enter"}, "len_body": {"len.rlocked"},
	"peers_rlock": {"peers.enter"}, "peers_body": {"peers.rlocked"},
	"cd_lock": {"putOnCooldown.enter"}, "cd_check": {"putOnCooldown.locked"},
	"cd_push": {"push.locked"}, "cd_body": {"putOnCooldown.unlock"},
	"re_lock": {"releaseExpired.enter"},
	// first time: queue mutex just taken; in the variant with callbacks under the lock also: back in the
	// loop after a callback (next callback about to start, or the loop is over)
	"re_scan": {"releaseExpired.locked", "afterCooldown.enter", "releaseExpired.unlock"},
	"cb_lock": {"afterCooldown.enter"}, "cb_body": {"afterCooldown.locked"}, "re_cb": {"afterCooldown.locked"},
}

func targetSet(pc string) map[string]bool {
	m := map[string]bool{}
	for _, e := range pcEvent[pc] {
		m[e] = true
	}
	return m
}

// After a trace with Expect == "sleeping-waiter" (a counterexample of the hypothetical checkHasPeers variant): every
// caller that ended the trace inside the select of next() with a live context must, the pool having an active peer and
// the harness doing nothing else, wake up and return that peer.
type fineResult struct {
	asleep     []string // callers that stayed in the select (proved parked) although a peer was active
	woke       int
	executed   int
	mismatch   string
	deadlocked bool   // the real code is deadlocked at the end (proved)
	proof      string // the evidence
	completed  bool   // after the trace everything ran to completion
}

func callerOp(rp *realPool, op, p string) func(g *gstate) any {
	switch op {
	case "add":
		return func(*gstate) any { rp.vp.Add(peer.ID(p)); return nil }
	case "remove":
		return func(*gstate) any { rp.vp.Remove(peer.ID(p)); return nil }
	case "tryGet":
		return func(*gstate) any {
			id, ok := rp.vp.TryGet()
			if !ok {
				return none
			}
			return string(id)
		}
	case "putOnCooldown":
		return func(*gstate) any { rp.vp.PutOnCooldown(peer.ID(p)); return nil }
	case "has":
		return func(*gstate) any { return rp.vp.Has(peer.ID(p)) }
	case "len":
		return func(*gstate) any { return rp.vp.Len() }
	case "peers":
		return func(*gstate) any { return rp.vp.Peers() }
	case "next":
		return nextOp(rp)
	}
	return nil
}

// replayFine executes the steps of a fine-grained trace. Timer threads of the model are bound to
// the real timer goroutines in the order in which they appear.
func replayFine(rep *vh.Report, sc Scenario) fineResult {
	rp := newRealPool(sc.TTL, sc.Cleanup, sc.Slots)
	s := rp.sched
	s.keepLog = true
	s.install()
	res := fineResult{}
	bind := map[string]string{} // model timer thread -> scheduler name
	stepT := 20 * time.Second
	defer func() {
		s.mu.Lock()
		for _, g := range s.byName {
			if g.cancel != nil {
				g.cancel()
			}
		}
		s.mu.Unlock()
		s.freeAll()
		s.uninstall()
	}()
	name := func(th string) string {
		if b, ok := bind[th]; ok {
			return b
		}
		return th
	}
	prevPc := map[string]string{}
	for i, st := range sc.Steps {
		a := st.A
		switch a.Act {
		case "init":
		case "enter":
			op, p := a.enterOp()
			fn := callerOp(rp, op, p)
			if fn == nil {
				res.mismatch = fmt.Sprintf("step %d: unknown operation %q", i, op)
				return res
			}
			s.forget(a.Th)
			s.startOp(a.Th, fn)
			if r := s.waitParked(a.Th, targetSet(st.Pc[a.Th]), stepT); !targetSet(st.Pc[a.Th])[r] {
				res.mismatch = fmt.Sprintf("step %d: %s %s did not reach %v (%s)", i, a.Th, op, pcEvent[st.Pc[a.Th]], r)
				return res
			}
		case "tick":
			rp.clk.Add(time.Second)
			var started []string
			for th, pc := range st.Pc {
				if pc == "re_lock" && prevPc[th] != "re_lock" {
					started = append(started, th)
				}
			}
			sort.Strings(started)
			if len(started) > 0 {
				// wait for as many NEW timer goroutines as the model started
				want := len(started)
				for _, th := range sortedKeys(st.Pc) {
					if _, ok := bind[th]; ok && st.Pc[th] == "re_lock" && prevPc[th] == "re_lock" {
						want++
					}
				}
				if !s.waitTimers(want, stepT) {
					res.mismatch = fmt.Sprintf("step %d: the model starts timer goroutine(s) %v, the real queue's timer did not fire", i, started)
					return res
				}
				bound := map[string]bool{}
				for _, b := range bind {
					bound[b] = true
				}
				live := s.liveTimers()
				sort.Strings(live)
				for _, th := range started {
					for _, l := range live {
						if !bound[l] {
							bind[th] = l
							bound[l] = true
							break
						}
					}
				}
			}
		case "cancel":
			if g := s.get(a.Th); g != nil && g.cancel != nil {
				g.cancel()
			}
		default:
			th := name(a.Th)
			pc := st.Pc[a.Th]
			var r string
			if pc == "idle" {
				r = s.runUntil(th, map[string]bool{}, stepT)
				if r != resDone {
					res.mismatch = fmt.Sprintf("step %d: model thread %s finishes %s, the real goroutine does not (%s)", i, a.Th, a.Act, r)
					return res
				}
				if _, isTimer := bind[a.Th]; isTimer {
					delete(bind, a.Th)
					s.forget(th)
				}
			} else {
				tg := targetSet(pc)
				r = s.runUntil(th, tg, stepT)
				if !tg[r] {
					res.mismatch = fmt.Sprintf("step %d: model thread %s does %s and reaches %s, the real goroutine: %s", i, a.Th, a.Act, pc, r)
					return res
				}
				if pc == "nx_wait" {
					s.release(th) // into the select
				}
			}
		}
		res.executed++
		prevPc = st.Pc
	}
	if sc.Expect == "sleeping-waiter" {
		for _, th := range sortedKeys(prevPc) {
			if prevPc[th] != "nx_wait" {
				continue
			}
			pre, _ := rp.snapshot()
			if pre.Ac == 0 {
				res.mismatch = "sleeping-waiter scenario: no active peer in the real pool at the end of the trace"
				return res
			}
			// the waiter is in its select; with a closed channel it comes straight back to tryGet
			r := s.waitParked(th, map[string]bool{"tryGet.enter": true}, wakeWatchdog)
			if r == "tryGet.enter" || r == resDone {
				if r != resDone {
					r = s.runUntil(th, map[string]bool{"next.wait": true}, watchdog)
				}
				if g := s.get(th); r == resDone && g != nil && g.ret != none {
					res.woke++
					continue
				}
				res.mismatch = fmt.Sprintf("sleeping-waiter scenario: %s woke up but did not return a peer (%s)", th, r)
				return res
			}
			// not woken: prove that it is parked in the select of next() (two dumps), nothing else running
			parked := false
			d1 := dumpGoroutines()
			time.Sleep(500 * time.Millisecond)
			d2 := dumpGoroutines()
			for _, id := range s.goidsOf(th) {
				g1, ok1 := d1[id]
				g2, ok2 := d2[id]
				if ok1 && ok2 && strings.HasPrefix(g1.State, "select") && strings.HasPrefix(g2.State, "select") &&
					strings.Contains(g2.Raw, "peers.(*pool).next.func1") {
					parked = true
					res.proof += fmt.Sprintf("goroutine %d (%s) [%s] parked in the select of pool.next; activeCount=%d, hasPeer=%v\n", id, th, g2.State, pre.Ac, pre.Hp)
				}
			}
			if parked {
				res.asleep = append(res.asleep, th)
			} else {
				res.mismatch = fmt.Sprintf("sleeping-waiter scenario: %s did not wake within %s but was not found parked in next()", th, wakeWatchdog)
				return res
			}
		}
		res.completed = len(res.asleep) == 0
		return res
	}
	if sc.Expect != "deadlock" {
		return res
	}

	// The model ends in a state in which no thread can step. Let every goroutine that is inside a
	// method continue, round after round, until nothing moves any more.
	var inside []string
	for th, pc := range prevPc {
		if pc != "idle" {
			inside = append(inside, name(th))
		}
	}
	sort.Strings(inside)
	lockEvents := map[string]bool{}
	for _, evs := range pcEvent {
		for _, e := range evs {
			if strings.HasSuffix(e, ".locked") || strings.HasSuffix(e, ".rlocked") {
				lockEvents[e] = true
			}
		}
	}
	lockEvents["push.locked"] = true
	// A round releases every unfinished goroutine and waits until it has taken a mutex, finished, or not
	// moved for 2 s. Rounds are repeated until a whole round passes in which NO goroutine arrived at any
	// event: then none of them is parked at a gate, each one was released and is blocked in the code.
	progress := func() map[string]int {
		m := map[string]int{}
		s.mu.Lock()
		for _, th := range inside {
			if g := s.byName[th]; g != nil {
				m[th] = g.arrivals
				if g.done {
					m[th] = -1
				}
			}
		}
		s.mu.Unlock()
		return m
	}
	// blockedOnMutex: in the goroutine dump every goroutine of the thread that is inside the peers package sits
	// in a sync mutex operation
	blockedOnMutex := func(th string) bool {
		d := dumpGoroutines()
		found := false
		for _, id := range s.goidsOf(th) {
			g, ok := d[id]
			if !ok || !strings.Contains(g.Raw, "/shrex/peers.(*") {
				continue
			}
			if !(strings.HasPrefix(g.State, "sync.Mutex.Lock") || strings.HasPrefix(g.State, "sync.RWMutex")) {
				return false
			}
			found = true
		}
		return found
	}
	stuck := map[string]bool{}
	deadline := time.Now().Add(90 * time.Second)
	for {
		before := progress()
		for _, th := range inside {
			if before[th] == -1 {
				continue
			}
			s.runUntil(th, lockEvents, 2*time.Second)
		}
		after := progress()
		moved := false
		stuck = map[string]bool{}
		for _, th := range inside {
			if after[th] != before[th] {
				moved = true
			}
			if after[th] != -1 {
				stuck[th] = true
			}
		}
		if len(stuck) == 0 {
			break
		}
		if !moved {
			// nothing arrived anywhere for a whole round: a deadlock only if every unfinished goroutine is
			// blocked acquiring a mutex (a slow machine is not a deadlock)
			all := true
			for th := range stuck {
				if !blockedOnMutex(th) {
					all = false
				}
			}
			if all || time.Now().After(deadline) {
				break
			}
		}
		if time.Now().After(deadline) {
			break
		}
	}
	if len(stuck) == 0 {
		// no deadlock: let everything finish and make sure it does
		s.freeAll()
		ok, _ := vh.WithWatchdog(watchdog, func() {
			for _, th := range inside {
				s.waitParked(th, map[string]bool{}, watchdog)
			}
		})
		res.completed = ok
		for _, th := range inside {
			if g := s.get(th); g != nil && !g.done && !g.isTimer {
				res.completed = false
			}
		}
		return res
	}

	// PROOF: every stuck goroutine (1) is, in two goroutine dumps one second apart, blocked in a sync
	// mutex operation called from the peers package, and (2) the mutex it waits for is held -- according to
	// the hook log: ".locked" seen, ".unlock" not -- by another stuck goroutine.
	waitsFor := map[string]string{}
	var lines []string
	proved := true
	d1 := dumpGoroutines()
	time.Sleep(time.Second)
	d2 := dumpGoroutines()
	for th := range stuck {
		found := false
		for _, id := range s.goidsOf(th) {
			g1, ok1 := d1[id]
			g2, ok2 := d2[id]
			if !ok1 || !ok2 {
				continue
			}
			for fn, mutex := range map[string]string{"(*timedQueue).push": "queue", "(*pool).afterCooldown": "pool", "(*timedQueue).releaseExpired": "queue",
				"(*pool).add": "pool", "(*pool).remove": "pool", "(*pool).tryGet": "pool", "(*pool).putOnCooldown": "pool",
				"(*pool).has": "pool", "(*pool).len": "pool", "(*pool).peers": "pool", "(*pool).next": "pool"} {
				if g1.blockedOnLockIn(fn) && g2.blockedOnLockIn(fn) {
					found = true
					waitsFor[th] = mutex
					lines = append(lines, fmt.Sprintf("goroutine %d (%s) [%s] blocked in %s waiting for the %s mutex, holding %v",
						id, th, g2.State, fn, mutex, s.heldBy(th)))
				}
			}
		}
		if !found {
			proved = false
			lines = append(lines, fmt.Sprintf("%s: not found blocked on a mutex in the goroutine dump", th))
		}
	}
	for th, m := range waitsFor {
		holder := ""
		for other := range stuck {
			if other == th {
				continue
			}
			for _, h := range s.heldBy(other) {
				if h == m || h == m+"(r)" {
					holder = other
				}
			}
		}
		if holder == "" {
			proved = false
			lines = append(lines, fmt.Sprintf("%s waits for the %s mutex, but no other stuck goroutine holds it", th, m))
		} else {
			lines = append(lines, fmt.Sprintf("%s waits for the %s mutex held by %s", th, m, holder))
		}
	}
	sort.Strings(lines)
	res.proof = strings.Join(lines, "\n")
	res.deadlocked = proved
	if !proved {
		res.mismatch = "goroutines did not move for 3 s but a lock cycle could not be proved:\n" + res.proof
	}
	return res
}

func sortedKeys(m map[string]string) []string {
	var out []string
	for k := range m {
		out = append(out, k)
	}
	sort.Strings(out)
	return out
}

func jsonString(v any) string {
	b, _ := json.Marshal(v)
	return string(b)
}
