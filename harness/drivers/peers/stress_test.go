package peersdrv

// stress_test.go: seeded concurrent stress of the real pool / timedQueue (binding B1). Caller goroutines,
// a clock goroutine and the queue's timer goroutines run freely; the hooks report every lock operation
// while the mutex is held, and each report becomes one step of PeerPool.tla in an NDJSON file that TLC
// validates against the fine-grained model (spec/peers/PoolTrace.tla). Every call runs under a watchdog.

import (
	"context"
	"encoding/json"
	"fmt"
	"math/rand"
	"os"
	"sort"
	"strings"
	"sync"
	"sync/atomic"
	"time"

	"github.com/libp2p/go-libp2p/core/peer"

	"verifharness/vh"
)

type StressPlan struct {
	Runs    int      `json:"runs"`
	Workers []string `json:"workers"`
	Peers   []string `json:"peers"`
	Ops     int      `json:"ops"`   // per worker
	Ticks   int      `json:"ticks"` // per run
	TTL     int      `json:"ttl"`
	Cleanup int      `json:"cleanup"`
	Out     string   `json:"out"`
}

type traceWriter struct {
	f     *os.File
	lines int
}

func (w *traceWriter) emit(v map[string]any) {
	b, err := json.Marshal(v)
	if err != nil {
		panic(err)
	}
	w.f.Write(append(b, '\n'))
	w.lines++
}

// poolJSON renders a snapshot with an entry for every peer of the plan (absent = "none" / 0).
func poolJSON(mp MPool, peerNames []string) map[string]any {
	st := map[string]string{}
	cds := map[string]int{}
	for _, p := range peerNames {
		st[p] = "none"
		cds[p] = 0
	}
	for p, s := range mp.St {
		st[p] = s
	}
	for p, n := range mp.Cds {
		cds[p] = n
	}
	return map[string]any{"list": nz(mp.List), "st": st, "ac": mp.Ac, "idx": mp.Idx, "hp": mp.Hp, "gen": mp.Gen, "cds": cds}
}

func runStress(rep *vh.Report, sp *StressPlan) {
	f, err := os.Create(sp.Out)
	if err != nil {
		panic(err)
	}
	defer f.Close()
	tw := &traceWriter{f: f}
	for run := 0; run < sp.Runs; run++ {
		seed := vh.Seed()*1000003 + int64(run)
		tw.emit(map[string]any{"act": "reset"})
		ok := stressRun(rep, sp, tw, seed, run)
		rep.Count("stress_runs", 1)
		if !ok {
			break
		}
	}
	rep.Set("stress_trace_lines", tw.lines)
}

// stressRun performs one concurrent run; false = the run hung (reported) and the trace is unusable.
func stressRun(rep *vh.Report, sp *StressPlan, tw *traceWriter, seed int64, run int) bool {
	slots := []string{}
	rp := newRealPool(sp.TTL, sp.Cleanup, slots)
	s := rp.sched
	s.free = true
	s.uniqueTimers = true
	var world sync.RWMutex // the clock advances only while no goroutine is between reading it and reporting
	s.preLock = func(ev string) {
		if ev == "push.locked" || ev == "releaseExpired.locked" {
			world.RLock()
		}
	}
	// the gate between a failed tryGet and the channel read in next(): hold the waiter there for a random moment so
	// that adds / cool-down expiries fall into that window
	jitter := rand.New(rand.NewSource(seed ^ 0x6a17))
	var jmu sync.Mutex
	prevPre := s.preLock
	s.preLock = func(ev string) {
		prevPre(ev)
		if ev == "next.loop" {
			jmu.Lock()
			d := time.Duration(jitter.Intn(1500)) * time.Microsecond
			jmu.Unlock()
			time.Sleep(d)
		}
	}
	s.postUnlock = func(ev string) {
		if ev == "push.unlock" || ev == "releaseExpired.unlock" {
			world.RUnlock()
		}
	}
	// per-goroutine bookkeeping for the translation of hook events into model steps (under s.mu)
	type tstate struct {
		nextIter    int
		pushed      bool
		pendingWake bool
	}
	ts := map[*gstate]*tstate{}
	lastCh := rp.lastCh
	gen := 0
	snapPool := func() map[string]any {
		st := rp.vp.StateUnlocked()
		if st.HasPeerCh != lastCh {
			gen++
			lastCh = st.HasPeerCh
		}
		mp := MPool{List: []string{}, St: map[string]string{}, Ac: st.ActiveCount, Idx: st.NextIdx, Hp: st.HasPeer, Gen: gen, Cds: map[string]int{}}
		for _, id := range st.PeersList {
			mp.List = append(mp.List, string(id))
		}
		for id, x := range st.Statuses {
			mp.St[string(id)] = statusName[x]
		}
		for id, n := range st.Cooldowns {
			mp.Cds[string(id)] = n
		}
		return poolJSON(mp, sp.Peers)
	}
	snapItems := func() []MItem {
		items := []MItem{}
		for _, it := range rp.vp.QueueUnlocked() {
			items = append(items, MItem{Peer: string(it.ID), At: int(it.CreatedAt.Sub(rp.t0) / time.Second)})
		}
		return items
	}
	s.onEvent = func(g *gstate, e Event) {
		t := ts[g]
		if t == nil {
			t = &tstate{}
			ts[g] = t
		}
		parts := strings.SplitN(e.Ev, ".", 2)
		m, pt := parts[0], parts[1]
		out := map[string]any{"th": g.name, "seq": e.Seq}
		switch pt {
		case "enter":
			switch m {
			case "push", "afterCooldown", "releaseExpired":
				return
			case "tryGet":
				if g.curOp == "next" {
					t.nextIter++
					if t.nextIter == 1 {
						return
					}
					// The waiter saw the closed channel, which the writer closes INSIDE its critical section, i.e. possibly
					// before the writer's unlock event (= the model's step). The wake-up step is therefore logged right
					// before the waiter's next lock acquisition, when the writer's step has certainly been logged.
					t.pendingWake = true
					return
				}
				fallthrough
			default:
				t.pushed = false
				out["act"] = "enter"
				p := g.curPeer
				if p == "" {
					p = none
				}
				out["arg"] = map[string]any{"op": m, "peer": p}
			}
		case "locked":
			if t.pendingWake {
				t.pendingWake = false
				tw.emit(map[string]any{"th": g.name, "seq": e.Seq, "act": "next_wake"})
			}
			if e.Obj == "queue" {
				out["act"] = "lock_queue"
			} else {
				out["act"] = "lock_pool"
			}
		case "rlocked":
			out["act"] = "rlock_pool"
		case "unlock":
			switch m {
			case "add", "remove":
				out["act"], out["arg"], out["pool"] = m, g.curPeer, snapPool()
			case "tryGet":
				out["act"], out["pool"] = "tryGet", snapPool()
			case "putOnCooldown":
				out["act"], out["arg"], out["ret"], out["pool"] = "putOnCooldown", e.Peer, t.pushed, snapPool()
			case "afterCooldown":
				out["act"], out["arg"], out["pool"] = "afterCooldown", e.Peer, snapPool()
			case "push":
				t.pushed = true
				out["act"], out["arg"], out["items"] = "push", e.Peer, snapItems()
			case "releaseExpired":
				out["act"], out["items"] = "release", snapItems()
			}
		case "runlock":
			switch m {
			case "next":
				out["act"] = "next_read"
			default:
				out["act"] = m
			}
		case "exit":
			if m == "next" {
				out["act"] = "next_exit"
			} else {
				return
			}
		default: // loop, wait
			return
		}
		tw.emit(out)
	}
	s.install()
	defer s.uninstall()

	emit := func(v map[string]any) { // events the harness itself contributes, serialised with the hook's
		s.mu.Lock()
		s.seq++
		v["seq"] = s.seq
		tw.emit(v)
		s.mu.Unlock()
	}

	var wg sync.WaitGroup
	var hung atomic.Bool
	stopClock := make(chan struct{})
	clockDone := make(chan struct{})
	go func() { // the clock
		defer close(clockDone)
		r := rand.New(rand.NewSource(seed ^ 0x5eed))
		for i := 0; i < sp.Ticks; i++ {
			select {
			case <-stopClock:
				return
			case <-time.After(time.Duration(200+r.Intn(1500)) * time.Microsecond):
			}
			world.Lock()
			rp.clk.Add(time.Second)
			emit(map[string]any{"act": "tick"})
			world.Unlock()
		}
	}()
	opNames := []string{"add", "add", "remove", "tryGet", "tryGet", "next", "putOnCooldown", "putOnCooldown", "has", "len", "peers"}
	for wi, wname := range sp.Workers {
		wg.Add(1)
		r := rand.New(rand.NewSource(seed + int64(wi)*7907))
		wname := wname
		go func() {
			defer wg.Done()
			for k := 0; k < sp.Ops; k++ {
				op := opNames[r.Intn(len(opNames))]
				p := ""
				if op == "add" || op == "remove" || op == "putOnCooldown" || op == "has" {
					p = sp.Peers[r.Intn(len(sp.Peers))]
				}
				cancelAfter := time.Duration(r.Intn(3000)) * time.Microsecond
				done := make(chan struct{})
				g := s.startOp(wname, func(g *gstate) any {
					defer close(done)
					s.mu.Lock()
					g.curOp, g.curPeer = op, p
					s.mu.Unlock()
					switch op {
					case "add":
						rp.vp.Add(peer.ID(p))
					case "remove":
						rp.vp.Remove(peer.ID(p))
					case "tryGet":
						id, ok := rp.vp.TryGet()
						v := none
						if ok {
							v = string(id)
						}
						emit(map[string]any{"act": "ret", "th": wname, "op": op, "val": v})
					case "putOnCooldown":
						rp.vp.PutOnCooldown(peer.ID(p))
					case "has":
						emit(map[string]any{"act": "ret", "th": wname, "op": op, "val": rp.vp.Has(peer.ID(p))})
					case "len":
						emit(map[string]any{"act": "ret", "th": wname, "op": op, "val": rp.vp.Len()})
					case "peers":
						ps := []string{}
						for _, id := range rp.vp.Peers() {
							ps = append(ps, string(id))
						}
						sort.Strings(ps)
						emit(map[string]any{"act": "ret", "th": wname, "op": op, "val": ps})
					case "next":
						ctx, cancel := context.WithCancel(context.Background())
						emit(map[string]any{"act": "enter", "th": wname, "arg": map[string]any{"op": "next", "peer": none}})
						ch := rp.vp.Next(ctx)
						v := none
						select {
						case id := <-ch:
							v = string(id)
						case <-time.After(cancelAfter):
							emit(map[string]any{"act": "cancel", "th": wname})
							cancel()
							select {
							case id := <-ch:
								v = string(id)
							case <-g.exited:
								select {
								case id := <-ch:
									v = string(id)
								default:
								}
							}
						}
						cancel()
						<-g.exited // the goroutine inside next() has ended
						emit(map[string]any{"act": "ret", "th": wname, "op": op, "val": v})
					}
					return nil
				})
				_ = g
				select {
				case <-done:
				case <-time.After(watchdog):
					hung.Store(true)
					return
				}
				rep.Count("stress_ops", 1)
			}
		}()
	}
	wg.Wait() // every worker returns: each call is under a watchdog
	if ps := s.takePanics(); len(ps) > 0 {
		rep.Violate("C17/pool/panic", fmt.Sprintf("panic in the real pool during a concurrent run (seed %d): %s", seed, ps[0]),
			map[string]any{"kind": "pool-stress", "seed": seed, "run": run, "plan": sp})
		close(stopClock)
		return false
	}
	if hung.Load() {
		// some call did not return: is it a lock cycle?
		d1 := dumpGoroutines()
		time.Sleep(time.Second)
		d2 := dumpGoroutines()
		var stuck []string
		for id, g1 := range d1 {
			if g2, ok := d2[id]; ok && strings.Contains(g1.Raw, "/shrex/peers.(*") &&
				(strings.HasPrefix(g2.State, "sync.Mutex.Lock") || strings.HasPrefix(g2.State, "sync.RWMutex")) && strings.SplitN(g1.State, ",", 2)[0] == strings.SplitN(g2.State, ",", 2)[0] {
				if fr := firstPeersFrame(g2); fr != "" {
					stuck = append(stuck, fmt.Sprintf("goroutine %d [%s] %s", id, g2.State, fr))
				}
			}
		}
		sort.Strings(stuck)
		replay := map[string]any{"kind": "pool-stress", "seed": seed, "run": run, "plan": sp}
		if len(stuck) >= 2 {
			rep.Violate("C17/pool/deadlock/concurrent-stress", fmt.Sprintf("calls on the real pool did not return within %s in a concurrent run; goroutines blocked on the pool's mutexes in two dumps one second apart:\n%s",
				watchdog, strings.Join(stuck, "\n")), replay)
		} else {
			rep.Inconclusivef("stress run %d: calls did not return within %s but no lock cycle was found", run, watchdog)
		}
		close(stopClock)
		return false
	}
	close(stopClock)
	select {
	case <-clockDone:
	case <-time.After(watchdog):
		rep.Inconclusivef("stress run %d: the clock goroutine did not finish", run)
		return false
	}
	// let the timer goroutines that are still running finish (they hold no gate in free mode)
	deadline := time.Now().Add(watchdog)
	for len(s.liveTimers()) > 0 && time.Now().Before(deadline) {
		time.Sleep(time.Millisecond)
	}
	if len(s.liveTimers()) > 0 {
		rep.Inconclusivef("stress run %d: a timer goroutine did not finish", run)
		return false
	}
	rep.Count("traces_validated_against_impl", 0)
	return true
}

func firstPeersFrame(g goroutineInfo) string {
	for _, f := range g.Frames {
		if strings.Contains(f, "/shrex/peers.") {
			if i := strings.Index(f, "peers."); i >= 0 {
				return f[i:]
			}
		}
	}
	return ""
}
