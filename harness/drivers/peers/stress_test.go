package peersdrv

import "verifharness/vh"

type StressPlan struct{}

func runStress(rep *vh.Report, sp *StressPlan) {}
