// Package peersdrv binds spec/peers/PeerPool.tla and PeerManager.tla to the real code of
// share/shwap/p2p/shrex/peers (property C17).
//
// sched_test.go: a deterministic scheduler built on the `verif` hooks of the peers package. Every
// instrumented point (before a lock operation, right after a mutex was acquired, right before it is
// released) calls Sched.ev; a goroutine that is managed by the scheduler PARKS there until the
// scheduler releases it. A step of the TLA+ model (one thread moves from one program counter to the
// next) is executed as "release the goroutine, let it run to the event that corresponds to the new
// program counter". Goroutines block only on the real mutexes / channels of the code under test.
package peersdrv

import (
	"context"
	"fmt"
	"regexp"
	"runtime"
	"strconv"
	"strings"
	"sync"
	"sync/atomic"
	"time"

	"github.com/libp2p/go-libp2p/core/peer"

	"github.com/celestiaorg/celestia-node/share/shwap/p2p/shrex/peers"
)

// Event is one hook call, in the global order in which the hook calls were serialised.
type Event struct {
	Seq  int64  `json:"seq"`
	Th   string `json:"th"`   // scheduler name of the goroutine ("" = unmanaged)
	Obj  string `json:"obj"`  // "pool", "queue" or "" (another object)
	Ev   string `json:"ev"`   // "<method>.<point>"
	Peer string `json:"peer"` // peer argument
}

type gstate struct {
	name     string
	parked   bool
	at       string
	arrivals int
	released int
	done     bool
	ret      any
	cancel   context.CancelFunc
	exited   chan struct{} // closed by next.exit
	exitOnce sync.Once
	isTimer  bool
	popped   []string // timer goroutine: peers handed to afterCooldown, in order
	held     map[string]bool
	goids    []uint64
	curOp    string // stress: the operation the caller is executing
	curPeer  string
}

// Sched is installed as the peers package's hook set.
type Sched struct {
	mu      sync.Mutex
	cond    *sync.Cond
	byGoid  map[uint64]*gstate
	byName  map[string]*gstate
	pool    any // the *pool under control
	queue   any // its *timedQueue
	slots   []string
	free    bool // free-running: log, never park
	seq     int64
	log     []Event
	keepLog bool
	onEvent func(g *gstate, e Event) // called under mu for managed goroutines (free-running mode)
	timerN  int
	panics  []string // panics of the code under test inside managed goroutines
	// free-running stress
	uniqueTimers bool            // every timer goroutine gets a fresh name
	preLock      func(ev string) // called WITHOUT s.mu before the event is recorded
	postUnlock   func(ev string) // called WITHOUT s.mu after the event was recorded
}

var theSched atomic.Pointer[Sched]

func init() {
	peers.VerifSetHooks(&peers.VerifHooks{
		Ev: func(obj any, ev string, id peer.ID) {
			if s := theSched.Load(); s != nil {
				s.ev(obj, ev, id)
			} else if h := rawHook.Load(); h != nil {
				(*h)(obj, ev, id)
			}
		},
		Spawn: func() any {
			if s := theSched.Load(); s != nil {
				return s.spawn()
			}
			return nil
		},
		Adopt: func(tok any) {
			if s := theSched.Load(); s != nil {
				s.adopt(tok)
			}
		},
	})
}

func newSched(vp peers.VerifPool, slots []string) *Sched {
	s := &Sched{byGoid: map[uint64]*gstate{}, byName: map[string]*gstate{}, pool: vp.Raw(), queue: vp.RawQueue(), slots: slots}
	s.cond = sync.NewCond(&s.mu)
	return s
}

func (s *Sched) install()   { theSched.Store(s) }
func (s *Sched) uninstall() { theSched.CompareAndSwap(s, nil) }

var goidRe = regexp.MustCompile(`^goroutine (\d+) `)

func curGoid() uint64 {
	var buf [64]byte
	n := runtime.Stack(buf[:], false)
	m := goidRe.FindSubmatch(buf[:n])
	if m == nil {
		return 0
	}
	id, _ := strconv.ParseUint(string(m[1]), 10, 64)
	return id
}

func (s *Sched) objName(obj any) string {
	switch obj {
	case s.pool:
		return "pool"
	case s.queue:
		return "queue"
	}
	return ""
}

func (s *Sched) spawn() any {
	s.mu.Lock()
	defer s.mu.Unlock()
	if g := s.byGoid[curGoid()]; g != nil {
		return g
	}
	return nil
}

func (s *Sched) adopt(tok any) {
	g, _ := tok.(*gstate)
	if g == nil {
		return
	}
	s.mu.Lock()
	id := curGoid()
	s.byGoid[id] = g
	g.goids = append(g.goids, id)
	s.mu.Unlock()
}

// ev is the hook: log, track which mutexes the goroutine holds, park.
func (s *Sched) ev(obj any, ev string, id peer.ID) {
	on := s.objName(obj)
	if on == "" {
		return
	}
	goid := curGoid()
	if s.preLock != nil {
		s.preLock(ev)
	}
	if s.postUnlock != nil {
		defer s.postUnlock(ev)
	}
	s.mu.Lock()
	defer s.mu.Unlock()
	g := s.byGoid[goid]
	if g == nil {
		if ev != "releaseExpired.enter" {
			return // a goroutine the scheduler does not manage (the harness reading state, ...)
		}
		// a goroutine started by the queue's timer
		name := ""
		if s.uniqueTimers {
			s.timerN++
			name = fmt.Sprintf("T%d", s.timerN)
		}
		for _, sl := range s.slots {
			if o := s.byName[sl]; o == nil || o.done {
				name = sl
				break
			}
		}
		if name == "" {
			s.timerN++
			name = fmt.Sprintf("t-extra-%d", s.timerN)
		}
		if s.uniqueTimers { // forget finished timer goroutines
			for n, o := range s.byName {
				if o.isTimer && o.done {
					delete(s.byName, n)
				}
			}
		}
		g = &gstate{name: name, isTimer: true, held: map[string]bool{}, goids: []uint64{goid}}
		s.byGoid[goid] = g
		s.byName[name] = g
	}
	s.seq++
	e := Event{Seq: s.seq, Th: g.name, Obj: on, Ev: ev, Peer: string(id)}
	if s.keepLog {
		s.log = append(s.log, e)
	}
	switch {
	case strings.HasSuffix(ev, ".locked"):
		g.held[on] = true
	case strings.HasSuffix(ev, ".rlocked"):
		g.held[on+"(r)"] = true
	case strings.HasSuffix(ev, ".unlock"):
		delete(g.held, on)
	case strings.HasSuffix(ev, ".runlock"):
		delete(g.held, on+"(r)")
	}
	if ev == "afterCooldown.enter" && g.isTimer {
		g.popped = append(g.popped, string(id))
	}
	if s.onEvent != nil {
		s.onEvent(g, e)
	}
	if ev == "next.exit" {
		g.exitOnce.Do(func() {
			if g.exited != nil {
				close(g.exited)
			}
		})
		delete(s.byGoid, goid)
		s.cond.Broadcast()
		return
	}
	if ev == "releaseExpired.exit" && g.isTimer {
		g.done = true
		delete(s.byGoid, goid)
		s.cond.Broadcast()
		return
	}
	if s.free {
		return
	}
	g.parked, g.at = true, ev
	g.arrivals++
	s.cond.Broadcast()
	for g.released < g.arrivals && !s.free {
		s.cond.Wait()
	}
	g.parked = false
}

// startOp runs fn in a new goroutine managed under name.
func (s *Sched) startOp(name string, fn func(g *gstate) any) *gstate {
	g := &gstate{name: name, held: map[string]bool{}, exited: make(chan struct{})}
	s.mu.Lock()
	s.byName[name] = g
	s.mu.Unlock()
	ready := make(chan struct{})
	go func() {
		id := curGoid()
		s.mu.Lock()
		s.byGoid[id] = g
		g.goids = append(g.goids, id)
		s.mu.Unlock()
		close(ready)
		var r any
		defer func() {
			if pv := recover(); pv != nil {
				buf := make([]byte, 8192)
				n := runtime.Stack(buf, false)
				s.mu.Lock()
				s.panics = append(s.panics, fmt.Sprintf("%v\n%s", pv, buf[:n]))
				s.mu.Unlock()
			}
			s.mu.Lock()
			g.ret = r
			g.done = true
			delete(s.byGoid, id)
			s.cond.Broadcast()
			s.mu.Unlock()
		}()
		r = fn(g)
	}()
	<-ready
	return g
}

// guarded runs f in its own goroutine under a watchdog and converts a panic of the code under test into a
// value (a panic in a goroutine would otherwise end the whole driver and lose the report).
func guarded(d time.Duration, f func()) (ok bool, panicVal string, dump string) {
	done := make(chan string, 1)
	go func() {
		defer func() {
			if r := recover(); r != nil {
				buf := make([]byte, 8192)
				n := runtime.Stack(buf, false)
				done <- fmt.Sprintf("%v\n%s", r, buf[:n])
				return
			}
			done <- ""
		}()
		f()
	}()
	select {
	case pv := <-done:
		return true, pv, ""
	case <-time.After(d):
		return false, "", dumpAll()
	}
}

// forget removes a finished goroutine's name so that it can be reused.
func (s *Sched) forget(name string) {
	s.mu.Lock()
	delete(s.byName, name)
	s.mu.Unlock()
}

func (s *Sched) get(name string) *gstate {
	s.mu.Lock()
	defer s.mu.Unlock()
	return s.byName[name]
}

const (
	resDone    = "done"
	resBlocked = "blocked"
)

// runUntil releases goroutine `name` from its gate and lets it run (releasing it from every further
// gate) until it parks at an event in targets, finishes, or makes no progress for d.
// It returns the event it is parked at, resDone, or resBlocked.
func (s *Sched) runUntil(name string, targets map[string]bool, d time.Duration) string {
	expired := false
	tm := time.AfterFunc(d, func() {
		s.mu.Lock()
		expired = true
		s.cond.Broadcast()
		s.mu.Unlock()
	})
	defer tm.Stop()
	s.mu.Lock()
	defer s.mu.Unlock()
	g := s.byName[name]
	if g == nil {
		return resBlocked
	}
	base := g.arrivals
	for {
		if g.done {
			return resDone
		}
		if g.parked && g.arrivals > base && targets[g.at] {
			return g.at
		}
		if g.parked && g.released < g.arrivals {
			g.released = g.arrivals
			s.cond.Broadcast()
		}
		if expired {
			return resBlocked
		}
		s.cond.Wait()
	}
}

// waitParked waits until goroutine `name` is parked at one of the events in `at` (any event if nil) or has finished.
func (s *Sched) waitParked(name string, at map[string]bool, d time.Duration) string {
	expired := false
	tm := time.AfterFunc(d, func() {
		s.mu.Lock()
		expired = true
		s.cond.Broadcast()
		s.mu.Unlock()
	})
	defer tm.Stop()
	s.mu.Lock()
	defer s.mu.Unlock()
	for {
		if g := s.byName[name]; g != nil {
			if g.done {
				return resDone
			}
			if g.parked && (at == nil || at[g.at]) {
				return g.at
			}
		}
		if expired {
			return resBlocked
		}
		s.cond.Wait()
	}
}

// release lets a parked goroutine go without waiting for anything (e.g. into the select of next()).
func (s *Sched) release(name string) {
	s.mu.Lock()
	if g := s.byName[name]; g != nil && g.parked {
		g.released = g.arrivals
		s.cond.Broadcast()
	}
	s.mu.Unlock()
}

// parkedTimers lists the timer goroutines that exist and have not finished.
func (s *Sched) liveTimers() []string {
	s.mu.Lock()
	defer s.mu.Unlock()
	var out []string
	for n, g := range s.byName {
		if g.isTimer && !g.done {
			out = append(out, n)
		}
	}
	return out
}

// waitTimers waits until exactly/at least n unfinished timer goroutines are parked at releaseExpired.enter.
func (s *Sched) waitTimers(n int, d time.Duration) bool {
	expired := false
	tm := time.AfterFunc(d, func() {
		s.mu.Lock()
		expired = true
		s.cond.Broadcast()
		s.mu.Unlock()
	})
	defer tm.Stop()
	s.mu.Lock()
	defer s.mu.Unlock()
	for {
		c := 0
		for _, g := range s.byName {
			if g.isTimer && !g.done && g.parked && g.at == "releaseExpired.enter" {
				c++
			}
		}
		if c >= n {
			return true
		}
		if expired {
			return false
		}
		s.cond.Wait()
	}
}

// freeAll switches to free-running mode: every parked goroutine continues and nothing parks any more.
func (s *Sched) freeAll() {
	s.mu.Lock()
	s.free = true
	s.cond.Broadcast()
	s.mu.Unlock()
}

func (s *Sched) takePanics() []string {
	s.mu.Lock()
	defer s.mu.Unlock()
	p := s.panics
	s.panics = nil
	return p
}

func (s *Sched) heldBy(name string) []string {
	s.mu.Lock()
	defer s.mu.Unlock()
	var out []string
	if g := s.byName[name]; g != nil {
		for k := range g.held {
			out = append(out, k)
		}
	}
	return out
}

func (s *Sched) goidsOf(name string) []uint64 {
	s.mu.Lock()
	defer s.mu.Unlock()
	if g := s.byName[name]; g != nil {
		return append([]uint64(nil), g.goids...)
	}
	return nil
}

// ---- goroutine dump inspection -------------------------------------------------------------

type goroutineInfo struct {
	ID     uint64
	State  string // text between [ ] of the header
	Frames []string
	Raw    string
}

func dumpGoroutines() map[uint64]goroutineInfo {
	buf := make([]byte, 4<<20)
	n := runtime.Stack(buf, true)
	out := map[uint64]goroutineInfo{}
	hdr := regexp.MustCompile(`^goroutine (\d+) \[([^\]]*)\]:`)
	for _, blk := range strings.Split(string(buf[:n]), "\n\n") {
		lines := strings.Split(blk, "\n")
		m := hdr.FindStringSubmatch(lines[0])
		if m == nil {
			continue
		}
		id, _ := strconv.ParseUint(m[1], 10, 64)
		gi := goroutineInfo{ID: id, State: m[2], Raw: blk}
		for _, l := range lines[1:] {
			if !strings.HasPrefix(l, "\t") && l != "" {
				gi.Frames = append(gi.Frames, l)
			}
		}
		out[id] = gi
	}
	return out
}

// blockedOnLockIn reports whether the goroutine is blocked acquiring a sync mutex, called (directly)
// from a function of the peers package whose name contains fn.
func (gi goroutineInfo) blockedOnLockIn(fn string) bool {
	st := gi.State
	if !(strings.HasPrefix(st, "sync.Mutex.Lock") || strings.HasPrefix(st, "sync.RWMutex.Lock") ||
		strings.HasPrefix(st, "sync.RWMutex.RLock") || strings.HasPrefix(st, "semacquire")) {
		return false
	}
	sawSync := false
	for _, f := range gi.Frames {
		if strings.HasPrefix(f, "sync.") || strings.HasPrefix(f, "internal/sync.") || strings.HasPrefix(f, "runtime.") {
			sawSync = true
			continue
		}
		// first non-runtime, non-sync frame
		return sawSync && strings.Contains(f, "/shrex/peers.") && strings.Contains(f, fn)
	}
	return false
}
