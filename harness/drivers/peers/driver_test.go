package peersdrv

import (
	"fmt"
	"os"
	"sync/atomic"
	"testing"

	"verifharness/vh"
)

// Plan is written by checks/C17.py (from TLC's output) to $VERIF_PLAN.
type Plan struct {
	Pool      *PoolPlan    `json:"pool,omitempty"`     // atomic paths through the state graph of PoolAtomic.cfg
	Pool2     *PoolPlan    `json:"pool2,omitempty"`    // ... of PoolAtomicWake.cfg (two callers: wake-ups, cancellation)
	Pool3     *PoolPlan    `json:"pool3,omitempty"`    // ... of PoolAtomicCleanup.cfg (cleanup threshold 1: cleanup with pending queue entries)
	Witness   []Scenario   `json:"witness,omitempty"`  // atomic counterexamples of model variants WITHOUT a fix
	Fine      []Scenario   `json:"fine,omitempty"`     // fine-grained counterexamples (deadlock) of such variants
	Manager   *ManagerPlan `json:"manager,omitempty"`  // paths through the state graph of PeerManager
	MWitness  []MScenario  `json:"mwitness,omitempty"` // manager counterexamples of model variants without a fix
	MTrace    *MTracePlan  `json:"mtrace,omitempty"`   // random walks on the real Manager recorded for trace validation
	Stress    *StressPlan  `json:"stress,omitempty"`   // free-running concurrent runs recorded for trace validation
	MaxReport int          `json:"max_report"`
}

func TestDriver(t *testing.T) {
	rep := vh.NewReport()
	defer func() {
		if err := rep.Write(); err != nil {
			t.Fatal(err)
		}
	}()
	var plan Plan
	if p := os.Getenv("VERIF_PLAN"); p != "" {
		if err := vh.ReadJSON(p, &plan); err != nil {
			t.Fatalf("plan: %v", err)
		}
	} else {
		t.Fatal("VERIF_PLAN not set")
	}
	if plan.Pool != nil {
		runPoolPaths(rep, plan.Pool)
	}
	if plan.Pool2 != nil {
		runPoolPaths(rep, plan.Pool2)
	}
	if plan.Pool3 != nil {
		runPoolPaths(rep, plan.Pool3)
	}
	for _, sc := range plan.Witness {
		runWitness(rep, sc)
	}
	for _, sc := range plan.Fine {
		runFine(rep, sc)
	}
	if plan.Manager != nil {
		runManagerPaths(rep, plan.Manager)
	}
	for _, sc := range plan.MWitness {
		runManagerWitness(rep, sc)
	}
	if plan.MTrace != nil {
		runManagerWalks(rep, plan.MTrace)
	}
	if plan.Stress != nil {
		runStress(rep, plan.Stress)
	}
}

var notWoken atomic.Int32

func runPoolPaths(rep *vh.Report, pp *PoolPlan) {
	mo := &monitor{rep: rep, ctx: "pool-replay"}
	drift := 0
	for pi, path := range pp.Paths {
		if notWoken.Load() >= 3 {
			break // every further occurrence costs a watchdog period; the violation is recorded
		}
		var res pathResult
		before := mo.hits
		replayObj := map[string]any{"kind": "pool-atomic-path", "ttl": pp.TTL, "cleanup": pp.Cleanup, "path": path}
		panicked, val := vh.Recover(func() { res = replayAtomicPath(rep, mo, pp.TTL, pp.Cleanup, pp.Slots, path, replayObj) })
		if panicked {
			rep.Violate("C17/pool/panic", "panic in the real pool during a sequential replay: "+val, replayObj)
			continue
		}
		rep.Count("pool_paths_replayed", 1)
		rep.Count("pool_steps_replayed", int64(res.steps))
		if res.mismatch == "" {
			rep.Count("traces_validated_against_impl", 1)
		}
		if res.mismatch != "" {
			// The code does not behave like the model. Make the difference observable through the API
			// (monitors); if the property is not affected this is conformance drift, not a violation.
			drift++
			if drift <= 3 {
				rep.Sample(map[string]any{"kind": "pool-mismatch", "path_index": pi, "step": res.at, "what": res.mismatch})
			}
			if mo.hits == before && drift <= 5 {
				rep.Inconclusivef("conformance drift (pool): path %d step %d: %s", pi, res.at, res.mismatch)
			}
		} else if pi < 2 {
			rep.Sample(map[string]any{"kind": "pool-path-ok", "steps": len(path), "first_actions": actNames(path, 12)})
		}
	}
	rep.Set("pool_paths", len(pp.Paths))
	rep.Set("pool_drift", drift)
}

func actNames(path []MStep, n int) []string {
	var out []string
	for i, s := range path {
		if i >= n {
			break
		}
		out = append(out, fmt.Sprintf("%s %s(%s)->%s", s.A.Th, s.A.Act, s.A.argString(), retString(s.A.Ret)))
	}
	return out
}

// runWitness replays a counterexample of a model variant that lacks a fix (CountCooldowns = FALSE): if the
// real code follows it to the end, the real code has the defect.
func runWitness(rep *vh.Report, sc Scenario) {
	mo := &monitor{rep: rep, ctx: "witness " + sc.Name}
	replayObj := map[string]any{"kind": "pool-witness", "scenario": sc}
	var res pathResult
	panicked, val := vh.Recover(func() { res = replayAtomicPath(rep, mo, sc.TTL, sc.Cleanup, sc.Slots, sc.Steps, replayObj) })
	if panicked {
		rep.Violate("C17/pool/panic", "panic in the real pool: "+val, replayObj)
		return
	}
	rep.Count("witness_replayed", 1)
	rep.Set("witness_"+sc.Name, map[string]any{"steps": res.steps, "of": len(sc.Steps), "diverged": res.mismatch, "monitor_hits": mo.hits})
}

func runFine(rep *vh.Report, sc Scenario) {
	var res fineResult
	replayObj := map[string]any{"kind": "pool-fine-trace", "scenario": sc}
	panicked, val := vh.Recover(func() { res = replayFine(rep, sc) })
	if panicked {
		rep.Violate("C17/pool/panic", "panic in the real pool: "+val, replayObj)
		return
	}
	rep.Count("fine_traces_replayed", 1)
	rep.Count("traces_validated_against_impl", 1)
	out := map[string]any{"steps": res.executed, "of": len(sc.Steps), "diverged": res.mismatch, "deadlocked": res.deadlocked, "completed": res.completed}
	rep.Set("fine_"+sc.Name, out)
	out["asleep"], out["woke"] = res.asleep, res.woke
	switch {
	case len(res.asleep) > 0:
		rep.Violate("C17/pool/waiter-not-woken",
			fmt.Sprintf("next(): the waiter's tryGet failed, then another caller made a peer active, then the waiter read hasPeerCh (schedule forced with the gate at next.loop): "+
				"it stayed asleep for %s with a live context and an active peer, no other goroutine running; proof:\n%s", wakeWatchdog, res.proof), replayObj)
	case res.deadlocked:
		rep.Violate("C17/pool/deadlock/putOnCooldown-vs-releaseExpired",
			"lock-order deadlock reproduced on the real pool with the schedule TLC found; proof:\n"+res.proof, replayObj)
	case sc.Expect == "sleeping-waiter" && res.mismatch != "":
		rep.Inconclusivef("fine trace %s: %s", sc.Name, res.mismatch)
	case sc.Expect == "deadlock" && res.mismatch == "" && !res.completed:
		rep.Inconclusivef("fine trace %s: no deadlock proved but the goroutines did not all finish", sc.Name)
	}
	rep.Sample(map[string]any{"kind": "fine-trace", "name": sc.Name, "result": out})
}
