package peersdrv

// manager_test.go: behaviour replay (B2) of PeerManager.tla on the real Manager: a mocknet host, a real
// shrex-sub instance, the real connection gater, a scripted header subscription. The model is
// nondeterministic where the code's round-robin decides (which active peer is returned); the driver
// executes an action on the real manager, observes the result and follows the model edge with the same
// label, result and successor state. No such edge = the code left the model.

import (
	"context"
	"encoding/json"
	"fmt"
	"math/rand"
	"os"
	"reflect"
	"sort"
	"strings"
	"sync"
	"sync/atomic"
	"time"

	"github.com/benbjohnson/clock"
	"github.com/ipfs/go-datastore"
	dssync "github.com/ipfs/go-datastore/sync"
	pubsub "github.com/libp2p/go-libp2p-pubsub"
	"github.com/libp2p/go-libp2p/core/event"
	"github.com/libp2p/go-libp2p/core/host"
	"github.com/libp2p/go-libp2p/core/network"
	"github.com/libp2p/go-libp2p/core/peer"
	"github.com/libp2p/go-libp2p/p2p/net/conngater"
	mocknet "github.com/libp2p/go-libp2p/p2p/net/mock"

	libhead "github.com/celestiaorg/go-header"

	"github.com/celestiaorg/celestia-node/header"
	"github.com/celestiaorg/celestia-node/share"
	"github.com/celestiaorg/celestia-node/share/shwap/p2p/shrex/peers"
	"github.com/celestiaorg/celestia-node/share/shwap/p2p/shrex/shrexsub"

	"verifharness/vh"
)

// ---- the model's JSON ------------------------------------------------------------------------

type MMPool struct {
	Exists    bool              `json:"exists"`
	Validated bool              `json:"validated"`
	Height    uint64            `json:"height"`
	Stale     bool              `json:"stale"`
	St        map[string]string `json:"st"`
}

type MReq struct {
	Peer string `json:"peer"`
	Hash string `json:"hash"`
	Src  string `json:"src"`
}

type MMState struct {
	Pools         map[string]MMPool `json:"pools"`
	Nodes         map[string]string `json:"nodes"`
	Blocked       []string          `json:"blocked"`
	BlHashes      []string          `json:"blHashes"`
	InitialHeight uint64            `json:"initialHeight"`
	StoreFrom     uint64            `json:"storeFrom"`
	Head          int               `json:"head"`
	Reqs          []MReq            `json:"reqs"`
}

type MMAct struct {
	Act string          `json:"act"`
	Arg json.RawMessage `json:"arg"`
	Ret json.RawMessage `json:"ret"`
}

type MMEdge struct {
	A  MMAct `json:"a"`
	To int   `json:"to"`
}

type ManagerPlan struct {
	Peers     []string   `json:"peers"`
	Hashes    []string   `json:"hashes"`
	Blacklist bool       `json:"enable_blacklisting"`
	States    []MMState  `json:"states"`
	Out       [][]MMEdge `json:"out"` // adjacency: Out[i] = edges leaving state i
	Root      int        `json:"root"`
	Walks     int        `json:"walks"`
	MaxLen    int        `json:"maxlen"`
}

type MScenario struct {
	Name      string   `json:"name"`
	Peers     []string `json:"peers"`
	Hashes    []string `json:"hashes"`
	Blacklist bool     `json:"enable_blacklisting"`
	NoCompare bool     `json:"nocompare"` // --replay of a recorded walk: only the actions are known; monitors decide
	Steps     []struct {
		A MMAct   `json:"a"`
		T MMState `json:"t"`
	} `json:"steps"`
}

// ---- scripted header subscription ---------------------------------------------------------------

type headerSub struct {
	mu    sync.Mutex
	cond  *sync.Cond
	queue []*header.ExtendedHeader
	idle  int // number of NextHeader calls that found the queue empty and are (or were) waiting
	calls int
}

func newHeaderSub() *headerSub {
	h := &headerSub{}
	h.cond = sync.NewCond(&h.mu)
	return h
}

func (s *headerSub) Subscribe() (libhead.Subscription[*header.ExtendedHeader], error) { return s, nil }
func (s *headerSub) SetVerifier(func(context.Context, *header.ExtendedHeader) error) error {
	return nil
}
func (s *headerSub) Cancel() {}

func (s *headerSub) NextHeader(ctx context.Context) (*header.ExtendedHeader, error) {
	stop := context.AfterFunc(ctx, func() {
		s.mu.Lock()
		s.cond.Broadcast()
		s.mu.Unlock()
	})
	defer stop()
	s.mu.Lock()
	defer s.mu.Unlock()
	s.calls++
	s.cond.Broadcast()
	for len(s.queue) == 0 {
		if ctx.Err() != nil {
			return nil, ctx.Err()
		}
		s.cond.Wait()
	}
	h := s.queue[0]
	s.queue = s.queue[1:]
	return h, nil
}

// deliver hands one header to the manager and returns when the manager has asked for the next one,
// i.e. has completely processed this one.
func (s *headerSub) deliver(h *header.ExtendedHeader, d time.Duration) bool {
	s.mu.Lock()
	want := s.calls + 1
	if s.calls == 0 {
		want = 2 // the subscription goroutine has not even asked for the first header yet
	}
	s.queue = append(s.queue, h)
	s.cond.Broadcast()
	expired := false
	tm := time.AfterFunc(d, func() {
		s.mu.Lock()
		expired = true
		s.cond.Broadcast()
		s.mu.Unlock()
	})
	defer tm.Stop()
	for s.calls < want && !expired {
		s.cond.Wait()
	}
	ok := s.calls >= want
	s.mu.Unlock()
	return ok
}

// ---- a real manager -------------------------------------------------------------------------------

type realManager struct {
	m       *peers.Manager
	host    host.Host
	hs      *headerSub
	cancel  context.CancelFunc
	emitter event.Emitter
	peers   []string
	hashes  []string
	bl      bool
	dones   map[MReq]peers.DoneFunc
	head    int
	// hook counters for the node pool (disconnect handling is asynchronous)
	cmu      sync.Mutex
	ccond    *sync.Cond
	counters map[string]int
	nodesObj any
	// monitors' ghosts
	discovered map[string]bool
	confirmed  map[string]bool
	// marked reads of pool state made without the pool's mutex
	unlockedReads []string
	// every pool runs on this mock clock; cool-downs elapse only in an "expire" step
	clk      *clock.Mock
	clocked  map[any]bool
	objCount map[any]map[string]int // hook events per pool / queue object
	// a blocked Peer() call (request_wait)
	waiter *blockedPeer
}

type blockedPeer struct {
	hash   string
	cancel context.CancelFunc
	res    chan peerResult
	got    *peerResult
	mark   int // "next.wait" events of the hash pool when the call was seen blocked
	pool   any
}

type peerResult struct {
	pid  peer.ID
	done peers.DoneFunc
	err  error
}

const poolTimeout = time.Hour
const cooldownTime = time.Hour // on the mock clock

var rawHook atomic.Pointer[func(obj any, ev string, id peer.ID)]

func hashBytes(h string) share.DataHash {
	b := make([]byte, 32)
	copy(b, h)
	return share.DataHash(b)
}

func newRealManager(peerNames, hashes []string, blacklisting bool) (*realManager, error) {
	ctx, cancel := context.WithCancel(context.Background())
	hst, err := mocknet.New().GenPeer()
	if err != nil {
		cancel()
		return nil, err
	}
	ss, err := shrexsub.NewPubSub(ctx, hst, "verif")
	if err != nil {
		cancel()
		return nil, err
	}
	gater, err := conngater.NewBasicConnectionGater(dssync.MutexWrap(datastore.NewMapDatastore()))
	if err != nil {
		cancel()
		return nil, err
	}
	hs := newHeaderSub()
	params := peers.Parameters{PoolValidationTimeout: poolTimeout, PeerCooldown: cooldownTime, GcInterval: time.Hour, EnableBlackListing: blacklisting}
	m, err := peers.NewManager(params, hst, gater, "verif", peers.WithShrexSubPools(ss, hs))
	if err != nil {
		cancel()
		return nil, err
	}
	rm := &realManager{m: m, host: hst, hs: hs, cancel: cancel, peers: peerNames, hashes: hashes, bl: blacklisting,
		dones: map[MReq]peers.DoneFunc{}, counters: map[string]int{}, discovered: map[string]bool{}, confirmed: map[string]bool{},
		clk: clock.NewMock(), clocked: map[any]bool{}, objCount: map[any]map[string]int{}}
	rm.ccond = sync.NewCond(&rm.cmu)
	rm.nodesObj = m.VerifNodes().Raw()
	// Besides counting the node pool's events (needed to wait for the asynchronous disconnect handling) the hook
	// keeps, per goroutine, the set of pool mutexes it holds, and records every marked read of pool state
	// ("<method>.read") made WITHOUT that pool's mutex (lock discipline, Eraser style).
	held := map[uint64]map[any]int{}
	hook := func(obj any, ev string, id peer.ID) {
		goid := curGoid()
		rm.cmu.Lock()
		defer rm.cmu.Unlock()
		h := held[goid]
		if h == nil {
			h = map[any]int{}
			held[goid] = h
		}
		switch {
		case strings.HasSuffix(ev, ".locked"), strings.HasSuffix(ev, ".rlocked"):
			h[obj]++
		case strings.HasSuffix(ev, ".unlock"), strings.HasSuffix(ev, ".runlock"):
			h[obj]--
		case strings.HasSuffix(ev, ".read"):
			if h[obj] <= 0 {
				rm.unlockedReads = append(rm.unlockedReads, ev)
			}
		}
		oc := rm.objCount[obj]
		if oc == nil {
			oc = map[string]int{}
			rm.objCount[obj] = oc
		}
		oc[ev]++
		if obj == rm.nodesObj {
			rm.counters[ev]++
		}
		rm.ccond.Broadcast()
	}
	rawHook.Store(&hook)
	if err := m.Start(ctx); err != nil {
		cancel()
		return nil, err
	}
	rm.setClocks()
	rm.emitter, err = hst.EventBus().Emitter(new(event.EvtPeerConnectednessChanged))
	if err != nil {
		cancel()
		return nil, err
	}
	return rm, nil
}

// setClocks puts every pool the manager has (created since the last call) on the mock clock.
func (rm *realManager) setClocks() {
	all := []peers.VerifPool{rm.m.VerifNodes()}
	for _, p := range rm.m.VerifPools() {
		all = append(all, p.Pool)
	}
	for _, vp := range all {
		if !rm.clocked[vp.Raw()] {
			vp.SetClock(rm.clk)
			rm.clocked[vp.Raw()] = true
		}
	}
}

func (rm *realManager) objCounter(obj any, ev string) int {
	rm.cmu.Lock()
	defer rm.cmu.Unlock()
	return rm.objCount[obj][ev]
}

func (rm *realManager) waitObjCounter(obj any, ev string, above int, d time.Duration) bool {
	expired := false
	tm := time.AfterFunc(d, func() {
		rm.cmu.Lock()
		expired = true
		rm.ccond.Broadcast()
		rm.cmu.Unlock()
	})
	defer tm.Stop()
	rm.cmu.Lock()
	defer rm.cmu.Unlock()
	for rm.objCount[obj][ev] <= above && !expired {
		rm.ccond.Wait()
	}
	return rm.objCount[obj][ev] > above
}

// pollWaiter takes the result of the blocked Peer() call if there is one, and applies the monitors to it.
func (rm *realManager) pollWaiter(rep *vh.Report, replayObj any, wait time.Duration) *peerResult {
	w := rm.waiter
	if w == nil {
		return nil
	}
	if w.got == nil {
		if wait <= 0 {
			select {
			case r := <-w.res:
				w.got = &r
			default:
				return nil
			}
		} else {
			select {
			case r := <-w.res:
				w.got = &r
			case <-time.After(wait):
				return nil
			}
		}
		if w.got.err == nil {
			if rm.bl && rm.m.VerifBlacklistedPeer(w.got.pid) {
				rep.Violate("C17/manager/blacklisted-peer-offered",
					fmt.Sprintf("a blocked Manager.Peer(%s) was woken and returned %q although the peer is black-listed (blocked in the connection gater) and black-listing is enabled",
						w.hash, string(w.got.pid)), replayObj)
			}
		}
	}
	return w.got
}

func (rm *realManager) close() {
	if rm.waiter != nil {
		rm.waiter.cancel()
	}
	rawHook.Store(nil)
	sctx, c := context.WithTimeout(context.Background(), 10*time.Second)
	_ = rm.m.Stop(sctx)
	c()
	rm.cancel()
	_ = rm.emitter.Close()
	_ = rm.host.Close()
}

func (rm *realManager) waitCounter(ev string, above int, d time.Duration) bool {
	expired := false
	tm := time.AfterFunc(d, func() {
		rm.cmu.Lock()
		expired = true
		rm.ccond.Broadcast()
		rm.cmu.Unlock()
	})
	defer tm.Stop()
	rm.cmu.Lock()
	defer rm.cmu.Unlock()
	for rm.counters[ev] <= above && !expired {
		rm.ccond.Wait()
	}
	return rm.counters[ev] > above
}

func (rm *realManager) counter(ev string) int {
	rm.cmu.Lock()
	defer rm.cmu.Unlock()
	return rm.counters[ev]
}

func poolSt(vp peers.VerifPool, names []string) map[string]string {
	st := vp.State()
	out := map[string]string{}
	for _, p := range names {
		out[p] = "none"
	}
	for id, s := range st.Statuses {
		switch s {
		case 0:
			out[string(id)] = "active"
		case 1:
			out[string(id)] = "cooldown"
		}
	}
	return out
}

// snapshot projects the real manager onto the model's state.
func (rm *realManager) snapshot() MMState {
	s := MMState{Pools: map[string]MMPool{}, Blocked: []string{}, BlHashes: []string{}, Reqs: []MReq{}, Head: rm.head}
	real := rm.m.VerifPools()
	for _, h := range rm.hashes {
		p, ok := real[hashBytes(h).String()]
		if !ok {
			none := map[string]string{}
			for _, q := range rm.peers {
				none[q] = "none"
			}
			s.Pools[h] = MMPool{St: none}
			continue
		}
		s.Pools[h] = MMPool{Exists: true, Validated: p.Validated, Height: p.Height, Stale: time.Since(p.CreatedAt) > poolTimeout, St: poolSt(p.Pool, rm.peers)}
		delete(real, hashBytes(h).String())
	}
	for k := range real {
		s.Pools["?"+k] = MMPool{Exists: true}
	}
	s.Nodes = poolSt(rm.m.VerifNodes(), rm.peers)
	for _, p := range rm.peers {
		if rm.m.VerifBlacklistedPeer(peer.ID(p)) {
			s.Blocked = append(s.Blocked, p)
		}
	}
	for _, h := range rm.hashes {
		if rm.m.VerifBlacklistedHash(hashBytes(h).String()) {
			s.BlHashes = append(s.BlHashes, h)
		}
	}
	s.InitialHeight = rm.m.VerifInitialHeight()
	s.StoreFrom = rm.m.VerifStoreFrom()
	for r := range rm.dones {
		s.Reqs = append(s.Reqs, r)
	}
	sortReqs(s.Reqs)
	return s
}

func sortReqs(r []MReq) {
	sort.Slice(r, func(i, j int) bool {
		return fmt.Sprint(r[i]) < fmt.Sprint(r[j])
	})
}

func normState(s MMState) MMState {
	s.Blocked = append([]string{}, s.Blocked...)
	s.BlHashes = append([]string{}, s.BlHashes...)
	s.Reqs = append([]MReq{}, s.Reqs...)
	sort.Strings(s.Blocked)
	sort.Strings(s.BlHashes)
	sortReqs(s.Reqs)
	return s
}

// sameState compares ignoring `reqs` (the source of a request is not observable through the API).
func sameState(a, b MMState, withReqs bool) bool {
	a, b = normState(a), normState(b)
	if !withReqs {
		a.Reqs, b.Reqs = nil, nil
	}
	return reflect.DeepEqual(a, b)
}

func diffMState(m, r MMState) string {
	m, r = normState(m), normState(r)
	var d []string
	for h, mp := range m.Pools {
		if rp := r.Pools[h]; !reflect.DeepEqual(mp, rp) {
			d = append(d, fmt.Sprintf("pool %s model=%+v real=%+v", h, mp, rp))
		}
	}
	for h, rp := range r.Pools {
		if _, ok := m.Pools[h]; !ok {
			d = append(d, fmt.Sprintf("pool %s only in the real manager: %+v", h, rp))
		}
	}
	if !reflect.DeepEqual(m.Nodes, r.Nodes) {
		d = append(d, fmt.Sprintf("nodes model=%v real=%v", m.Nodes, r.Nodes))
	}
	if !reflect.DeepEqual(m.Blocked, r.Blocked) {
		d = append(d, fmt.Sprintf("blocked model=%v real=%v", m.Blocked, r.Blocked))
	}
	if !reflect.DeepEqual(m.BlHashes, r.BlHashes) {
		d = append(d, fmt.Sprintf("blacklisted hashes model=%v real=%v", m.BlHashes, r.BlHashes))
	}
	if m.InitialHeight != r.InitialHeight || m.StoreFrom != r.StoreFrom || m.Head != r.Head {
		d = append(d, fmt.Sprintf("initialHeight/storeFrom/head model=%d/%d/%d real=%d/%d/%d", m.InitialHeight, m.StoreFrom, m.Head, r.InitialHeight, r.StoreFrom, r.Head))
	}
	return fmt.Sprint(d)
}

// exec performs one model action on the real manager and returns the observed result as JSON text.
func (rm *realManager) exec(rep *vh.Report, a MMAct, pre MMState, replayObj any) (ret string, pendingReq *MReq, pendingDone peers.DoneFunc, err error) {
	ctx := context.Background()
	switch a.Act {
	case "notify":
		var arg struct {
			Peer   string `json:"peer"`
			Hash   string `json:"hash"`
			Height uint64 `json:"height"`
		}
		_ = json.Unmarshal(a.Arg, &arg)
		var res pubsub.ValidationResult
		rm.call(rep, "Validate", replayObj, func() {
			res = rm.m.Validate(ctx, peer.ID(arg.Peer), shrexsub.Notification{DataHash: hashBytes(arg.Hash), Height: arg.Height})
		})
		if pre.Pools[arg.Hash].Validated && res == pubsub.ValidationIgnore && !contains(pre.Blocked, arg.Peer) {
			rm.confirmed[arg.Peer] = true
		}
		switch res {
		case pubsub.ValidationAccept:
			return `"accept"`, nil, nil, nil
		case pubsub.ValidationReject:
			return `"reject"`, nil, nil, nil
		default:
			return `"ignore"`, nil, nil, nil
		}
	case "header":
		var arg struct {
			Hash   string `json:"hash"`
			Height uint64 `json:"height"`
		}
		_ = json.Unmarshal(a.Arg, &arg)
		for p, s := range pre.Pools[arg.Hash].St {
			if s != "none" {
				rm.confirmed[p] = true
			}
		}
		h := &header.ExtendedHeader{RawHeader: header.RawHeader{Height: int64(arg.Height), DataHash: []byte(hashBytes(arg.Hash))}}
		if !rm.hs.deliver(h, watchdog) {
			return "", nil, nil, fmt.Errorf("the header subscription goroutine did not take / finish the header within %s", watchdog)
		}
		rm.head++
		return `"-"`, nil, nil, nil
	case "request":
		var arg struct {
			Hash   string `json:"hash"`
			Height uint64 `json:"height"`
		}
		_ = json.Unmarshal(a.Arg, &arg)
		for p, s := range pre.Pools[arg.Hash].St {
			if s != "none" {
				rm.confirmed[p] = true
			}
		}
		cctx, cancel := context.WithCancel(ctx)
		cancel() // do not wait: a peer that is available is returned, otherwise the call ends with ctx.Err()
		var pid peer.ID
		var done peers.DoneFunc
		var perr error
		rm.call(rep, "Peer", replayObj, func() { pid, done, perr = rm.m.Peer(cctx, hashBytes(arg.Hash), arg.Height) })
		if perr != nil {
			return `"-"`, nil, nil, nil
		}
		if rm.bl && contains(pre.Blocked, string(pid)) {
			where := "node pool"
			if pre.Pools[arg.Hash].St[string(pid)] == "active" {
				where = "hash pool"
			}
			rep.Violate("C17/manager/blacklisted-peer-offered",
				fmt.Sprintf("Manager.Peer(%s) returned %q from the %s although the peer is black-listed (blocked in the connection gater) and black-listing is enabled",
					arg.Hash, string(pid), where), replayObj)
		}
		return fmt.Sprintf("%q", string(pid)), &MReq{Peer: string(pid), Hash: arg.Hash}, done, nil
	case "done":
		var arg struct {
			Peer   string `json:"peer"`
			Hash   string `json:"hash"`
			Src    string `json:"src"`
			Result string `json:"result"`
		}
		_ = json.Unmarshal(a.Arg, &arg)
		key := MReq{Peer: arg.Peer, Hash: arg.Hash, Src: arg.Src}
		done, ok := rm.dones[key]
		if !ok {
			key.Src = ""
			done, ok = rm.dones[key]
		}
		if !ok {
			return "", nil, nil, fmt.Errorf("no outstanding request %v", key)
		}
		delete(rm.dones, key)
		rm.call(rep, "DoneFunc", replayObj, func() {
			switch arg.Result {
			case "noop":
				done(peers.ResultNoop)
			case "cooldown":
				done(peers.ResultCooldownPeer)
			case "blacklist":
				done(peers.ResultBlacklistPeer)
			}
		})
		return `"-"`, nil, nil, nil
	case "discovery":
		var arg struct {
			Peer  string `json:"peer"`
			Added bool   `json:"added"`
		}
		_ = json.Unmarshal(a.Arg, &arg)
		rm.call(rep, "UpdateNodePool", replayObj, func() { rm.m.UpdateNodePool(peer.ID(arg.Peer), arg.Added) })
		if arg.Added && !contains(pre.Blocked, arg.Peer) {
			rm.discovered[arg.Peer] = true
		} else if !arg.Added {
			delete(rm.discovered, arg.Peer)
		}
		return `"-"`, nil, nil, nil
	case "disconnect":
		var p string
		_ = json.Unmarshal(a.Arg, &p)
		c0, r0 := rm.counter("has.runlock"), rm.counter("remove.unlock")
		if err := rm.emitter.Emit(event.EvtPeerConnectednessChanged{Peer: peer.ID(p), Connectedness: network.NotConnected}); err != nil {
			return "", nil, nil, err
		}
		if !rm.waitCounter("has.runlock", c0, watchdog) {
			return "", nil, nil, fmt.Errorf("the disconnect event was not processed within %s", watchdog)
		}
		if pre.Nodes[p] != "none" && !rm.waitCounter("remove.unlock", r0, watchdog) {
			return "", nil, nil, fmt.Errorf("the disconnected peer was not removed within %s", watchdog)
		}
		return `"-"`, nil, nil, nil
	case "age":
		var h string
		_ = json.Unmarshal(a.Arg, &h)
		if !rm.m.VerifAgePool(hashBytes(h).String(), 2*poolTimeout) {
			return "", nil, nil, fmt.Errorf("age: no pool %s", h)
		}
		return `"-"`, nil, nil, nil
	case "expire":
		// every pool with a non-empty cool-down queue has a timer; advance the clock by the cool-down and wait for
		// each of those timers' releaseExpired to finish
		type tq struct {
			q any
			n int
		}
		var due []tq
		all := []peers.VerifPool{rm.m.VerifNodes()}
		for _, p := range rm.m.VerifPools() {
			all = append(all, p.Pool)
		}
		for _, vp := range all {
			if len(vp.Queue()) > 0 {
				due = append(due, tq{vp.RawQueue(), rm.objCounter(vp.RawQueue(), "releaseExpired.exit")})
			}
		}
		rm.clk.Add(cooldownTime)
		for _, d := range due {
			if !rm.waitObjCounter(d.q, "releaseExpired.exit", d.n, watchdog) {
				return "", nil, nil, fmt.Errorf("expire: a cool-down queue did not release its entries within %s", watchdog)
			}
		}
		return `"-"`, nil, nil, nil
	case "request_wait":
		var arg struct {
			Hash   string `json:"hash"`
			Height uint64 `json:"height"`
		}
		_ = json.Unmarshal(a.Arg, &arg)
		if rm.waiter != nil {
			return "", nil, nil, fmt.Errorf("request_wait: a call is blocked already")
		}
		for p, s := range pre.Pools[arg.Hash].St {
			if s != "none" {
				rm.confirmed[p] = true
			}
		}
		wctx, cancel := context.WithCancel(ctx)
		w := &blockedPeer{hash: arg.Hash, cancel: cancel, res: make(chan peerResult, 1)}
		rm.waiter = w
		nodesMark := rm.objCounter(rm.nodesObj, "next.wait")
		go func() {
			var r peerResult
			if panicked, val := vh.Recover(func() { r.pid, r.done, r.err = rm.m.Peer(wctx, hashBytes(arg.Hash), arg.Height) }); panicked {
				r.err = fmt.Errorf("panic: %s", val)
			}
			w.res <- r
		}()
		// blocked = both next() goroutines (hash pool, node pool) have reached their wait point
		if !rm.waitObjCounter(rm.nodesObj, "next.wait", nodesMark, watchdog) {
			if rm.pollWaiter(rep, replayObj, 0) != nil {
				return `"returned"`, nil, nil, nil
			}
			return "", nil, nil, fmt.Errorf("request_wait: the call neither returned nor blocked within %s", watchdog)
		}
		if p, ok := rm.m.VerifPools()[hashBytes(arg.Hash).String()]; ok {
			w.pool = p.Pool.Raw()
			deadline := time.Now().Add(watchdog)
			for rm.objCounter(w.pool, "next.wait") == 0 && time.Now().Before(deadline) {
				time.Sleep(time.Millisecond)
			}
			w.mark = rm.objCounter(w.pool, "next.wait")
		}
		return `"-"`, nil, nil, nil
	case "wake":
		w := rm.waiter
		if w == nil {
			return "", nil, nil, fmt.Errorf("wake: no blocked call")
		}
		// the woken call either returns or, after dropping an unreachable peer, blocks again (its new next()
		// goroutine on the hash pool reaches the wait point)
		deadline := time.Now().Add(watchdog)
		for time.Now().Before(deadline) {
			if r := rm.pollWaiter(rep, replayObj, 2*time.Millisecond); r != nil {
				rm.waiter = nil
				if r.err != nil {
					return "", nil, nil, fmt.Errorf("wake: blocked call ended with %v", r.err)
				}
				return fmt.Sprintf("%q", string(r.pid)), &MReq{Peer: string(r.pid), Hash: w.hash}, r.done, nil
			}
			if w.pool != nil && rm.objCounter(w.pool, "next.wait") > w.mark {
				w.mark = rm.objCounter(w.pool, "next.wait")
				return `"-"`, nil, nil, nil
			}
		}
		return "", nil, nil, fmt.Errorf("wake: the blocked call neither returned nor blocked again within %s", watchdog)
	case "gc":
		var bl []peer.ID
		rm.call(rep, "GC", replayObj, func() { bl = rm.m.VerifGCOnce() })
		out := []string{}
		for _, id := range bl {
			out = append(out, string(id))
		}
		sort.Strings(out)
		b, _ := json.Marshal(out)
		return string(b), nil, nil, nil
	}
	return "", nil, nil, fmt.Errorf("unknown action %q", a.Act)
}

func (rm *realManager) call(rep *vh.Report, what string, replayObj any, f func()) {
	ok, pv, dump := guarded(watchdog, f)
	if pv != "" {
		rep.Violate("C17/manager/panic", fmt.Sprintf("Manager.%s panicked: %s", what, pv), replayObj)
		panic("manager call panicked: " + what)
	}
	if !ok {
		rep.Violate("C17/manager/call-did-not-return", fmt.Sprintf("Manager.%s did not return within %s in a sequential replay\n%s", what, watchdog, trimDump(dump)), replayObj)
		panic("manager call hung: " + what)
	}
}

func contains(s []string, x string) bool {
	for _, y := range s {
		if y == x {
			return true
		}
	}
	return false
}

func normRet(raw json.RawMessage) string {
	var v any
	if json.Unmarshal(raw, &v) != nil {
		return string(raw)
	}
	if l, ok := v.([]any); ok {
		ss := []string{}
		for _, x := range l {
			ss = append(ss, fmt.Sprint(x))
		}
		sort.Strings(ss)
		b, _ := json.Marshal(ss)
		return string(b)
	}
	b, _ := json.Marshal(v)
	return string(b)
}

// monitorNodes: a peer in the node pool was reported by discovery or announced a confirmed hash; and no pool state
// was read outside the pool's mutex during the last call.
func (rm *realManager) monitorNodes(rep *vh.Report, st MMState, replayObj any) {
	rm.cmu.Lock()
	ur := rm.unlockedReads
	rm.unlockedReads = nil
	rm.cmu.Unlock()
	if len(ur) > 0 {
		rep.Violate("C17/manager/pool-state-read-without-pool-lock",
			fmt.Sprintf("the manager read a pool's peer list without holding that pool's mutex (%v) while other goroutines may add to it", ur), replayObj)
	}
	for p, s := range st.Nodes {
		if s != "none" && !rm.discovered[p] && !rm.confirmed[p] {
			rep.Violate("C17/manager/unconfirmed-peer-in-node-pool",
				fmt.Sprintf("%s is in the node pool (%s) although discovery never reported it and no data hash it announced has been confirmed by a header", p, s), replayObj)
		}
	}
}

// ---- graph walk -------------------------------------------------------------------------------------

func runManagerPaths(rep *vh.Report, mp *ManagerPlan) {
	rng := rand.New(rand.NewSource(vh.Seed()))
	covered := map[[2]int]bool{}
	drift := 0
	theSched.Store(nil)
	for w := 0; w < mp.Walks; w++ {
		var trail []MMAct
		res := ""
		panicked, val := vh.Recover(func() { res = managerWalk(rep, mp, rng, covered, &trail) })
		rep.Count("manager_walks", 1)
		rep.Count("traces_validated_against_impl", 1)
		if panicked {
			rep.Inconclusivef("manager walk %d aborted: %s", w, firstLine(val))
			continue
		}
		if res != "" {
			drift++
			if drift <= 3 {
				rep.Sample(map[string]any{"kind": "manager-mismatch", "walk": w, "what": res, "trail": trail})
				rep.Inconclusivef("conformance drift (manager): walk %d after %d steps: %s", w, len(trail), res)
			}
		} else if w < 2 {
			rep.Sample(map[string]any{"kind": "manager-walk-ok", "steps": len(trail), "trail": trail})
		}
	}
	total := 0
	for _, o := range mp.Out {
		total += len(o)
	}
	rep.Set("manager_edges", total)
	rep.Set("manager_edges_replayed", len(covered))
	rep.Set("manager_drift", drift)
	rep.Count("manager_edges_replayed", int64(len(covered)))
}

func firstLine(s string) string {
	for i, c := range s {
		if c == '\n' {
			return s[:i]
		}
	}
	return s
}

func managerWalk(rep *vh.Report, mp *ManagerPlan, rng *rand.Rand, covered map[[2]int]bool, trail *[]MMAct) string {
	rm, err := newRealManager(mp.Peers, mp.Hashes, mp.Blacklist)
	if err != nil {
		panic(err)
	}
	defer rm.close()
	cur := mp.Root
	for step := 0; step < mp.MaxLen; step++ {
		out := mp.Out[cur]
		if len(out) == 0 {
			return ""
		}
		// choose an action label: prefer labels with an uncovered edge
		var fresh []int
		for i := range out {
			if !covered[[2]int{cur, i}] {
				fresh = append(fresh, i)
			}
		}
		pick := rng.Intn(len(out))
		if len(fresh) > 0 {
			pick = fresh[rng.Intn(len(fresh))]
		}
		a := out[pick].A
		*trail = append(*trail, a)
		replayObj := map[string]any{"kind": "manager-walk", "peers": mp.Peers, "hashes": mp.Hashes, "enable_blacklisting": mp.Blacklist, "actions": *trail}
		pre := rm.snapshot()
		ret, preq, pdone, err := rm.exec(rep, a, pre, replayObj)
		if err != nil {
			return fmt.Sprintf("%s: %v", a.Act, err)
		}
		rm.setClocks()
		post := rm.snapshot()
		rm.monitorNodes(rep, post, replayObj)
		rep.Count("manager_steps", 1)
		// follow the model edge with this label, this result and this successor state
		next := -1
		retSeen := false
		for i, e := range out {
			if e.A.Act != a.Act || string(e.A.Arg) != string(a.Arg) {
				continue
			}
			if normRet(e.A.Ret) != normRet(json.RawMessage(ret)) {
				continue
			}
			retSeen = true
			if sameState(mp.States[e.To], post, false) {
				next = i
				break
			}
		}
		if next < 0 {
			if !retSeen {
				return fmt.Sprintf("%s(%s) returned %s, which the model does not allow in this state", a.Act, a.Arg, ret)
			}
			return fmt.Sprintf("after %s(%s)->%s: %s", a.Act, a.Arg, ret, diffMState(mp.States[out[pick].To], post))
		}
		covered[[2]int{cur, next}] = true
		if preq != nil {
			// the source (hash pool / node pool) is what the model says for the matched edge
			for _, r := range mp.States[out[next].To].Reqs {
				if r.Peer == preq.Peer && r.Hash == preq.Hash {
					if _, dup := rm.dones[r]; !dup || true {
						rm.dones[r] = pdone
					}
				}
			}
		}
		cur = out[next].To
	}
	return ""
}

// runManagerWitness replays a counterexample of the model variant WITHOUT the black-list fix.
func runManagerWitness(rep *vh.Report, sc MScenario) {
	theSched.Store(nil)
	out := map[string]any{"of": len(sc.Steps)}
	before := len(rep.Violations)
	panicked, val := vh.Recover(func() {
		rm, err := newRealManager(sc.Peers, sc.Hashes, sc.Blacklist)
		if err != nil {
			panic(err)
		}
		defer rm.close()
		var trail []MMAct
		for i, st := range sc.Steps {
			trail = append(trail, st.A)
			replayObj := map[string]any{"kind": "manager-witness", "scenario": sc.Name, "peers": sc.Peers, "hashes": sc.Hashes, "enable_blacklisting": sc.Blacklist, "actions": trail}
			pre := rm.snapshot()
			ret, preq, pdone, err := rm.exec(rep, st.A, pre, replayObj)
			if err != nil {
				out["diverged"] = fmt.Sprintf("step %d %s: %v", i, st.A.Act, err)
				return
			}
			rm.setClocks()
			if st.A.Act != "wake" {
				rm.pollWaiter(rep, replayObj, 0) // a blocked call that returns at any time is judged by the monitors
			}
			if preq != nil {
				rm.dones[*preq] = pdone
				for _, r := range st.T.Reqs {
					if r.Peer == preq.Peer && r.Hash == preq.Hash {
						delete(rm.dones, *preq)
						rm.dones[r] = pdone
					}
				}
			}
			post := rm.snapshot()
			rm.monitorNodes(rep, post, replayObj)
			out["steps"] = i + 1
			if sc.NoCompare {
				continue
			}
			if normRet(st.A.Ret) != normRet(json.RawMessage(ret)) {
				out["diverged"] = fmt.Sprintf("step %d %s(%s): real result %s, unfixed model %s", i, st.A.Act, st.A.Arg, ret, st.A.Ret)
				return
			}
			if rm.waiter != nil && rm.waiter.got == nil && i+1 < len(sc.Steps) && sc.Steps[i+1].A.Act == "wake" {
				continue // the blocked call reacts on its own right now: the state is compared after the wake step
			}
			if !sameState(st.T, post, false) {
				out["diverged"] = fmt.Sprintf("step %d after %s(%s): %s", i, st.A.Act, st.A.Arg, diffMState(st.T, post))
				return
			}
		}
	})
	if panicked {
		out["diverged"] = "aborted: " + firstLine(val)
	}
	out["violations"] = len(rep.Violations) - before
	rep.Count("witness_replayed", 1)
	rep.Set("mwitness_"+sc.Name, out)
}

// ---- random walks recorded for trace validation (B1) -----------------------------------------------

type MTracePlan struct {
	Peers      []string `json:"peers"`
	Hashes     []string `json:"hashes"`
	Chain      []string `json:"chain"`
	First      uint64   `json:"first_height"`
	MsgHeights []uint64 `json:"msg_heights"`
	Blacklist  bool     `json:"enable_blacklisting"`
	Walks      int      `json:"walks"`
	Len        int      `json:"len"`
	Out        string   `json:"out"`
}

func mustJSON(v any) json.RawMessage {
	b, err := json.Marshal(v)
	if err != nil {
		panic(err)
	}
	return b
}

func runManagerWalks(rep *vh.Report, tp *MTracePlan) {
	theSched.Store(nil)
	rng := rand.New(rand.NewSource(vh.Seed()*7919 + 17))
	f, err := os.Create(tp.Out)
	if err != nil {
		panic(err)
	}
	defer f.Close()
	lines := 0
	emit := func(v any) {
		b, _ := json.Marshal(v)
		f.Write(append(b, '\n'))
		lines++
	}
	for w := 0; w < tp.Walks; w++ {
		emit(map[string]any{"act": "reset"})
		panicked, val := vh.Recover(func() {
			rm, err := newRealManager(tp.Peers, tp.Hashes, tp.Blacklist)
			if err != nil {
				panic(err)
			}
			defer rm.close()
			var trail []MMAct
			for step := 0; step < tp.Len; step++ {
				pre := rm.snapshot()
				a := randomManagerAction(rng, tp, rm, pre)
				trail = append(trail, a)
				replayObj := map[string]any{"kind": "manager-random-walk", "peers": tp.Peers, "hashes": tp.Hashes, "enable_blacklisting": tp.Blacklist, "actions": trail}
				ret, preq, pdone, err := rm.exec(rep, a, pre, replayObj)
				if err != nil {
					rep.Inconclusivef("manager random walk %d step %d %s: %v", w, step, a.Act, err)
					return
				}
				rm.setClocks()
				if preq != nil {
					rm.dones[*preq] = pdone
				}
				post := rm.snapshot()
				rm.monitorNodes(rep, post, replayObj)
				emit(map[string]any{"act": a.Act, "arg": a.Arg, "ret": json.RawMessage(ret), "t": normState(post)})
				rep.Count("manager_walk_steps", 1)
			}
		})
		if panicked {
			rep.Inconclusivef("manager random walk %d aborted: %s", w, firstLine(val))
		}
		rep.Count("manager_random_walks", 1)
	}
	rep.Set("manager_trace_lines", lines)
}

func randomManagerAction(rng *rand.Rand, tp *MTracePlan, rm *realManager, pre MMState) MMAct {
	pick := func(s []string) string { return s[rng.Intn(len(s))] }
	for {
		switch k := rng.Intn(100); {
		case k < 30:
			return MMAct{Act: "notify", Arg: mustJSON(map[string]any{"peer": pick(tp.Peers), "hash": pick(tp.Hashes), "height": tp.MsgHeights[rng.Intn(len(tp.MsgHeights))]})}
		case k < 38:
			if rm.head < len(tp.Chain) {
				return MMAct{Act: "header", Arg: mustJSON(map[string]any{"hash": tp.Chain[rm.head], "height": tp.First + uint64(rm.head)})}
			}
		case k < 58:
			if rm.head > 0 && len(rm.dones) == 0 {
				i := rng.Intn(rm.head)
				return MMAct{Act: "request", Arg: mustJSON(map[string]any{"hash": tp.Chain[i], "height": tp.First + uint64(i)})}
			}
		case k < 72:
			for r := range rm.dones {
				return MMAct{Act: "done", Arg: mustJSON(map[string]any{"peer": r.Peer, "hash": r.Hash, "src": r.Src, "result": pick([]string{"noop", "cooldown", "blacklist", "blacklist"})})}
			}
		case k < 82:
			return MMAct{Act: "discovery", Arg: mustJSON(map[string]any{"peer": pick(tp.Peers), "added": rng.Intn(3) > 0})}
		case k < 87:
			return MMAct{Act: "disconnect", Arg: mustJSON(pick(tp.Peers))}
		case k < 90:
			cooling := false
			for _, st := range pre.Nodes {
				cooling = cooling || st == "cooldown"
			}
			for _, p := range pre.Pools {
				for _, st := range p.St {
					cooling = cooling || st == "cooldown"
				}
			}
			if cooling {
				return MMAct{Act: "expire", Arg: mustJSON(none)}
			}
		case k < 94:
			h := pick(tp.Hashes)
			if p := pre.Pools[h]; p.Exists && !p.Stale {
				return MMAct{Act: "age", Arg: mustJSON(h)}
			}
		default:
			return MMAct{Act: "gc", Arg: mustJSON(none)}
		}
	}
}
