package peersdrv

import "verifharness/vh"

type ManagerPlan struct{}
type MScenario struct{}
type StressPlan struct{}

func runManagerPaths(rep *vh.Report, mp *ManagerPlan)   {}
func runManagerWitness(rep *vh.Report, sc MScenario)    {}
func runStress(rep *vh.Report, sp *StressPlan)          {}
