package bridge_driver

import (
	"fmt"
	"math/rand"
	"time"

	"github.com/cometbft/cometbft/proto/tendermint/version"
	"github.com/cometbft/cometbft/types"

	"github.com/celestiaorg/celestia-app/v9/app"
	"github.com/celestiaorg/celestia-app/v9/app/encoding"
	"github.com/celestiaorg/celestia-app/v9/pkg/appconsts"
	"github.com/celestiaorg/celestia-app/v9/pkg/user"
	"github.com/celestiaorg/celestia-app/v9/pkg/wrapper"
	"github.com/celestiaorg/celestia-app/v9/test/util/testfactory"
	squarev4 "github.com/celestiaorg/go-square/v4"
	libshare "github.com/celestiaorg/go-square/v4/share"
	"github.com/celestiaorg/rsmt2d"

	"github.com/celestiaorg/celestia-node/core"
	"github.com/celestiaorg/celestia-node/header"
	"github.com/celestiaorg/celestia-node/share"
	"github.com/celestiaorg/celestia-node/share/availability"
)

const (
	chainID     = "verif-chain"
	accountName = "verif-account"
)

// content is the transaction list of one consensus block together with the reference square and data
// availability header, computed here from the transactions (go-square layout + rsmt2d extension + NMT
// roots) without any code of core/ or header/.
type content struct {
	id    int
	txs   types.Txs
	eds   *rsmt2d.ExtendedDataSquare
	roots *share.AxisRoots
	ods   []libshare.Share
	nBlob int
}

func (c *content) empty() bool { return len(c.txs) == 0 }

// mkContents builds n non-empty block contents (plain transactions first, then signed PayForBlobs
// transactions carrying blobs; sizes and namespaces from the seed) and the empty one at index 0.
func mkContents(rng *rand.Rand, n int) ([]*content, error) {
	cfg := encoding.MakeConfig(app.ModuleEncodingRegisters...)
	kr := testfactory.TestKeyring(cfg.Codec, accountName)
	signer, err := user.NewSigner(kr, cfg.TxConfig, chainID, user.NewAccount(accountName, 0, 0))
	if err != nil {
		return nil, err
	}
	out := make([]*content, 0, n+1)
	for i := 0; i <= n; i++ {
		c := &content{id: i}
		if i > 0 {
			for k := rng.Intn(3); k > 0; k-- { // plain (non-blob) transactions: opaque bytes for the square
				tx := make([]byte, 40+rng.Intn(400))
				rng.Read(tx)
				c.txs = append(c.txs, tx)
			}
			nb := 1 + rng.Intn(3)
			for k := 0; k < nb; k++ {
				var blobs []*libshare.Blob
				for j := 1 + rng.Intn(2); j > 0; j-- {
					sub := make([]byte, libshare.NamespaceVersionZeroIDSize)
					rng.Read(sub)
					ns, err := libshare.NewV0Namespace(sub)
					if err != nil {
						return nil, err
					}
					data := make([]byte, 1+rng.Intn(3000))
					rng.Read(data)
					b, err := libshare.NewV0Blob(ns, data)
					if err != nil {
						return nil, err
					}
					blobs = append(blobs, b)
				}
				tx, _, err := signer.CreatePayForBlobs(accountName, blobs)
				if err != nil {
					return nil, fmt.Errorf("pay for blobs: %w", err)
				}
				c.txs = append(c.txs, tx)
				c.nBlob += len(blobs)
			}
		}
		if err := c.reference(); err != nil {
			return nil, err
		}
		out = append(out, c)
	}
	return out, nil
}

func (c *content) reference() error {
	if c.empty() {
		c.eds = share.EmptyEDS()
		c.roots = share.EmptyEDSRoots()
		return nil
	}
	sq, err := squarev4.Construct(c.txs.ToSliceOfBytes(), appconsts.SquareSizeUpperBound, appconsts.SubtreeRootThreshold)
	if err != nil {
		return fmt.Errorf("square: %w", err)
	}
	c.ods = sq
	w, err := squarev4.Size(len(sq))
	if err != nil {
		return err
	}
	ext, err := rsmt2d.ComputeExtendedDataSquare(libshare.ToBytes(sq), share.DefaultRSMT2DCodec(), wrapper.NewConstructor(uint64(w)))
	if err != nil {
		return fmt.Errorf("extend: %w", err)
	}
	c.eds = ext
	c.roots, err = share.NewAxisRoots(ext)
	return err
}

// block times on both sides of the window (the window of both the Listener and full availability is
// availability.StorageWindow; wall clock is used by the code, so the margins are an hour or more)
func blockTime(rng *rand.Rand, inside bool) time.Time {
	now := time.Now().UTC()
	if inside {
		if rng.Intn(2) == 0 {
			return now.Add(-time.Hour)
		}
		return now.Add(-availability.StorageWindow + time.Hour) // just inside
	}
	if rng.Intn(2) == 0 {
		return now.Add(-availability.StorageWindow - time.Hour) // just outside
	}
	return now.Add(-30 * 24 * time.Hour)
}

func rawHeader(h int64, t time.Time, c *content) *types.Header {
	return &types.Header{
		Version:  version.Consensus{Block: 11, App: appconsts.Version},
		ChainID:  chainID,
		Height:   h,
		Time:     t,
		DataHash: c.roots.Hash(),
	}
}

func signedBlock(h int64, t time.Time, c *content) *core.SignedBlock {
	hd := rawHeader(h, t, c)
	return &core.SignedBlock{
		Header: hd,
		Commit: &types.Commit{Height: h, BlockID: types.BlockID{Hash: hd.Hash()}},
		Data:   &types.Data{Txs: c.txs},
	}
}

// the header "given" to the availability check: what the network's header chain has for the height
func givenHeader(h int64, t time.Time, c *content) *header.ExtendedHeader {
	hd := rawHeader(h, t, c)
	return &header.ExtendedHeader{
		RawHeader: *hd,
		Commit:    &types.Commit{Height: h, BlockID: types.BlockID{Hash: hd.Hash()}},
		DAH:       c.roots,
	}
}
