// Package bridge_driver binds spec/bridge/Bridge.tla to the real code (property C15):
//
//	real core.Listener <- real core.MultiSource <- scripted sources (one channel each)
//	real store.Store, recording header / data-hash broadcasters
//	real full.ShareAvailability over the same store with a scripted getter
//
// Every behaviour TLC produced from Bridge.tla is replayed: an Announce step feeds one height into one
// source's subscription (the source then serves / fails the fetch and the sync query as the step says,
// the file system fails the write when the step says so), an Available step is one SharesAvailable
// call. After every step the store (HasByHeight, GetByHeight roots and shares, Q4), the broadcaster
// logs, the calls the sources saw and the returned error are compared with the model, and the
// property's monitors are evaluated on what was observed, against a DAH computed independently from
// the block's transactions.
package bridge_driver

import (
	"bytes"
	"context"
	"errors"
	"fmt"
	"math/rand"
	"os"
	"path/filepath"
	"reflect"
	"sync"
	"testing"
	"time"

	pubsub "github.com/libp2p/go-libp2p-pubsub"

	libshare "github.com/celestiaorg/go-square/v4/share"
	"github.com/celestiaorg/rsmt2d"

	"github.com/celestiaorg/celestia-node/core"
	"github.com/celestiaorg/celestia-node/header"
	"github.com/celestiaorg/celestia-node/nodebuilder/p2p"
	"github.com/celestiaorg/celestia-node/share"
	"github.com/celestiaorg/celestia-node/share/availability"
	"github.com/celestiaorg/celestia-node/share/availability/full"
	"github.com/celestiaorg/celestia-node/share/eds/byzantine"
	"github.com/celestiaorg/celestia-node/share/shwap"
	"github.com/celestiaorg/celestia-node/share/shwap/p2p/shrex/shrexsub"
	"github.com/celestiaorg/celestia-node/store"

	"verifharness/vh"
)

const (
	sigStoredDiffers = "C15/stored-square-differs-from-header"
	sigFailedLeft    = "C15/failed-ingest-left-data"
	sigNotStored     = "C15/obtained-block-inside-window-not-stored"
	sigPubCount      = "C15/published-not-exactly-once"
	sigPubDiffers    = "C15/published-header-differs-from-block"
	sigPolicyPruned  = "C15/policy/pruned-node-stored-block-outside-window"
	sigPolicyArch    = "C15/policy/archival-node-kept-q4-outside-window"
	sigRetry         = "C15/retry/announcement-skipped-while-height-not-stored"
	sigAvailWrong    = "C15/availability/ok-without-stored-block-or-wrong-error"
	sigFallback      = "C15/multisource/request-not-routed-to-announcing-source"
	// barrier heights: announcements of heights far above the chain whose fetch fails (a legitimate history:
	// a source announcing a height it then cannot serve); each barrier uses a fresh, larger height
	barrierBase = int64(1) << 40
)

// ---------------------------------------------------------------------------------------------
// scripted source (core's blockSource) and what the current step tells it to do

type srcCall struct {
	Kind   string `json:"kind"` // "fetch" | "sync"
	Src    string `json:"src"`
	Height int64  `json:"height"`
}

type world struct {
	mu       sync.Mutex
	fetch    string // "ok" | "fail" | "na" for the event being handled
	sync     string // "synced" | "syncing" | "fail" | "na"
	block    *core.SignedBlock
	calls    []srcCall
	barrier  chan struct{} // closed when the listener asks for the barrier height
	nBarrier int64
	release  chan struct{}
	chainIDs map[string]string
}

type source struct {
	addr string
	w    *world
	ch   chan core.BlockEvent
}

func (s *source) SubscribeNewBlockEvent(context.Context) (chan core.BlockEvent, error) { return s.ch, nil }

func (s *source) GetSignedBlock(_ context.Context, height int64) (*core.SignedBlock, error) {
	w := s.w
	if height >= barrierBase {
		w.mu.Lock()
		b, r := w.barrier, w.release
		w.mu.Unlock()
		close(b)
		<-r
		return nil, errors.New("verif: barrier")
	}
	w.mu.Lock()
	defer w.mu.Unlock()
	w.calls = append(w.calls, srcCall{"fetch", s.addr, height})
	if w.fetch == "ok" && w.block != nil && w.block.Header.Height == height {
		return w.block, nil
	}
	return nil, errors.New("verif: scripted fetch failure")
}

func (s *source) IsSyncing(context.Context) (bool, error) {
	w := s.w
	w.mu.Lock()
	defer w.mu.Unlock()
	w.calls = append(w.calls, srcCall{"sync", s.addr, 0})
	switch w.sync {
	case "synced":
		return false, nil
	case "syncing":
		return true, nil
	}
	return false, errors.New("verif: scripted sync-state failure")
}

func (s *source) ChainID(context.Context) (string, error) {
	if id, ok := s.w.chainIDs[s.addr]; ok {
		if id == "" {
			return "", errors.New("verif: unreachable")
		}
		return id, nil
	}
	return chainID, nil
}

// ---------------------------------------------------------------------------------------------
// recording broadcasters

type pubRec struct {
	H     uint64
	Local bool
	EH    *header.ExtendedHeader
}

type recorder struct {
	mu   sync.Mutex
	pubs []pubRec
	anns []shrexsub.Notification
}

func (r *recorder) Broadcast(_ context.Context, eh *header.ExtendedHeader, opts ...pubsub.PubOpt) error {
	po := &pubsub.PublishOptions{}
	for _, o := range opts {
		_ = o(po)
	}
	local := false
	if f := reflect.ValueOf(po).Elem().FieldByName("local"); f.IsValid() && f.Kind() == reflect.Bool {
		local = f.Bool()
	}
	r.mu.Lock()
	r.pubs = append(r.pubs, pubRec{H: eh.Height(), Local: local, EH: eh})
	r.mu.Unlock()
	return nil
}

func (r *recorder) announce(_ context.Context, n shrexsub.Notification) error {
	r.mu.Lock()
	r.anns = append(r.anns, n)
	r.mu.Unlock()
	return nil
}

// ---------------------------------------------------------------------------------------------
// scripted getter for the availability path

type getter struct {
	mu    sync.Mutex
	out   string
	eds   *rsmt2d.ExtendedDataSquare
	calls int
}

var errOther = errors.New("verif: some other retrieval error")

func (g *getter) GetEDS(context.Context, *header.ExtendedHeader) (*rsmt2d.ExtendedDataSquare, error) {
	g.mu.Lock()
	defer g.mu.Unlock()
	g.calls++
	byz := &byzantine.ErrByzantine{Index: 1, Axis: rsmt2d.Row}
	switch g.out {
	case "square":
		return g.eds, nil
	case "notfound":
		return nil, fmt.Errorf("getter: %w", shwap.ErrNotFound)
	case "deadline":
		return nil, fmt.Errorf("getter: %w", context.DeadlineExceeded)
	case "cancelled":
		return nil, fmt.Errorf("getter: %w", context.Canceled)
	case "byzantine":
		return nil, fmt.Errorf("getter: %w", byz)
	case "byz_notfound":
		return nil, errors.Join(byz, shwap.ErrNotFound)
	case "byz_deadline":
		return nil, errors.Join(byz, context.DeadlineExceeded)
	}
	return nil, errOther
}

func (g *getter) GetSamples(context.Context, *header.ExtendedHeader, []shwap.SampleCoords) ([]shwap.Sample, error) {
	return nil, errors.New("verif: not used")
}
func (g *getter) GetRow(context.Context, *header.ExtendedHeader, int) (shwap.Row, error) {
	return shwap.Row{}, errors.New("verif: not used")
}
func (g *getter) GetNamespaceData(context.Context, *header.ExtendedHeader, libshare.Namespace) (shwap.NamespaceData, error) {
	return nil, errors.New("verif: not used")
}
func (g *getter) GetRangeNamespaceData(context.Context, *header.ExtendedHeader, int, int) (shwap.RangeNamespaceData, error) {
	return shwap.RangeNamespaceData{}, errors.New("verif: not used")
}

// ---------------------------------------------------------------------------------------------
// behaviours

type step struct {
	N      string   `json:"n"`
	Mode   string   `json:"mode"`
	InWin  []bool   `json:"inWin"`
	Empty  []bool   `json:"empty"`
	S      int      `json:"s"`
	H      int      `json:"h"`
	Fetch  string   `json:"fetch"`
	Sync   string   `json:"sync"`
	St     string   `json:"st"`
	Get    string   `json:"get"`
	Res    string   `json:"res"`
	Pre    string   `json:"pre"`
	Stored []string `json:"stored"`
	Pub    int      `json:"pub"`
	Ann    int      `json:"ann"`
}

type behaviour struct {
	ID    string `json:"id"`
	Steps []step `json:"steps"`
}

type env struct {
	rep      *vh.Report
	rng      *rand.Rand
	contents []*content
}

type run struct {
	*env
	b      behaviour
	mode   string
	dir    string
	st     *store.Store
	w      *world
	srcs   []*source
	rec    *recorder
	lst    *core.Listener
	get    *getter
	fa     *full.ShareAvailability
	cont   []*content  // per height (1-based: cont[h-1])
	btime  []time.Time // per height
	inWin  []bool
	drift  []string
	obs    []map[string]any
	stepNo int
}

func (r *run) driftf(f string, a ...any) {
	if len(r.drift) < 6 {
		r.drift = append(r.drift, fmt.Sprintf("step %d: ", r.stepNo)+fmt.Sprintf(f, a...))
	}
}

func (r *run) replay(extra map[string]any) map[string]any {
	o := map[string]any{"behaviour": r.b, "observed": r.obs, "at_step": r.stepNo}
	for k, v := range extra {
		o[k] = v
	}
	return o
}

func (r *run) odsPath(c *content) string {
	return filepath.Join(r.dir, "blocks", share.DataHash(c.roots.Hash()).String()+".ods")
}

// obstruct makes the next write of this block fail at the given point of store.put (kind "" removes every
// obstruction):
//
//	fail_create   the blocks directory is away: the files cannot be created (ENOENT)
//	fail_recover  a non-empty directory sits where the ODS file goes: "exists", not valid, cannot be replaced
//	fail_link     the heights directory is away: the files are written, the height cannot be linked
func (r *run) obstruct(c *content, kind string) {
	blocks, blocksOff := filepath.Join(r.dir, "blocks"), filepath.Join(r.dir, "blocks.off")
	heights, heightsOff := filepath.Join(blocks, "heights"), filepath.Join(blocks, "heights.off")
	// undo whatever is in place
	if _, err := os.Lstat(blocksOff); err == nil {
		_ = os.Rename(blocksOff, blocks)
	}
	if _, err := os.Lstat(heightsOff); err == nil {
		_ = os.Rename(heightsOff, heights)
	}
	p := r.odsPath(c)
	if fi, err := os.Lstat(p); err == nil && fi.IsDir() {
		_ = os.RemoveAll(p)
	}
	switch kind {
	case "fail_create":
		_ = os.Rename(blocks, blocksOff)
	case "fail_link":
		_ = os.Rename(heights, heightsOff)
	case "fail_recover":
		if fi, err := os.Lstat(p); err == nil && !fi.IsDir() {
			return // the real file is there (block stored): nothing to obstruct
		}
		_ = os.MkdirAll(filepath.Join(p, "x"), 0o755)
	}
}

// barrierThrough feeds the barrier height through the same source: when the listener asks that source
// for it, every earlier event has been handled completely and the listener goroutine is parked inside
// the scripted source until released.
func (r *run) feed(src *source, h int64) (ok bool) {
	w := r.w
	w.mu.Lock()
	w.barrier, w.release = make(chan struct{}), make(chan struct{})
	b := w.barrier
	w.nBarrier++
	bh := barrierBase + w.nBarrier
	w.mu.Unlock()
	for _, ev := range []int64{h, bh} {
		select {
		case src.ch <- core.VerifBlockEvent(ev, ""): // MultiSource overwrites the tag with the source's address
		case <-time.After(30 * time.Second):
			return false
		}
	}
	select {
	case <-b:
		return true
	case <-time.After(60 * time.Second):
		return false
	}
}

func (r *run) releaseBarrier() { close(r.w.release) }

type heightObs struct {
	Has      bool   `json:"has"`
	Kind     string `json:"kind"`
	RootsOK  bool   `json:"roots_ok"`
	SharesOK bool   `json:"shares_ok"`
	Err      string `json:"err,omitempty"`
}

// what the store really holds under a height, compared with the reference content
func (r *run) observeHeight(h int) heightObs {
	ctx := context.Background()
	c := r.cont[h-1]
	var o heightObs
	has, err := r.st.HasByHeight(ctx, uint64(h))
	if err != nil {
		o.Err = err.Error()
		return o
	}
	o.Has = has
	acc, gerr := r.st.GetByHeight(ctx, uint64(h))
	if !has {
		o.Kind = "none"
		if gerr == nil {
			_ = acc.Close()
			o.Err = "GetByHeight succeeds although HasByHeight is false"
		} else if !errors.Is(gerr, store.ErrNotFound) {
			o.Err = "GetByHeight: " + gerr.Error()
		}
		return o
	}
	if gerr != nil {
		o.Err = "GetByHeight: " + gerr.Error()
		return o
	}
	defer acc.Close()
	roots, err := acc.AxisRoots(ctx)
	if err != nil {
		o.Err = "AxisRoots: " + err.Error()
		return o
	}
	o.RootsOK = bytes.Equal(roots.Hash(), c.roots.Hash()) && roots.Equals(c.roots)
	if c.empty() {
		o.Kind = "emptylink"
		o.SharesOK = o.RootsOK
		return o
	}
	shs, err := acc.Shares(ctx)
	if err != nil {
		o.Err = "Shares: " + err.Error()
		return o
	}
	o.SharesOK = len(shs) == len(c.ods)
	for i := 0; o.SharesOK && i < len(shs); i++ {
		if !bytes.Equal(shs[i].ToBytes(), c.ods[i].ToBytes()) {
			o.SharesOK = false
		}
	}
	q4, _ := r.st.HasQ4ByHash(ctx, c.roots.Hash())
	if q4 {
		o.Kind = "odsq4"
	} else {
		o.Kind = "ods"
	}
	return o
}

func (r *run) setup() error {
	in := r.b.Steps[0]
	r.mode = in.Mode
	H := len(in.InWin)
	r.inWin = in.InWin
	// distinct contents per height
	perm := r.rng.Perm(len(r.contents) - 1)
	r.cont = make([]*content, H)
	r.btime = make([]time.Time, H)
	for h := 0; h < H; h++ {
		if in.Empty[h] {
			r.cont[h] = r.contents[0]
		} else {
			r.cont[h] = r.contents[1+perm[h%len(perm)]]
		}
		r.btime[h] = blockTime(r.rng, in.InWin[h])
	}
	dir, err := os.MkdirTemp(vh.WorkDir(), "c15store")
	if err != nil {
		return err
	}
	r.dir = dir
	r.st, err = store.NewStore(store.DefaultParameters(), dir)
	if err != nil {
		return err
	}
	r.w = &world{chainIDs: map[string]string{}}
	r.rec = &recorder{}
	srcs := map[string]core.VerifBlockSource{}
	for i := 1; i <= 3; i++ {
		s := &source{addr: fmt.Sprintf("src%d", i), w: r.w, ch: make(chan core.BlockEvent)}
		r.srcs = append(r.srcs, s)
		srcs[s.addr] = s
	}
	ms := core.VerifNewMultiSource(srcs)
	opts := []core.Option{core.WithChainID(p2p.Network(chainID))}
	var fopts []full.Option
	if r.mode == "archival" {
		opts = append(opts, core.WithArchivalMode())
		fopts = append(fopts, full.WithArchivalMode())
	}
	r.lst, err = core.NewListener(r.rec, ms, r.rec.announce, header.MakeExtendedHeader, r.st, time.Hour, opts...)
	if err != nil {
		return err
	}
	if err := r.lst.Start(context.Background()); err != nil {
		return err
	}
	r.get = &getter{}
	r.fa = full.NewShareAvailability(r.st, r.get, fopts...)
	return nil
}

func (r *run) teardown() {
	if r.lst != nil {
		ctx, cancel := context.WithTimeout(context.Background(), 30*time.Second)
		_ = r.lst.Stop(ctx)
		cancel()
	}
	if r.st != nil {
		_ = r.st.Stop(context.Background())
	}
	if r.dir != "" {
		_ = os.RemoveAll(r.dir)
	}
}

func storeFailKind(st string) string {
	switch st {
	case "fail_create", "fail_recover", "fail_link":
		return st
	}
	return ""
}

func classify(err error) string {
	var byz *byzantine.ErrByzantine
	switch {
	case err == nil:
		return "ok"
	case errors.Is(err, availability.ErrOutsideSamplingWindow):
		return "outside_window"
	case errors.Is(err, context.Canceled):
		return "cancelled"
	case errors.Is(err, share.ErrNotAvailable):
		return "not_available"
	case errors.As(err, &byz):
		return "byzantine"
	case errors.Is(err, errOther):
		return "other_error"
	}
	return "store_error"
}

func (r *run) exec() {
	if err := r.setup(); err != nil {
		r.rep.Inconclusivef("behaviour %s: setup: %v", r.b.ID, err)
		r.teardown()
		return
	}
	defer r.teardown()
	H := len(r.inWin)
	pubCount := map[int]int{}
	for i, s := range r.b.Steps[1:] {
		r.stepNo = i + 1
		c := r.cont[s.H-1]
		before := r.observeHeight(s.H)
		nPub0, nAnn0 := len(r.rec.pubs), len(r.rec.anns)
		var retErr error
		var calls []srcCall
		getCalls := 0
		switch s.N {
		case "Announce":
			src := r.srcs[(s.S-1)%len(r.srcs)]
			r.obstruct(c, storeFailKind(s.St))
			r.w.mu.Lock()
			r.w.fetch, r.w.sync, r.w.calls = s.Fetch, s.Sync, nil
			r.w.block = signedBlock(int64(s.H), r.btime[s.H-1], c)
			r.w.mu.Unlock()
			if !r.feed(src, int64(s.H)) {
				r.rep.Inconclusivef("behaviour %s step %d: the listener did not take the event / reach the barrier within the watchdog", r.b.ID, r.stepNo)
				return
			}
			r.w.mu.Lock()
			calls = append(calls, r.w.calls...)
			r.w.mu.Unlock()
			// routing: every request of this event must go to the announcing source
			for _, cl := range calls {
				if cl.Src != src.addr || (cl.Kind == "fetch" && cl.Height != int64(s.H)) {
					r.rep.Violate(sigFallback, fmt.Sprintf("height %d was announced by %s but the %s request went to %s (height %d)",
						s.H, src.addr, cl.Kind, cl.Src, cl.Height), r.replay(map[string]any{"calls": calls}))
				}
			}
		case "Available":
			r.obstruct(c, storeFailKind(s.St))
			r.get.mu.Lock()
			r.get.out, r.get.eds, r.get.calls = s.Get, c.eds, 0
			r.get.mu.Unlock()
			ok, dump := vh.WithWatchdog(60*time.Second, func() {
				retErr = r.fa.SharesAvailable(context.Background(), givenHeader(int64(s.H), r.btime[s.H-1], c))
			})
			if !ok {
				r.rep.Inconclusivef("behaviour %s step %d: SharesAvailable did not return: %s", r.b.ID, r.stepNo, dump[:min(len(dump), 600)])
				return
			}
			getCalls = r.get.calls
		default:
			r.driftf("unknown model step %q", s.N)
			continue
		}
		r.obstruct(c, "")

		// ---- observe
		after := r.observeHeight(s.H)
		all := make([]heightObs, H)
		for h := 1; h <= H; h++ {
			all[h-1] = r.observeHeight(h)
		}
		r.rec.mu.Lock()
		pubs := append([]pubRec(nil), r.rec.pubs...)
		anns := append([]shrexsub.Notification(nil), r.rec.anns...)
		r.rec.mu.Unlock()
		newPubs, newAnns := pubs[nPub0:], anns[nAnn0:]
		fetched, synced := false, false
		for _, cl := range calls {
			fetched = fetched || cl.Kind == "fetch"
			synced = synced || cl.Kind == "sync"
		}
		r.obs = append(r.obs, map[string]any{"step": r.stepNo, "n": s.N, "h": s.H, "calls": calls, "getter_calls": getCalls,
			"err": fmt.Sprint(retErr), "stored": all, "published": len(pubs), "announced": len(anns)})

		// ---- conformance with the model (drift, not violation)
		for h := 1; h <= H; h++ {
			if all[h-1].Kind != s.Stored[h-1] {
				r.driftf("store holds %q under height %d, model %q", all[h-1].Kind, h, s.Stored[h-1])
			}
			if all[h-1].Err != "" {
				r.driftf("reading height %d: %s", h, all[h-1].Err)
			}
		}
		if len(pubs) != s.Pub || len(anns) != s.Ann {
			r.driftf("%d headers published / %d hashes announced, model %d / %d", len(pubs), len(anns), s.Pub, s.Ann)
		}
		if s.N == "Announce" {
			if fetched != (s.Fetch != "na") || synced != (s.Sync != "na") {
				r.driftf("source saw calls %v, model consults fetch=%s sync=%s", calls, s.Fetch, s.Sync)
			}
			if s.Res == "processed" && len(newPubs) == 1 && newPubs[0].Local != (s.Sync == "syncing") {
				r.driftf("header published with local=%v, model %v", newPubs[0].Local, s.Sync == "syncing")
			}
			if s.Res == "processed" && (len(newAnns) == 1) != (s.Sync == "synced") {
				r.driftf("%d data hashes announced, source %s", len(newAnns), s.Sync)
			}
		} else {
			want := s.Res
			if want == "ok_empty" || want == "ok_stored" || want == "ok_fetched" {
				want = "ok"
			}
			got := classify(retErr)
			if want == "not_available_or_byzantine" { // DESIGN.md section 6 #19: either report conforms
				if got == "byzantine" {
					r.rep.Count("byz_notfound_reported_byzantine", 1)
					want = got
				} else {
					r.rep.Count("byz_notfound_reported_not_available", 1)
					want = "not_available"
				}
			}
			if got != want {
				r.driftf("SharesAvailable returned %q (%v), model %q", got, retErr, want)
			}
			if (getCalls > 0) != (s.Get != "na") {
				r.driftf("getter called %d times, model consults get=%s", getCalls, s.Get)
			}
		}

		// ---- the property, on what was observed
		// StoredMatchesHeader: whatever is stored under a height is the block of the header published / given
		for h := 1; h <= H; h++ {
			if o := all[h-1]; o.Has && o.Err == "" && (!o.RootsOK || !o.SharesOK) {
				r.rep.Violate(sigStoredDiffers, fmt.Sprintf("the square stored under height %d does not match the DAH computed from the "+
					"block's transactions (roots equal=%v, ODS shares equal=%v)", h, o.RootsOK, o.SharesOK), r.replay(nil))
			}
		}
		for _, p := range newPubs {
			pc := r.cont[p.H-1]
			pubCount[int(p.H)]++
			if !bytes.Equal(p.EH.DAH.Hash(), pc.roots.Hash()) || !bytes.Equal(p.EH.DataHash, pc.roots.Hash()) || int(p.H) != s.H {
				r.rep.Violate(sigPubDiffers, fmt.Sprintf("header published for height %d (event for height %d) carries a DAH different "+
					"from the block's (DAH equal=%v, data hash equal=%v)", p.H, s.H, bytes.Equal(p.EH.DAH.Hash(), pc.roots.Hash()),
					bytes.Equal(p.EH.DataHash, pc.roots.Hash())), r.replay(nil))
			}
			if !all[p.H-1].Has {
				r.rep.Violate(sigStoredDiffers, fmt.Sprintf("a header was published for height %d but nothing is stored under it", p.H), r.replay(nil))
			}
			if pubCount[int(p.H)] > 1 {
				r.rep.Violate(sigPubCount, fmt.Sprintf("the header of height %d was published %d times", p.H, pubCount[int(p.H)]), r.replay(nil))
			}
		}
		for _, a := range newAnns {
			if int(a.Height) != s.H || !bytes.Equal(a.DataHash, c.roots.Hash()) {
				r.rep.Violate(sigPubDiffers, fmt.Sprintf("data hash announced for height %d differs from the block's", a.Height), r.replay(nil))
			}
		}
		inside := r.inWin[s.H-1]
		injectedStoreFail := storeFailKind(s.St) != "" && !c.empty()
		if s.N == "Announce" {
			// a failed ingest, as far as the property is concerned: the block could not be obtained or could not
			// be written. (Whether a failing sync-state query must abort the ingest is the code's choice: that
			// is compared with the model as conformance only.)
			failed := (fetched && s.Fetch == "fail") || (injectedStoreFail && fetched && s.Fetch == "ok")
			// FailedLeavesNothing
			if failed && !before.Has && after.Has {
				r.rep.Violate(sigFailedLeft, fmt.Sprintf("the ingest of height %d failed (fetch=%s sync=%s write=%s) and the height is stored nevertheless",
					s.H, s.Fetch, s.Sync, s.St), r.replay(nil))
			}
			if failed && len(newPubs) > 0 {
				r.rep.Violate(sigFailedLeft, fmt.Sprintf("the ingest of height %d failed (fetch=%s sync=%s write=%s) but its header was published",
					s.H, s.Fetch, s.Sync, s.St), r.replay(nil))
			}
			// RetryWorks: an announcement may be skipped only because the height is stored
			if !before.Has && !fetched {
				r.rep.Violate(sigRetry, fmt.Sprintf("height %d is not stored, %s announced it, and the block was not even fetched", s.H,
					r.srcs[(s.S-1)%len(r.srcs)].addr), r.replay(nil))
			}
			// InsideWindowStored: obtained + inside the window => stored, and published by exactly this ingest
			obtained := !before.Has && fetched && s.Fetch == "ok" && synced && (s.Sync == "synced" || s.Sync == "syncing") && !injectedStoreFail
			if obtained && inside {
				if !after.Has {
					r.rep.Violate(sigNotStored, fmt.Sprintf("the block of height %d was fetched (sync state %s, write ok), it is inside the window, "+
						"and it is not stored", s.H, s.Sync), r.replay(nil))
				}
				if len(newPubs) != 1 {
					r.rep.Violate(sigPubCount, fmt.Sprintf("the successful ingest of height %d published %d headers", s.H, len(newPubs)), r.replay(nil))
				}
			}
		} else {
			// availability path: ok only with the block stored; an error leaves things as they were
			if retErr == nil && !after.Has {
				r.rep.Violate(sigAvailWrong, fmt.Sprintf("SharesAvailable(height %d) returned nil and nothing is stored under the height", s.H), r.replay(nil))
			}
			if retErr != nil && !before.Has && after.Has {
				r.rep.Violate(sigFailedLeft, fmt.Sprintf("SharesAvailable(height %d) failed (%v) and the height is stored nevertheless", s.H, retErr), r.replay(nil))
			}
			gotSquare := getCalls > 0 && s.Get == "square" && !injectedStoreFail
			if gotSquare && (inside || r.mode == "archival") && (retErr != nil || !after.Has) {
				r.rep.Violate(sigNotStored, fmt.Sprintf("SharesAvailable(height %d): the square was obtained and written without fault, result err=%v stored=%v",
					s.H, retErr, after.Has), r.replay(nil))
			}
			if len(newPubs) > 0 || len(newAnns) > 0 {
				r.driftf("the availability path published something")
			}
		}
		// PolicyRespected
		for h := 1; h <= H; h++ {
			o := all[h-1]
			if !o.Has || o.Err != "" {
				continue
			}
			if r.mode == "pruned" && !r.inWin[h-1] {
				r.rep.Violate(sigPolicyPruned, fmt.Sprintf("pruned node: height %d (block time %s, outside the window) is stored", h,
					r.btime[h-1].Format(time.RFC3339)), r.replay(nil))
			}
			if r.mode == "archival" && !r.inWin[h-1] && o.Kind == "odsq4" {
				r.rep.Violate(sigPolicyArch, fmt.Sprintf("archival node: height %d is outside the window and was stored with its parity quadrant", h), r.replay(nil))
			}
		}
		if injectedStoreFail && s.Res == "store_error" {
			r.rep.Count("store_"+s.St, 1)
		}
		if s.N == "Announce" {
			r.releaseBarrier()
			r.rep.Count("announce_steps", 1)
			r.rep.Count("res_"+s.Res, 1)
		} else {
			r.rep.Count("available_steps", 1)
			r.rep.Count("res_"+s.Res, 1)
		}
	}
}

func TestDriver(t *testing.T) {
	rep := vh.NewReport()
	defer func() {
		if err := rep.Write(); err != nil {
			t.Fatal(err)
		}
	}()
	rng := vh.Rand()
	contents, err := mkContents(rng, 6)
	if err != nil {
		t.Fatalf("building blocks: %v", err)
	}
	nb := 0
	for _, c := range contents {
		nb += c.nBlob
	}
	rep.Set("contents", len(contents))
	rep.Set("blobs_in_contents", nb)
	e := &env{rep: rep, rng: rng, contents: contents}
	if p := os.Getenv("VERIF_BEHAVIOURS"); p != "" {
		var bs []behaviour
		if err := vh.ReadJSON(p, &bs); err != nil {
			t.Fatalf("reading behaviours: %v", err)
		}
		drifted := 0
		for _, b := range bs {
			if len(b.Steps) < 2 || b.Steps[0].N != "Init" {
				continue
			}
			r := &run{env: e, b: b}
			if pan, val := vh.Recover(r.exec); pan {
				rep.Inconclusivef("behaviour %s: panic (harness or code under test): %s", b.ID, val[:min(len(val), 1500)])
			}
			rep.Count("behaviours_replayed", 1)
			if len(r.drift) > 0 {
				drifted++
				if drifted <= 3 {
					rep.Inconclusivef("behaviour %s: the real code does not follow the model (conformance drift): %v", b.ID, r.drift)
				}
			} else {
				rep.Count("behaviours_conforming", 1)
				rep.Sample(map[string]any{"behaviour": b.ID, "mode": r.mode, "observed": r.obs})
			}
		}
		rep.Set("behaviours", len(bs))
		rep.Set("drifted", drifted)
	}
	multiSourceVerify(t, rep)
}

// multiSourceVerify: sources that are unreachable or on another network are dropped by Verify and their
// announcements never reach the consumer; the others keep their tags.
func multiSourceVerify(t *testing.T, rep *vh.Report) {
	w := &world{chainIDs: map[string]string{"bad": "other-chain", "down": ""}}
	srcs := map[string]core.VerifBlockSource{}
	var all []*source
	for _, a := range []string{"good1", "bad", "good2", "down"} {
		s := &source{addr: a, w: w, ch: make(chan core.BlockEvent, 8)}
		srcs[a] = s
		all = append(all, s)
	}
	ms := core.VerifNewMultiSource(srcs)
	ctx, cancel := context.WithCancel(context.Background())
	defer cancel()
	if err := ms.Verify(ctx, chainID); err != nil {
		rep.Inconclusivef("MultiSource.Verify: %v", err)
		return
	}
	out, err := ms.SubscribeNewBlockEvent(ctx)
	if err != nil {
		rep.Inconclusivef("MultiSource.Subscribe: %v", err)
		return
	}
	want := map[string]int{}
	for i, s := range all {
		for h := int64(1); h <= 3; h++ {
			s.ch <- core.VerifBlockEvent(h+int64(10*i), "forged-tag")
			if s.addr == "good1" || s.addr == "good2" {
				want[fmt.Sprintf("%s/%d", s.addr, h+int64(10*i))]++
			}
		}
	}
	got := map[string]int{}
	last := map[string]int64{}
	timeout := time.After(30 * time.Second)
	for n := 0; n < 6; n++ {
		select {
		case ev := <-out:
			a := core.VerifEventAddr(ev)
			got[fmt.Sprintf("%s/%d", a, ev.Height)]++
			if ev.Height <= last[a] {
				rep.Violate(sigFallback, fmt.Sprintf("MultiSource reordered the announcements of %s", a), nil)
			}
			last[a] = ev.Height
			// no fall-back: the fetch goes to the tagged source and only to it
			w.mu.Lock()
			w.calls, w.fetch = nil, "fail"
			w.mu.Unlock()
			_, ferr := ms.GetSignedBlockFrom(ctx, ev)
			_, serr := ms.IsSyncingFrom(ctx, ev)
			w.mu.Lock()
			calls := append([]srcCall(nil), w.calls...)
			w.mu.Unlock()
			if ferr == nil || serr == nil || len(calls) != 2 || calls[0].Src != a || calls[1].Src != a {
				rep.Violate(sigFallback, fmt.Sprintf("event of %s: failing fetch/sync were answered err=%v/%v with calls %v", a, ferr, serr, calls), nil)
			}
		case <-timeout:
			rep.Inconclusivef("MultiSource delivered %d of 6 events", n)
			return
		}
	}
	select {
	case ev := <-out:
		rep.Violate(sigFallback, fmt.Sprintf("MultiSource forwarded an event of a source it had dropped in Verify: %s/%d", core.VerifEventAddr(ev), ev.Height), nil)
	case <-time.After(300 * time.Millisecond):
	}
	if !reflect.DeepEqual(got, want) {
		rep.Violate(sigFallback, fmt.Sprintf("MultiSource delivered %v, sources announced %v", got, want), nil)
	}
	rep.Count("multisource_events", 6)
}
