package shrexserver

import (
	"context"
	"errors"
	"fmt"
	"io"
	"time"

	"github.com/libp2p/go-libp2p"
	"github.com/libp2p/go-libp2p/core/network"
	"github.com/libp2p/go-libp2p/core/peer"
	rcmgr "github.com/libp2p/go-libp2p/p2p/host/resource-manager"

	"github.com/celestiaorg/celestia-node/share/shwap"
	"github.com/celestiaorg/celestia-node/share/shwap/p2p/shrex"

	"verifharness/shx"
)

// realTransport repeats the parts of the property that a mock network cannot show, over two real
// libp2p hosts on loopback TCP: stream deadlines are real there, and the server's host carries the
// resource manager configured the way a bridge node configures it (nodebuilder/p2p bridgeResources:
// default limits + shrex.SetResourceLimits).
//   - a requester that opens a stream and then stays silent, or sends half an identifier and stays
//     silent, must not wedge the handler: it ends with a reset after the server's read time-out;
//   - a range whose fields ask for a terabyte-sized reservation is refused by the real resource
//     manager and the requester's client reports the server as exhausted, not as serving;
//   - ordinary requests keep being served in between, and verify.
func (d *driver) realTransport() {
	rep := d.rep
	limits := rcmgr.DefaultLimits
	libp2p.SetDefaultServiceLimits(&limits)
	shrex.SetResourceLimits(&limits, networkID)
	rm, err := rcmgr.NewResourceManager(rcmgr.NewFixedLimiter(limits.AutoScale()))
	if err != nil {
		rep.Set("real_transport_skipped", fmt.Sprintf("resource manager: %v", err))
		return
	}
	srvHost, err := libp2p.New(libp2p.ListenAddrStrings("/ip4/127.0.0.1/tcp/0"), libp2p.ResourceManager(rm),
		libp2p.DisableRelay(), libp2p.NoSecurity, libp2p.DisableMetrics())
	if err != nil {
		rep.Set("real_transport_skipped", fmt.Sprintf("server host: %v", err))
		return
	}
	defer srvHost.Close()
	cliHost, err := libp2p.New(libp2p.NoListenAddrs, libp2p.DisableRelay(), libp2p.NoSecurity, libp2p.DisableMetrics())
	if err != nil {
		rep.Set("real_transport_skipped", fmt.Sprintf("client host: %v", err))
		return
	}
	defer cliHost.Close()
	ctx, cancel := context.WithTimeout(context.Background(), 60*time.Second)
	defer cancel()
	if err := cliHost.Connect(ctx, peer.AddrInfo{ID: srvHost.ID(), Addrs: srvHost.Addrs()}); err != nil {
		rep.Set("real_transport_skipped", fmt.Sprintf("connect: %v", err))
		return
	}
	mon := &monitor{}
	sp := shrex.DefaultServerParameters()
	sp.WithNetworkID(networkID)
	sp.ReadTimeout = 1500 * time.Millisecond // the knob the node exposes; the default is 5 s
	srv, err := shrex.NewServer(sp, &monHost{Host: srvHost, m: mon, realScope: true}, &monStore{inner: d.st})
	if err != nil {
		rep.Inconclusivef("real transport: server: %v", err)
		return
	}
	if err := srv.Start(ctx); err != nil {
		rep.Inconclusivef("real transport: start: %v", err)
		return
	}
	defer srv.Stop(context.Background()) //nolint:errcheck
	cp := shrex.DefaultClientParameters()
	cp.WithNetworkID(networkID)
	cl, err := shrex.NewClient(cp, cliHost)
	if err != nil {
		rep.Inconclusivef("real transport: client: %v", err)
		return
	}
	ref := d.refs[1]
	e := 2 * ref.W
	valid := Class{Type: "sample", Bytes: "ok", Height: "stored", Bounds: "in", Mem: "fits", Serve: "yes"}

	normal := func(after string) {
		q := shx.Req{Type: "sample", Row: d.rng.Intn(e), Col: d.rng.Intn(e)}
		id, err := shwap.NewSampleID(ref.Height, shwap.SampleCoords{Row: q.Row, Col: q.Col}, e)
		if err != nil {
			rep.Inconclusivef("real transport: id: %v", err)
			return
		}
		r := mon.expect(d.id(), valid, "none", "real transport: normal request after "+after)
		var s shwap.Sample
		c2, cancel2 := context.WithTimeout(ctx, 30*time.Second)
		defer cancel2()
		err = cl.Get(c2, &id, &s, srvHost.ID())
		select {
		case <-r.done:
		case <-time.After(30 * time.Second):
		}
		if err == nil {
			err = ref.CheckSample(s, shwap.SampleCoords{Row: q.Row, Col: q.Col})
		}
		if err != nil {
			rep.Violate("C09/real-transport/server-wedged-after/"+after, fmt.Sprintf("a normal sample request after %s failed: %v", after, err), nil)
			return
		}
		rep.Count("real_transport_normal_ok", 1)
	}
	normal("start")

	// ---- silent requesters
	for _, sent := range []int{1, 5, 11} {
		what := fmt.Sprintf("requester sends %d of %d bytes and keeps the stream open", sent, shwap.SampleIDSize)
		cls := valid
		cls.Bytes = "short"
		r := mon.expect(d.id(), cls, "none", "real transport: "+what)
		s, err := cliHost.NewStream(ctx, srvHost.ID(), shrex.ProtocolID(networkID, protoOf("sample")))
		if err != nil {
			rep.Inconclusivef("real transport: open stream: %v", err)
			return
		}
		if sent > 0 {
			_, _ = s.Write(encode("sample", ref.Height, shx.Req{Row: 1, Col: 1}, nil)[:sent])
		}
		// no CloseWrite: only the server's read deadline can end this
		t0 := time.Now()
		select {
		case <-r.done:
			rep.Count("real_transport_silent_requester_ended", 1)
			rep.Set(fmt.Sprintf("real_transport_silent_%d_ms", sent), time.Since(t0).Milliseconds())
		case <-time.After(25 * time.Second):
			r.mu.Lock()
			started := len(r.Events) > 0
			r.mu.Unlock()
			if !started {
				// libp2p negotiates the protocol lazily, with the first bytes written: a stream on which
				// nothing was ever written never reaches the server's handler
				mon.mu.Lock()
				if mon.plan == r {
					mon.plan = nil
				}
				mon.mu.Unlock()
				rep.Count("real_transport_silent_stream_never_reached_handler", 1)
				_ = s.Reset()
				continue
			}
			rep.Violate("C09/real-transport/sample/silent-requester/handler-does-not-terminate",
				what+": the handler is still reading 40 s later (server read time-out 1.5 s)", map[string]any{"sent": sent})
			_ = s.Reset()
			continue
		}
		r.mu.Lock()
		opens, evs := r.opens, append([]event(nil), r.Events...)
		r.mu.Unlock()
		if opens != 0 {
			rep.Violate("C09/real-transport/sample/silent-requester/accessor-opened", what+": the store was consulted for a request that never arrived", map[string]any{"events": evs})
		}
		// the requester must see the stream die, not data
		_ = s.SetReadDeadline(time.Now().Add(10 * time.Second))
		b, rerr := io.ReadAll(s)
		if len(b) > 0 || rerr == nil {
			rep.Violate("C09/real-transport/sample/silent-requester/not-reset",
				fmt.Sprintf("%s: requester read %d bytes, err=%v; a reset was expected", what, len(b), rerr), map[string]any{"events": evs})
		}
		_ = s.Reset()
		normal("a silent requester")
	}

	// ---- a reservation the real resource manager must refuse
	{
		cls := Class{Type: "range", Bytes: "ok", Height: "stored", Bounds: "oob", Mem: "huge", Serve: "yes"}
		what := "range from=0 to=2^32-1 (a 2 TiB reservation)"
		r := mon.expect(d.id(), cls, "none", "real transport: "+what)
		s, err := cliHost.NewStream(ctx, srvHost.ID(), shrex.ProtocolID(networkID, protoOf("range")))
		if err != nil {
			rep.Inconclusivef("real transport: open stream: %v", err)
			return
		}
		_, _ = s.Write(encode("range", ref.Height, shx.Req{From: 0, To: 1<<32 - 1}, nil))
		_ = s.CloseWrite()
		_ = s.SetReadDeadline(time.Now().Add(20 * time.Second))
		b, rerr := io.ReadAll(s)
		select {
		case <-r.done:
		case <-time.After(40 * time.Second):
			rep.Violate("C09/real-transport/range/huge-reservation/handler-does-not-terminate", what, nil)
		}
		r.mu.Lock()
		opens, closes := r.opens, r.closes
		r.mu.Unlock()
		var se *network.StreamError
		switch {
		case len(b) > 0:
			rep.Violate("C09/real-transport/range/huge-reservation/answered", fmt.Sprintf("%s: %d bytes came back", what, len(b)), nil)
		case rerr == nil:
			rep.Violate("C09/real-transport/range/huge-reservation/not-reset", what+": the stream was closed normally", nil)
		case errors.As(rerr, &se) && se.ErrorCode == network.StreamResourceLimitExceeded:
			rep.Count("real_transport_reservation_refused_with_limit_code", 1)
		default:
			rep.Count("real_transport_reservation_refused_other_reset", 1)
		}
		if opens != closes {
			rep.Violate("C09/real-transport/range/huge-reservation/accessor-not-closed", fmt.Sprintf("%s: opened %d closed %d", what, opens, closes), nil)
		}
		_ = s.Reset()
		normal("a refused reservation")
	}
}
