// Package shrexserver is the C09 driver: the real shrex.Server and shrex.Client over a libp2p mock
// network. Everything the server is given -- host, streams (scope, connection) and store -- is a
// monitoring wrapper written against the public interfaces, so every call the handler makes is
// observed in order, and environment faults can be injected at each step.
package shrexserver

import (
	"context"
	"encoding/binary"
	"errors"
	"fmt"
	"io"
	"runtime"
	"strings"
	"sync"

	"github.com/libp2p/go-libp2p/core/host"
	"github.com/libp2p/go-libp2p/core/network"
	"github.com/libp2p/go-libp2p/core/protocol"
	ma "github.com/multiformats/go-multiaddr"

	libshare "github.com/celestiaorg/go-square/v4/share"
	"github.com/celestiaorg/rsmt2d"

	"github.com/celestiaorg/celestia-node/share"
	"github.com/celestiaorg/celestia-node/share/eds"
	"github.com/celestiaorg/celestia-node/share/shwap"
	shrexpb "github.com/celestiaorg/celestia-node/share/shwap/p2p/shrex/pb"
	"github.com/celestiaorg/celestia-node/store"
)

// Class is the request class of spec/shrex/ShrexServer.tla.
type Class struct {
	Type   string `json:"type"`
	Bytes  string `json:"bytes"`
	Height string `json:"height"`
	Bounds string `json:"bounds"`
	Mem    string `json:"mem"`
	Serve  string `json:"serve"`
}

type event map[string]any

// run is one handler run as seen by the wrappers.
type run struct {
	mu      sync.Mutex
	ID      string  `json:"id"`
	Cls     Class   `json:"cls"`
	Fault   string  `json:"fault"`
	Events  []event `json:"events"`
	What    string  `json:"what,omitempty"`
	done    chan struct{}
	ended   bool
	escaped string // a panic that got past the recovery middleware
	// wantLimit: the request comes from the address whose rate-limit bucket is being drained; whether
	// the limiter lets it pass is its decision: the run's fault is "ratelimit" only if it did not
	wantLimit bool
	// holdWrite, if set, makes the handler's first stream write (the status) wait: the requester is a
	// slow reader. atWrite is closed when the handler has reached that write.
	holdWrite chan struct{}
	atWrite   chan struct{}

	dataCalls, dataErrs int
	dataPanic           bool
	buildFlushed        bool
	statusOK            bool
	writes              int
	payloadBytes        int
	payloadErr          bool
	payloadFlushed      bool
	reservedSum         int
	releasedSum         int
	opens, closes       int
}

func (r *run) emitLocked(ev string, kv ...any) {
	e := event{"ev": ev}
	for i := 0; i+1 < len(kv); i += 2 {
		e[kv[i].(string)] = kv[i+1]
	}
	r.Events = append(r.Events, e)
}

// flushLocked turns the accumulated accessor calls / payload writes into the build / payload events
// before a later call of the handler is recorded.
func (r *run) flushLocked(beforePayload bool) {
	if r.dataCalls > 0 && !r.buildFlushed {
		r.buildFlushed = true
		res := "ok"
		if r.dataPanic {
			res = "panic"
		} else if r.dataErrs > 0 {
			res = "err"
		}
		r.emitLocked("build", "res", res, "calls", r.dataCalls)
	}
	if beforePayload {
		return
	}
	if r.statusOK && !r.payloadFlushed {
		r.payloadFlushed = true
		res := "full"
		if r.payloadErr {
			res = "partial"
		}
		r.emitLocked("payload", "res", res, "bytes", r.payloadBytes)
	}
}

func (r *run) emit(ev string, kv ...any) {
	r.mu.Lock()
	defer r.mu.Unlock()
	r.flushLocked(false)
	r.emitLocked(ev, kv...)
}

// monitor hands the next planned (class, fault) to the next handler run.
type monitor struct {
	mu   sync.Mutex
	plan *run
	runs []*run
}

func (m *monitor) expect(id string, cls Class, fault, what string) *run {
	r := &run{ID: id, Cls: cls, Fault: fault, What: what, done: make(chan struct{})}
	m.mu.Lock()
	m.plan = r
	m.runs = append(m.runs, r)
	m.mu.Unlock()
	return r
}

func (m *monitor) take() *run {
	m.mu.Lock()
	defer m.mu.Unlock()
	r := m.plan
	m.plan = nil
	if r == nil {
		r = &run{ID: "unplanned", Fault: "none", done: make(chan struct{})}
		m.runs = append(m.runs, r)
	}
	return r
}

// ---------------------------------------------------------------------------- host / stream

type monHost struct {
	host.Host
	m *monitor
	// realScope: the streams carry a real resource scope and a real connection (hosts over TCP):
	// reservations are recorded and passed on instead of being decided by the harness
	realScope bool
}

func (h *monHost) SetStreamHandler(pid protocol.ID, handler network.StreamHandler) {
	h.Host.SetStreamHandler(pid, func(s network.Stream) {
		r := h.m.take()
		ms := &monStream{Stream: s, r: r, realConn: h.realScope}
		sc := &monScope{r: r}
		if h.realScope {
			sc.real = s.Scope()
		}
		ms.scope = sc
		cur.Store(r)
		defer func() {
			// a panic that reaches this frame got past RecoveryMiddleware: in a node it kills the process
			if p := recover(); p != nil {
				r.mu.Lock()
				r.escaped = fmt.Sprint(p)
				r.mu.Unlock()
				_ = s.Reset()
			}
			r.mu.Lock()
			r.flushLocked(false)
			rec := false
			for _, e := range r.Events {
				if e["ev"] == "reset" && e["inpanic"] == true {
					rec = true
				}
			}
			if r.wantLimit {
				limited := len(r.Events) >= 3 && r.Events[2]["ev"] == "resetlimit"
				if limited {
					r.Fault = "ratelimit"
				} else if r.Fault == "ratelimit" {
					r.Fault = "none"
				}
			}
			r.emitLocked("end", "recovered", rec)
			r.ended = true
			r.mu.Unlock()
			close(r.done)
		}()
		r.emit("start", "proto", string(pid))
		handler(ms)
	})
}

type monStream struct {
	network.Stream
	r        *run
	scope    *monScope
	realConn bool
}

func (s *monStream) Scope() network.StreamScope { return s.scope }
func (s *monStream) Conn() network.Conn {
	if s.realConn {
		return s.Stream.Conn()
	}
	return &monConn{Conn: s.Stream.Conn(), r: s.r}
}

func (s *monStream) CloseRead() error {
	s.r.emit("closeread")
	return s.Stream.CloseRead()
}

func inPanic() bool {
	buf := make([]byte, 16<<10)
	n := runtime.Stack(buf, false)
	st := string(buf[:n])
	return strings.Contains(st, "runtime.gopanic") || strings.Contains(st, "\npanic(")
}

func (s *monStream) Reset() error {
	s.r.emit("reset", "inpanic", inPanic())
	return s.Stream.Reset()
}

func (s *monStream) ResetWithError(code network.StreamErrorCode) error {
	s.r.emit("resetlimit", "code", int(code))
	return s.Stream.ResetWithError(code)
}

func (s *monStream) Close() error {
	s.r.emit("close")
	return s.Stream.Close()
}

// Write: the first write of a run is the status message (one length-delimited protobuf); everything
// after it is payload.
func (s *monStream) Write(p []byte) (int, error) {
	r := s.r
	r.mu.Lock()
	r.writes++
	first := r.writes == 1
	if first && r.holdWrite != nil {
		hold, at := r.holdWrite, r.atWrite
		r.mu.Unlock()
		close(at)
		<-hold
		r.mu.Lock()
	}
	if first {
		r.flushLocked(true)
		code := "?"
		if l, n := binary.Uvarint(p); n > 0 && int(l) == len(p)-n {
			var resp shrexpb.Response
			if resp.Unmarshal(p[n:]) == nil {
				switch resp.Status {
				case shrexpb.Status_OK:
					code = "OK"
				case shrexpb.Status_NOT_FOUND:
					code = "NOT_FOUND"
				case shrexpb.Status_INTERNAL:
					code = "INTERNAL"
				default:
					code = resp.Status.String()
				}
			}
		}
		if r.Fault == "statuswrite" {
			r.emitLocked("status", "code", code, "ok", false)
			r.mu.Unlock()
			return 0, errors.New("verif: injected status write failure")
		}
		r.emitLocked("status", "code", code, "ok", true)
		r.statusOK = code == "OK"
		r.mu.Unlock()
		return s.Stream.Write(p)
	}
	if r.Fault == "copyerr" {
		r.payloadErr = true
		r.mu.Unlock()
		return 0, errors.New("verif: injected payload write failure")
	}
	r.mu.Unlock()
	n, err := s.Stream.Write(p)
	r.mu.Lock()
	r.payloadBytes += n
	if err != nil {
		r.payloadErr = true
	}
	r.mu.Unlock()
	return n, err
}

type monConn struct {
	network.Conn
	r *run
}

// RemoteMultiaddr: mocknet peers live on black-hole IPv6 addresses, which the server's per-IP rate
// limiter would throttle after 256 requests; the driver's requests come from loopback (exempt). Runs
// that are to meet the rate limiter come from one public address whose bucket the driver drains first.
func (c *monConn) RemoteMultiaddr() ma.Multiaddr {
	if c.r.wantLimit {
		return ma.StringCast("/ip4/203.0.113.7/tcp/4242")
	}
	return ma.StringCast("/ip4/127.0.0.1/tcp/4242")
}

// memBudget is what the scope grants a single reservation (the service-peer base limit of limits.go).
const memBudget = 512 << 20

type monScope struct {
	network.NullScope
	r    *run
	real network.StreamScope // nil on the mock network
}

func (sc *monScope) SetService(name string) error {
	if sc.r.Fault == "setservice" {
		sc.r.emit("setservice", "ok", false)
		return errors.New("verif: injected SetService failure")
	}
	if sc.real != nil {
		err := sc.real.SetService(name)
		sc.r.emit("setservice", "ok", err == nil)
		return err
	}
	sc.r.emit("setservice", "ok", true)
	return nil
}

func (sc *monScope) ReserveMemory(size int, prio uint8) error {
	if sc.real != nil && sc.r.Fault != "reserve" {
		err := sc.real.ReserveMemory(size, prio)
		sc.r.emit("reserve", "ok", err == nil, "n", size)
		if err == nil {
			sc.r.mu.Lock()
			sc.r.reservedSum += size
			sc.r.mu.Unlock()
		}
		return err
	}
	if sc.r.Fault == "reserve" || size > memBudget || size < 0 {
		sc.r.emit("reserve", "ok", false, "n", size)
		return network.ErrResourceLimitExceeded
	}
	sc.r.emit("reserve", "ok", true, "n", size)
	sc.r.mu.Lock()
	sc.r.reservedSum += size
	sc.r.mu.Unlock()
	return nil
}

func (sc *monScope) ReleaseMemory(size int) {
	if sc.real != nil {
		sc.real.ReleaseMemory(size)
	}
	sc.r.emit("release", "n", size)
	sc.r.mu.Lock()
	sc.r.releasedSum += size
	sc.r.mu.Unlock()
}

// ---------------------------------------------------------------------------- store / accessor

// cur is the run whose handler is executing (requests are sent one at a time).
var cur syncRun

type syncRun struct {
	mu sync.Mutex
	r  *run
}

func (s *syncRun) Store(r *run) { s.mu.Lock(); s.r = r; s.mu.Unlock() }
func (s *syncRun) Load() *run   { s.mu.Lock(); defer s.mu.Unlock(); return s.r }

// monStore is the counting store.AccessorGetter around the real store.
type monStore struct {
	inner *store.Store
}

var _ store.AccessorGetter = (*monStore)(nil)

func (ms *monStore) HasByHeight(ctx context.Context, h uint64) (bool, error) {
	return ms.inner.HasByHeight(ctx, h)
}

func (ms *monStore) GetByHeight(ctx context.Context, h uint64) (eds.AccessorStreamer, error) {
	r := cur.Load()
	if r == nil {
		return ms.inner.GetByHeight(ctx, h)
	}
	switch r.Fault {
	case "openerr":
		r.emit("open", "res", "error")
		return nil, errors.New("verif: injected store error")
	case "openpanic":
		r.emit("open", "res", "panic")
		panic("verif: injected panic in GetByHeight")
	}
	acc, err := ms.inner.GetByHeight(ctx, h)
	switch {
	case errors.Is(err, store.ErrNotFound):
		r.emit("open", "res", "notfound")
		return nil, err
	case err != nil:
		r.emit("open", "res", "error", "err", err.Error())
		return nil, err
	}
	r.emit("open", "res", "found")
	r.mu.Lock()
	r.opens++
	r.mu.Unlock()
	return &monAccessor{AccessorStreamer: acc, r: r}, nil
}

type monAccessor struct {
	eds.AccessorStreamer
	r *run
}

func (a *monAccessor) Close() error {
	a.r.emit("closeacc")
	a.r.mu.Lock()
	a.r.closes++
	a.r.mu.Unlock()
	return a.AccessorStreamer.Close()
}

func (a *monAccessor) Size(ctx context.Context) (int, error) {
	if a.r.Fault == "sizeerr" {
		a.r.emit("size", "ok", false)
		return 0, errors.New("verif: injected size error")
	}
	n, err := a.AccessorStreamer.Size(ctx)
	a.r.emit("size", "ok", err == nil, "n", n)
	return n, err
}

// data wraps every call ResponseReader can make on the accessor.
func (a *monAccessor) data(f func() error) error {
	r := a.r
	r.mu.Lock()
	r.dataCalls++
	fault := r.Fault
	if fault == "buildpanic" {
		r.dataPanic = true
	}
	r.mu.Unlock()
	switch fault {
	case "builderr":
		r.mu.Lock()
		r.dataErrs++
		r.mu.Unlock()
		return errors.New("verif: injected accessor error")
	case "buildpanic":
		panic("verif: injected panic in the accessor")
	}
	err := f()
	if err != nil {
		r.mu.Lock()
		r.dataErrs++
		r.mu.Unlock()
	}
	return err
}

func (a *monAccessor) AxisRoots(ctx context.Context) (out *share.AxisRoots, err error) {
	err = a.data(func() (e error) { out, e = a.AccessorStreamer.AxisRoots(ctx); return })
	return
}

func (a *monAccessor) Sample(ctx context.Context, idx shwap.SampleCoords) (out shwap.Sample, err error) {
	err = a.data(func() (e error) { out, e = a.AccessorStreamer.Sample(ctx, idx); return })
	return
}

func (a *monAccessor) AxisHalf(ctx context.Context, t rsmt2d.Axis, i int) (out shwap.AxisHalf, err error) {
	err = a.data(func() (e error) { out, e = a.AccessorStreamer.AxisHalf(ctx, t, i); return })
	return
}

func (a *monAccessor) RowNamespaceData(ctx context.Context, ns libshare.Namespace, i int) (out shwap.RowNamespaceData, err error) {
	err = a.data(func() (e error) { out, e = a.AccessorStreamer.RowNamespaceData(ctx, ns, i); return })
	return
}

func (a *monAccessor) RangeNamespaceData(ctx context.Context, from, to int) (out shwap.RangeNamespaceData, err error) {
	err = a.data(func() (e error) { out, e = a.AccessorStreamer.RangeNamespaceData(ctx, from, to); return })
	return
}

func (a *monAccessor) Shares(ctx context.Context) (out []libshare.Share, err error) {
	err = a.data(func() (e error) { out, e = a.AccessorStreamer.Shares(ctx); return })
	return
}

func (a *monAccessor) Reader() (out io.Reader, err error) {
	err = a.data(func() (e error) { out, e = a.AccessorStreamer.Reader(); return })
	return
}
