package shrexserver

import (
	"bytes"
	"context"
	"encoding/binary"
	"encoding/json"
	"errors"
	"fmt"
	"io"
	"math"
	"math/rand"
	"os"
	"path/filepath"
	"runtime"
	"strings"
	"testing"
	"time"

	"github.com/libp2p/go-libp2p/core/host"
	"github.com/libp2p/go-libp2p/core/network"
	mocknet "github.com/libp2p/go-libp2p/p2p/net/mock"

	libshare "github.com/celestiaorg/go-square/v4/share"

	"github.com/celestiaorg/celestia-node/share"
	"github.com/celestiaorg/celestia-node/share/shwap"
	"github.com/celestiaorg/celestia-node/share/shwap/p2p/shrex"
	shrexpb "github.com/celestiaorg/celestia-node/share/shwap/p2p/shrex/pb"
	"github.com/celestiaorg/celestia-node/store"

	"verifharness/shx"
	"verifharness/vh"
)

const networkID = "verif"

// modelCase is a CASE record of spec/shrex/ShrexServer.tla: what the requester must see for a
// request class under an injected fault.
type modelCase struct {
	Cls       Class  `json:"cls"`
	Fault     string `json:"fault"`
	Wire      string `json:"wire"`
	Payload   string `json:"payload"`
	Stream    string `json:"stream"`
	Opened    int    `json:"opened"`
	Reserved  int    `json:"reserved"`
	Recovered bool   `json:"recovered"`
}

type driver struct {
	t       *testing.T
	rep     *vh.Report
	rng     *rand.Rand
	m       *monitor
	client  host.Host
	server  host.Host
	cl      *shrex.Client
	st      *store.Store
	refs    []*shx.Ref
	model   map[string]modelCase
	nextID  int
	probeOK int
}

func key(c Class, fault string) string {
	b, _ := json.Marshal(c)
	return string(b) + "/" + fault
}

// observed is what the requester saw on a raw stream.
type observed struct {
	Wire    string // none | OK | NOT_FOUND | INTERNAL | INVALID...
	Payload []byte
	End     string // closed | reset
	Err     string
}

func (d *driver) id() string { d.nextID++; return fmt.Sprintf("r%d", d.nextID) }

// rawRequest writes the bytes on a fresh stream of the protocol, half-closes, and reads whatever comes.
func (d *driver) rawRequest(proto string, req []byte) (observed, error) {
	ctx, cancel := context.WithTimeout(context.Background(), 30*time.Second)
	defer cancel()
	s, err := d.client.NewStream(ctx, d.server.ID(), shrex.ProtocolID(networkID, proto))
	if err != nil {
		return observed{}, fmt.Errorf("open stream: %w", err)
	}
	defer s.Reset() //nolint:errcheck
	if len(req) > 0 {
		if _, err := s.Write(req); err != nil {
			return observed{Wire: "none", End: "reset", Err: err.Error()}, nil
		}
	}
	_ = s.CloseWrite()
	type res struct {
		b   []byte
		err error
	}
	ch := make(chan res, 1)
	go func() {
		b, err := io.ReadAll(s)
		ch <- res{b, err}
	}()
	var r res
	select {
	case r = <-ch:
	case <-ctx.Done():
		return observed{}, errors.New("no answer, no reset, no close within 30 s")
	}
	o := observed{Wire: "none", End: "closed"}
	if r.err != nil {
		o.End, o.Err = "reset", r.err.Error()
	}
	if l, n := binary.Uvarint(r.b); n > 0 && l <= uint64(len(r.b)-n) {
		var resp shrexpb.Response
		if resp.Unmarshal(r.b[n:n+int(l)]) == nil {
			switch resp.Status {
			case shrexpb.Status_OK:
				o.Wire = "OK"
			case shrexpb.Status_NOT_FOUND:
				o.Wire = "NOT_FOUND"
			case shrexpb.Status_INTERNAL:
				o.Wire = "INTERNAL"
			default:
				o.Wire = resp.Status.String()
			}
			o.Payload = r.b[n+int(l):]
		}
	}
	return o, nil
}

func protoOf(typ string) string {
	switch typ {
	case "sample":
		return (&shwap.SampleID{}).Name()
	case "row":
		return (&shwap.RowID{}).Name()
	case "eds":
		return (&shwap.EdsID{}).Name()
	case "nd":
		return (&shwap.NamespaceDataID{}).Name()
	}
	return (&shwap.RangeNamespaceDataID{}).Name()
}

func be16(v int) []byte    { return binary.BigEndian.AppendUint16(nil, uint16(v)) }
func be32(v int) []byte    { return binary.BigEndian.AppendUint32(nil, uint32(v)) }
func be64(v uint64) []byte { return binary.BigEndian.AppendUint64(nil, v) }

// encode writes the wire form of a request without going through the ID constructors (which refuse
// to build out-of-bounds or invalid identifiers).
func encode(typ string, height uint64, q shx.Req, ns []byte) []byte {
	b := be64(height)
	switch typ {
	case "row":
		b = append(b, be16(q.Row)...)
	case "sample":
		b = append(append(b, be16(q.Row)...), be16(q.Col)...)
	case "nd":
		b = append(b, ns...)
	case "range":
		b = append(append(b, be32(q.From)...), be32(q.To)...)
	}
	return b
}

// concrete is one materialised request of a class.
type concrete struct {
	what  string
	ref   *shx.Ref // block the request is about (for the oracle), nil if none
	q     shx.Req
	bytes []byte
}

// materialise lists concrete requests of a class against the stored blocks: for the malformed and
// out-of-bounds classes every field at bound, bound+1 and max, every wrong length; for the servable
// classes a seeded pick (the exhaustive sweep over servable requests is a separate phase).
func (d *driver) materialise(c Class) []concrete {
	ref := d.refs[1] // width 2, mixed namespaces
	if c.Type == "range" && c.Serve == "yes" {
		ref = d.refs[4] // width 2, one namespace
	}
	e, n := 2*ref.W, ref.W*ref.W
	h := ref.Height
	if c.Height == "unknown" {
		h = 999_999
	}
	var pick shx.Req
	var ns []byte
	switch c.Type {
	case "sample":
		pick = shx.Req{Type: "sample", Row: d.rng.Intn(e), Col: d.rng.Intn(e)}
	case "row":
		pick = shx.Req{Type: "row", Row: d.rng.Intn(e)}
	case "eds":
		pick = shx.Req{Type: "eds"}
	case "nd":
		p := ref.PresentNamespaces()
		pick = shx.Req{Type: "nd", Ns: p[d.rng.Intn(len(p))]}
		ns = shx.NsOf(pick.Ns).Bytes()
	case "range":
		pick = shx.Req{Type: "range", From: 1, To: 3}
	}
	valid := encode(c.Type, h, pick, ns)
	var out []concrete
	add := func(what string, q shx.Req, b []byte, withRef bool) {
		cc := concrete{what: what, q: q, bytes: b}
		if withRef {
			cc.ref = ref
		}
		out = append(out, cc)
	}
	switch {
	case c.Bytes == "short":
		for _, l := range []int{0, 1, len(valid) / 2, len(valid) - 1} {
			if l < len(valid) {
				add(fmt.Sprintf("%d of %d bytes", l, len(valid)), pick, valid[:l], false)
			}
		}
	case c.Bytes == "invalid":
		add("height 0", pick, encode(c.Type, 0, pick, ns), false)
		switch c.Type {
		case "nd":
			nonZero := append([]byte(nil), shx.Namespace(0).Bytes()...)
			nonZero[3] = 7
			for _, nb := range []struct {
				name string
				bad  []byte
			}{
				{"parity namespace", libshare.ParitySharesNamespace.Bytes()},
				{"tail padding namespace", libshare.TailPaddingNamespace.Bytes()},
				{"namespace version 1", append([]byte{1}, shx.Namespace(0).Bytes()[1:]...)},
				{"version 0 with non-zero prefix", nonZero},
			} {
				add(nb.name, pick, encode("nd", h, pick, nb.bad), false)
			}
		case "range":
			for _, ft := range [][2]int{{2, 2}, {3, 1}, {0, 0}, {math.MaxUint32, math.MaxUint32}, {5, 0}} {
				add(fmt.Sprintf("from=%d to=%d", ft[0], ft[1]), pick, encode("range", h, shx.Req{From: ft[0], To: ft[1]}, nil), false)
			}
		}
	case c.Bounds == "oob" && c.Mem == "huge":
		for _, ft := range [][2]int{{0, math.MaxUint32}, {1, math.MaxUint32 - 1}, {0, 1 << 30}} {
			add(fmt.Sprintf("from=%d to=%d", ft[0], ft[1]), pick, encode("range", h, shx.Req{From: ft[0], To: ft[1]}, nil), false)
		}
	case c.Bounds == "oob":
		switch c.Type {
		case "row":
			for _, r := range []int{e, e + 1, math.MaxUint16} {
				add(fmt.Sprintf("row=%d of %d", r, e), pick, encode("row", h, shx.Req{Row: r}, nil), false)
			}
		case "sample":
			for _, rc := range [][2]int{{e, 0}, {0, e}, {e + 1, e + 1}, {math.MaxUint16, 0}, {0, math.MaxUint16}, {e - 1, e}} {
				add(fmt.Sprintf("row=%d col=%d of %d", rc[0], rc[1], e), pick, encode("sample", h, shx.Req{Row: rc[0], Col: rc[1]}, nil), false)
			}
		case "range":
			for _, ft := range [][2]int{{0, n + 1}, {n - 1, n + 1}, {n, n + 1}, {n + 3, n + 5}, {0, 4 * n}, {0, 100000}} {
				add(fmt.Sprintf("from=%d to=%d of %d", ft[0], ft[1], n), pick, encode("range", h, shx.Req{From: ft[0], To: ft[1]}, nil), false)
			}
		}
	case c.Serve == "no":
		// a range over several namespaces (the mixed square has them)
		cnt := 0
		for f := 0; f < n && cnt < 4; f++ {
			for t := f + 2; t <= n && cnt < 4; t++ {
				if !ref.SingleNamespace(f, t) {
					add(fmt.Sprintf("from=%d to=%d over several namespaces", f, t), pick, encode("range", h, shx.Req{From: f, To: t}, nil), false)
					cnt++
				}
			}
		}
	default:
		add("valid "+pick.String(), pick, valid, c.Height == "stored")
		if c.Height == "stored" {
			// one byte too many: the surplus is never read, the request is the valid prefix
			add("valid "+pick.String()+" + 1 surplus byte", pick, append(append([]byte(nil), valid...), 0xAB), true)
		}
	}
	return out
}

// classify derives the class of arbitrary bytes with the repository's own decoders (for the garbage phase).
func (d *driver) classify(typ string, b []byte) (Class, *shx.Ref, shx.Req) {
	c := Class{Type: typ, Bytes: "ok", Height: "stored", Bounds: "in", Mem: "fits", Serve: "yes"}
	bad := Class{Type: typ, Bytes: "invalid", Height: "stored", Bounds: "in", Mem: "fits", Serve: "yes"}
	size := map[string]int{"eds": shwap.EdsIDSize, "row": shwap.RowIDSize, "sample": shwap.SampleIDSize,
		"nd": shwap.NamespaceDataIDSize, "range": shwap.RangeNamespaceDataIDSize}[typ]
	if len(b) < size {
		bad.Bytes = "short"
		return bad, nil, shx.Req{}
	}
	b = b[:size]
	var h uint64
	var q shx.Req
	switch typ {
	case "eds":
		id, err := shwap.EdsIDFromBinary(b)
		if err != nil {
			return bad, nil, q
		}
		h, q = id.Height(), shx.Req{Type: "eds"}
	case "row":
		id, err := shwap.RowIDFromBinary(b)
		if err != nil {
			return bad, nil, q
		}
		h, q = id.Height(), shx.Req{Type: "row", Row: id.RowIndex}
	case "sample":
		id, err := shwap.SampleIDFromBinary(b)
		if err != nil {
			return bad, nil, q
		}
		h, q = id.Height(), shx.Req{Type: "sample", Row: id.RowIndex, Col: id.ShareIndex}
	case "nd":
		id, err := shwap.NamespaceDataIDFromBinary(b)
		if err != nil {
			return bad, nil, q
		}
		h, q = id.Height(), shx.Req{Type: "nd", Ns: -9999}
	case "range":
		id, err := shwap.RangeNamespaceDataIDFromBinary(b)
		if err != nil {
			return bad, nil, q
		}
		h, q = id.Height(), shx.Req{Type: "range", From: id.From, To: id.To}
	}
	var ref *shx.Ref
	for _, r := range d.refs {
		if r.Height == h {
			ref = r
		}
	}
	if ref == nil {
		c.Height = "unknown"
		if typ == "range" && (q.To-q.From)*libshare.ShareSize > memBudget {
			// the reservation is never reached for an unknown height
		}
		return c, nil, q
	}
	e, n := 2*ref.W, ref.W*ref.W
	switch typ {
	case "row":
		if q.Row >= e {
			c.Bounds = "oob"
		}
	case "sample":
		if q.Row >= e || q.Col >= e {
			c.Bounds = "oob"
		}
	case "range":
		if q.From >= n || q.To > n {
			c.Bounds = "oob"
			if (q.To-q.From)*libshare.ShareSize > memBudget {
				c.Mem = "huge"
			}
		} else if !ref.SingleNamespace(q.From, q.To) {
			c.Serve = "no"
		}
	}
	return c, ref, q
}

// one sends one request, waits for the handler run to end and compares everything with the model.
func (d *driver) one(c Class, fault string, cc concrete, phase string) {
	rep := d.rep
	mc, ok := d.model[key(c, fault)]
	if !ok {
		rep.Inconclusivef("class %+v / fault %s is not a state of ShrexServer.tla", c, fault)
		return
	}
	if fault == "ratelimit" {
		d.drainBucket()
	}
	r := d.m.expect(d.id(), c, fault, phase+": "+c.Type+" "+cc.what)
	r.wantLimit = fault == "ratelimit"
	o, err := d.rawRequest(protoOf(c.Type), cc.bytes)
	replay := map[string]any{"run": r.ID, "class": c, "fault": fault, "request": cc.what, "bytes": fmt.Sprintf("%x", cc.bytes), "phase": phase}
	sig := func(s string) string {
		cl := c.Bytes
		switch {
		case c.Bytes != "ok":
		case c.Height == "unknown":
			cl = "unknown-height"
		case c.Mem == "huge":
			cl = "huge-reservation"
		case c.Bounds == "oob":
			cl = "out-of-bounds"
		case c.Serve == "no":
			cl = "multi-namespace-range"
		default:
			cl = "valid"
		}
		return "C09/" + c.Type + "/" + cl + "/" + fault + "/" + s
	}
	if err != nil {
		rep.Violate(sig("requester-left-hanging"), fmt.Sprintf("%s: %v", cc.what, err), replay)
	}
	// the handler must end
	select {
	case <-r.done:
	case <-time.After(45 * time.Second):
		buf := make([]byte, 1<<20)
		n := runtime.Stack(buf, true)
		replay["goroutines"] = string(buf[:min(n, 8000)])
		rep.Violate(sig("handler-does-not-terminate"), fmt.Sprintf("%s: the stream handler is still running 45 s after the requester finished", cc.what), replay)
		return
	}
	r.mu.Lock()
	evs := append([]event(nil), r.Events...)
	escaped, opens, closes, res, rel := r.escaped, r.opens, r.closes, r.reservedSum, r.releasedSum
	if r.Fault != fault {
		// the rate limiter had a token left after all: this was an ordinary run
		fault = r.Fault
		d.rep.Count("ratelimit_runs_let_through", 1)
	}
	r.mu.Unlock()
	if mc, ok = d.model[key(c, fault)]; !ok {
		rep.Inconclusivef("class %+v / fault %s is not a state of ShrexServer.tla", c, fault)
		return
	}
	replay["events"] = evs
	rep.Count("runs", 1)
	rep.Count("runs_"+phase, 1)
	rep.Count("runs_type_"+c.Type, 1)
	if fault != "none" {
		rep.Count("runs_fault_"+fault, 1)
	}
	if escaped != "" {
		rep.Violate(sig("panic-escapes-the-handler"), fmt.Sprintf("%s: panic %q got past the recovery middleware (a node would crash)", cc.what, escaped), replay)
	}
	if opens != closes {
		rep.Violate(sig("accessor-not-closed"), fmt.Sprintf("%s: accessor opened %d times, closed %d times", cc.what, opens, closes), replay)
	}
	if res != rel {
		rep.Violate(sig("memory-not-released"), fmt.Sprintf("%s: %d bytes reserved, %d released", cc.what, res, rel), replay)
	}
	if err != nil {
		return
	}
	// ---- what the requester saw, judged by the property itself
	rep.Count("wire_"+o.Wire, 1)
	refusal := c.Bytes != "ok" || c.Bounds == "oob" || c.Serve == "no" || c.Mem == "huge"
	alarmed := false
	alarm := func(s, what string) {
		alarmed = true
		rep.Violate(sig(s), cc.what+": "+what, replay)
	}
	if len(o.Payload) > 0 && o.Wire != "OK" {
		alarm("payload-without-ok", fmt.Sprintf("%d payload bytes after status %s", len(o.Payload), o.Wire))
	}
	switch {
	case refusal:
		// malformed, truncated, out of bounds, not servable: an error status or a reset, never OK
		if o.Wire == "OK" {
			alarm("served-instead-of-refused", fmt.Sprintf("requester saw status OK (+%d bytes, stream %s) for a request that must be refused", len(o.Payload), o.End))
		}
	case fault == "none" && c.Height == "unknown":
		if o.Wire != "NOT_FOUND" {
			alarm("unknown-height-not-reported-not-found", fmt.Sprintf("requester saw status=%s end=%s (%s)", o.Wire, o.End, o.Err))
		}
	case fault == "none":
		// well-formed request for a stored block: served, and the reply verifies and equals the block
		if o.Wire != "OK" || o.End != "closed" {
			alarm("valid-request-not-served", fmt.Sprintf("requester saw status=%s end=%s (%s)", o.Wire, o.End, o.Err))
		} else if cc.ref != nil {
			if e := cc.ref.DecodeAndCheck(cc.q, o.Payload); e != nil {
				alarm("reply-does-not-verify-or-differs", fmt.Sprintf("the decoded reply fails the oracle: %v", e))
			} else {
				rep.Count("replies_verified", 1)
			}
		}
	default:
		// an environment fault hit a servable request: whatever was sent after OK is (a prefix of) the honest reply
		if o.Wire == "OK" && cc.ref != nil && c.Height == "stored" {
			if h, e := cc.ref.Honest(cc.q); e == nil && !bytes.HasPrefix(h, o.Payload) {
				alarm("wrong-bytes-under-fault", "the bytes sent after OK are not a prefix of the honest payload")
			}
		}
	}
	if alarmed {
		return
	}
	// ---- and against the specification's verdict for the class (a difference that still satisfies the
	// property is conformance drift, not a violation)
	wantEnd := "closed"
	if mc.Stream != "closed" {
		wantEnd = "reset"
	}
	gotPayload := "none"
	if o.Wire == "OK" {
		gotPayload = mc.Payload // full vs partial is judged above by content
		if mc.Payload == "none" {
			gotPayload = "some"
		}
	}
	if o.Wire != mc.Wire || o.End != wantEnd || (mc.Payload == "none") != (gotPayload == "none") {
		rep.Inconclusivef("conformance drift: %s %s (fault %s): requester saw status=%s end=%s, ShrexServer.tla says status=%s end=%s payload=%s",
			c.Type, cc.what, fault, o.Wire, o.End, mc.Wire, wantEnd, mc.Payload)
	}
}

// drainBucket sends empty requests from the rate-limited address until the limiter refuses one.
func (d *driver) drainBucket() {
	c := Class{Type: "sample", Bytes: "short", Height: "stored", Bounds: "in", Mem: "fits", Serve: "yes"}
	for i := 0; i < 600; i++ {
		r := d.m.expect(d.id(), c, "none", "drain the rate-limit bucket")
		r.wantLimit = true
		_, _ = d.rawRequest(protoOf("sample"), nil)
		select {
		case <-r.done:
		case <-time.After(45 * time.Second):
			return
		}
		r.mu.Lock()
		limited := r.Fault == "ratelimit"
		r.mu.Unlock()
		d.rep.Count("drain_requests", 1)
		if limited {
			return
		}
	}
	d.rep.Inconclusivef("the rate limiter never refused a request from the drained address")
}

// probe: after a hostile request the server must still serve a normal one.
func (d *driver) probe(after string) {
	ref := d.refs[1]
	e := 2 * ref.W
	q := shx.Req{Type: "sample", Row: d.rng.Intn(e), Col: d.rng.Intn(e)}
	c := Class{Type: "sample", Bytes: "ok", Height: "stored", Bounds: "in", Mem: "fits", Serve: "yes"}
	r := d.m.expect(d.id(), c, "none", "probe after "+after)
	id, err := shwap.NewSampleID(ref.Height, shwap.SampleCoords{Row: q.Row, Col: q.Col}, e)
	if err != nil {
		d.rep.Inconclusivef("probe id: %v", err)
		return
	}
	var s shwap.Sample
	ctx, cancel := context.WithTimeout(context.Background(), 30*time.Second)
	defer cancel()
	err = d.cl.Get(ctx, &id, &s, d.server.ID())
	select {
	case <-r.done:
	case <-time.After(45 * time.Second):
	}
	if err == nil {
		err = ref.CheckSample(s, shwap.SampleCoords{Row: q.Row, Col: q.Col})
	}
	if err != nil {
		d.rep.Violate("C09/server-wedged-after/"+after, fmt.Sprintf("a normal sample request right after %s failed: %v", after, err),
			map[string]any{"after": after, "err": err.Error()})
		return
	}
	d.rep.Count("probes_ok", 1)
}

func (d *driver) setup() {
	t := d.t
	mn, err := mocknet.FullMeshConnected(2)
	if err != nil {
		t.Fatalf("mocknet: %v", err)
	}
	d.client, d.server = mn.Hosts()[0], mn.Hosts()[1]
	dir := t.TempDir()
	// blocks are written through one store instance and served by a second one opened on the same
	// directory: a store keeps freshly put squares in an in-memory cache, and the point is to serve
	// from the files
	writer, err := store.NewStore(store.DefaultParameters(), dir)
	if err != nil {
		t.Fatalf("store: %v", err)
	}
	widths := []int{1, 2, 4}
	if vh.Thorough() {
		widths = append(widths, 8)
	}
	h := uint64(10)
	for pass := 0; pass < 2; pass++ {
		for _, w := range widths {
			h++
			var layout []int
			if pass == 0 {
				pad := 0
				if w > 1 {
					pad = 1
				}
				layout = shx.Layout(d.rng, w, 4, pad)
			} else {
				layout = shx.UniformLayout(w)
			}
			ref := shx.Build(t, d.rng, w, h, layout)
			if err := writer.PutODSQ4(context.Background(), ref.Roots, h, ref.EDS); err != nil {
				t.Fatalf("put: %v", err)
			}
			d.refs = append(d.refs, ref)
		}
	}
	// two more ways a block can be stored: original data square only (no parity quadrant file), and the
	// empty block (linked to the store's built-in empty file)
	odsOnly := shx.Build(t, d.rng, 2, 101, shx.Layout(d.rng, 2, 3, 0))
	if err := writer.PutODS(context.Background(), odsOnly.Roots, odsOnly.Height, odsOnly.EDS); err != nil {
		t.Fatalf("put ods: %v", err)
	}
	empty := shx.Build(t, d.rng, 1, 102, []int{-1})
	if !share.DataHash(empty.Roots.Hash()).IsEmptyEDS() {
		t.Fatalf("the one-tail-padding-share square is not the empty block")
	}
	if err := writer.PutODSQ4(context.Background(), empty.Roots, empty.Height, empty.EDS); err != nil {
		t.Fatalf("put empty: %v", err)
	}
	if err := writer.Stop(context.Background()); err != nil {
		t.Fatalf("stop writer store: %v", err)
	}
	d.st, err = store.NewStore(store.DefaultParameters(), dir)
	if err != nil {
		t.Fatalf("reopen store: %v", err)
	}
	t.Cleanup(func() { _ = d.st.Stop(context.Background()) })
	// d.refs: [w1 mixed, w2 mixed, w4 mixed, (w8), w1 uniform, w2 uniform, w4 uniform, (w8)] -- keep the
	// indices used by materialise stable
	if vh.Thorough() {
		d.refs = []*shx.Ref{d.refs[0], d.refs[1], d.refs[2], d.refs[4], d.refs[5], d.refs[6], d.refs[3], d.refs[7]}
	}
	d.refs = append(d.refs, odsOnly, empty)
	d.m = &monitor{}
	sp := shrex.DefaultServerParameters()
	sp.WithNetworkID(networkID)
	srv, err := shrex.NewServer(sp, &monHost{Host: d.server, m: d.m}, &monStore{inner: d.st})
	if err != nil {
		t.Fatalf("server: %v", err)
	}
	if err := srv.Start(context.Background()); err != nil {
		t.Fatalf("server start: %v", err)
	}
	t.Cleanup(func() { _ = srv.Stop(context.Background()) })
	cp := shrex.DefaultClientParameters()
	cp.WithNetworkID(networkID)
	d.cl, err = shrex.NewClient(cp, d.client)
	if err != nil {
		t.Fatalf("client: %v", err)
	}
}

// sweep: for every stored square EVERY sample, row, namespace (present and absent) and [from,to) is
// requested through the real client; the decoded container must verify and equal the reference.
func (d *driver) sweep() {
	for _, ref := range d.refs {
		e, n := 2*ref.W, ref.W*ref.W
		var reqs []shx.Req
		for r := 0; r < e; r++ {
			reqs = append(reqs, shx.Req{Type: "row", Row: r})
			for c := 0; c < e; c++ {
				reqs = append(reqs, shx.Req{Type: "sample", Row: r, Col: c})
			}
		}
		reqs = append(reqs, shx.Req{Type: "eds"})
		for _, k := range ref.PresentNamespaces() {
			reqs = append(reqs, shx.Req{Type: "nd", Ns: k}, shx.Req{Type: "nd", Ns: shx.NsAbsentBetweenBase - k})
		}
		reqs = append(reqs, shx.Req{Type: "nd", Ns: shx.NsAbsentBelow}, shx.Req{Type: "nd", Ns: shx.NsAbsentAbove},
			shx.Req{Type: "nd", Ns: shx.NsTx})
		for f := 0; f < n; f++ {
			for t := f + 1; t <= n; t++ {
				reqs = append(reqs, shx.Req{Type: "range", From: f, To: t})
			}
		}
		if ref.W > 4 {
			// larger widths: a seeded sample of the servable requests
			d.rng.Shuffle(len(reqs), func(i, j int) { reqs[i], reqs[j] = reqs[j], reqs[i] })
			reqs = reqs[:min(len(reqs), 250)]
		}
		for _, q := range reqs {
			typ := q.Type
			c := Class{Type: typ, Bytes: "ok", Height: "stored", Bounds: "in", Mem: "fits", Serve: "yes"}
			if typ == "range" && !ref.SingleNamespace(q.From, q.To) {
				c.Serve = "no"
			}
			var ns []byte
			if typ == "nd" {
				ns = shx.NsOf(q.Ns).Bytes()
			}
			cc := concrete{what: fmt.Sprintf("w=%d %s", ref.W, q), q: q, ref: ref, bytes: encode(typ, ref.Height, q, ns)}
			d.one(c, "none", cc, "sweep")
			// and once through the real client, whose own decoding + the getter-side verification are what users run
			if c.Serve == "yes" && d.rng.Intn(4) == 0 {
				d.viaClient(ref, q)
			}
		}
	}
}

// viaClient performs the request with the real shrex.Client into the real container type.
func (d *driver) viaClient(ref *shx.Ref, q shx.Req) {
	idAny, err := ref.ID(q)
	if err != nil {
		d.rep.Inconclusivef("id for %s: %v", q, err)
		return
	}
	c := Class{Type: q.Type, Bytes: "ok", Height: "stored", Bounds: "in", Mem: "fits", Serve: "yes"}
	r := d.m.expect(d.id(), c, "none", "client: "+q.String())
	ctx, cancel := context.WithTimeout(context.Background(), 30*time.Second)
	defer cancel()
	var buf bytes.Buffer
	type reqT interface {
		io.WriterTo
		io.ReaderFrom
		Name() string
		Height() uint64
		Validate() error
		ResponseReader(context.Context, shwap.Accessor) (io.Reader, error)
		ResponseSize(int) int
	}
	id, ok := idAny.(reqT)
	if !ok {
		d.rep.Inconclusivef("%T is not a shrex request", idAny)
		return
	}
	err = d.cl.Get(ctx, id, &buf, d.server.ID())
	select {
	case <-r.done:
	case <-time.After(45 * time.Second):
	}
	if err == nil {
		err = ref.DecodeAndCheck(q, buf.Bytes())
	}
	if err != nil {
		d.rep.Violate("C09/"+q.Type+"/valid/none/client-get-fails", fmt.Sprintf("w=%d %s through shrex.Client: %v", ref.W, q, err),
			map[string]any{"request": q, "w": ref.W})
		return
	}
	d.rep.Count("client_gets_verified", 1)
}

func TestDriver(t *testing.T) {
	rep := vh.NewReport()
	defer func() {
		if err := rep.Write(); err != nil {
			t.Fatalf("report: %v", err)
		}
	}()
	d := &driver{t: t, rep: rep, rng: vh.Rand(), model: map[string]modelCase{}}
	var ms []modelCase
	if p := os.Getenv("VERIF_CASES"); p != "" {
		if err := vh.ReadJSON(p, &ms); err != nil {
			t.Fatalf("cases: %v", err)
		}
	}
	for _, m := range ms {
		d.model[key(m.Cls, m.Fault)] = m
	}
	if len(ms) == 0 {
		rep.Inconclusivef("no model cases given (VERIF_CASES)")
		return
	}
	d.setup()
	base := runtime.NumGoroutine()

	// ---- phase 1: every servable request of every stored square
	d.sweep()

	// ---- phase 2: the lattice: every (class, fault) state of the specification, every materialisation
	for _, m := range ms {
		for _, cc := range d.materialise(m.Cls) {
			d.one(m.Cls, m.Fault, cc, "lattice")
			hostile := m.Fault != "none" || m.Cls.Bytes != "ok" || m.Cls.Bounds == "oob" || m.Cls.Serve == "no" || m.Cls.Height == "unknown"
			if hostile {
				d.probe(fmt.Sprintf("%s/%s/%s", m.Cls.Type, strings.Join([]string{m.Cls.Bytes, m.Cls.Height, m.Cls.Bounds, m.Cls.Mem, m.Cls.Serve}, "-"), m.Fault))
			}
		}
	}

	// ---- phase 3: random bytes (sampled), classified with the repository's own decoders
	nGarbage := vh.EnvInt("VERIF_GARBAGE", 300)
	types := []string{"eds", "row", "sample", "nd", "range"}
	for i := 0; i < nGarbage; i++ {
		typ := types[d.rng.Intn(len(types))]
		l := d.rng.Intn(48)
		b := make([]byte, l)
		d.rng.Read(b)
		switch d.rng.Intn(4) {
		case 0: // a stored height in front, so that the fields behind it matter
			if l >= 8 {
				copy(b, be64(d.refs[d.rng.Intn(len(d.refs))].Height))
			}
		case 1: // small field values
			for j := 8; j < l; j++ {
				if d.rng.Intn(3) > 0 {
					b[j] = byte(d.rng.Intn(4))
				}
			}
			if l >= 8 {
				copy(b, be64(d.refs[d.rng.Intn(len(d.refs))].Height))
			}
		}
		c, ref, q := d.classify(typ, b)
		cc := concrete{what: fmt.Sprintf("random %d bytes %x", l, b), bytes: b, q: q}
		if ref != nil && c.Bounds == "in" && c.Serve == "yes" && typ != "nd" {
			cc.ref = ref
		}
		d.one(c, "none", cc, "garbage")
		if i%10 == 0 {
			d.probe("random bytes")
		}
	}

	// ---- phase 3b: requests that overlap in time (a slow requester while another request is served), and
	// the network-free core of it: prepare A, prepare B, read A
	d.aliasingProbe()
	d.overlappingRequests()

	// ---- phase 4: what a mock network cannot show (real deadlines, the real resource manager)
	d.realTransport()

	// ---- nothing may be left behind: no handler goroutine, goroutine count back to the baseline
	deadline := time.Now().Add(20 * time.Second)
	var left string
	for {
		buf := make([]byte, 4<<20)
		n := runtime.Stack(buf, true)
		left = ""
		for _, g := range strings.Split(string(buf[:n]), "\n\n") {
			if strings.Contains(g, "shrex.(*Server).handleDataRequest") || strings.Contains(g, "shrex.(*Server).streamHandler") {
				left = g
			}
		}
		if left == "" || time.Now().After(deadline) {
			break
		}
		time.Sleep(100 * time.Millisecond)
	}
	if left != "" {
		rep.Violate("C09/handler-goroutine-left-behind", "a stream handler goroutine is still alive after all requests ended", map[string]any{"goroutine": left[:min(len(left), 4000)]})
	}
	rep.Set("goroutines_baseline", base)
	rep.Set("goroutines_end", runtime.NumGoroutine())

	// ---- the trace file for ShrexTrace.tla
	tracePath := filepath.Join(vh.WorkDir(), "shrex_trace.ndjson")
	tf, err := os.Create(tracePath)
	if err != nil {
		t.Fatalf("trace: %v", err)
	}
	defer tf.Close()
	lines := 0
	d.m.mu.Lock()
	for _, r := range d.m.runs {
		r.mu.Lock()
		if r.ended && r.ID != "unplanned" {
			// strip the fields the trace specification does not read
			evs := make([]event, len(r.Events))
			for i, e := range r.Events {
				ne := event{"ev": e["ev"]}
				for _, k := range []string{"ok", "res", "code", "recovered"} {
					if v, ok := e[k]; ok {
						ne[k] = v
					}
				}
				evs[i] = ne
			}
			b, _ := json.Marshal(map[string]any{"id": r.ID, "cls": r.Cls, "fault": r.Fault, "events": evs, "what": r.What})
			tf.Write(append(b, '\n')) //nolint:errcheck
			lines++
			if lines%97 == 1 {
				rep.Sample(map[string]any{"id": r.ID, "what": r.What, "cls": r.Cls, "fault": r.Fault, "events": r.Events})
			}
		} else if r.ID == "unplanned" {
			rep.Count("unplanned_runs", 1)
		}
		r.mu.Unlock()
	}
	d.m.mu.Unlock()
	rep.Set("trace", tracePath)
	rep.Set("trace_lines", lines)
	_ = network.ErrReset
}
