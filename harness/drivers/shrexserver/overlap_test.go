package shrexserver

import (
	"bytes"
	"context"
	"fmt"
	"io"
	"runtime"
	"time"

	"github.com/celestiaorg/celestia-node/share/shwap"

	"verifharness/shx"
)

// a few servable requests of every type for a stored block
func (d *driver) someRequests(ref *shx.Ref) []shx.Req {
	e, n := 2*ref.W, ref.W*ref.W
	out := []shx.Req{{Type: "eds"}}
	for _, k := range ref.PresentNamespaces() {
		out = append(out, shx.Req{Type: "nd", Ns: k})
	}
	for i := 0; i < 3; i++ {
		out = append(out, shx.Req{Type: "sample", Row: d.rng.Intn(e), Col: d.rng.Intn(e)}, shx.Req{Type: "row", Row: d.rng.Intn(e)})
	}
	cnt := 0
	for f := 0; f < n && cnt < 3; f++ {
		for t := n; t > f && cnt < 3; t-- {
			if ref.SingleNamespace(f, t) && ref.NsIdx[f] >= 0 {
				out = append(out, shx.Req{Type: "range", From: f, To: t})
				cnt++
				break
			}
		}
	}
	return out
}

type responder interface {
	ResponseReader(context.Context, shwap.Accessor) (io.Reader, error)
}

// aliasingProbe: the response of request A must not depend on what the server prepares next. For
// pairs (A, B) of requests of the same type (and across blocks) the response readers are built in the
// order A, B on one goroutine and only then A is read -- exactly what two overlapping handler runs do
// when A's requester reads slowly -- and A's bytes must still be A's honest reply.
func (d *driver) aliasingProbe() {
	prev := runtime.GOMAXPROCS(1) // one scheduler thread: per-thread caches (sync.Pool) are then shared for sure
	defer runtime.GOMAXPROCS(prev)
	ctx := context.Background()
	type item struct {
		ref *shx.Ref
		q   shx.Req
	}
	var items []item
	for _, ref := range d.refs {
		if ref.W > 4 {
			continue
		}
		for _, q := range d.someRequests(ref) {
			items = append(items, item{ref, q})
		}
	}
	prepare := func(it item) (io.Reader, io.Closer, error) {
		acc, err := d.st.GetByHeight(ctx, it.ref.Height)
		if err != nil {
			return nil, nil, err
		}
		id, err := it.ref.ID(it.q)
		if err != nil {
			acc.Close()
			return nil, nil, err
		}
		r, err := id.(responder).ResponseReader(ctx, acc)
		if err != nil {
			acc.Close()
			return nil, nil, err
		}
		return r, acc, nil
	}
	// the reference: the same response prepared and read alone (from the same kind of accessor: a block
	// served from files may legitimately answer with another half of a row than the in-memory square)
	honest := make([][]byte, len(items))
	for i, it := range items {
		r, c, err := prepare(it)
		if err != nil {
			d.rep.Inconclusivef("aliasing probe: %s: %v", it.q, err)
			return
		}
		h, err := io.ReadAll(r)
		c.Close()
		if err == nil {
			err = it.ref.DecodeAndCheck(it.q, h)
		}
		if err != nil {
			d.rep.Violate("C09/"+it.q.Type+"/valid/none/reply-does-not-verify-or-differs",
				fmt.Sprintf("w=%d %s: the response built by ResponseReader over the stored block fails the oracle: %v", it.ref.W, it.q, err), nil)
			return
		}
		honest[i] = h
	}
	for i, a := range items {
		for j, b := range items {
			if i == j || a.q.Type != b.q.Type {
				continue
			}
			ra, ca, err := prepare(a)
			if err != nil {
				d.rep.Inconclusivef("aliasing probe: %s: %v", a.q, err)
				return
			}
			rb, cb, err := prepare(b)
			if err != nil {
				ca.Close()
				d.rep.Inconclusivef("aliasing probe: %s: %v", b.q, err)
				return
			}
			gotA, errA := io.ReadAll(ra)
			gotB, errB := io.ReadAll(rb)
			ca.Close()
			cb.Close()
			d.rep.Count("aliasing_pairs", 1)
			if errA != nil || !bytes.Equal(gotA, honest[i]) {
				d.rep.Violate("C09/"+a.q.Type+"/valid/none/response-changes-when-another-request-is-prepared",
					fmt.Sprintf("w=%d %s: response prepared, then w=%d %s prepared, then the first one read: %d bytes (err=%v) that are not its honest reply (%d bytes); oracle on them: %v",
						a.ref.W, a.q, b.ref.W, b.q, len(gotA), errA, len(honest[i]), a.ref.DecodeAndCheck(a.q, gotA)),
					map[string]any{"a": a.q, "b": b.q, "wa": a.ref.W, "wb": b.ref.W})
			}
			if errB != nil || !bytes.Equal(gotB, honest[j]) {
				d.rep.Violate("C09/"+b.q.Type+"/valid/none/response-depends-on-previous-request",
					fmt.Sprintf("w=%d %s prepared after w=%d %s: %d bytes (err=%v) that are not its honest reply", b.ref.W, b.q, a.ref.W, a.q, len(gotB), errB),
					map[string]any{"a": a.q, "b": b.q})
			}
		}
	}
}

// overlappingRequests: request A's requester is slow (the handler's first stream write is held),
// meanwhile request B is served completely, then A is let go: both replies must be what was asked.
func (d *driver) overlappingRequests() {
	prev := runtime.GOMAXPROCS(1)
	defer runtime.GOMAXPROCS(prev)
	valid := func(t string) Class {
		return Class{Type: t, Bytes: "ok", Height: "stored", Bounds: "in", Mem: "fits", Serve: "yes"}
	}
	type item struct {
		ref *shx.Ref
		q   shx.Req
	}
	var items []item
	for _, ref := range []*shx.Ref{d.refs[1], d.refs[2]} {
		for _, q := range d.someRequests(ref) {
			items = append(items, item{ref, q})
		}
	}
	wire := func(it item) []byte {
		var ns []byte
		if it.q.Type == "nd" {
			ns = shx.NsOf(it.q.Ns).Bytes()
		}
		return encode(it.q.Type, it.ref.Height, it.q, ns)
	}
	pairs := 0
	for i, a := range items {
		for j, b := range items {
			if i == j || (a.q.Type != b.q.Type && d.rng.Intn(6) != 0) {
				continue
			}
			pairs++
			ra := d.m.expect(d.id(), valid(a.q.Type), "none", fmt.Sprintf("overlap: slow requester of w=%d %s", a.ref.W, a.q))
			ra.holdWrite, ra.atWrite = make(chan struct{}), make(chan struct{})
			type res struct {
				o   observed
				err error
			}
			ch := make(chan res, 1)
			go func() {
				o, err := d.rawRequest(protoOf(a.q.Type), wire(a))
				ch <- res{o, err}
			}()
			select {
			case <-ra.atWrite:
			case <-time.After(30 * time.Second):
				close(ra.holdWrite)
				d.rep.Inconclusivef("overlap: the handler of %s never reached its first write", a.q)
				<-ch
				continue
			}
			// B is served from start to end while A's handler waits
			d.one(valid(b.q.Type), "none", concrete{what: fmt.Sprintf("w=%d %s while w=%d %s waits for its slow requester", b.ref.W, b.q, a.ref.W, a.q),
				q: b.q, ref: b.ref, bytes: wire(b)}, "overlap")
			close(ra.holdWrite)
			r := <-ch
			select {
			case <-ra.done:
			case <-time.After(45 * time.Second):
				d.rep.Violate("C09/"+a.q.Type+"/valid/none/handler-does-not-terminate", "slow requester: handler still running 45 s after it was let go", nil)
				continue
			}
			d.rep.Count("overlapping_requests", 1)
			replay := map[string]any{"a": a.q, "b": b.q, "wa": a.ref.W, "wb": b.ref.W, "run": ra.ID}
			switch {
			case r.err != nil:
				d.rep.Violate("C09/"+a.q.Type+"/valid/none/requester-left-hanging", fmt.Sprintf("slow requester of %s: %v", a.q, r.err), replay)
			case r.o.Wire != "OK" || r.o.End != "closed":
				d.rep.Violate("C09/"+a.q.Type+"/valid/none/valid-request-not-served",
					fmt.Sprintf("w=%d %s (slow requester, w=%d %s served meanwhile): status=%s end=%s", a.ref.W, a.q, b.ref.W, b.q, r.o.Wire, r.o.End), replay)
			default:
				if e := a.ref.DecodeAndCheck(a.q, r.o.Payload); e != nil {
					d.rep.Violate("C09/"+a.q.Type+"/valid/none/reply-does-not-verify-or-differs",
						fmt.Sprintf("w=%d %s with a slow requester while w=%d %s was served: the decoded reply fails the oracle: %v", a.ref.W, a.q, b.ref.W, b.q, e), replay)
				} else {
					d.rep.Count("replies_verified", 1)
				}
			}
		}
	}
	d.rep.Count("overlapping_pairs", int64(pairs))
}
