package storerepr

import (
	"context"
	"encoding/json"
	"fmt"
	"math/rand"
	"os"
	"path/filepath"
	"runtime"
	"sort"
	"strings"
	"sync"
	"sync/atomic"
	"syscall"
	"testing"
	"time"

	"github.com/celestiaorg/celestia-node/share"
	"github.com/celestiaorg/celestia-node/share/eds"
	"github.com/celestiaorg/celestia-node/store"
	"github.com/celestiaorg/celestia-node/store/file"

	"verifharness/vh"
)

// ---------------------------------------------------------------------------------------------------
// what bin/check hands over: the behaviours and predictions TLC printed

// ObjAbs / Abs: StoreRepr!Abs, the abstract store state after every step of a behaviour.
type ObjAbs struct {
	Core  string `json:"core"`
	Q4    string `json:"q4"`
	Mem   bool   `json:"mem"`
	Level string `json:"level"`
}
type Abs struct {
	CfgR    bool   `json:"cfgR"`
	CfgS    bool   `json:"cfgS"`
	Ods     bool   `json:"ods"`
	Q4      bool   `json:"q4"`
	Link    bool   `json:"link"`
	Recent  ObjAbs `json:"recent"`
	Serving ObjAbs `json:"serving"`
	Held    struct {
		Open  bool   `json:"open"`
		Kind  string `json:"kind"`
		Which string `json:"which"`
		Obj   ObjAbs `json:"obj"`
	} `json:"held"`
}
type OpenPred struct {
	Found bool    `json:"found"`
	Via   string  `json:"via"`
	Obs   ObsPred `json:"obs"`
}
type PlainPred struct {
	Reader0     string `json:"reader0"`
	LowerRowPar bool   `json:"lowerRowPar"`
	LowerColPar bool   `json:"lowerColPar"`
	Q3axis      string `json:"q3axis"`
	Reader1     string `json:"reader1"`
}

// Pred: StoreRepr!Pred, the model's prediction for the probes run in the final state of a case.
type Pred struct {
	Has  bool `json:"has"`
	Held struct {
		Open bool    `json:"open"`
		Kind string  `json:"kind"`
		Obs  ObsPred `json:"obs"`
	} `json:"held"`
	Store    OpenPred  `json:"store"`
	Cached   OpenPred  `json:"cached"`
	Store2   OpenPred  `json:"store2"`
	Byhash   OpenPred  `json:"byhash"`
	Plainq4  PlainPred `json:"plainq4"`
	Plainods PlainPred `json:"plainods"`
	Disk     struct {
		Ods  bool `json:"ods"`
		Q4   bool `json:"q4"`
		Link bool `json:"link"`
	} `json:"disk"`
}

// Edge is one transition of the representation graph: a shortest history to its source state plus
// the action, the abstract state after every step (trail[0] = initial) and the predictions.
type Edge struct {
	Hist  []string `json:"hist"`
	Empty bool     `json:"empty"`
	Trail []Abs    `json:"trail"`
	Pred  Pred     `json:"pred"`
}

type Input struct {
	Edges   []*Edge   `json:"edges"`
	Layouts []*Layout `json:"layouts"`
}

// ---------------------------------------------------------------------------------------------------

const (
	heightH     = 7 // the block under test
	heightEvR   = 8 // another block, put to push the block out of the recent cache
	heightEvS   = 9 // another block, opened through the CachedStore to push it out of the serving cache
	caseTimeout = 150 * time.Second
)

type caseDef struct {
	ID     int
	Kind   string // "edge", "layout", "wide"
	Edge   *Edge
	Layout *Layout
	Seed   int64
	Extras bool // also probe the plain cores and the single wrappers
}

type caseRun struct {
	*caseDef
	rep      *vh.Report
	counters map[string]int64
	drifts   int
	blk      *Block
	dir      string
	st       *store.Store
	cs       *store.CachedStore
	getter   *store.Getter
	held     eds.AccessorStreamer
	step     int
	rng      *rand.Rand
	ctx      context.Context
	aborted  bool
	// The accessor cache force-closes an evicted accessor whose references were not released within
	// one minute (store/cache/accessor_cache.go, defaultCloseTimeout). A held reference to an evicted
	// accessor is therefore only read while that grace period cannot have expired (DESIGN.md §11: the
	// close time-out is C08's, not modelled here); a case that would cross it is given up, not judged.
	heldEvictedAt time.Time
}

const graceLimit = 35 * time.Second

func (c *caseRun) graceExpired() bool {
	return c.held != nil && !c.heldEvictedAt.IsZero() && time.Since(c.heldEvictedAt) > graceLimit
}

func (c *caseRun) count(k string, n int64) { c.counters[k] += n }

func (c *caseRun) describe() map[string]any {
	l := map[string]any{"k": c.Layout.K, "pad": c.Layout.Pad, "empty": c.Layout.Empty, "wide": c.Layout.Wide}
	if !c.Layout.Wide {
		l["ns"] = c.Layout.Ns
	}
	cfgR, cfgS := false, false
	if len(c.Edge.Trail) > 0 {
		cfgR, cfgS = c.Edge.Trail[0].CfgR, c.Edge.Trail[0].CfgS
	}
	return map[string]any{"case": c.ID, "kind": c.Kind, "hist": c.Edge.Hist, "step": c.step, "recentCache": cfgR,
		"servingCache": cfgS, "layout": l, "seed": c.Seed}
}

func (c *caseRun) violate(sig, what string) {
	if c.graceExpired() && strings.Contains(what, "accessor is closed") {
		if !c.aborted {
			c.count("cases_given_up_cache_grace_period", 1)
		}
		c.aborted = true
		return
	}
	c.count("violations", 1)
	c.rep.Violate(sig, fmt.Sprintf("%s [history %v, step %d, %v, recent cache %v, serving cache %v]", what,
		c.Edge.Hist, c.step, c.Layout, c.Edge.Trail[0].CfgR, c.Edge.Trail[0].CfgS), c.describe())
}

// drift: the code behaves differently from the model without the property being violated:
// conformance drift makes the run inconclusive, never a violation.
func (c *caseRun) drift(f string, a ...any) {
	c.drifts++
	c.count("conformance_drift", 1)
	if c.drifts <= 3 {
		c.rep.Inconclusivef("conformance drift (model vs code): "+f+fmt.Sprintf(" [history %v step %d %v]", c.Edge.Hist, c.step, c.Layout), a...)
	}
}

func (c *caseRun) harness(f string, a ...any) {
	c.aborted = true
	c.count("harness_errors", 1)
	c.rep.Inconclusivef("harness: "+f+fmt.Sprintf(" [history %v step %d %v]", c.Edge.Hist, c.step, c.Layout), a...)
}

func recoverRun(f func()) (bool, string) { return vh.Recover(f) }

func firstLines(s string, n int) string {
	ls := strings.Split(s, "\n")
	if len(ls) > n {
		ls = ls[:n]
	}
	return strings.Join(ls, " | ")
}

func (c *caseRun) oracle() *oracle { return &oracle{c: c, blk: c.blk, rng: c.rng, ctx: c.ctx} }

// ---------------------------------------------------------------------------------------------------
// the real store

var (
	evBlocks     [2]*Block
	evBlocksOnce sync.Once
)

func evictionBlocks() [2]*Block {
	evBlocksOnce.Do(func() {
		for i := range evBlocks {
			b, err := BuildBlock(&Layout{K: 1, Ns: []int{4 + i}}, int64(991+i))
			if err != nil {
				panic(err)
			}
			evBlocks[i] = b
		}
	})
	return evBlocks
}

func (c *caseRun) openStore() bool {
	cfg := c.Edge.Trail[0]
	size := 0
	if cfg.CfgR {
		size = 1
	}
	st, err := store.NewStore(&store.Parameters{RecentBlocksCacheSize: size}, c.dir)
	if err != nil {
		c.harness("NewStore: %v", err)
		return false
	}
	c.st, c.cs = st, nil
	if cfg.CfgS {
		cs, err := st.WithCache("serving", 1)
		if err != nil {
			c.harness("WithCache: %v", err)
			return false
		}
		c.cs = cs
	}
	c.getter = store.NewGetter(st)
	return true
}

func (c *caseRun) pathODS(b *Block) string {
	return filepath.Join(c.dir, "blocks", b.Hash.String()+".ods")
}
func (c *caseRun) pathQ4(b *Block) string {
	return filepath.Join(c.dir, "blocks", b.Hash.String()+".q4")
}
func (c *caseRun) pathLink(h uint64) string {
	return filepath.Join(c.dir, "blocks", "heights", fmt.Sprintf("%d.ods", h))
}

func exists(p string) bool { _, err := os.Lstat(p); return err == nil }

// checkDisk compares the files with the model's disk state (format level: sizes as specified).
func (c *caseRun) checkDisk(a Abs) {
	b := c.blk
	ods, q4, link := exists(c.pathODS(b)), exists(c.pathQ4(b)), exists(c.pathLink(heightH))
	if ods != a.Ods || q4 != a.Q4 || link != a.Link {
		c.drift("files on disk ods=%v q4=%v link=%v, the model says ods=%v q4=%v link=%v", ods, q4, link, a.Ods, a.Q4, a.Link)
		return
	}
	c.count("disk_matched", 1)
	const hdr = 65
	if ods {
		want := int64(hdr + 2*b.W*share.AxisRootSize + b.nfile()*512)
		if fi, err := os.Stat(c.pathODS(b)); err == nil && fi.Size() != want {
			c.drift("ODS file has %d bytes; the specified format (header, roots, shares up to the first tail padding share) has %d", fi.Size(), want)
		}
	}
	if q4 {
		want := int64(b.K * b.K * 512)
		if fi, err := os.Stat(c.pathQ4(b)); err == nil && fi.Size() != want {
			c.drift("Q4 file has %d bytes; the specified format has %d", fi.Size(), want)
		}
	}
}

func objTag(o ObjAbs) string {
	switch {
	case o.Core == "mem":
		return "wrapped:mem"
	case o.Q4 == "open":
		return "wrapped:odsq4:q4file"
	case o.Q4 == "none":
		return "wrapped:odsq4:recompute"
	}
	return "wrapped:odsq4:unopened"
}

func obsTag(p ObsPred) string {
	switch {
	case p.Core == "mem":
		return "wrapped:mem"
	case p.LowerRowPar:
		return "wrapped:odsq4:q4file"
	}
	return "wrapped:odsq4:recompute"
}

func objObs(o ObjAbs) *ObsPred {
	par := o.Core == "odsq4" && o.Q4 == "open"
	return &ObsPred{LowerRowPar: par, LowerColPar: par, Q3axis: "row", Reader: "sharereader", Core: o.Core}
}

func (c *caseRun) warmFrac() float64 {
	if c.Layout.Wide {
		return 0.15
	}
	if c.Layout.K >= 4 {
		return 0.25
	}
	return 0.5
}

// doStep performs one action of the behaviour on the real store. after = the model's state after it.
func (c *caseRun) doStep(a string, before, after Abs) {
	b := c.blk
	c.count("action_"+a, 1)
	if c.held != nil && c.heldEvictedAt.IsZero() && before.Held.Open && before.Held.Kind == "ref" &&
		before.Held.Which != "own" && after.Held.Open && after.Held.Which == "own" {
		c.heldEvictedAt = time.Now() // this step takes the held accessor out of its cache
	}
	if a == "CloseHeld" || a == "HoldStore" || a == "HoldCached" {
		c.heldEvictedAt = time.Time{}
	}
	switch a {
	case "PutODSQ4":
		if err := c.st.PutODSQ4(c.ctx, b.Roots, heightH, b.EDS); err != nil {
			c.harness("PutODSQ4: %v", err)
		}
	case "PutODS":
		if err := c.st.PutODS(c.ctx, b.Roots, heightH, b.EDS); err != nil {
			c.harness("PutODS: %v", err)
		}
	case "Reopen":
		c.openStore()
	case "RemoveQ4":
		if err := c.st.RemoveQ4(c.ctx, heightH, b.Hash); err != nil {
			c.harness("RemoveQ4: %v", err)
		}
	case "RemoveODSQ4":
		if err := c.st.RemoveODSQ4(c.ctx, heightH, b.Hash); err != nil {
			c.harness("RemoveODSQ4: %v", err)
		}
	case "EvictRecent":
		ev := evictionBlocks()[0]
		if err := c.st.PutODS(c.ctx, ev.Roots, heightEvR, ev.EDS); err != nil {
			c.harness("EvictRecent (put of another height): %v", err)
		}
	case "EvictServing":
		// the other block's files are created directly in the documented layout, so that it is never
		// in the recent cache: CachedStore.GetByHeight then loads it into the serving cache (size 1)
		ev := evictionBlocks()[1]
		if !exists(c.pathODS(ev)) {
			if err := file.CreateODSQ4(c.pathODS(ev), c.pathQ4(ev), ev.Roots, ev.EDS); err != nil {
				c.harness("EvictServing (create files): %v", err)
				return
			}
		}
		if !exists(c.pathLink(heightEvS)) {
			if err := os.Link(c.pathODS(ev), c.pathLink(heightEvS)); err != nil {
				c.harness("EvictServing (link): %v", err)
				return
			}
		}
		acc, err := c.cs.GetByHeight(c.ctx, heightEvS)
		if err != nil {
			c.harness("EvictServing (open): %v", err)
			return
		}
		_ = acc.Close()
	case "HoldStore":
		acc, err := c.st.GetByHeight(c.ctx, heightH)
		if err != nil {
			c.violate("C05/open/notfound/store", fmt.Sprintf("Store.GetByHeight of a stored block: %v", err))
			c.aborted = true
			return
		}
		c.held = acc
	case "HoldCached":
		acc, err := c.cs.GetByHeight(c.ctx, heightH)
		if err != nil {
			c.violate("C05/open/notfound/cachedstore", fmt.Sprintf("CachedStore.GetByHeight of a stored block: %v", err))
			c.aborted = true
			return
		}
		c.held = acc
	case "ReadUpperHeld", "ReadAllHeld":
		c.oracle().readAll(c.held, readOpts{path: "held accessor", tag: objTag(after.Held.Obj), validated: true,
			upperOnly: a == "ReadUpperHeld", pred: objObs(after.Held.Obj), warmFrac: c.warmFrac()})
	case "CloseHeld":
		if err := c.held.Close(); err != nil {
			c.drift("Close of the held accessor: %v", err)
		}
		if before.Held.Kind == "owned" {
			c.oracle().afterClose(c.held, readOpts{path: "closed accessor", tag: objTag(before.Held.Obj)}, before.Held.Obj.Level != "cold")
		}
		c.held = nil
	case "GetterReadAll":
		o := before.Recent
		if o.Core == "none" {
			o = before.Serving
		}
		tag := "getter:file"
		if o.Core != "none" {
			tag = "getter:" + o.Core
		}
		c.oracle().getter(c.getter, heightH, readOpts{path: "store.Getter", tag: tag}, true)
	case "CachedReadUpper", "CachedReadAll":
		acc, err := c.cs.GetByHeight(c.ctx, heightH)
		if err != nil {
			c.violate("C05/open/notfound/cachedstore", fmt.Sprintf("CachedStore.GetByHeight of a stored block: %v", err))
			c.aborted = true
			return
		}
		o := after.Recent
		if o.Core == "none" {
			o = after.Serving
		}
		c.oracle().readAll(acc, readOpts{path: "CachedStore.GetByHeight", tag: objTag(o), validated: true,
			upperOnly: a == "CachedReadUpper", pred: objObs(o), warmFrac: c.warmFrac()})
		_ = acc.Close()
	default:
		c.harness("unknown action %q", a)
	}
}

// probe runs, in the final state of the case, the fixed sequence of probes for which the model gives
// predictions (StoreRepr!Pred): every way of opening the block, all read paths, all arguments.
func (c *caseRun) probe() {
	p := &c.Edge.Pred
	b := c.blk
	o := c.oracle()
	wf := c.warmFrac()

	has, err := c.st.HasByHeight(c.ctx, heightH)
	if err != nil || has != p.Has {
		c.drift("HasByHeight = %v, %v; the model says %v", has, err, p.Has)
	}
	if c.cs != nil {
		if h2, err := c.cs.HasByHeight(c.ctx, heightH); err != nil || h2 != p.Has {
			c.drift("CachedStore.HasByHeight = %v, %v; the model says %v", h2, err, p.Has)
		}
	}
	if p.Held.Open && c.held != nil {
		o.readAll(c.held, readOpts{path: "held accessor", tag: obsTag(p.Held.Obs), validated: true, pred: &p.Held.Obs, warmFrac: wf})
	}
	first := true
	open := func(name string, get func() (eds.AccessorStreamer, error), op *OpenPred, sigpath string) {
		acc, err := get()
		if err != nil {
			if op.Found {
				c.violate("C05/open/notfound/"+sigpath, fmt.Sprintf("%s of a stored block: %v", name, err))
			} else {
				c.count("notfound_matched", 1)
			}
			return
		}
		if !op.Found {
			c.drift("%s finds the block; the model says it is not stored", name)
		}
		pred := &op.Obs
		tag := obsTag(op.Obs)
		if !op.Found {
			pred, tag = nil, "wrapped:unknown"
		}
		c.count("open_"+sigpath+"_"+op.Via, 1)
		o.readAll(acc, readOpts{path: name, tag: tag, validated: true, pred: pred, warmFrac: wf, fewRanges: !first})
		first = false
		if err := acc.Close(); err != nil {
			c.drift("%s: Close: %v", name, err)
		}
		if op.Found && op.Via == "file" {
			o.afterClose(acc, readOpts{path: name + " (closed)", tag: tag}, true)
		}
	}
	open("Store.GetByHeight", func() (eds.AccessorStreamer, error) { return c.st.GetByHeight(c.ctx, heightH) }, &p.Store, "store")
	gtag := "getter:" + p.Store.Via
	o.getter(c.getter, heightH, readOpts{path: "store.Getter", tag: gtag}, p.Store.Found)
	if c.cs != nil {
		open("CachedStore.GetByHeight", func() (eds.AccessorStreamer, error) { return c.cs.GetByHeight(c.ctx, heightH) }, &p.Cached, "cachedstore")
		open("Store.GetByHeight (second)", func() (eds.AccessorStreamer, error) { return c.st.GetByHeight(c.ctx, heightH) }, &p.Store2, "store")
	}
	// by hash: never a cache
	switch p.Byhash.Via {
	case "none":
		if acc, err := c.st.GetByHash(c.ctx, b.Hash); err == nil {
			c.drift("Store.GetByHash finds the block; the model says there is no file")
			_ = acc.Close()
		}
	case "emptymem":
		// the empty block by hash: the in-memory square, wrapped (bounds validation) like all the others
		acc, err := c.st.GetByHash(c.ctx, b.Hash)
		if err != nil {
			c.violate("C05/open/notfound/byhash", fmt.Sprintf("Store.GetByHash of the empty block: %v", err))
		} else {
			c.count("open_byhash_empty", 1)
			o.readAll(acc, readOpts{path: "Store.GetByHash (empty block)", tag: "byhash:emptyblock", validated: true, pred: &p.Byhash.Obs, warmFrac: wf})
			_ = acc.Close()
		}
	case "file":
		acc, err := c.st.GetByHash(c.ctx, b.Hash)
		if err != nil {
			c.violate("C05/open/notfound/byhash", fmt.Sprintf("Store.GetByHash of a stored block: %v", err))
		} else {
			c.count("open_byhash_file", 1)
			o.readAll(acc, readOpts{path: "Store.GetByHash", tag: obsTag(p.Byhash.Obs), validated: true, pred: &p.Byhash.Obs, warmFrac: wf, fewRanges: true})
			_ = acc.Close()
		}
	}
	if c.Extras {
		c.probePlain()
	}
}

// probePlain reads the files through the plain cores (file.ODS, file.ODSQ4, eds.Rsmt2D) and through
// each wrapper on its own: the representations below the store's accessor stack.
func (c *caseRun) probePlain() {
	p := &c.Edge.Pred
	b := c.blk
	o := c.oracle()
	wf := c.warmFrac()
	mem := &eds.Rsmt2D{ExtendedDataSquare: b.EDS}
	o.readAll(mem, readOpts{path: "eds.Rsmt2D", tag: "plain:mem", plain: true, reader0: "sharereader", reader1: "sharereader",
		pred: &ObsPred{Q3axis: "row", Core: "mem"}, warmFrac: wf})
	c.count("plain_mem", 1)
	if !p.Disk.Ods {
		return
	}
	openODS := func() *file.ODS {
		f, err := file.OpenODS(c.pathODS(b))
		if err != nil {
			c.violate("C05/open/notfound/plain", fmt.Sprintf("file.OpenODS of the stored block's file: %v", err))
			return nil
		}
		return f
	}
	q4tag := "plain:odsq4:recompute"
	if p.Plainq4.LowerRowPar {
		q4tag = "plain:odsq4:q4file"
	}
	if f := openODS(); f != nil {
		pp := p.Plainods
		o.readAll(f, readOpts{path: "file.ODS", tag: "plain:ods", plain: true, reader0: pp.Reader0, reader1: pp.Reader1,
			pred: &ObsPred{LowerRowPar: pp.LowerRowPar, LowerColPar: pp.LowerColPar, Q3axis: pp.Q3axis, Core: "ods"}, warmFrac: wf})
		_ = f.Close()
		c.count("plain_ods", 1)
	}
	if f := openODS(); f != nil {
		pp := p.Plainq4
		acc := file.ODSWithQ4(f, c.pathQ4(b))
		o.readAll(acc, readOpts{path: "file.ODSQ4", tag: q4tag, plain: true, reader0: pp.Reader0, reader1: pp.Reader1,
			pred: &ObsPred{LowerRowPar: pp.LowerRowPar, LowerColPar: pp.LowerColPar, Q3axis: pp.Q3axis, Core: "odsq4"}, warmFrac: wf})
		_ = acc.Close()
		c.count("plain_odsq4", 1)
	}
	// single wrappers over a fresh ODSQ4
	pq := &ObsPred{LowerRowPar: p.Plainq4.LowerRowPar, LowerColPar: p.Plainq4.LowerColPar, Q3axis: "row", Reader: "sharereader", Core: "odsq4"}
	if f := openODS(); f != nil {
		inner := file.ODSWithQ4(f, c.pathQ4(b))
		acc := eds.WithProofsCache(inner)
		o.readAll(acc, readOpts{path: "proof cache over file.ODSQ4", tag: "proofscache:" + q4tag, plain: true, pred: pq,
			reader0: "sharereader", reader1: "sharereader", warmFrac: 0.6})
		_ = acc.Close()
		c.count("wrapper_proofscache", 1)
	}
	if f := openODS(); f != nil {
		inner := file.ODSWithQ4(f, c.pathQ4(b))
		acc := eds.AccessorAndStreamer(eds.WithValidation(inner), inner)
		pv := *pq
		pv.Reader = p.Plainq4.Reader0
		o.readAll(acc, readOpts{path: "validation over file.ODSQ4", tag: "validation:" + q4tag, validated: true, pred: nil, warmFrac: 0})
		_ = inner.Close()
		c.count("wrapper_validation", 1)
	}
	if f := openODS(); f != nil {
		inner := file.ODSWithQ4(f, c.pathQ4(b))
		acc := eds.WithClosedOnce(inner)
		o.readAll(acc, readOpts{path: "close-once over file.ODSQ4", tag: "closeonce:" + q4tag, plain: true, pred: nil, warmFrac: 0})
		_ = acc.Close()
		o.afterClose(acc, readOpts{path: "close-once over file.ODSQ4 (closed)", tag: "closeonce:" + q4tag}, false)
		c.count("wrapper_closeonce", 1)
	}
}

func (c *caseRun) run() {
	var err error
	c.rng = rand.New(rand.NewSource(c.Seed))
	c.blk, err = BuildBlock(c.Layout, c.Seed)
	if err != nil {
		c.harness("building the square: %v", err)
		return
	}
	c.dir, err = os.MkdirTemp(vh.WorkDir(), "c05case")
	if err != nil {
		c.harness("scratch directory: %v", err)
		return
	}
	defer os.RemoveAll(c.dir)
	ctx, cancel := context.WithTimeout(context.Background(), caseTimeout)
	defer cancel()
	c.ctx = ctx
	if !c.openStore() {
		return
	}
	defer func() {
		if c.held != nil {
			_ = c.held.Close()
		}
	}()
	tr := c.Edge.Trail
	for i, a := range c.Edge.Hist {
		c.step = i + 1
		if c.graceExpired() {
			c.count("cases_given_up_cache_grace_period", 1)
			return
		}
		c.doStep(a, tr[i], tr[i+1])
		if c.aborted {
			return
		}
		c.checkDisk(tr[i+1])
	}
	c.step = len(c.Edge.Hist) + 1
	if c.graceExpired() {
		c.count("cases_given_up_cache_grace_period", 1)
		return
	}
	c.probe()
}

// ---------------------------------------------------------------------------------------------------

func raiseFdLimit() {
	var l syscall.Rlimit
	if syscall.Getrlimit(syscall.RLIMIT_NOFILE, &l) == nil && l.Cur < l.Max {
		l.Cur = l.Max
		_ = syscall.Setrlimit(syscall.RLIMIT_NOFILE, &l)
	}
}

func TestDriver(t *testing.T) {
	rep := vh.NewReport()
	defer func() {
		if err := rep.Write(); err != nil {
			t.Fatal(err)
		}
	}()
	raiseFdLimit()
	var in Input
	if err := vh.ReadJSON(vh.Env("VERIF_CASES", ""), &in); err != nil {
		t.Fatalf("reading VERIF_CASES: %v", err)
	}
	seed := vh.Seed()
	rng := rand.New(rand.NewSource(seed))
	budget := time.Duration(vh.EnvInt("VERIF_BUDGET", 150)) * time.Second
	perLayout := vh.EnvInt("VERIF_PER_LAYOUT", 4)
	nWide := vh.EnvInt("VERIF_WIDE", 24)
	edgeFrac := vh.EnvInt("VERIF_EDGE_PERCENT", 100)
	edgeRepeat := vh.EnvInt("VERIF_EDGE_REPEAT", 1)
	workers := vh.EnvInt("VERIF_WORKERS", runtime.GOMAXPROCS(0))

	var emptyL *Layout
	byK := map[int][]*Layout{}
	for _, l := range in.Layouts {
		if l.Empty {
			emptyL = l
			continue
		}
		byK[l.K] = append(byK[l.K], l)
	}
	if emptyL == nil || len(byK[1]) == 0 || len(byK[2]) == 0 || len(byK[4]) == 0 {
		t.Fatalf("layouts missing: empty=%v k1=%d k2=%d k4=%d", emptyL != nil, len(byK[1]), len(byK[2]), len(byK[4]))
	}
	var nonEmptyEdges, emptyEdges []*Edge
	for _, e := range in.Edges {
		if len(e.Trail) != len(e.Hist)+1 {
			t.Fatalf("edge %v: trail of %d states for %d steps", e.Hist, len(e.Trail), len(e.Hist))
		}
		if e.Empty {
			emptyEdges = append(emptyEdges, e)
		} else {
			nonEmptyEdges = append(nonEmptyEdges, e)
		}
	}
	pickLayout := func() *Layout {
		x := rng.Intn(100)
		k := 2
		switch {
		case x < 20:
			k = 1
		case x >= 80:
			k = 4
		}
		return byK[k][rng.Intn(len(byK[k]))]
	}
	var cases []*caseDef
	add := func(kind string, e *Edge, l *Layout, extras bool) {
		cases = append(cases, &caseDef{ID: len(cases), Kind: kind, Edge: e, Layout: l, Seed: seed*1_000_003 + int64(len(cases)), Extras: extras})
	}
	// (A) every transition of the representation graph, on a seeded layout
	for rep := 0; rep < edgeRepeat; rep++ {
		for _, e := range in.Edges {
			if rng.Intn(100) >= edgeFrac || (rep > 0 && e.Empty) {
				continue
			}
			if e.Empty {
				add("edge", e, emptyL, rng.Intn(6) == 0)
			} else {
				add("edge", e, pickLayout(), rng.Intn(6) == 0)
			}
		}
	}
	// (B) every layout, on a few seeded behaviours (always with the plain cores and single wrappers)
	for _, l := range in.Layouts {
		pool := nonEmptyEdges
		if l.Empty {
			pool = emptyEdges
		}
		for i := 0; i < perLayout; i++ {
			add("layout", pool[rng.Intn(len(pool))], l, i == 0)
		}
	}
	// (C) beyond the exhaustive bound: EDS widths 16..64, seeded layouts, sampled arguments
	for i := 0; i < nWide; i++ {
		k := []int{8, 16, 32}[i%3]
		add("wide", nonEmptyEdges[rng.Intn(len(nonEmptyEdges))], nil, i%2 == 0)
		c := cases[len(cases)-1]
		c.Layout = WideLayout(k, rand.New(rand.NewSource(c.Seed)))
	}
	// replay of one recorded case (bin/check --replay): same behaviour, layout and seed
	if rp := vh.Env("VERIF_REPLAY_CASE", ""); rp != "" {
		var r struct {
			Kind   string `json:"kind"`
			Seed   int64  `json:"seed"`
			Layout struct {
				K     int   `json:"k"`
				Ns    []int `json:"ns"`
				Wide  bool  `json:"wide"`
				Empty bool  `json:"empty"`
			} `json:"layout"`
		}
		if err := json.Unmarshal([]byte(rp), &r); err != nil {
			t.Fatalf("VERIF_REPLAY_CASE: %v", err)
		}
		var l *Layout
		if r.Layout.Wide {
			l = WideLayout(r.Layout.K, rand.New(rand.NewSource(r.Seed)))
		} else {
			for _, x := range in.Layouts {
				if x.K == r.Layout.K && fmt.Sprint(x.Ns) == fmt.Sprint(r.Layout.Ns) {
					l = x
				}
			}
		}
		if l == nil {
			t.Fatalf("replay: layout %+v unknown", r.Layout)
		}
		cases = nil
		for _, e := range in.Edges {
			cases = append(cases, &caseDef{ID: len(cases), Kind: "replay", Edge: e, Layout: l, Seed: r.Seed, Extras: true})
		}
	}
	if vh.Env("VERIF_SELFTEST", "") != "" {
		// self-test of the binding: predict the opposite side for the lower half everywhere; the
		// comparison with the real outcome has to notice (reported as conformance drift)
		for _, e := range in.Edges {
			for _, o := range []*ObsPred{&e.Pred.Store.Obs, &e.Pred.Cached.Obs, &e.Pred.Store2.Obs, &e.Pred.Held.Obs, &e.Pred.Byhash.Obs} {
				o.LowerRowPar, o.LowerColPar = !o.LowerRowPar, !o.LowerColPar
			}
			e.Pred.Has = !e.Pred.Has
		}
	}
	rng.Shuffle(len(cases), func(i, j int) { cases[i], cases[j] = cases[j], cases[i] })
	// wide cases are long: start them first
	// ... and the few "nothing stored yet" cases, so that they are never lost to the time budget
	prio := func(c *caseDef) int {
		switch {
		case c.Kind == "wide":
			return 0
		case len(c.Edge.Hist) == 0:
			return 1
		}
		return 2
	}
	sort.SliceStable(cases, func(i, j int) bool { return prio(cases[i]) < prio(cases[j]) })

	start := time.Now()
	var next, done, skipped int64
	var mu sync.Mutex
	total := map[string]int64{}
	kinds := map[string]int64{}
	var wg sync.WaitGroup
	for w := 0; w < workers; w++ {
		wg.Add(1)
		go func() {
			defer wg.Done()
			for {
				i := int(atomic.AddInt64(&next, 1)) - 1
				if i >= len(cases) {
					return
				}
				if time.Since(start) > budget {
					atomic.AddInt64(&skipped, 1)
					continue
				}
				c := &caseRun{caseDef: cases[i], rep: rep, counters: map[string]int64{}}
				ok, dump := vh.WithWatchdog(caseTimeout+30*time.Second, func() {
					if p, v := vh.Recover(c.run); p {
						c.harness("driver panic: %s", firstLines(v, 15))
					}
				})
				if !ok {
					rep.Inconclusivef("case %d (%v on %v) did not finish within %v: %s", c.ID, c.Edge.Hist, c.Layout, caseTimeout, firstLines(dump, 30))
				}
				mu.Lock()
				for k, v := range c.counters {
					total[k] += v
				}
				kinds["cases_"+c.Kind]++
				kinds[fmt.Sprintf("cases_k%d", c.Layout.K)]++
				if c.Layout.Empty {
					kinds["cases_emptyblock"]++
				}
				mu.Unlock()
				if n := atomic.AddInt64(&done, 1); n%200 == 0 {
					runtime.GC()
				}
			}
		}()
	}
	wg.Wait()
	for k, v := range total {
		rep.Count(k, v)
	}
	for k, v := range kinds {
		rep.Count(k, v)
	}
	rep.Count("cases_total", int64(len(cases)))
	rep.Count("cases_run", done)
	rep.Count("cases_skipped_budget", skipped)
	rep.Set("wall_s", time.Since(start).Seconds())
	rep.Set("edges_in", len(in.Edges))
	rep.Set("layouts_in", len(in.Layouts))
	for i := 0; i < 4 && i < len(cases); i++ {
		c := cases[i]
		rep.Sample(map[string]any{"kind": c.Kind, "hist": c.Edge.Hist, "layout": c.Layout.String(), "pred_store_via": c.Edge.Pred.Store.Via})
	}
	b, _ := json.Marshal(total)
	t.Logf("cases run %d of %d (skipped %d) in %v; %s", done, len(cases), skipped, time.Since(start), b)
}
