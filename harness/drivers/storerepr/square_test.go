// Package storerepr is the driver of property C05 (every way of reading a stored block returns
// exactly the block that was stored). It replays the behaviours of spec/store/StoreRepr.tla on a real
// store.Store / CachedStore / store.Getter and runs all read paths over all arguments in every state.
package storerepr

import (
	"bytes"
	"fmt"
	"math/rand"
	"sort"

	"github.com/celestiaorg/celestia-app/v9/pkg/wrapper"
	libshare "github.com/celestiaorg/go-square/v4/share"
	"github.com/celestiaorg/rsmt2d"

	"github.com/celestiaorg/celestia-node/share"
)

// Namespaces of the specification (SRSquare.tla): small integers mapped monotonically to real ones.
//
//	1 Tx (reserved)  2 PayForBlob (reserved)  3 primary reserved padding  4..7 user namespaces
//	8 tail padding   9 parity
const (
	nsTP  = 8
	nsPAR = 9
)

var nsTable [10]libshare.Namespace

func userNs(n uint16) libshare.Namespace {
	id := make([]byte, libshare.NamespaceVersionZeroIDSize)
	id[len(id)-2] = byte(n >> 8)
	id[len(id)-1] = byte(n)
	return libshare.MustNewV0Namespace(id)
}

func init() {
	nsTable[1] = libshare.TxNamespace
	nsTable[2] = libshare.PayForBlobNamespace
	nsTable[3] = libshare.PrimaryReservedPaddingNamespace
	nsTable[4] = userNs(0x0100)
	nsTable[5] = userNs(0x0200)
	nsTable[6] = userNs(0x0300)
	nsTable[7] = userNs(0x0400)
	nsTable[8] = libshare.TailPaddingNamespace
	nsTable[9] = libshare.ParitySharesNamespace
	for i := 1; i < 9; i++ {
		if !nsTable[i].IsLessThan(nsTable[i+1]) {
			panic("namespace table not ascending")
		}
	}
}

// Layout is a LAYOUT record printed by TLC (spec/store/SRObject.tla, PrintLayout): the abstract square
// and the layout-dependent part of the model's predictions.
type Layout struct {
	K      int      `json:"k"`
	Ns     []int    `json:"ns"`     // namespace of every ODS cell, row-major (8 = tail padding)
	Pad    int      `json:"pad"`    // number of tail padding shares
	Empty  bool     `json:"empty"`  // the empty block
	Nfile  int      `json:"nfile"`  // number of shares the ODS file holds
	Nd     [][]int  `json:"nd"`     // [ns-1][row]: -2 invalid namespace, -1 outside the row's range, n>=0 shares
	Ndrows [][]int  `json:"ndrows"` // [ns-1]: rows eds.NamespaceData returns ([-1] = rejected)
	Ranges [][2]int `json:"ranges"` // the [from,to) ranges that are served (single namespace)

	Wide   bool                 `json:"wide,omitempty"` // beyond the exhaustive bound: no model table
	wideNs []libshare.Namespace // namespaces of a wide square's cells
	rngOK  map[[2]int]bool
}

func (l *Layout) String() string {
	if l.Wide {
		return fmt.Sprintf("k=%d wide pad=%d", l.K, l.Pad)
	}
	return fmt.Sprintf("k=%d ns=%v", l.K, l.Ns)
}

func (l *Layout) rangeServed(from, to int) bool {
	if l.rngOK == nil {
		l.rngOK = map[[2]int]bool{}
		for _, r := range l.Ranges {
			l.rngOK[r] = true
		}
	}
	return l.rngOK[[2]int{from, to}]
}

// Probe is a namespace asked for.
type Probe struct {
	ID int // specification namespace (1..9), 0 for the namespaces of wide squares
	Ns libshare.Namespace
}

// Block is a real square built from a layout, with everything the oracle needs.
type Block struct {
	L      *Layout
	K, W   int
	EDS    *rsmt2d.ExtendedDataSquare
	Roots  *share.AxisRoots
	Hash   share.DataHash
	cells  [][]byte // W*W, row-major
	odsNs  []libshare.Namespace
	Probes []Probe
	Seed   int64
}

func mkShare(ns libshare.Namespace, rng *rand.Rand) libshare.Share {
	b := make([]byte, libshare.ShareSize)
	copy(b, ns.Bytes())
	rng.Read(b[libshare.NamespaceSize:])
	s, err := libshare.NewShare(b)
	if err != nil {
		panic(err)
	}
	return s
}

// BuildBlock materialises the layout: namespaces -> real namespaces, payloads -> seeded random bytes,
// tail padding -> the real tail padding share; then the real rsmt2d extension and roots.
func BuildBlock(l *Layout, seed int64) (*Block, error) {
	k := l.K
	b := &Block{L: l, K: k, W: 2 * k, Seed: seed}
	if l.Empty {
		b.EDS = share.EmptyEDS()
		b.Roots = share.EmptyEDSRoots()
	} else {
		rng := rand.New(rand.NewSource(seed*1000003 + int64(k)*7919 + int64(l.Pad)))
		shares := make([]libshare.Share, k*k)
		for i := range shares {
			var ns libshare.Namespace
			if l.Wide {
				ns = l.wideNs[i]
			} else {
				ns = nsTable[l.Ns[i]]
			}
			if ns.Equals(libshare.TailPaddingNamespace) {
				shares[i] = libshare.TailPaddingShare()
			} else {
				shares[i] = mkShare(ns, rng)
			}
		}
		sq, err := rsmt2d.ComputeExtendedDataSquare(libshare.ToBytes(shares), share.DefaultRSMT2DCodec(), wrapper.NewConstructor(uint64(k)))
		if err != nil {
			return nil, fmt.Errorf("extending %v: %w", l, err)
		}
		b.EDS = sq
		roots, err := share.NewAxisRoots(sq)
		if err != nil {
			return nil, err
		}
		b.Roots = roots
	}
	b.Hash = b.Roots.Hash()
	w := b.W
	b.cells = make([][]byte, w*w)
	for r := 0; r < w; r++ {
		for c := 0; c < w; c++ {
			b.cells[r*w+c] = b.EDS.GetCell(uint(r), uint(c))
		}
	}
	b.odsNs = make([]libshare.Namespace, k*k)
	for i := range b.odsNs {
		ns, err := libshare.NewNamespaceFromBytes(b.cell(i/k, i%k)[:libshare.NamespaceSize])
		if err != nil {
			return nil, err
		}
		b.odsNs[i] = ns
	}
	if l.Wide {
		seen := map[string]bool{}
		for _, ns := range b.odsNs {
			if !seen[string(ns.Bytes())] && !ns.Equals(libshare.TailPaddingNamespace) {
				seen[string(ns.Bytes())] = true
				b.Probes = append(b.Probes, Probe{Ns: ns})
			}
		}
		// absent ones: below, between, above; reserved; invalid
		b.Probes = append(b.Probes, Probe{Ns: libshare.TxNamespace}, Probe{Ns: libshare.PrimaryReservedPaddingNamespace},
			Probe{Ns: userNs(0x00ff + 1)}, Probe{Ns: userNs(0x7fff)}, Probe{Ns: userNs(0xfff0)},
			Probe{Ns: libshare.TailPaddingNamespace}, Probe{Ns: libshare.ParitySharesNamespace})
		dedup := b.Probes[:0]
		seen = map[string]bool{}
		for _, p := range b.Probes {
			if !seen[string(p.Ns.Bytes())] {
				seen[string(p.Ns.Bytes())] = true
				dedup = append(dedup, p)
			}
		}
		b.Probes = dedup
	} else {
		for i := 1; i <= 9; i++ {
			b.Probes = append(b.Probes, Probe{ID: i, Ns: nsTable[i]})
		}
	}
	return b, nil
}

func (b *Block) cell(r, c int) []byte { return b.cells[r*b.W+c] }

// axis returns the full reference axis.
func (b *Block) axis(ax rsmt2d.Axis, i int) [][]byte {
	out := make([][]byte, b.W)
	for j := 0; j < b.W; j++ {
		if ax == rsmt2d.Row {
			out[j] = b.cell(i, j)
		} else {
			out[j] = b.cell(j, i)
		}
	}
	return out
}

// odsFlat returns the ODS in row-major order.
func (b *Block) odsFlat() [][]byte {
	out := make([][]byte, 0, b.K*b.K)
	for r := 0; r < b.K; r++ {
		for c := 0; c < b.K; c++ {
			out = append(out, b.cell(r, c))
		}
	}
	return out
}

// nfile is the number of shares before the first tail padding share (what the ODS file holds).
func (b *Block) nfile() int {
	for i, ns := range b.odsNs {
		if ns.Equals(libshare.TailPaddingNamespace) {
			return i
		}
	}
	return len(b.odsNs)
}

// NdRef is the reference answer for RowNamespaceData(ns,row), computed from the square alone.
type NdRef struct {
	Class  int      // -2 invalid namespace, -1 outside the row's range, n >= 0 number of shares
	Shares [][]byte // the shares of the namespace in the row
}

func (b *Block) ndRef(ns libshare.Namespace, row int) NdRef {
	if ns.ValidateForData() != nil {
		return NdRef{Class: -2}
	}
	if row >= b.K {
		return NdRef{Class: -1}
	}
	lo, hi := b.odsNs[row*b.K], b.odsNs[row*b.K+b.K-1]
	if ns.IsLessThan(lo) || ns.IsGreaterThan(hi) {
		return NdRef{Class: -1}
	}
	var out [][]byte
	for c := 0; c < b.K; c++ {
		if b.odsNs[row*b.K+c].Equals(ns) {
			out = append(out, b.cell(row, c))
		}
	}
	return NdRef{Class: len(out), Shares: out}
}

// ndRows are the rows whose root range contains the namespace (share.RowsWithNamespace semantics).
func (b *Block) ndRows(ns libshare.Namespace) []int {
	var rows []int
	for r := 0; r < b.K; r++ {
		lo, hi := b.odsNs[r*b.K], b.odsNs[r*b.K+b.K-1]
		if !ns.IsLessThan(lo) && !ns.IsGreaterThan(hi) {
			rows = append(rows, r)
		}
	}
	if ns.Equals(libshare.ParitySharesNamespace) {
		for r := b.K; r < b.W; r++ {
			rows = append(rows, r)
		}
	}
	return rows
}

// rangeSingleNs reports whether all ODS shares of [from,to) carry one namespace.
func (b *Block) rangeSingleNs(from, to int) bool {
	for i := from + 1; i < to; i++ {
		if !b.odsNs[i].Equals(b.odsNs[from]) {
			return false
		}
	}
	return true
}

// WideLayout draws a layout beyond the exhaustive bound: width k in {8,16,32}, a few namespaces, a
// padding amount chosen among the interesting ones.
func WideLayout(k int, rng *rand.Rand) *Layout {
	n := k * k
	pads := []int{0, 1, k - 1, k, k + 1, n / 2, n - k, n - 1, rng.Intn(n)}
	pad := pads[rng.Intn(len(pads))]
	data := n - pad
	m := 1 + rng.Intn(6)
	ids := map[uint16]bool{}
	for len(ids) < m {
		ids[uint16(0x0100+rng.Intn(0x7000))] = true
	}
	var nss []libshare.Namespace
	for id := range ids {
		nss = append(nss, userNs(id))
	}
	if rng.Intn(2) == 0 {
		nss = append(nss, libshare.TxNamespace)
	}
	if rng.Intn(2) == 0 {
		nss = append(nss, libshare.PrimaryReservedPaddingNamespace)
	}
	sort.Slice(nss, func(i, j int) bool { return bytes.Compare(nss[i].Bytes(), nss[j].Bytes()) < 0 })
	// cut points, some of them on row boundaries
	cuts := make([]int, len(nss)-1)
	for i := range cuts {
		if rng.Intn(3) == 0 {
			cuts[i] = (rng.Intn(k) + 1) * k
		} else {
			cuts[i] = rng.Intn(data + 1)
		}
		if cuts[i] > data {
			cuts[i] = data
		}
	}
	sort.Ints(cuts)
	cells := make([]libshare.Namespace, n)
	for i := 0; i < n; i++ {
		if i >= data {
			cells[i] = libshare.TailPaddingNamespace
			continue
		}
		j := 0
		for j < len(cuts) && i >= cuts[j] {
			j++
		}
		cells[i] = nss[j]
	}
	return &Layout{K: k, Pad: pad, Wide: true, wideNs: cells}
}
