package storerepr

import (
	"bytes"
	"context"
	"fmt"
	"io"
	"math/rand"
	"strings"

	libshare "github.com/celestiaorg/go-square/v4/share"
	"github.com/celestiaorg/rsmt2d"

	"github.com/celestiaorg/celestia-node/header"
	"github.com/celestiaorg/celestia-node/share/eds"
	"github.com/celestiaorg/celestia-node/share/shwap"
	"github.com/celestiaorg/celestia-node/store"
)

// ObsPred is the model's prediction of what can be observed on an accessor (StoreRepr!Obs).
type ObsPred struct {
	LowerRowPar bool   `json:"lowerRowPar"`
	LowerColPar bool   `json:"lowerColPar"`
	UpperPar    bool   `json:"upperPar"`
	Q3axis      string `json:"q3axis"`
	Reader      string `json:"reader"`
	Core        string `json:"core"`
}

// readOpts says how an accessor is to be read and what the model predicts for it.
type readOpts struct {
	path      string   // how it was obtained (held, store, cached, store2, byhash, plain-odsq4, ...)
	tag       string   // structural tag used in violation signatures (core + source)
	validated bool     // bounds validation is part of the accessor: the out-of-bounds lattice applies
	upperOnly bool     // only reads that need neither the Q4 file nor the whole ODS
	pred      *ObsPred // nil: nothing to compare
	reader0   string   // plain cores: predicted Reader source before / after the other reads
	reader1   string
	plain     bool
	warmFrac  float64 // fraction of the reads repeated in a second (warm) pass
	fewRanges bool    // width 4 and more: a seeded third of the [from,to) ranges instead of all of them
}

// oracle runs reads of one case and reports into the shared report.
type oracle struct {
	c   *caseRun
	blk *Block
	rng *rand.Rand
	ctx context.Context
}

type thunk struct {
	upper bool
	run   func()
}

type obsSeen struct {
	upperPar, lowerRowPar, lowerRowData, lowerColPar, lowerColData bool
	q3Row, q3Col, otherCol                                         bool
	readerLens                                                     []int
}

func (o *oracle) violate(what string, sig ...string) {
	o.c.violate("C05/"+strings.Join(sig, "/"), what)
}

func (o *oracle) guard(op, tag string, f func()) {
	if p, v := recoverRun(f); p {
		o.violate(fmt.Sprintf("panic in %s: %s", op, firstLines(v, 12)), "panic", op, tag)
	}
}

func quadrant(r, c, k int) string {
	switch {
	case r < k && c < k:
		return "q1"
	case r < k:
		return "q2"
	case c < k:
		return "q3"
	}
	return "q4"
}

func sharesBytesEqual(got []libshare.Share, want [][]byte) (bool, string) {
	if len(got) != len(want) {
		return false, fmt.Sprintf("length %d, want %d", len(got), len(want))
	}
	for i := range got {
		if !bytes.Equal(got[i].ToBytes(), want[i]) {
			return false, fmt.Sprintf("share %d differs", i)
		}
	}
	return true, ""
}

// ---------------------------------------------------------------------------------------------------
// single reads, each compared with the square that was put and verified against its roots

func (o *oracle) sample(acc eds.Accessor, opt *readOpts, seen *obsSeen, r, c int) {
	b := o.blk
	q := quadrant(r, c, b.K)
	o.c.count("reads_sample", 1)
	s, err := acc.Sample(o.ctx, shwap.SampleCoords{Row: r, Col: c})
	if err != nil {
		o.violate(fmt.Sprintf("Sample(%d,%d) via %s: %v", r, c, opt.path, err), "sample", "error", opt.tag, q)
		return
	}
	if !bytes.Equal(s.ToBytes(), b.cell(r, c)) {
		o.violate(fmt.Sprintf("Sample(%d,%d) via %s returns a share that is not the stored one", r, c, opt.path), "sample", "bytes", opt.tag, q)
		return
	}
	if err := s.Verify(b.Roots, r, c); err != nil {
		o.violate(fmt.Sprintf("Sample(%d,%d) via %s does not verify against the roots (proof axis %v): %v", r, c, opt.path, s.ProofType, err), "sample", "verify", opt.tag, q)
		return
	}
	if s.ProofType == rsmt2d.Col {
		if q == "q3" {
			seen.q3Col = true
		} else {
			seen.otherCol = true
		}
	} else if q == "q3" {
		seen.q3Row = true
	}
}

func (o *oracle) half(acc eds.Accessor, opt *readOpts, seen *obsSeen, ax rsmt2d.Axis, i int) {
	b := o.blk
	part := "upper"
	if i >= b.K {
		part = "lower"
	}
	axn := "row"
	if ax == rsmt2d.Col {
		axn = "col"
	}
	o.c.count("reads_axishalf", 1)
	h, err := acc.AxisHalf(o.ctx, ax, i)
	if err != nil {
		o.violate(fmt.Sprintf("AxisHalf(%s,%d) via %s: %v", axn, i, opt.path, err), "axishalf", "error", opt.tag, axn, part)
		return
	}
	full := b.axis(ax, i)
	want := full[:b.K]
	if h.IsParity {
		want = full[b.K:]
	}
	if ok, why := sharesBytesEqual(h.Shares, want); !ok {
		o.violate(fmt.Sprintf("AxisHalf(%s,%d) via %s (parity side=%v) is not the stored half: %s", axn, i, opt.path, h.IsParity, why), "axishalf", "bytes", opt.tag, axn, part)
		return
	}
	ext, err := h.Extended()
	if err != nil {
		o.violate(fmt.Sprintf("AxisHalf(%s,%d).Extended via %s: %v", axn, i, opt.path, err), "axishalf", "extend", opt.tag, axn, part)
		return
	}
	if ok, why := sharesBytesEqual(ext, full); !ok {
		o.violate(fmt.Sprintf("AxisHalf(%s,%d).Extended via %s is not the stored axis: %s", axn, i, opt.path, why), "axishalf", "extend", opt.tag, axn, part)
		return
	}
	if ax == rsmt2d.Row {
		row := h.ToRow()
		if err := row.Verify(b.Roots, i); err != nil {
			o.violate(fmt.Sprintf("AxisHalf(row,%d).ToRow via %s does not verify: %v", i, opt.path, err), "axishalf", "verify", opt.tag, axn, part)
			return
		}
	}
	switch {
	case i < b.K && h.IsParity:
		seen.upperPar = true
	case i >= b.K && ax == rsmt2d.Row && h.IsParity:
		seen.lowerRowPar = true
	case i >= b.K && ax == rsmt2d.Row:
		seen.lowerRowData = true
	case i >= b.K && h.IsParity:
		seen.lowerColPar = true
	case i >= b.K:
		seen.lowerColData = true
	}
}

// modelNd is the class the specification predicts for RowNamespaceData(ns,row) (LAYOUT record).
func (o *oracle) modelNd(p Probe, row int) (int, bool) {
	l := o.blk.L
	if l.Wide || p.ID == 0 || l.Nd == nil {
		return 0, false
	}
	return l.Nd[p.ID-1][row], true
}

func (o *oracle) rowND(acc eds.Accessor, opt *readOpts, p Probe, row int) {
	b := o.blk
	ref := b.ndRef(p.Ns, row)
	if mc, ok := o.modelNd(p, row); ok && mc != ref.Class {
		o.c.drift("model predicts class %d for RowNamespaceData(ns%d,row %d) on %v, the reference square says %d", mc, p.ID, row, b.L, ref.Class)
	}
	o.c.count("reads_rownd", 1)
	if opt.plain && ref.Class == -2 {
		return // the plain cores are only asked for valid namespaces
	}
	nd, err := acc.RowNamespaceData(o.ctx, p.Ns, row)
	cls := "present"
	switch {
	case ref.Class == -2:
		cls = "invalidns"
	case ref.Class == -1:
		cls = "outside"
	case ref.Class == 0:
		cls = "absent"
	}
	if ref.Class < 0 {
		if err != nil {
			o.c.count("rejected_"+cls, 1)
			return
		}
		// served although the model rejects: never mis-serve
		if len(nd.Shares) != 0 {
			o.violate(fmt.Sprintf("RowNamespaceData(%s,row %d) via %s returns %d shares for a namespace that has none in the row", p.Ns, row, opt.path, len(nd.Shares)), "rownd", "misserved", opt.tag, cls)
			return
		}
		o.c.drift("RowNamespaceData(%s,row %d) via %s: model rejects (%s), the code answers with an empty result", p.Ns, row, opt.path, cls)
		return
	}
	if err != nil {
		o.violate(fmt.Sprintf("RowNamespaceData(%s,row %d) via %s: %v", p.Ns, row, opt.path, err), "rownd", "error", opt.tag, cls)
		return
	}
	if ok, why := sharesBytesEqual(nd.Shares, ref.Shares); !ok {
		o.violate(fmt.Sprintf("RowNamespaceData(%s,row %d) via %s is not the stored namespace data: %s", p.Ns, row, opt.path, why), "rownd", "bytes", opt.tag, cls)
		return
	}
	if err := nd.Verify(b.Roots, p.Ns, row); err != nil {
		o.violate(fmt.Sprintf("RowNamespaceData(%s,row %d) via %s does not verify: %v", p.Ns, row, opt.path, err), "rownd", "verify", opt.tag, cls)
		return
	}
	if ref.Class == 0 && (nd.Proof == nil || !nd.Proof.IsOfAbsence()) {
		o.violate(fmt.Sprintf("RowNamespaceData(%s,row %d) via %s: no absence proof for an absent namespace", p.Ns, row, opt.path), "rownd", "verify", opt.tag, cls)
	}
}

func (o *oracle) checkND(nd shwap.NamespaceData, err error, opt *readOpts, p Probe, what string) {
	b := o.blk
	rows := b.ndRows(p.Ns)
	valid := p.Ns.ValidateForData() == nil
	if l := b.L; !l.Wide && p.ID != 0 && l.Ndrows != nil {
		m := l.Ndrows[p.ID-1]
		rejected := len(m) == 1 && m[0] == -1
		if rejected != (!valid && len(rows) > 0) || (!rejected && valid && fmt.Sprint(m) != fmt.Sprint(rows) && !(len(m) == 0 && len(rows) == 0)) {
			o.c.drift("model predicts rows %v for NamespaceData(ns%d) on %v, the reference square says %v (valid=%v)", m, p.ID, b.L, rows, valid)
		}
	}
	var want [][]byte
	for _, r := range rows {
		if r < b.K {
			want = append(want, b.ndRef(p.Ns, r).Shares...)
		}
	}
	if !valid {
		if err != nil {
			o.c.count("rejected_nd_invalidns", 1)
			return
		}
		if len(nd.Flatten()) != 0 {
			o.violate(fmt.Sprintf("%s(%s) via %s serves %d shares of a namespace that is not valid for data", what, p.Ns, opt.path, len(nd.Flatten())), "nd", "misserved", opt.tag, "invalidns")
		}
		return
	}
	cls := "present"
	if len(want) == 0 {
		cls = "absent"
	}
	if err != nil {
		o.violate(fmt.Sprintf("%s(%s) via %s: %v", what, p.Ns, opt.path, err), "nd", "error", opt.tag, cls)
		return
	}
	if ok, why := sharesBytesEqual(nd.Flatten(), want); !ok {
		o.violate(fmt.Sprintf("%s(%s) via %s is not the stored namespace data: %s", what, p.Ns, opt.path, why), "nd", "bytes", opt.tag, cls)
		return
	}
	if len(nd) != len(rows) {
		o.violate(fmt.Sprintf("%s(%s) via %s has %d row entries, the roots select %d rows", what, p.Ns, opt.path, len(nd), len(rows)), "nd", "rows", opt.tag, cls)
		return
	}
	if err := nd.Verify(b.Roots, p.Ns); err != nil {
		o.violate(fmt.Sprintf("%s(%s) via %s does not verify: %v", what, p.Ns, opt.path, err), "nd", "verify", opt.tag, cls)
	}
}

func (o *oracle) nsData(acc eds.Accessor, opt *readOpts, p Probe) {
	o.c.count("reads_nd", 1)
	nd, err := eds.NamespaceData(o.ctx, acc, p.Ns)
	o.checkND(nd, err, opt, p, "NamespaceData")
}

func (o *oracle) checkRange(rg shwap.RangeNamespaceData, err error, opt *readOpts, from, to int, what string) {
	b := o.blk
	served := b.rangeSingleNs(from, to)
	if !b.L.Wide && b.L.Ranges != nil && b.L.rangeServed(from, to) != served {
		o.c.drift("model predicts served=%v for range [%d,%d) on %v, the reference square says %v", b.L.rangeServed(from, to), from, to, b.L, served)
	}
	fromC := shwap.SampleCoords{Row: from / b.K, Col: from % b.K}
	toC := shwap.SampleCoords{Row: (to - 1) / b.K, Col: (to - 1) % b.K}
	cls := "onerow"
	if toC.Row > fromC.Row {
		cls = "multirow"
	}
	want := b.odsFlat()[from:to]
	if !served {
		if err != nil {
			o.c.count("rejected_range_mixed", 1)
			return
		}
		// a range over several namespaces that is served anyway must still be the right shares
		if ok, why := sharesBytesEqual(rg.Flatten(), want); !ok {
			o.violate(fmt.Sprintf("%s[%d,%d) via %s (several namespaces) serves wrong shares: %s", what, from, to, opt.path, why), "range", "misserved", opt.tag, cls)
			return
		}
		o.c.drift("%s[%d,%d) via %s: model rejects (several namespaces), the code serves it", what, from, to, opt.path)
		return
	}
	if err != nil {
		o.violate(fmt.Sprintf("%s[%d,%d) via %s: %v", what, from, to, opt.path, err), "range", "error", opt.tag, cls)
		return
	}
	if ok, why := sharesBytesEqual(rg.Flatten(), want); !ok {
		o.violate(fmt.Sprintf("%s[%d,%d) via %s is not the stored range: %s", what, from, to, opt.path, why), "range", "bytes", opt.tag, cls)
		return
	}
	if err := rg.VerifyInclusion(fromC, toC, b.K, b.Roots.RowRoots[fromC.Row:toC.Row+1]); err != nil {
		o.violate(fmt.Sprintf("%s[%d,%d) via %s does not verify: %v", what, from, to, opt.path, err), "range", "verify", opt.tag, cls)
	}
}

func (o *oracle) rangeND(acc eds.Accessor, opt *readOpts, from, to int) {
	o.c.count("reads_range", 1)
	rg, err := acc.RangeNamespaceData(o.ctx, from, to)
	o.checkRange(rg, err, opt, from, to, "RangeNamespaceData")
}

func (o *oracle) shares(acc eds.Accessor, opt *readOpts) {
	o.c.count("reads_shares", 1)
	sh, err := acc.Shares(o.ctx)
	if err != nil {
		o.violate(fmt.Sprintf("Shares via %s: %v", opt.path, err), "shares", "error", opt.tag)
		return
	}
	if ok, why := sharesBytesEqual(sh, o.blk.odsFlat()); !ok {
		o.violate(fmt.Sprintf("Shares via %s is not the stored ODS: %s", opt.path, why), "shares", "bytes", opt.tag)
	}
}

// readChunks drains a reader with seeded, odd chunk sizes (the share reader buffers partial shares).
func (o *oracle) readChunks(r io.Reader, limit int) ([]byte, error) {
	var out []byte
	for len(out) <= limit {
		n := 1 + o.rng.Intn(3*libshare.ShareSize)
		if o.rng.Intn(4) == 0 {
			n = libshare.ShareSize
		}
		buf := make([]byte, n)
		m, err := r.Read(buf)
		out = append(out, buf[:m]...)
		if err == io.EOF {
			return out, nil
		}
		if err != nil {
			return out, err
		}
		if m == 0 {
			// a reader that makes no progress and reports no error would never end
			return out, fmt.Errorf("reader returned 0 bytes without error")
		}
	}
	return out, fmt.Errorf("reader yields more than %d bytes", limit)
}

func (o *oracle) reader(acc eds.AccessorStreamer, opt *readOpts, seen *obsSeen) {
	b := o.blk
	o.c.count("reads_reader", 1)
	r, err := acc.Reader()
	if err != nil {
		o.violate(fmt.Sprintf("Reader via %s: %v", opt.path, err), "reader", "error", opt.tag)
		return
	}
	full := bytes.Join(b.odsFlat(), nil)
	data, err := o.readChunks(r, len(full))
	if err != nil {
		o.violate(fmt.Sprintf("Reader via %s: %v (after %d bytes)", opt.path, err, len(data)), "reader", "error", opt.tag)
		return
	}
	if len(data)%libshare.ShareSize != 0 || len(data) > len(full) || !bytes.Equal(data, full[:len(data)]) {
		o.violate(fmt.Sprintf("Reader via %s streams %d bytes that are not a prefix of the stored ODS (%d bytes)", opt.path, len(data), len(full)), "reader", "bytes", opt.tag)
		return
	}
	// what the stream leaves out must be tail padding (consumers complete it: eds.ReadShares)
	tpShare := libshare.TailPaddingShare()
	tp := tpShare.ToBytes()
	for off := len(data); off < len(full); off += libshare.ShareSize {
		if !bytes.Equal(full[off:off+libshare.ShareSize], tp) {
			o.violate(fmt.Sprintf("Reader via %s ends after %d shares but share %d of the stored ODS is not tail padding", opt.path, len(data)/libshare.ShareSize, off/libshare.ShareSize), "reader", "short", opt.tag)
			return
		}
	}
	seen.readerLens = append(seen.readerLens, len(data)/libshare.ShareSize)
	if b.K <= 4 && o.rng.Intn(3) == 0 {
		// the consumer of the stream: rebuild the square and compare its data hash
		rs, err := eds.ReadAccessor(o.ctx, bytes.NewReader(data), b.Roots)
		if err != nil {
			o.violate(fmt.Sprintf("eds.ReadAccessor over the stream of %s: %v", opt.path, err), "reader", "rebuild", opt.tag)
			return
		}
		if !rs.ExtendedDataSquare.Equals(b.EDS) {
			o.violate(fmt.Sprintf("square rebuilt from the stream of %s differs from the stored one", opt.path), "reader", "rebuild", opt.tag)
		}
	}
}

func (o *oracle) meta(acc eds.Accessor, opt *readOpts) {
	b := o.blk
	o.c.count("reads_meta", 3)
	if sz, err := acc.Size(o.ctx); err != nil || sz != b.W {
		o.violate(fmt.Sprintf("Size via %s = %d, %v; stored square has width %d", opt.path, sz, err, b.W), "size", "value", opt.tag)
	}
	if h, err := acc.DataHash(o.ctx); err != nil || !bytes.Equal(h, b.Hash) {
		o.violate(fmt.Sprintf("DataHash via %s = %X, %v; stored %X", opt.path, []byte(h), err, []byte(b.Hash)), "datahash", "value", opt.tag)
	}
	roots, err := acc.AxisRoots(o.ctx)
	if err != nil || roots == nil || !roots.Equals(b.Roots) {
		o.violate(fmt.Sprintf("AxisRoots via %s differ from the roots of the stored square (%v)", opt.path, err), "axisroots", "value", opt.tag)
	}
}

// ---------------------------------------------------------------------------------------------------
// out-of-bounds lattice: must be an error, never data

func (o *oracle) oob(acc eds.Accessor, opt *readOpts) []thunk {
	b := o.blk
	w, n := b.W, b.K*b.K
	bad := []int{-1, w, w + 1, 65535, 65536, 1 << 31, -1 << 31}
	var ts []thunk
	add := func(f func()) { ts = append(ts, thunk{upper: true, run: f}) }
	someNs := nsTable[4]
	if b.L.Wide {
		someNs = b.Probes[0].Ns
	}
	for _, x := range bad {
		x := x
		for _, y := range []int{0, w - 1, x} {
			y := y
			add(func() {
				o.guard("Sample", opt.tag, func() {
					o.c.count("oob_probes", 2)
					if s, err := acc.Sample(o.ctx, shwap.SampleCoords{Row: x, Col: y}); err == nil {
						o.violate(fmt.Sprintf("Sample(%d,%d) via %s on a square of width %d is served (share %x...)", x, y, opt.path, w, s.ToBytes()[:8]), "oob", "accepted", "sample")
					}
					if s, err := acc.Sample(o.ctx, shwap.SampleCoords{Row: y, Col: x}); err == nil {
						o.violate(fmt.Sprintf("Sample(%d,%d) via %s on a square of width %d is served (share %x...)", y, x, opt.path, w, s.ToBytes()[:8]), "oob", "accepted", "sample")
					}
				})
			})
		}
		for _, ax := range []rsmt2d.Axis{rsmt2d.Row, rsmt2d.Col} {
			ax := ax
			add(func() {
				o.guard("AxisHalf", opt.tag, func() {
					o.c.count("oob_probes", 1)
					if h, err := acc.AxisHalf(o.ctx, ax, x); err == nil {
						o.violate(fmt.Sprintf("AxisHalf(%v,%d) via %s on a square of width %d is served (%d shares)", ax, x, opt.path, w, len(h.Shares)), "oob", "accepted", "axishalf")
					}
				})
			})
		}
		add(func() {
			o.guard("RowNamespaceData", opt.tag, func() {
				o.c.count("oob_probes", 1)
				if nd, err := acc.RowNamespaceData(o.ctx, someNs, x); err == nil {
					o.violate(fmt.Sprintf("RowNamespaceData(row %d) via %s on a square of width %d is served (%d shares)", x, opt.path, w, len(nd.Shares)), "oob", "accepted", "rownd")
				}
			})
		})
	}
	for _, ft := range [][2]int{{-1, 1}, {-2, -1}, {0, 0}, {1, 1}, {n, n}, {1, 0}, {n, 0}, {0, n + 1}, {n - 1, n + 1}, {n, n + 1}, {n + 1, n + 2}, {0, 1 << 20}, {-1, n + 1}, {0, -1}, {1 << 31, 1<<31 + 1}} {
		ft := ft
		add(func() {
			o.guard("RangeNamespaceData", opt.tag, func() {
				o.c.count("oob_probes", 1)
				if rg, err := acc.RangeNamespaceData(o.ctx, ft[0], ft[1]); err == nil {
					o.violate(fmt.Sprintf("RangeNamespaceData[%d,%d) via %s on an ODS of %d shares is served (%d shares)", ft[0], ft[1], opt.path, n, len(rg.Flatten())), "oob", "accepted", "range")
				}
			})
		})
	}
	return ts
}

// ---------------------------------------------------------------------------------------------------

// readAll runs every read path over every argument (sampled arguments for wide squares) through one
// accessor, in seeded order, and a second, warm pass over a part of them; then compares what was
// observable with the model's prediction.
func (o *oracle) readAll(acc eds.AccessorStreamer, opt readOpts) {
	b := o.blk
	k, w := b.K, b.W
	seen := &obsSeen{}
	var ts []thunk
	add := func(upper bool, op string, f func()) {
		ts = append(ts, thunk{upper: upper, run: func() { o.guard(op, opt.tag, f) }})
	}
	wide := b.L.Wide
	pick := func(n, limit int) []int { // all of 0..n-1, or boundaries + a seeded sample
		if !wide || n <= limit {
			out := make([]int, n)
			for i := range out {
				out[i] = i
			}
			return out
		}
		set := map[int]bool{0: true, n - 1: true, n/2 - 1: true, n / 2: true}
		for len(set) < limit {
			set[o.rng.Intn(n)] = true
		}
		out := make([]int, 0, len(set))
		for i := range set {
			out = append(out, i)
		}
		return out
	}
	add(true, "meta", func() { o.meta(acc, &opt) })
	rowsS := pick(w, 10)
	colsS := pick(w, 10)
	for _, r := range rowsS {
		for _, c := range colsS {
			r, c := r, c
			add(r < k, "Sample", func() { o.sample(acc, &opt, seen, r, c) })
		}
	}
	for _, i := range pick(w, 14) {
		i := i
		add(i < k, "AxisHalf", func() { o.half(acc, &opt, seen, rsmt2d.Row, i) })
		add(i < k, "AxisHalf", func() { o.half(acc, &opt, seen, rsmt2d.Col, i) })
	}
	for _, p := range b.Probes {
		p := p
		for _, r := range pick(w, 8) {
			r := r
			// a lower row is refused by validation / by the root range, but the proof cache reads the row first
			add(r < k || p.Ns.ValidateForData() != nil, "RowNamespaceData", func() { o.rowND(acc, &opt, p, r) })
		}
		if !opt.plain || p.Ns.ValidateForData() == nil {
			add(true, "NamespaceData", func() { o.nsData(acc, &opt, p) })
		}
	}
	n := k * k
	if !wide {
		for f := 0; f < n; f++ {
			for t := f + 1; t <= n; t++ {
				f, t := f, t
				if opt.fewRanges && k >= 4 && o.rng.Intn(3) != 0 {
					continue
				}
				add(true, "RangeNamespaceData", func() { o.rangeND(acc, &opt, f, t) })
			}
		}
	} else {
		for i := 0; i < 40; i++ {
			f := o.rng.Intn(n)
			t := f + 1 + o.rng.Intn(min(n-f, 3*k))
			if i%4 == 0 {
				f = (f / k) * k
			}
			if i%5 == 0 {
				t = min(((t+k-1)/k)*k, n)
			}
			if t <= f {
				t = f + 1
			}
			add(true, "RangeNamespaceData", func() { o.rangeND(acc, &opt, f, t) })
		}
		add(true, "RangeNamespaceData", func() { o.rangeND(acc, &opt, 0, n) })
		add(true, "RangeNamespaceData", func() { o.rangeND(acc, &opt, n-1, n) })
	}
	// Shares() and Reader() of the store's accessors are answered by the proof cache from the upper
	// rows; for the plain cores they pull the whole ODS into memory
	add(!opt.plain, "Shares", func() { o.shares(acc, &opt) })
	if !opt.plain {
		add(true, "Reader", func() { o.reader(acc, &opt, seen) })
	}
	if opt.validated {
		ts = append(ts, o.oob(acc, &opt)...)
	}
	if opt.upperOnly {
		up := ts[:0]
		for _, t := range ts {
			if t.upper {
				up = append(up, t)
			}
		}
		ts = up
	}
	if opt.plain {
		o.guard("Reader", opt.tag, func() { o.reader(acc, &opt, seen) }) // cold: before anything else
	}
	o.rng.Shuffle(len(ts), func(i, j int) { ts[i], ts[j] = ts[j], ts[i] })
	for _, t := range ts {
		t.run()
	}
	if opt.plain {
		o.guard("Reader", opt.tag, func() { o.reader(acc, &opt, seen) }) // after Shares()
	}
	// warm pass: the proof cache, the in-memory ODS and the opened Q4 file now answer
	if opt.warmFrac > 0 {
		o.rng.Shuffle(len(ts), func(i, j int) { ts[i], ts[j] = ts[j], ts[i] })
		for _, t := range ts[:int(float64(len(ts))*opt.warmFrac)] {
			t.run()
		}
	}
	o.compareObs(&opt, seen)
}

// compareObs binds the model to the code: side of the halves, proof axis, source of the stream.
func (o *oracle) compareObs(opt *readOpts, s *obsSeen) {
	b := o.blk
	if s.upperPar {
		o.c.drift("%s (%s): an axis of the first half came back as the parity side; the model says never", opt.path, opt.tag)
	}
	if !opt.plain && s.otherCol {
		o.c.drift("%s (%s): column proof outside Q3; the model says row proofs", opt.path, opt.tag)
	}
	nfile := b.nfile()
	lens := func(src string) int {
		if src == "filesection" {
			return nfile
		}
		return b.K * b.K
	}
	if opt.plain {
		if len(s.readerLens) == 2 && opt.reader0 != "" {
			if s.readerLens[0] != lens(opt.reader0) || s.readerLens[1] != lens(opt.reader1) {
				o.c.drift("%s (%s): streams of %v shares, the model predicts %s=%d then %s=%d", opt.path, opt.tag, s.readerLens, opt.reader0, lens(opt.reader0), opt.reader1, lens(opt.reader1))
			} else {
				o.c.count("obs_matched", 1)
			}
		}
	}
	p := opt.pred
	if p == nil {
		return
	}
	if !opt.plain {
		for _, l := range s.readerLens {
			if l != lens(p.Reader) {
				o.c.drift("%s (%s): stream of %d shares, the model predicts %s=%d", opt.path, opt.tag, l, p.Reader, lens(p.Reader))
			}
		}
	}
	if opt.upperOnly {
		o.c.count("obs_matched", 1)
		return
	}
	ok := true
	if (s.lowerRowPar || s.lowerRowData) && (s.lowerRowPar != p.LowerRowPar || s.lowerRowData == p.LowerRowPar) {
		ok = false
		o.c.drift("%s (%s): lower rows come back parity=%v/data=%v, the model predicts parity side=%v", opt.path, opt.tag, s.lowerRowPar, s.lowerRowData, p.LowerRowPar)
	}
	if (s.lowerColPar || s.lowerColData) && (s.lowerColPar != p.LowerColPar || s.lowerColData == p.LowerColPar) {
		ok = false
		o.c.drift("%s (%s): right columns come back parity=%v/data=%v, the model predicts parity side=%v", opt.path, opt.tag, s.lowerColPar, s.lowerColData, p.LowerColPar)
	}
	if (s.q3Col || s.q3Row) && (s.q3Col != (p.Q3axis == "col") || s.q3Row != (p.Q3axis == "row")) {
		ok = false
		o.c.drift("%s (%s): Q3 samples proven by col=%v/row=%v, the model predicts %s", opt.path, opt.tag, s.q3Col, s.q3Row, p.Q3axis)
	}
	if ok {
		o.c.count("obs_matched", 1)
		if p.LowerRowPar {
			o.c.count("obs_q4_side", 1)
		} else if p.Core == "odsq4" {
			o.c.count("obs_recompute_side", 1)
		} else {
			o.c.count("obs_mem_side", 1)
		}
	}
}

// afterClose: an accessor the caller owned and closed serves nothing any more (close-once wrapper).
func (o *oracle) afterClose(acc eds.AccessorStreamer, opt readOpts, sizeCached bool) {
	b := o.blk
	served := func(op string, err error) {
		o.c.count("closed_probes", 1)
		if err == nil {
			o.c.drift("%s via %s after Close is still served; the model says the close-once wrapper refuses", op, opt.path)
		}
	}
	o.guard("afterClose", opt.tag, func() {
		s, err := acc.Sample(o.ctx, shwap.SampleCoords{Row: 0, Col: 0})
		if err == nil && !bytes.Equal(s.ToBytes(), b.cell(0, 0)) {
			o.violate("Sample(0,0) through a closed accessor returns a wrong share", "closed", "misserved", opt.tag)
		}
		served("Sample", err)
		_, err = acc.AxisHalf(o.ctx, rsmt2d.Row, b.W-1)
		served("AxisHalf", err)
		_, err = acc.Shares(o.ctx)
		served("Shares", err)
		_, err = acc.Reader()
		served("Reader", err)
		// the validation wrapper answers Size() from its own copy once it has looked the size up
		sz, err := acc.Size(o.ctx)
		o.c.count("closed_probes", 1)
		if err == nil && sz != b.W {
			o.violate(fmt.Sprintf("Size through a closed accessor = %d, stored square has width %d", sz, b.W), "closed", "misserved", opt.tag)
		}
		if (err == nil) != sizeCached {
			o.c.drift("Size via %s after Close: served=%v; the model says served=%v (size remembered by the validation wrapper)", opt.path, err == nil, sizeCached)
		}
		_, err = acc.AxisRoots(o.ctx)
		served("AxisRoots", err)
		_, err = acc.RangeNamespaceData(o.ctx, 0, 1)
		served("RangeNamespaceData", err)
		if err := acc.Close(); err != nil {
			o.c.drift("second Close via %s returns %v; the model says nil", opt.path, err)
		}
	})
}

// ---------------------------------------------------------------------------------------------------
// store.Getter: every method opens, reads and closes by itself

func (o *oracle) getter(g *store.Getter, height uint64, opt readOpts, expectFound bool) {
	b := o.blk
	k, w := b.K, b.W
	hdr := &header.ExtendedHeader{RawHeader: header.RawHeader{Height: int64(height)}, DAH: b.Roots}
	seen := &obsSeen{}
	if !expectFound {
		o.guard("GetSamples", opt.tag, func() {
			if _, err := g.GetSamples(o.ctx, hdr, []shwap.SampleCoords{{Row: 0, Col: 0}}); err == nil {
				o.c.drift("Getter.GetSamples finds a block the model says is not stored")
			}
		})
		return
	}
	wide := b.L.Wide
	o.guard("GetSamples", opt.tag, func() {
		var coords []shwap.SampleCoords
		if !wide {
			for r := 0; r < w; r++ {
				for c := 0; c < w; c++ {
					coords = append(coords, shwap.SampleCoords{Row: r, Col: c})
				}
			}
		} else {
			for i := 0; i < 48; i++ {
				coords = append(coords, shwap.SampleCoords{Row: o.rng.Intn(w), Col: o.rng.Intn(w)})
			}
			coords = append(coords, shwap.SampleCoords{Row: w - 1, Col: w - 1}, shwap.SampleCoords{Row: k, Col: k - 1})
		}
		o.rng.Shuffle(len(coords), func(i, j int) { coords[i], coords[j] = coords[j], coords[i] })
		o.c.count("reads_getter", int64(len(coords)))
		smpls, err := g.GetSamples(o.ctx, hdr, coords)
		if err != nil || len(smpls) != len(coords) {
			o.violate(fmt.Sprintf("Getter.GetSamples(%d coordinates): %d samples, %v", len(coords), len(smpls), err), "getter", "samples", "error", opt.tag)
			return
		}
		for i, s := range smpls {
			r, c := coords[i].Row, coords[i].Col
			if !bytes.Equal(s.ToBytes(), b.cell(r, c)) {
				o.violate(fmt.Sprintf("Getter.GetSamples: sample (%d,%d) is not the stored share", r, c), "getter", "samples", "bytes", opt.tag, quadrant(r, c, k))
				return
			}
			if err := s.Verify(b.Roots, r, c); err != nil {
				o.violate(fmt.Sprintf("Getter.GetSamples: sample (%d,%d) does not verify: %v", r, c, err), "getter", "samples", "verify", opt.tag, quadrant(r, c, k))
				return
			}
		}
		for _, bad := range []shwap.SampleCoords{{Row: w, Col: 0}, {Row: 0, Col: w}, {Row: -1, Col: 0}, {Row: 0, Col: 65536}} {
			o.c.count("oob_probes", 1)
			if s, err := g.GetSamples(o.ctx, hdr, []shwap.SampleCoords{{Row: 0, Col: 0}, bad}); err == nil {
				o.violate(fmt.Sprintf("Getter.GetSamples with coordinate %v outside a square of width %d is served (%d samples)", bad, w, len(s)), "oob", "accepted", "getter-samples")
			}
		}
	})
	o.guard("GetRow", opt.tag, func() {
		for i := 0; i < w; i++ {
			if wide && i%5 != 0 && i != k && i != w-1 {
				continue
			}
			o.c.count("reads_getter", 1)
			row, err := g.GetRow(o.ctx, hdr, i)
			part := "upper"
			if i >= k {
				part = "lower"
			}
			if err != nil {
				o.violate(fmt.Sprintf("Getter.GetRow(%d): %v", i, err), "getter", "row", "error", opt.tag, part)
				return
			}
			if err := row.Verify(b.Roots, i); err != nil {
				o.violate(fmt.Sprintf("Getter.GetRow(%d) does not verify: %v", i, err), "getter", "row", "verify", opt.tag, part)
				return
			}
			sh, err := row.Shares()
			if err != nil {
				o.violate(fmt.Sprintf("Getter.GetRow(%d).Shares: %v", i, err), "getter", "row", "error", opt.tag, part)
				return
			}
			if ok, why := sharesBytesEqual(sh, b.axis(rsmt2d.Row, i)); !ok {
				o.violate(fmt.Sprintf("Getter.GetRow(%d) is not the stored row: %s", i, why), "getter", "row", "bytes", opt.tag, part)
				return
			}
		}
		for _, bad := range []int{-1, w, 65536} {
			o.c.count("oob_probes", 1)
			if _, err := g.GetRow(o.ctx, hdr, bad); err == nil {
				o.violate(fmt.Sprintf("Getter.GetRow(%d) on a square of width %d is served", bad, w), "oob", "accepted", "getter-row")
			}
		}
	})
	for _, p := range b.Probes {
		p := p
		o.guard("GetNamespaceData", opt.tag, func() {
			o.c.count("reads_getter", 1)
			nd, err := g.GetNamespaceData(o.ctx, hdr, p.Ns)
			o.checkND(nd, err, &opt, p, "Getter.GetNamespaceData")
		})
	}
	o.guard("GetRangeNamespaceData", opt.tag, func() {
		n := k * k
		var rs [][2]int
		if !wide {
			for f := 0; f < n; f++ {
				for t := f + 1; t <= n; t++ {
					if k >= 4 && o.rng.Intn(3) != 0 {
						continue
					}
					rs = append(rs, [2]int{f, t})
				}
			}
		} else {
			for i := 0; i < 16; i++ {
				f := o.rng.Intn(n)
				rs = append(rs, [2]int{f, f + 1 + o.rng.Intn(min(n-f, 2*k))})
			}
		}
		for _, ft := range rs {
			o.c.count("reads_getter", 1)
			rg, err := g.GetRangeNamespaceData(o.ctx, hdr, ft[0], ft[1])
			o.checkRange(rg, err, &opt, ft[0], ft[1], "Getter.GetRangeNamespaceData")
		}
		for _, ft := range [][2]int{{-1, 1}, {0, 0}, {0, n + 1}, {n, n + 1}, {1, 0}} {
			o.c.count("oob_probes", 1)
			if rg, err := g.GetRangeNamespaceData(o.ctx, hdr, ft[0], ft[1]); err == nil {
				o.violate(fmt.Sprintf("Getter.GetRangeNamespaceData[%d,%d) on an ODS of %d shares is served (%d shares)", ft[0], ft[1], n, len(rg.Flatten())), "oob", "accepted", "getter-range")
			}
		}
	})
	o.guard("GetEDS", opt.tag, func() {
		o.c.count("reads_getter", 1)
		sq, err := g.GetEDS(o.ctx, hdr)
		if err != nil {
			o.violate(fmt.Sprintf("Getter.GetEDS: %v", err), "getter", "eds", "error", opt.tag)
			return
		}
		if !sq.Equals(b.EDS) {
			o.violate("Getter.GetEDS is not the stored square", "getter", "eds", "bytes", opt.tag)
		}
	})
	_ = seen
}
