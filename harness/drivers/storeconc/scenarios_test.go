package storeconc

import (
	"bytes"
	"fmt"
	"math/rand"
	"os"
	"runtime"
	"sync/atomic"
	"time"

	"github.com/celestiaorg/rsmt2d"

	"verifharness/storeref"
	"verifharness/vh"
)

// B2: schedules forced with the markers as gates. Each one is the counterexample TLC reports for a
// variant of StoreConc.tla (Store_defect / StoreConc_B_nolock); on a tree that has the property the
// observations below are all as the sequential specification says.

func (d *driver) opAsync(w *world, kind string, b *block, id string) chan struct{} {
	done := make(chan struct{})
	go func() {
		defer close(done)
		d.doOp(w, rand.New(rand.NewSource(7)), kind, b, id)
	}()
	return done
}

func (d *driver) await(ch <-chan struct{}, what, id string) bool {
	select {
	case <-ch:
		return true
	case <-time.After(60 * time.Second):
		d.rep.Inconclusivef("%s: %s did not happen within 60s", id, what)
		d.dead = true
		return false
	}
}

// scenarioHeldAccessor (candidate #11): a reader opens height h through Store.GetByHeight (cache
// miss: the cache does not know the accessor), the block is removed and put again, the put is held
// while its Q4 file is half written; the reader then reads the lower half for the first time.
func (d *driver) scenarioHeldAccessor(blocks []*block) {
	if d.dead {
		return
	}
	for _, v := range []struct {
		name string
		b    *block
		gate func(w *world, b *block) *gate
	}{
		{"q4-created-empty/small", blocks[0], func(w *world, b *block) *gate {
			return newGate("q4.created", func(e *event) bool { return e.Ev == "q4.created" && e.Path == w.q4Path(b) })
		}},
		{"q4-after-first-flush/large", blocks[2], func(w *world, b *block) *gate {
			seen := false
			return newGate("q4 partially flushed", func(e *event) bool {
				if e.Ev == "q4.created" && e.Path == w.q4Path(b) {
					seen = true
				}
				if !seen || e.Ev != "q4.share" {
					return false
				}
				// "partially flushed" is decided by what has been WRITTEN (index of the share just written:
				// more than one 64 KiB buffer, not yet everything), not by the file's size -- a writer that
				// sizes the file upfront (seeded C08-5) never shows an intermediate size
				written := int64(e.N+1) * 512
				if written <= 65536+512 || written >= b.Ref.Q4FileSize {
					return false
				}
				fi, err := os.Stat(w.q4Path(b))
				return err == nil && fi.Size() > 0
			})
		}},
		{"q4-rewritten-after-prune/small", blocks[1], func(w *world, b *block) *gate {
			return newGate("q4.created", func(e *event) bool { return e.Ev == "q4.created" && e.Path == w.q4Path(b) })
		}},
	} {
		id := "scenario/held-accessor/" + v.name
		if d.dead {
			return
		}
		d.nw++
		w, err := newWorld(d.root, d.nw, blocks, 0, 0)
		if err != nil {
			d.t.Fatal(err)
		}
		b := v.b
		if b.Ref.Q4FileSize <= 65536 && v.name == "q4-after-first-flush/large" {
			continue // square too small for an intermediate flush
		}
		base := openFDs(w.dir)
		g := v.gate(w, b)
		rec.start()
		d.doOp(w, nil, "PutODSQ4", b, id)
		acc, err := w.st.GetByHeight(d.ctx, b.H)
		if err != nil {
			d.rep.Inconclusivef("%s: GetByHeight after put failed: %v", id, err)
			rec.stop()
			continue
		}
		// touch only the upper half: the Q4 file stays unopened
		if mm, _ := storeref.ReadSome(d.ctx, acc, b.Ref, rand.New(rand.NewSource(3)), 0, false); len(mm) > 0 {
			d.rep.Inconclusivef("%s: unexpected", id)
		}
		if v.name == "q4-rewritten-after-prune/small" {
			d.doOp(w, nil, "RemoveQ4", b, id)
		} else {
			d.doOp(w, nil, "RemoveODSQ4", b, id)
		}
		rec.arm(g)
		done := d.opAsync(w, "PutODSQ4", b, id)
		if !d.await(g.arrived, "the put reaching its Q4 gate", id) {
			close(g.release)
			<-done
			rec.stop()
			continue
		}
		// the Q4 file of the new incarnation exists and is incomplete; first lower-half reads now
		mm, n := storeref.ReadBack(d.ctx, acc, b.Ref, storeref.Opts{Rnd: rand.New(rand.NewSource(5)), MaxSamples: 48, LowerFirst: true})
		d.rep.Count("reads_compared", int64(n))
		d.rep.Count("scenario_held_accessor", 1)
		if len(mm) > 0 {
			d.rep.Violate("C08/reader-saw-wrong-data/held-accessor-bound-to-half-written-q4",
				fmt.Sprintf("%s: an accessor of height %d obtained through Store.GetByHeight (not in the cache) was held while the block was removed and put again; its first lower-half read happened while the new Q4 file was half written (%s) and returned data that is not the block's: %v",
					id, b.H, v.name, mm),
				map[string]any{"scenario": id, "height": b.H, "mismatches": mm})
		}
		close(g.release)
		if !d.await(done, "the held put returning", id) {
			rec.stop()
			continue
		}
		mm, n = storeref.ReadBack(d.ctx, acc, b.Ref, storeref.Opts{Rnd: rand.New(rand.NewSource(6)), MaxSamples: 48})
		d.rep.Count("reads_compared", int64(n))
		if len(mm) > 0 {
			d.rep.Violate("C08/reader-saw-wrong-data/held-accessor-after-reput",
				fmt.Sprintf("%s: the held accessor of height %d returns wrong data after the re-put completed: %v", id, b.H, mm),
				map[string]any{"scenario": id, "height": b.H, "mismatches": mm})
		}
		acc.Close()
		d.teardown(w, id, base)
		rec.stop()
		os.RemoveAll(w.dir)
	}
}

// scenarioStaleServingCache: the counterexample of StoreConc_B_nolock.cfg. RemoveODSQ4 of an
// empty-block height is held right after it dropped the cache entries; CachedStore.GetByHeight of
// the same height runs (its loader opens the height link without a store lock); the removal
// continues. Afterwards the height must be absent for every observer.
func (d *driver) scenarioStaleServingCache(blocks []*block) {
	if d.dead {
		return
	}
	for _, b := range []*block{blocks[3], blocks[0]} {
		id := fmt.Sprintf("scenario/stale-serving-cache/%s", map[bool]string{true: "empty-block", false: "data-block"}[b.Ref.Empty])
		if d.dead {
			return
		}
		d.nw++
		w, err := newWorld(d.root, d.nw, blocks, 1, 1)
		if err != nil {
			d.t.Fatal(err)
		}
		base := openFDs(w.dir)
		gR := newGate("removal after cache drop", func(e *event) bool { return e.Ev == "cache.removed" && e.H == b.H })
		gL := newGate("loader opened the height link", func(e *event) bool { return e.Ev == "ods.open" && e.Path == w.linkPath(b) })
		rec.start()
		d.doOp(w, nil, "PutODSQ4", b, id)
		rec.arm(gR, gL)
		rmDone := d.opAsync(w, "RemoveODSQ4", b, id)
		if !d.await(gR.arrived, "the removal reaching the point after the cache drop", id) {
			close(gR.release)
			close(gL.release)
			rec.stop()
			continue
		}
		type res struct {
			acc storeAccessor
			err error
		}
		rc := make(chan res, 1)
		go func() {
			a, e := w.cs.GetByHeight(d.ctx, b.H)
			rc <- res{a, e}
		}()
		// Either the loader opens the link now (no store lock: the race is on), or the read blocks on the
		// height lock until the removal is over. The time-out only decides how long we look for the race;
		// too short a wait can hide the defect, never invent one.
		loaded := false
		select {
		case <-gL.arrived:
			loaded = true
		case <-time.After(4 * time.Second):
		}
		// let both go: the loader has the file open already (the serving cache will get its entry), the
		// removal unlinks; the reader closes its accessor at once (a later cache drop waits for it)
		close(gR.release)
		close(gL.release)
		var r res
		select {
		case r = <-rc:
		case <-time.After(60 * time.Second):
			d.rep.Inconclusivef("%s: CachedStore.GetByHeight did not return", id)
			rec.stop()
			continue
		}
		if r.err == nil {
			r.acc.Close()
		}
		if !d.await(rmDone, "the removal returning", id) {
			rec.stop()
			continue
		}
		d.rep.Count("scenario_stale_cache", 1)
		d.rep.Set(id+"/loader_raced", loaded)
		// quiescence: the block was removed after (or while) it was read
		has, _ := w.st.HasByHeight(d.ctx, b.H)
		a2, err2 := w.cs.GetByHeight(d.ctx, b.H)
		if err2 == nil {
			a2.Close()
		}
		if has || err2 == nil {
			d.rep.Violate("C08/not-linearizable/stale-serving-cache-entry/"+map[bool]string{true: "empty-block", false: "data-block"}[b.Ref.Empty],
				fmt.Sprintf("%s: RemoveODSQ4(%d) returned, nothing else runs, the height link is gone, yet HasByHeight=%v and CachedStore.GetByHeight err=%v: the serving cache kept an entry that was loaded between the removal's cache drop and its unlink",
					id, b.H, has, err2),
				map[string]any{"scenario": id, "height": b.H, "has": has})
		}
		d.teardown(w, id, base)
		rec.stop()
		os.RemoveAll(w.dir)
	}
}

// scenarioRePutOverExisting: puts over files that exist run the size validation; afterwards
// nothing may stay open.
func (d *driver) scenarioRePutOverExisting(blocks []*block) {
	if d.dead {
		return
	}
	id := "scenario/reput-over-existing"
	d.nw++
	w, err := newWorld(d.root, d.nw, blocks, 0, 0)
	if err != nil {
		d.t.Fatal(err)
	}
	base := openFDs(w.dir)
	rec.start()
	b := blocks[0]
	for _, k := range []string{"PutODSQ4", "PutODSQ4", "PutODS", "RemoveQ4", "PutODS", "PutODSQ4"} {
		d.doOp(w, nil, k, b, id)
	}
	d.rep.Count("scenario_reput", 1)
	d.teardown(w, id, base)
	rec.stop()
	os.RemoveAll(w.dir)
}

// scenarioSharedAccessor: several readers share ONE cached accessor of an ODS-only block and do their
// first reads at the same moment: upper-half rows (served from the file or from the accessor's
// in-memory square once it is there) against lower-half rows (which load that square). Every byte is
// compared; the race detector watches the accessor's internal caches.
func (d *driver) scenarioSharedAccessor(blocks []*block) {
	if d.dead {
		return
	}
	id := "scenario/shared-accessor-first-reads"
	d.nw++
	w, err := newWorld(d.root, d.nw, blocks, 0, 2)
	if err != nil {
		d.t.Fatal(err)
	}
	base := openFDs(w.dir)
	rec.start()
	rounds := vh.EnvInt("VERIF_SHARED_ROUNDS", 16)
	for r := 0; r < rounds && !d.dead; r++ {
		b := blocks[r%2]
		d.doOp(w, nil, "PutODS", b, id)
		const readers = 4
		accs := make([]storeAccessor, readers)
		for i := range accs {
			a, err := w.cs.GetByHeight(d.ctx, b.H)
			if err != nil {
				d.rep.Inconclusivef("%s: CachedStore.GetByHeight failed: %v", id, err)
				d.dead = true
				break
			}
			accs[i] = a
		}
		if d.dead {
			break
		}
		start := make(chan struct{})
		done := make(chan []storeref.Mismatch, readers)
		for i := 0; i < readers; i++ {
			go func(i int) {
				<-start
				rnd := rand.New(rand.NewSource(int64(r*10 + i)))
				var all []storeref.Mismatch
				for k := 0; k < 8; k++ {
					// readers 0,1: lower half first (loads the in-memory square); 2,3: upper half rows
					mm, n := storeref.ReadSome(d.ctx, accs[i], b.Ref, rnd, 1, i < 2)
					d.rep.Count("reads_compared", int64(n))
					all = append(all, mm...)
				}
				done <- all
			}(i)
		}
		close(start)
		for i := 0; i < readers; i++ {
			select {
			case mm := <-done:
				if len(mm) > 0 {
					d.rep.Violate("C08/reader-saw-wrong-data/shared-cached-accessor",
						fmt.Sprintf("%s: readers sharing one cached accessor of height %d read data that is not the block's: %v", id, b.H, mm),
						map[string]any{"scenario": id, "height": b.H, "mismatches": mm})
				}
			case <-time.After(60 * time.Second):
				d.rep.Inconclusivef("%s: readers did not finish", id)
				d.dead = true
			}
		}
		for _, a := range accs {
			a.Close()
		}
		d.doOp(w, nil, "RemoveODSQ4", b, id)
	}
	d.rep.Count("scenario_shared_accessor", 1)
	if !d.dead {
		d.teardown(w, id, base)
	}
	rec.stop()
	os.RemoveAll(w.dir)
}

// scenarioSecondSquareLoad: the schedule behind finding C08/data-race/...readAxisHalf+...readODS, forced
// with the marker between the cache check and the lock in ODS.readODS. Three handles on ONE cached
// accessor of an ODS-only block: reader W2 is held after it saw "square not loaded"; reader W1 loads
// the square; reader R keeps reading upper-half rows (served from the loaded square); W2 is let go and
// stores the square a second time while R is reading. Data must be right; under the race detector any
// unsynchronised access to the accessor's square shows up here.
func (d *driver) scenarioSecondSquareLoad(blocks []*block) {
	if d.dead {
		return
	}
	id := "scenario/second-square-load"
	d.nw++
	w, err := newWorld(d.root, d.nw, blocks, 0, 2)
	if err != nil {
		d.t.Fatal(err)
	}
	base := openFDs(w.dir)
	rec.start()
	for round := 0; round < 3 && !d.dead; round++ {
		b := blocks[round%2]
		d.doOp(w, nil, "PutODS", b, id)
		var accs [3]storeAccessor
		for i := range accs {
			a, err := w.cs.GetByHeight(d.ctx, b.H)
			if err != nil {
				d.rep.Inconclusivef("%s: CachedStore.GetByHeight failed: %v", id, err)
				d.dead = true
				return
			}
			accs[i] = a
		}
		lower := b.Ref.OdsW // first row of the lower half: no Q4 file, so the whole ODS is loaded
		check := func(acc storeAccessor, row int, who string) {
			half, err := acc.AxisHalf(d.ctx, rsmt2d.Row, row)
			if err != nil {
				d.rep.Violate("C08/reader-saw-wrong-data/shared-cached-accessor", fmt.Sprintf("%s: %s: AxisHalf(row,%d) failed: %v", id, who, row, err), nil)
				return
			}
			ext, err := half.Extended()
			if err != nil || len(ext) != b.Ref.W {
				d.rep.Violate("C08/reader-saw-wrong-data/shared-cached-accessor", fmt.Sprintf("%s: %s: extending row %d: %v", id, who, row, err), nil)
				return
			}
			for k := range ext {
				if !bytes.Equal(ext[k].ToBytes(), b.Ref.Cell(row, k)) {
					d.rep.Violate("C08/reader-saw-wrong-data/shared-cached-accessor",
						fmt.Sprintf("%s: %s: row %d share %d of height %d differs from the block", id, who, row, k, b.H),
						map[string]any{"scenario": id, "height": b.H})
					return
				}
			}
			d.rep.Count("reads_compared", 1)
		}
		g := newGate("second loader after the cache check", func(e *event) bool { return e.Ev == "ods.readods.miss" })
		rec.arm(g)
		w2done := make(chan struct{})
		go func() { defer close(w2done); check(accs[1], lower, "W2") }()
		if !d.await(g.arrived, "the second loader reaching the marker in readODS", id) {
			close(g.release)
			return
		}
		check(accs[0], lower, "W1") // loads and stores the square
		var stop atomic.Bool
		rdone := make(chan struct{})
		go func() {
			defer close(rdone)
			for i := 0; !stop.Load() && i < 200000; i++ {
				check(accs[2], i%b.Ref.OdsW, "R")
			}
		}()
		runtime.Gosched()
		close(g.release) // W2 stores the square again
		if !d.await(w2done, "the second loader returning", id) {
			stop.Store(true)
			return
		}
		for i := 0; i < 50; i++ {
			runtime.Gosched()
		}
		stop.Store(true)
		if !d.await(rdone, "the reader stopping", id) {
			return
		}
		rec.arm()
		for _, a := range accs {
			a.Close()
		}
		d.doOp(w, nil, "RemoveODSQ4", b, id)
	}
	d.rep.Count("scenario_second_square_load", 1)
	d.teardown(w, id, base)
	rec.stop()
	os.RemoveAll(w.dir)
}
