package storeconc

import (
	"context"
	"encoding/json"
	"errors"
	"fmt"
	"math/rand"
	"os"
	"path/filepath"
	"runtime"
	"runtime/debug"
	"sort"
	"strconv"
	"strings"
	"sync"
	"testing"
	"time"

	"github.com/celestiaorg/celestia-node/share"
	"github.com/celestiaorg/celestia-node/share/eds"
	"github.com/celestiaorg/celestia-node/store"

	"verifharness/storeref"
	"verifharness/vh"
)

// ---------------------------------------------------------------- world

type block struct {
	H   uint64 // real height
	MH  int    // model height (index in the trace for TLC)
	Ref *storeref.Ref
}

type world struct {
	dir    string
	st     *store.Store
	cs     *store.CachedStore
	c1, c2 int
	blocks []*block
	byH    map[uint64]*block
}

func hashStripe(h share.DataHash) int {
	last := uint16(h[len(h)-1]) | uint16(h[len(h)-2])<<8
	return int(last % 1024)
}

// buildBlocks: A and B collide on the height stripe (h, h+1024), on the cache stripe (mod 256) and
// on the hash stripe; C is a neighbour height with a larger square (Q4 written in several
// steps); E is the empty block.
func buildBlocks(seed int64, bigW int) ([]*block, error) {
	pool := map[int]*storeref.Ref{}
	var a, b *storeref.Ref
	for i := 0; i < 4000 && b == nil; i++ {
		r, err := storeref.Build(fmt.Sprintf("s%d", i), seed*100003+int64(i), 2, i%3)
		if err != nil {
			return nil, err
		}
		s := hashStripe(r.Hash)
		if o, ok := pool[s]; ok && string(o.Hash) != string(r.Hash) {
			a, b = o, r
			break
		}
		pool[s] = r
	}
	if b == nil {
		return nil, fmt.Errorf("no hash-stripe collision found")
	}
	c, err := storeref.Build("big", seed*7+1, bigW, 1+int(seed%5))
	if err != nil {
		return nil, err
	}
	base := uint64(10 + seed%200)
	return []*block{
		{H: base, MH: 1, Ref: a},
		{H: base + 1024, MH: 2, Ref: b},
		{H: base + 1, MH: 3, Ref: c},
		{H: base + 2, MH: 4, Ref: storeref.EmptyRef()},
	}, nil
}

func newWorld(root string, n int, blocks []*block, c1, c2 int) (*world, error) {
	dir := filepath.Join(root, fmt.Sprintf("w%05d", n))
	if err := os.MkdirAll(dir, 0o755); err != nil {
		return nil, err
	}
	st, err := store.NewStore(&store.Parameters{RecentBlocksCacheSize: c1}, dir)
	if err != nil {
		return nil, err
	}
	w := &world{dir: dir, st: st, c1: c1, c2: c2, blocks: blocks, byH: map[uint64]*block{}}
	for _, b := range blocks {
		w.byH[b.H] = b
	}
	if c2 > 0 {
		w.cs, err = st.WithCache("serving", c2)
		if err != nil {
			return nil, err
		}
	}
	return w, nil
}

func (w *world) odsPath(b *block) string {
	return filepath.Join(w.dir, "blocks", share.DataHash(b.Ref.Hash).String()+".ods")
}
func (w *world) q4Path(b *block) string {
	return filepath.Join(w.dir, "blocks", share.DataHash(b.Ref.Hash).String()+".q4")
}
func (w *world) linkPath(b *block) string {
	return filepath.Join(w.dir, "blocks", "heights", strconv.FormatUint(b.H, 10)+".ods")
}

// fileAbs: what the directory says about a height, in the vocabulary of StoreConc.tla (FileAbs).
func (w *world) fileAbs(b *block) string {
	_, lerr := os.Lstat(w.linkPath(b))
	if b.Ref.Empty {
		if lerr == nil {
			return "linked"
		}
		return "absent"
	}
	ofi, oerr := os.Stat(w.odsPath(b))
	qfi, qerr := os.Stat(w.q4Path(b))
	if lerr != nil {
		if oerr == nil || qerr == nil {
			return "debris"
		}
		return "absent"
	}
	if oerr != nil || ofi.Size() != b.Ref.OdsFileSize {
		return "broken-ods"
	}
	switch {
	case qerr != nil:
		return "ods"
	case qfi.Size() == b.Ref.Q4FileSize:
		return "odsq4"
	}
	return "partial-q4"
}

// apply is the sequential specification (StoreConc.tla Apply).
func apply(s, kind string, empty bool) string {
	if empty {
		switch kind {
		case "PutODSQ4", "PutODS":
			return "linked"
		case "RemoveODSQ4":
			return "absent"
		}
		return s
	}
	switch kind {
	case "PutODSQ4":
		return "odsq4"
	case "PutODS":
		if s == "absent" {
			return "ods"
		}
	case "RemoveODSQ4":
		return "absent"
	case "RemoveQ4":
		if s == "odsq4" {
			return "ods"
		}
	}
	return s
}

// ---------------------------------------------------------------- driver

type driver struct {
	t    *testing.T
	rep  *vh.Report
	ctx  context.Context
	root string
	nw   int
	lin  *os.File // NDJSON for StoreConcTrace.tla
	// dead: a schedule or program ended abnormally and may have left goroutines behind that still emit
	// markers; nothing recorded afterwards could be trusted, so nothing more is run
	dead bool
}

const opWatchdog = 150 * time.Second

func (d *driver) doOp(w *world, rnd *rand.Rand, kind string, b *block, progID string) {
	rec.mark(event{Ev: "call", Path: kind, H: b.H})
	res, errs := "ok", ""
	switch kind {
	case "PutODSQ4":
		if err := w.st.PutODSQ4(d.ctx, b.Ref.Roots, b.H, b.Ref.EDS); err != nil {
			res, errs = "err", err.Error()
		}
	case "PutODS":
		if err := w.st.PutODS(d.ctx, b.Ref.Roots, b.H, b.Ref.EDS); err != nil {
			res, errs = "err", err.Error()
		}
	case "RemoveODSQ4":
		if err := w.st.RemoveODSQ4(d.ctx, b.H, b.Ref.Hash); err != nil {
			res, errs = "err", err.Error()
		}
	case "RemoveQ4":
		if err := w.st.RemoveQ4(d.ctx, b.H, b.Ref.Hash); err != nil {
			res, errs = "err", err.Error()
		}
	case "Has":
		ok, err := w.st.HasByHeight(d.ctx, b.H)
		res = strconv.FormatBool(ok)
		if err != nil {
			res, errs = "err", err.Error()
		}
	case "Get", "CachedGet":
		var acc interface {
			Close() error
		}
		var err error
		var full = func() {}
		if kind == "Get" {
			a, e := w.st.GetByHeight(d.ctx, b.H)
			acc, err = a, e
			if e == nil {
				full = func() { d.readHeld(w, rnd, kind, b, a, progID) }
			}
		} else {
			a, e := w.cs.GetByHeight(d.ctx, b.H)
			acc, err = a, e
			if e == nil {
				full = func() { d.readHeld(w, rnd, kind, b, a, progID) }
			}
		}
		switch {
		case err == nil:
			res = "found"
			rec.mark(event{Ev: "ret", Path: kind, H: b.H, N: 1})
			full()
			if cerr := acc.Close(); cerr != nil {
				d.rep.Violate("C08/accessor-close-error/"+kind, fmt.Sprintf("%s: closing the accessor of height %d failed: %v", progID, b.H, cerr), nil)
			}
			rec.mark(event{Ev: "closed", Path: kind, H: b.H})
			d.rep.Count("accessors_held", 1)
			return
		case isNotFound(err):
			res = "notfound"
		default:
			res, errs = "err", err.Error()
		}
	}
	n := 0
	switch res {
	case "err":
		n = -1
	case "true", "found", "ok":
		n = 1
	}
	rec.mark(event{Ev: "ret", Path: kind, H: b.H, N: n})
	if res == "err" {
		d.rep.Violate("C08/op-error/"+kind, fmt.Sprintf("%s: %s(%d) returned an error under concurrency: %s", progID, kind, b.H, errs),
			map[string]any{"prog": progID, "op": kind, "height": b.H})
	}
	d.rep.Count("ops_"+kind, 1)
}

func isNotFound(err error) bool {
	return errors.Is(err, store.ErrNotFound) || strings.Contains(err.Error(), store.ErrNotFound.Error()) ||
		strings.Contains(err.Error(), "no such file")
}

// readHeld: a reader keeps its accessor over several bursts of reads, yielding in between, and
// compares every byte with the block of the height it asked for.
func (d *driver) readHeld(w *world, rnd *rand.Rand, kind string, b *block, acc storeAccessor, progID string) {
	bursts := 1 + rnd.Intn(3)
	for i := 0; i < bursts; i++ {
		var mm []storeref.Mismatch
		var reads int
		panicked, val := vh.Recover(func() {
			mm, reads = storeref.ReadSome(d.ctx, acc, b.Ref, rnd, 1+rnd.Intn(4), i == 0 && rnd.Intn(2) == 0)
		})
		d.rep.Count("reads_compared", int64(reads))
		if panicked {
			d.rep.Violate("C08/reader-panic/"+kind, fmt.Sprintf("%s: reading the accessor of height %d (via %s) panicked: %s", progID, b.H, kind, val),
				map[string]any{"prog": progID, "height": b.H})
			return
		}
		if len(mm) > 0 {
			d.rep.Violate("C08/reader-saw-wrong-data/"+kind,
				fmt.Sprintf("%s: an accessor of height %d obtained through %s (caches %d/%d) returned data that is not the block's while it was held: %v",
					progID, b.H, kind, w.c1, w.c2, mm),
				map[string]any{"prog": progID, "height": b.H, "via": kind, "mismatches": mm, "square": b.Ref.Name})
			return
		}
		runtime.Gosched()
	}
}

// ---------------------------------------------------------------- one seeded concurrent program

type progCfg struct {
	ID       string
	Seed     int64
	Workers  int
	OpsPer   int
	C1, C2   int
	Readonly bool
}

var writerKinds = []string{"PutODSQ4", "PutODS", "RemoveODSQ4", "RemoveQ4"}

func (d *driver) runProgram(blocks []*block, cfg progCfg) {
	if d.dead {
		return
	}
	d.nw++
	w, err := newWorld(d.root, d.nw, blocks, cfg.C1, cfg.C2)
	if err != nil {
		d.t.Fatal(err)
	}
	defer os.RemoveAll(w.dir)
	base := openFDs(w.dir)
	rec.start()
	var wg sync.WaitGroup
	for i := 0; i < cfg.Workers; i++ {
		wg.Add(1)
		go func(i int) {
			defer wg.Done()
			rnd := rand.New(rand.NewSource(cfg.Seed*1000 + int64(i)))
			// a third of the workers mostly write, the others mostly read
			writer := i%3 == 0
			for k := 0; k < cfg.OpsPer; k++ {
				b := blocks[rnd.Intn(len(blocks))]
				var kind string
				x := rnd.Intn(10)
				switch {
				case writer && x < 7, !writer && x < 2:
					kind = writerKinds[rnd.Intn(len(writerKinds))]
					if kind == "RemoveODSQ4" && rnd.Intn(2) == 0 {
						kind = "PutODSQ4" // keep blocks present often enough
					}
				case x == 9:
					kind = "Has"
				default:
					kind = "Get"
					if w.cs != nil && rnd.Intn(2) == 0 {
						kind = "CachedGet"
					}
				}
				d.doOp(w, rnd, kind, b, cfg.ID)
			}
		}(i)
	}
	ok, dump := vh.WithWatchdog(opWatchdog, wg.Wait)
	if !ok {
		d.reportHang(cfg.ID, dump)
		rec.stop()
		d.dead = true
		return
	}
	if !d.waitClosers(cfg.ID) {
		rec.stop()
		d.dead = true
		return
	}
	// every reader has closed its accessor and every evicted entry was closed: what is still open can
	// only belong to entries that are in the caches now (an ODS and a Q4 descriptor each)
	if fds := openFDs(w.dir); len(fds)-len(base) > 2*(cfg.C1+cfg.C2) {
		d.rep.Violate("C08/files-not-released/more-descriptors-than-cache-entries",
			fmt.Sprintf("%s: all accessors handed out are closed, the caches hold at most %d entries, but %d descriptors below the store directory are open, e.g. %s",
				cfg.ID, cfg.C1+cfg.C2, len(fds)-len(base), short(fds[0])), map[string]any{"prog": cfg.ID, "fds": fds})
	}
	evs := rec.snapshot()
	d.rep.Count("programs", 1)
	d.rep.Count("events", int64(len(evs)))
	d.monitorCache(cfg.ID, evs)
	model := d.monitorLin(w, cfg, evs)
	cycle := d.lockGraph(cfg.ID, evs)
	d.finalState(w, cfg, model)
	if cycle != nil {
		if d.forceDeadlock(w, cfg.ID, cycle) {
			rec.stop()
			d.dead = true
			return // the world is dead-locked for good
		}
	}
	d.teardown(w, cfg.ID, base)
	rec.stop()
}

// reportHang: the program did not finish. It is a violation (an operation that does not terminate)
// only if the goroutines are provably blocked for good: every worker is parked on a lock or channel
// and two dumps taken seconds apart are identical.
func (d *driver) reportHang(id, dump1 string) {
	time.Sleep(5 * time.Second)
	buf := make([]byte, 1<<20)
	dump2 := string(buf[:runtime.Stack(buf, true)])
	st1, st2 := workerStacks(dump1), workerStacks(dump2)
	same := len(st1) > 0 && len(st1) == len(st2)
	for g, s := range st1 {
		if st2[g] != s {
			same = false
		}
	}
	parked := true
	for _, s := range st2 {
		if !(strings.Contains(s, "[sync.RWMutex.Lock") || strings.Contains(s, "[sync.RWMutex.RLock") ||
			strings.Contains(s, "[sync.Mutex.Lock") || strings.Contains(s, "[semacquire") ||
			strings.Contains(s, "[chan receive") || strings.Contains(s, "[select") || strings.Contains(s, "[sync.WaitGroup.Wait")) {
			parked = false
		}
	}
	if same && parked {
		d.rep.Violate("C08/non-termination/"+hangSignature(st2),
			fmt.Sprintf("%s: the concurrent program did not finish within %s and all its goroutines are parked on locks/channels with unchanged stacks (dead-lock): %s",
				id, opWatchdog, summarize(st2)),
			map[string]any{"prog": id, "stacks": st2})
		return
	}
	d.rep.Inconclusivef("%s: program did not finish within %s but quiescence could not be proved (goroutines still moving)", id, opWatchdog)
}

func workerStacks(dump string) map[string]string {
	out := map[string]string{}
	for _, g := range strings.Split(dump, "\n\n") {
		if !strings.Contains(g, "storeconc.(*driver).doOp") && !strings.Contains(g, "cache.(*accessor).close") {
			continue
		}
		lines := strings.Split(g, "\n")
		hdr := lines[0]
		id := strings.Fields(hdr)[1]
		// state without the wait duration
		state := hdr
		if i := strings.Index(hdr, "["); i >= 0 {
			state = hdr[i:]
			if j := strings.Index(state, ","); j >= 0 {
				state = state[:j] + "]"
			}
		}
		var fr []string
		for _, l := range lines[1:] {
			if !strings.HasPrefix(l, "\t") && strings.Contains(l, "celestia-node/store") {
				fr = append(fr, strings.Split(strings.TrimSpace(l), "(0x")[0])
			}
		}
		out[id] = state + " " + strings.Join(fr, " < ")
	}
	return out
}

func hangSignature(st map[string]string) string {
	set := map[string]bool{}
	for _, s := range st {
		for _, f := range []string{"multiLock).lock", "RemoveODSQ4", "RemoveQ4", "GetByHeight", "HasByHeight", "put", "accessor).close", "GetOrLoad"} {
			if strings.Contains(s, f) {
				set[f] = true
			}
		}
	}
	var ks []string
	for k := range set {
		ks = append(ks, k)
	}
	sort.Strings(ks)
	return strings.Join(ks, "+")
}

func summarize(st map[string]string) string {
	var ss []string
	for g, s := range st {
		ss = append(ss, "g"+g+": "+s)
	}
	sort.Strings(ss)
	if len(ss) > 6 {
		ss = ss[:6]
	}
	return strings.Join(ss, " | ")
}

// waitClosers waits until every cache entry that was evicted or whose close began has been closed
// (the eviction call-back closes in its own goroutine).
func (d *driver) waitClosers(id string) bool {
	deadline := time.Now().Add(90 * time.Second)
	for {
		evs := rec.snapshot()
		pending := map[uintptr]bool{}
		for _, e := range evs {
			switch e.Ev {
			case "c.evict", "c.close.begin":
				if !pending[e.Acc] {
					pending[e.Acc] = true
				}
			}
		}
		for _, e := range evs {
			if e.Ev == "c.close.inner" {
				delete(pending, e.Acc)
			}
		}
		if len(pending) == 0 {
			return true
		}
		if time.Now().After(deadline) {
			// all readers have closed their handles, yet an evicted/removed entry is never closed
			var hist []event
			for _, x := range evs {
				if pending[x.Acc] {
					hist = append(hist, x)
				}
			}
			buf := make([]byte, 1<<20)
			d.rep.Violate("C08/files-not-released/evicted-entry-never-closed",
				fmt.Sprintf("%s: %d cache entries were evicted/removed, all handles are closed, but their accessors were not closed within 90s", id, len(pending)),
				map[string]any{"prog": id, "entry_events": hist, "stacks": string(buf[:runtime.Stack(buf, true)])})
			return false
		}
		time.Sleep(20 * time.Millisecond)
	}
}

// ---------------------------------------------------------------- monitors on the cache events

func (d *driver) monitorCache(id string, evs []event) {
	type st struct {
		refs     int32
		timeout  bool
		closed   bool
		handles  int
		lastSeen int
	}
	m := map[uintptr]*st{}
	get := func(a uintptr) *st {
		if m[a] == nil {
			m[a] = &st{}
		}
		return m[a]
	}
	for _, e := range evs {
		if !strings.HasPrefix(e.Ev, "c.") || e.Acc == 0 {
			continue
		}
		s := get(e.Acc)
		s.lastSeen = e.Seq
		switch e.Ev {
		case "c.ref+":
			s.handles++
			s.refs = e.Refs
			if s.closed {
				d.rep.Violate("C08/use-after-close/ref-granted-on-closed-entry",
					fmt.Sprintf("%s: a reference was granted on a cache entry whose accessor was already closed", id), map[string]any{"prog": id, "seq": e.Seq})
			}
		case "c.ref-":
			s.handles--
			s.refs = e.Refs
			if e.Refs < 0 || s.handles < 0 {
				var hist []event
				for _, x := range evs {
					if x.Acc == e.Acc {
						hist = append(hist, x)
					}
				}
				d.rep.Violate("C08/refs-unbalanced/negative",
					fmt.Sprintf("%s: reference count of a cache entry dropped to %d (handles %d)", id, e.Refs, s.handles), map[string]any{"prog": id, "seq": e.Seq, "entry_events": hist})
			}
		case "c.close.timeout":
			s.timeout = true
		case "c.close.inner":
			if s.closed {
				d.rep.Violate("C08/double-close/cache-entry", fmt.Sprintf("%s: the accessor of a cache entry was closed twice", id), map[string]any{"prog": id, "seq": e.Seq})
			}
			s.closed = true
			// e.Refs is the counter read atomically inside the marker; the marker ORDER of a ref- and of
			// the close it wakes up is not reliable (the counter drops before its marker is recorded)
			if e.Refs != 0 && !s.timeout {
				var hist []event
				for _, x := range evs {
					if x.Acc == e.Acc {
						hist = append(hist, x)
					}
				}
				d.rep.Violate("C08/use-after-close/closed-with-references",
					fmt.Sprintf("%s: the accessor of a cache entry was closed while %d references (%d handles) were still open and no time-out had fired", id, e.Refs, s.handles),
					map[string]any{"prog": id, "seq": e.Seq, "entry_events": hist})
			}
		}
	}
	for _, s := range m {
		d.rep.Count("cache_entries_observed", 1)
		if s.handles != 0 || s.refs != 0 {
			d.rep.Violate("C08/refs-unbalanced/at-quiescence",
				fmt.Sprintf("%s: all readers closed their handles but a cache entry still counts %d references (%d handles by events)", id, s.refs, s.handles),
				map[string]any{"prog": id})
		}
	}
}

// ---------------------------------------------------------------- linearization monitor

type linLine map[string]any

// monitorLin replays the writers in the order in which they held the height lock, checks every
// Get/Has that ran under the height lock against the sequential state at that point and returns the
// final sequential state. The same data is written for StoreConcTrace.tla.
func (d *driver) monitorLin(w *world, cfg progCfg, evs []event) map[uint64]string {
	model := map[uint64]string{}
	for _, b := range w.blocks {
		model[b.H] = "absent"
	}
	cur := map[int64]*event{}          // goroutine -> its current call
	pending := map[int64]*linLine{}    // goroutine -> Get/Has line waiting for its result
	inflight := map[uint64]int{}       // height -> puts between their cache insertion and their lock
	cachedBy := map[int64]bool{}       // goroutine has published to the cache and not yet locked
	// lines in the order of the markers (= the order of the height lock); the result of a Get/Has is
	// filled in when the call returns
	var lines []*linLine
	lines = append(lines, &linLine{"ev": "reset", "c1": cfg.C1, "c2": cfg.C2, "prog": cfg.ID})
	for i := range evs {
		e := &evs[i]
		b := w.byH[e.H]
		switch e.Ev {
		case "call":
			cur[e.G] = e
			// a put publishes its in-memory accessor to the cache before it takes the locks (and before
			// its put.cached marker is recorded): in flight from the call to the lock
			if b != nil && !b.Ref.Empty && (e.Path == "PutODSQ4" || e.Path == "PutODS") {
				inflight[e.H]++
				cachedBy[e.G] = true
			}
		case "put.locked", "removeodsq4.locked", "removeq4.locked":
			c := cur[e.G]
			if c == nil || b == nil {
				continue
			}
			if cachedBy[e.G] {
				inflight[e.H]--
				cachedBy[e.G] = false
			}
			model[e.H] = apply(model[e.H], c.Path, b.Ref.Empty)
			lines = append(lines, &linLine{"ev": "w", "k": c.Path, "h": b.MH})
			d.rep.Count("lin_writes", 1)
		case "get.cached", "get.open", "has":
			c := cur[e.G]
			if c == nil || b == nil || (c.Path != "Get" && c.Path != "Has") {
				continue // e.g. hasByHeight reached through CachedStore.HasByHeight is the same code; Get only through Store
			}
			if e.Ev != "has" && c.Path != "Get" {
				continue
			}
			l := &linLine{"ev": strings.ToLower(c.Path), "h": b.MH, "via": e.Ev, "inflight": inflight[e.H] > 0, "state": model[e.H], "seq": e.Seq}
			pending[e.G] = l
			lines = append(lines, l)
		case "ret":
			if l := pending[e.G]; l != nil {
				delete(pending, e.G)
				if e.N != -1 { // an error is reported on its own; it is no answer to compare
					(*l)["res"] = e.N == 1
				}
				present := (*l)["state"].(string) != "absent"
				infl := (*l)["inflight"].(bool)
				found := e.N == 1
				kind := (*l)["ev"].(string)
				d.rep.Count("lin_reads_checked", 1)
				if e.N == -1 {
					continue
				}
				if found && !present && !infl {
					d.rep.Violate("C08/not-linearizable/"+kind+"-found-removed-block",
						fmt.Sprintf("%s: %s(%d) under the height lock (marker %s) answered 'present' although in the order of the lock the block was removed and no put was in flight (stale cache entry)",
							cfg.ID, kind, e.H, (*l)["via"]), map[string]any{"prog": cfg.ID, "height": e.H, "line": *l})
				}
				if !found && present {
					d.rep.Violate("C08/not-linearizable/"+kind+"-missed-stored-block",
						fmt.Sprintf("%s: %s(%d) under the height lock answered 'absent' although the block was stored (%s) at that point of the lock order",
							cfg.ID, kind, e.H, (*l)["state"]), map[string]any{"prog": cfg.ID, "height": e.H, "line": *l})
				}
			}
			delete(cur, e.G)
		}
	}
	// final lines are added by finalState
	var out []linLine
	for _, l := range lines {
		if ev := (*l)["ev"]; ev == "get" || ev == "has" {
			if _, ok := (*l)["res"]; !ok {
				continue // the call did not return inside the recording
			}
		}
		out = append(out, *l)
	}
	d.writeLin(out)
	if len(out) > 14 {
		d.rep.Sample(map[string]any{"program": cfg.ID, "linearized_execution_head": out[:14]})
	}
	return model
}

func (d *driver) writeLin(lines []linLine) {
	if d.lin == nil {
		return
	}
	enc := json.NewEncoder(d.lin)
	for _, l := range lines {
		delete(l, "seq")
		enc.Encode(l)
	}
}

// finalState: once activity stopped, directory + caches must equal the sequential state.
func (d *driver) finalState(w *world, cfg progCfg, model map[uint64]string) {
	var lines []linLine
	for _, b := range w.blocks {
		fa := w.fileAbs(b)
		has, herr := w.st.HasByHeight(d.ctx, b.H)
		want := model[b.H]
		lines = append(lines, linLine{"ev": "final", "h": b.MH, "files": fa, "has": has, "state": want})
		d.rep.Count("final_states_checked", 1)
		if fa != want {
			d.rep.Violate("C08/not-linearizable/final-directory/"+want+"-vs-"+fa,
				fmt.Sprintf("%s: after all operations returned, height %d is %q in the directory but %q after the operations applied in the order of the height lock",
					cfg.ID, b.H, fa, want), map[string]any{"prog": cfg.ID, "height": b.H})
		}
		if herr != nil || has != (want != "absent") {
			d.rep.Violate("C08/not-linearizable/final-has/"+want,
				fmt.Sprintf("%s: after all operations returned HasByHeight(%d)=%v (err %v) but the sequential state is %q (directory %q): stale cache entry",
					cfg.ID, b.H, has, herr, want, fa), map[string]any{"prog": cfg.ID, "height": b.H})
		}
		for _, via := range []string{"Get", "CachedGet"} {
			if via == "CachedGet" && w.cs == nil {
				continue
			}
			var acc storeAccessor
			var err error
			if via == "Get" {
				acc, err = w.st.GetByHeight(d.ctx, b.H)
			} else {
				acc, err = w.cs.GetByHeight(d.ctx, b.H)
			}
			switch {
			case err == nil:
				if want == "absent" {
					d.rep.Violate("C08/not-linearizable/final-get/"+via,
						fmt.Sprintf("%s: after all operations returned %s(%d) still returns an accessor although the block was removed (directory %q)", cfg.ID, via, b.H, fa),
						map[string]any{"prog": cfg.ID, "height": b.H})
				}
				mm, n := storeref.ReadSome(d.ctx, acc, b.Ref, rand.New(rand.NewSource(cfg.Seed)), 6, true)
				d.rep.Count("reads_compared", int64(n))
				if len(mm) > 0 {
					d.rep.Violate("C08/reader-saw-wrong-data/final-"+via,
						fmt.Sprintf("%s: after quiescence %s(%d) serves data that is not the block's: %v", cfg.ID, via, b.H, mm), map[string]any{"prog": cfg.ID, "height": b.H, "mismatches": mm})
				}
				acc.Close()
			case isNotFound(err):
				if want != "absent" {
					d.rep.Violate("C08/not-linearizable/final-get-missing/"+via,
						fmt.Sprintf("%s: after all operations returned %s(%d) says not found but the sequential state is %q", cfg.ID, via, b.H, want),
						map[string]any{"prog": cfg.ID, "height": b.H})
				}
			default:
				d.rep.Violate("C08/op-error/final-"+via, fmt.Sprintf("%s: %s(%d) failed after quiescence: %v", cfg.ID, via, b.H, err), map[string]any{"prog": cfg.ID})
			}
		}
	}
	d.writeLin(lines)
	d.rep.Count("lin_segments", 1)
}

// teardown: remove every block (this also empties the caches), wait for the closers; then nothing
// below the store directory may be open any more.
func (d *driver) teardown(w *world, id string, base []string) {
	for _, b := range w.blocks {
		if err := w.st.RemoveODSQ4(d.ctx, b.H, b.Ref.Hash); err != nil {
			d.rep.Violate("C08/op-error/teardown-remove", fmt.Sprintf("%s: RemoveODSQ4(%d) at teardown failed: %v", id, b.H, err), nil)
		}
	}
	if !d.waitClosers(id) {
		return
	}
	fds := openFDs(w.dir)
	d.rep.Count("fd_checks", 1)
	if len(fds) > len(base) {
		names := map[string]int{}
		for _, f := range fds {
			k := "ods"
			if strings.Contains(f, ".q4") {
				k = "q4"
			}
			if strings.Contains(f, "(deleted)") {
				k += "-deleted"
			}
			names[k]++
		}
		d.rep.Violate("C08/files-not-released/descriptors-open-after-remove",
			fmt.Sprintf("%s: every accessor was closed and every block removed, but %d descriptors below the store directory are still open (%v), e.g. %s",
				id, len(fds)-len(base), names, short(fds[0])),
			map[string]any{"prog": id, "fds": fds})
	}
}

// ---------------------------------------------------------------- lock-order graph of the multi-locks

type lockEdge struct {
	From, To string
	Kind     string
	H        uint64
}

// lockGraph returns an inversion (a->b by one operation, b->a by another) if the observed
// acquisition orders of multiLock contain one.
func (d *driver) lockGraph(id string, evs []event) []lockEdge {
	held := map[int64][]string{}
	cur := map[int64]*event{}
	edges := map[[2]string]lockEdge{}
	for i := range evs {
		e := &evs[i]
		switch e.Ev {
		case "call":
			cur[e.G] = e
		case "mlock.acq":
			for _, h := range held[e.G] {
				k := [2]string{h, e.Path}
				if _, ok := edges[k]; !ok && cur[e.G] != nil {
					edges[k] = lockEdge{From: h, To: e.Path, Kind: cur[e.G].Path, H: cur[e.G].H}
				}
			}
			held[e.G] = append(held[e.G], e.Path)
			d.rep.Count("lock_acquisitions", 1)
		case "mlock.rel":
			hs := held[e.G]
			for j := len(hs) - 1; j >= 0; j-- {
				if hs[j] == e.Path {
					held[e.G] = append(hs[:j], hs[j+1:]...)
					break
				}
			}
		}
	}
	for k, e1 := range edges {
		if e2, ok := edges[[2]string{k[1], k[0]}]; ok {
			return []lockEdge{e1, e2}
		}
	}
	return nil
}

// forceDeadlock: two operations were seen to take the same two locks in opposite orders. Run them
// again, each held right after its first lock, then let both go.
func (d *driver) forceDeadlock(w *world, id string, cyc []lockEdge) bool {
	e1, e2 := cyc[0], cyc[1]
	g1 := newGate("first lock of op1", func(e *event) bool { return e.Ev == "mlock.acq" && e.Path == e1.From })
	g2 := newGate("first lock of op2", func(e *event) bool { return e.Ev == "mlock.acq" && e.Path == e2.From })
	rec.start(g1, g2)
	done := make(chan struct{}, 2)
	rnd := rand.New(rand.NewSource(1))
	go func() { d.doOp(w, rnd, e1.Kind, w.byH[e1.H], id+"/forced"); done <- struct{}{} }()
	select {
	case <-g1.arrived:
	case <-time.After(30 * time.Second):
		d.rep.Inconclusivef("%s: lock-order inversion seen (%s(%d) vs %s(%d)) but the first operation could not be held at its first lock", id, e1.Kind, e1.H, e2.Kind, e2.H)
		close(g1.release)
		close(g2.release)
		return false
	}
	go func() { d.doOp(w, rand.New(rand.NewSource(2)), e2.Kind, w.byH[e2.H], id+"/forced"); done <- struct{}{} }()
	select {
	case <-g2.arrived:
	case <-time.After(30 * time.Second):
		d.rep.Inconclusivef("%s: lock-order inversion seen but the second operation did not reach its first lock", id)
		close(g1.release)
		close(g2.release)
		return false
	}
	close(g1.release)
	close(g2.release)
	n := 0
	timeout := time.After(20 * time.Second)
	for n < 2 {
		select {
		case <-done:
			n++
		case <-timeout:
			buf := make([]byte, 1<<20)
			st := workerStacks(string(buf[:runtime.Stack(buf, true)]))
			d.rep.Violate("C08/deadlock/lock-order-inversion/"+e1.Kind+"-vs-"+e2.Kind,
				fmt.Sprintf("%s: %s(%d) and %s(%d) take the same two stripe locks in opposite orders; run concurrently, each holding its first lock, neither returned within 20s: %s",
					id, e1.Kind, e1.H, e2.Kind, e2.H, summarize(st)),
				map[string]any{"prog": id, "op1": e1, "op2": e2, "stacks": st})
			return true
		}
	}
	d.rep.Set("lock_inversion_without_deadlock", fmt.Sprintf("%s(%d) vs %s(%d)", e1.Kind, e1.H, e2.Kind, e2.H))
	return false
}

// ---------------------------------------------------------------- entry

func TestDriver(t *testing.T) {
	rep := vh.NewReport()
	defer func() {
		if err := rep.Write(); err != nil {
			t.Fatal(err)
		}
	}()
	installHooks()
	// a descriptor that leaked must stay visible: no finalizer may close it behind our back
	debug.SetGCPercent(-1)
	seed := vh.Seed()
	root, err := os.MkdirTemp(vh.WorkDir(), "storeconc")
	if err != nil {
		t.Fatal(err)
	}
	defer os.RemoveAll(root)
	ctx, cancel := context.WithCancel(context.Background())
	defer cancel()
	d := &driver{t: t, rep: rep, ctx: ctx, root: root}
	if p := os.Getenv("VERIF_LIN_OUT"); p != "" {
		d.lin, err = os.Create(p)
		if err != nil {
			t.Fatal(err)
		}
		defer d.lin.Close()
	}
	blocks, err := buildBlocks(seed, vh.EnvInt("VERIF_BIG_W", 16))
	if err != nil {
		t.Fatal(err)
	}
	rep.Set("heights", []uint64{blocks[0].H, blocks[1].H, blocks[2].H, blocks[3].H})
	rep.Set("hash_stripe_collision", hashStripe(blocks[0].Ref.Hash) == hashStripe(blocks[1].Ref.Hash))

	// gated schedules (B2): the schedules TLC reports for the model variants without the fixes
	d.scenarioHeldAccessor(blocks)
	d.scenarioStaleServingCache(blocks)
	d.scenarioRePutOverExisting(blocks)
	d.scenarioSharedAccessor(blocks)
	d.scenarioSecondSquareLoad(blocks)

	// seeded random programs (B1)
	nprog := vh.EnvInt("VERIF_PROGRAMS", 60)
	for i := 0; i < nprog; i++ {
		cfg := progCfg{ID: fmt.Sprintf("prog%d/seed%d", i, seed), Seed: seed*100000 + int64(i),
			Workers: 6 + i%7, OpsPer: 10 + (i*7)%15, C1: i % 3, C2: (i / 3) % 3}
		cfg.ID += fmt.Sprintf("/c1=%d,c2=%d,w=%d", cfg.C1, cfg.C2, cfg.Workers)
		d.runProgram(blocks, cfg)
		runtime.GC() // explicit collections between programs only (finalizers of dead programs may run here)
		if len(rep.Violations) > 40 || d.dead {
			break
		}
	}
	rep.Set("seed", seed)
	rep.Set("aborted_early", d.dead)
}

type storeAccessor = eds.AccessorStreamer
