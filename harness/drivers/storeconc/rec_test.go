// Package storeconc is the C08 driver: seeded concurrent programs and gated schedules on the real
// store (store.Store + CachedStore), observed through the verif markers of store, store/file and
// store/cache, judged by monitors derived from spec/store/StoreConc.tla:
//
//	ReadersSeeOwnBlock  every byte read through every accessor equals the block of its height
//	NoUseAfterClose     a cache entry's accessor is closed only when its reference count is 0
//	RefsBalanced        counters never negative, zero once all handles are closed
//	Linearizable        results of Get/Has under the height lock and the final directory/cache content
//	                    equal the sequential specification applied in the observed lock order
//	                    (also validated by TLC: StoreConcTrace.tla)
//	FilesReleased       no descriptor under the store directory stays open after everything was closed
//	                    and removed (garbage collector off: a leaked descriptor is not rescued by a finalizer)
//	termination         watchdogs + lock-order graph of the multi-locks (an inversion is then forced)
package storeconc

import (
	"bytes"
	"fmt"
	"os"
	"path/filepath"
	"runtime"
	"strconv"
	"strings"
	"sync"

	"github.com/celestiaorg/celestia-node/store"
	"github.com/celestiaorg/celestia-node/store/cache"
	"github.com/celestiaorg/celestia-node/store/file"
)

// gid returns the id of the calling goroutine (markers do not carry one).
func gid() int64 {
	var buf [64]byte
	n := runtime.Stack(buf[:], false)
	b := buf[:n]
	b = bytes.TrimPrefix(b, []byte("goroutine "))
	if i := bytes.IndexByte(b, ' '); i > 0 {
		if v, err := strconv.ParseInt(string(b[:i]), 10, 64); err == nil {
			return v
		}
	}
	return -1
}

type event struct {
	Seq  int     `json:"seq"`
	G    int64   `json:"g"`
	Ev   string  `json:"ev"`
	H    uint64  `json:"h,omitempty"`
	Path string  `json:"path,omitempty"`
	N    int     `json:"n,omitempty"`
	Acc  uintptr `json:"acc,omitempty"`
	Refs int32   `json:"refs,omitempty"`
}

// gate holds the goroutine that emits a matching event until released.
type gate struct {
	name    string
	match   func(e *event) bool
	arrived chan struct{}
	release chan struct{}
	hit     bool
}

func newGate(name string, match func(e *event) bool) *gate {
	return &gate{name: name, match: match, arrived: make(chan struct{}), release: make(chan struct{})}
}

type recorder struct {
	mu    sync.Mutex
	on    bool
	evs   []event
	seq   int
	gates []*gate
}

var rec = &recorder{}

func installHooks() {
	file.SetVerifHook(func(ev, path string, n int) { rec.emit(event{Ev: ev, Path: path, N: n}) })
	store.SetVerifHook(func(ev string, height uint64, path string) { rec.emit(event{Ev: ev, H: height, Path: path}) })
	cache.SetVerifHook(func(ev string, height uint64, acc uintptr, refs int32) {
		rec.emit(event{Ev: "c." + ev, H: height, Acc: acc, Refs: refs})
	})
}

func (r *recorder) start(gates ...*gate) {
	r.mu.Lock()
	r.on = true
	r.evs = nil
	r.gates = gates
	r.mu.Unlock()
}

// arm installs gates while recording continues.
func (r *recorder) arm(gates ...*gate) {
	r.mu.Lock()
	r.gates = gates
	r.mu.Unlock()
}

func (r *recorder) stop() []event {
	r.mu.Lock()
	defer r.mu.Unlock()
	r.on = false
	out := r.evs
	r.evs = nil
	r.gates = nil
	return out
}

func (r *recorder) snapshot() []event {
	r.mu.Lock()
	defer r.mu.Unlock()
	return append([]event(nil), r.evs...)
}

// mark lets the driver put its own events (call / return of operations) into the same sequence.
func (r *recorder) mark(e event) int {
	e.G = gid()
	r.mu.Lock()
	defer r.mu.Unlock()
	if !r.on {
		return 0
	}
	r.seq++
	e.Seq = r.seq
	r.evs = append(r.evs, e)
	return e.Seq
}

func (r *recorder) emit(e event) {
	e.G = gid()
	r.mu.Lock()
	// per-share markers of the writers are only needed as gates
	if !r.on || ((e.Ev == "ods.share" || e.Ev == "q4.share") && len(r.gates) == 0) {
		r.mu.Unlock()
		return
	}
	r.seq++
	e.Seq = r.seq
	r.evs = append(r.evs, e)
	var g *gate
	for _, x := range r.gates {
		if !x.hit && x.match(&e) {
			x.hit = true
			g = x
			break
		}
	}
	r.mu.Unlock()
	if g != nil {
		close(g.arrived)
		<-g.release
	}
}

// openFDs lists the descriptors of this process that point below dir.
func openFDs(dir string) []string {
	ents, err := os.ReadDir("/proc/self/fd")
	if err != nil {
		return nil
	}
	var out []string
	for _, e := range ents {
		t, err := os.Readlink(filepath.Join("/proc/self/fd", e.Name()))
		if err != nil {
			continue
		}
		if strings.HasPrefix(t, dir+"/") || strings.HasPrefix(strings.TrimSuffix(t, " (deleted)"), dir+"/") {
			out = append(out, t)
		}
	}
	return out
}

func short(p string) string {
	b := filepath.Base(p)
	if len(b) > 20 {
		return b[:8] + ".." + b[len(b)-6:]
	}
	return b
}

var _ = fmt.Sprintf
