package limits

// Binding of spec/limits/ShrexLimits.tla to the real shrex server.
//
// The REAL shrex.Server is started on a host stub that only records the stream handlers it installs
// (Server.Start -> SetStreamHandler: the handlers are the real streamHandler wrapped in the real
// RecoveryMiddleware). The driver plays the libp2p host/swarm: it opens a stream scope in a REAL
// resource manager (rcmgr.OpenStream + SetProtocol, as basichost does before it calls a handler),
// hands the handler a stream whose Scope() is that real scope and whose Conn().RemoteMultiaddr() is
// the address the model chose, and gates the handler inside the store (GetByHeight) and inside the
// accessor (Reader / AxisHalf). Closing or resetting the stream ends its scope, as the swarm does.
// Rate and burst are the package's own variables set through the verif accessor; the limiter is the
// real one and reads the bubble's clock.

import (
	"bytes"
	"context"
	"errors"
	"fmt"
	"io"
	"math"
	"os"
	"sync"
	"testing"
	"testing/synctest"
	"time"

	"github.com/celestiaorg/rsmt2d"
	"github.com/libp2p/go-libp2p/core/host"
	"github.com/libp2p/go-libp2p/core/network"
	"github.com/libp2p/go-libp2p/core/peer"
	"github.com/libp2p/go-libp2p/core/protocol"
	rcmgr "github.com/libp2p/go-libp2p/p2p/host/resource-manager"
	ma "github.com/multiformats/go-multiaddr"

	"verifharness/vh"

	"github.com/celestiaorg/celestia-node/share/eds"
	"github.com/celestiaorg/celestia-node/share/eds/edstest"
	"github.com/celestiaorg/celestia-node/share/shwap"
	"github.com/celestiaorg/celestia-node/share/shwap/p2p/shrex"
	"github.com/celestiaorg/celestia-node/store"
)

// ---- plan format

type shLabel struct {
	Op    string `json:"op"`
	S     int    `json:"s"`
	Peer  int    `json:"peer"`
	Proto int    `json:"proto"`
	Go    string `json:"go"`
	How   string `json:"how"`
}

type shProj struct {
	Svc     int      `json:"svc"`
	Mem     int      `json:"mem"`
	Proto   []int    `json:"proto"`
	Peer    []int    `json:"peer"`
	PeerMem []int    `json:"peermem"`
	Stage   []string `json:"stage"`
	Quiet   bool     `json:"quiet"`
}

type shStep struct {
	L shLabel `json:"l"`
	O string  `json:"o"`
	P shProj  `json:"p"`
}

type shPlan struct {
	Name         string     `json:"name"`
	IPs          []string   `json:"ips"` // per peer: "x", "y", ... | "lo" | "none"
	Need         []int      `json:"need"`
	ProtoLim     []int      `json:"protoLim"`
	ProtoPeerLim []int      `json:"protoPeerLim"`
	SvcLim       int        `json:"svcLim"`
	SvcPeerLim   int        `json:"svcPeerLim"`
	SvcMem       int        `json:"svcMem"`
	SvcPeerMem   int        `json:"svcPeerMem"`
	Burst        int        `json:"burst"`
	Rate         int        `json:"rate"`
	RateOn       bool       `json:"rateOn"`
	Paths        [][]shStep `json:"paths"`

	// set by the driver for the directed runs against the limits of limits.go (not from TLC)
	unit     int                        // bytes per memory unit (0: shUnit)
	real     *rcmgr.ConcreteLimitConfig // the resource manager is built from this instead of the plan's numbers
	tick     time.Duration              // duration of one tick (0: shTick)
	fakeSize []int                      // per protocol: the square width the accessor reports (0: the real one)
	noModel  bool                       // no model expectation: only the monitors judge
}

func (p *shPlan) unitBytes() int {
	if p.unit > 0 {
		return p.unit
	}
	return shUnit
}

type addrCase struct {
	Class string `json:"class"`
	Treat string `json:"treat"`
}

type shPlans struct {
	Plans  []shPlan   `json:"plans"`
	ACases []addrCase `json:"acases"`
}

const (
	shNetwork = "verif"
	shUnit    = 512 // bytes per model memory unit: RowID of a 2x2 square reserves 1 unit, EdsID of a 4x4 square 4 units
	shTick    = time.Minute + time.Millisecond
)

// the two request types the model's protocols are mapped to
var shProtoName = []string{"", (&shwap.EdsID{}).Name(), (&shwap.RowID{}).Name()}

// ---- stubs: host, connection, stream

type hostStub struct {
	host.Host
	mu       sync.Mutex
	handlers map[protocol.ID]network.StreamHandler
}

func (h *hostStub) SetStreamHandler(p protocol.ID, f network.StreamHandler) {
	h.mu.Lock()
	h.handlers[p] = f
	h.mu.Unlock()
}

func (h *hostStub) RemoveStreamHandler(p protocol.ID) {
	h.mu.Lock()
	delete(h.handlers, p)
	h.mu.Unlock()
}

type connStub struct {
	network.Conn
	pid  peer.ID
	addr ma.Multiaddr
}

func (c *connStub) RemotePeer() peer.ID                { return c.pid }
func (c *connStub) RemoteMultiaddr() ma.Multiaddr      { return c.addr }
func (c *connStub) LocalMultiaddr() ma.Multiaddr       { return ma.StringCast("/ip4/10.9.9.9/tcp/2121") }
func (c *connStub) LocalPeer() peer.ID                 { return peer.ID("verif-server") }
func (c *connStub) ID() string                         { return "verif-conn" }
func (c *connStub) Stat() network.ConnStats            { return network.ConnStats{} }
func (c *connStub) ConnState() network.ConnectionState { return network.ConnectionState{} }

type streamStub struct {
	network.Stream
	conn  *connStub
	scope network.StreamManagementScope
	proto protocol.ID
	rd    *bytes.Reader

	mu      sync.Mutex
	state   string // "open" | "closed" | "reset" | "reset-code"
	code    network.StreamErrorCode
	written int
	ends    int // how often the stream was ended (Close / Reset): the scope is done at the first
}

func (s *streamStub) end(state string, code network.StreamErrorCode) {
	s.mu.Lock()
	first := s.ends == 0
	s.ends++
	if first {
		s.state, s.code = state, code
	}
	s.mu.Unlock()
	if first {
		s.scope.Done() // swarm.Stream: closeAndRemoveStream -> scope.Done()
	}
}

func (s *streamStub) Read(p []byte) (int, error) { return s.rd.Read(p) }
func (s *streamStub) Write(p []byte) (int, error) {
	s.mu.Lock()
	defer s.mu.Unlock()
	if s.state != "open" {
		return 0, network.ErrReset
	}
	s.written += len(p)
	return len(p), nil
}
func (s *streamStub) Close() error      { s.end("closed", 0); return nil }
func (s *streamStub) CloseRead() error  { return nil }
func (s *streamStub) CloseWrite() error { return nil }
func (s *streamStub) Reset() error      { s.end("reset", 0); return nil }
func (s *streamStub) ResetWithError(c network.StreamErrorCode) error {
	s.end("reset-code", c)
	return nil
}
func (s *streamStub) SetDeadline(time.Time) error      { return nil }
func (s *streamStub) SetReadDeadline(time.Time) error  { return nil }
func (s *streamStub) SetWriteDeadline(time.Time) error { return nil }
func (s *streamStub) ID() string                       { return "verif-stream" }
func (s *streamStub) Protocol() protocol.ID            { return s.proto }
func (s *streamStub) SetProtocol(protocol.ID) error    { return nil }
func (s *streamStub) Stat() network.Stats              { return network.Stats{Direction: network.DirInbound} }
func (s *streamStub) Conn() network.Conn               { return s.conn }
func (s *streamStub) Scope() network.StreamScope       { return s.scope }

func (s *streamStub) snapshot() (string, network.StreamErrorCode) {
	s.mu.Lock()
	defer s.mu.Unlock()
	return s.state, s.code
}

// ---- gated store and accessor

type storeAnswer struct {
	acc      eds.AccessorStreamer
	fakeSize int
	err      error
	pan      bool
}

type shGate struct {
	inStore  chan struct{} // closed when GetByHeight was reached
	store    chan storeAnswer
	inReader chan struct{} // closed when the response builder was reached (memory is reserved)
	reader   chan string   // "served" | "failed" | "panicked"
	done     chan struct{} // handler returned
	stream   *streamStub
	peer     int
	proto    int
	stage    string // driver's ledger: "open" | "svc" | "held"
}

type gatedStore struct {
	mu    sync.Mutex
	gates map[uint64]*shGate
	calls map[uint64]int
}

func (g *gatedStore) GetByHeight(_ context.Context, h uint64) (eds.AccessorStreamer, error) {
	g.mu.Lock()
	gt := g.gates[h]
	g.calls[h]++
	g.mu.Unlock()
	if gt == nil {
		return nil, store.ErrNotFound
	}
	close(gt.inStore)
	a := <-gt.store
	if a.pan {
		panic("verif: store panic")
	}
	if a.err != nil {
		return nil, a.err
	}
	return &gatedAccessor{AccessorStreamer: a.acc, g: gt, fakeSize: a.fakeSize}, nil
}

func (g *gatedStore) HasByHeight(context.Context, uint64) (bool, error) { return true, nil }

type gatedAccessor struct {
	eds.AccessorStreamer
	g        *shGate
	fakeSize int
}

// Size is what ResponseSize (hence the reservation) is computed from.
func (a *gatedAccessor) Size(ctx context.Context) (int, error) {
	if a.fakeSize > 0 {
		return a.fakeSize, nil
	}
	return a.AccessorStreamer.Size(ctx)
}

func (a *gatedAccessor) wait() error {
	close(a.g.inReader)
	switch <-a.g.reader {
	case "failed":
		return errors.New("verif: injected response error")
	case "panicked":
		panic("verif: response builder panic")
	}
	return nil
}

func (a *gatedAccessor) Reader() (io.Reader, error) {
	if err := a.wait(); err != nil {
		return nil, err
	}
	return a.AccessorStreamer.Reader()
}

func (a *gatedAccessor) AxisHalf(ctx context.Context, axis rsmt2d.Axis, idx int) (shwap.AxisHalf, error) {
	if err := a.wait(); err != nil {
		return shwap.AxisHalf{}, err
	}
	return a.AccessorStreamer.AxisHalf(ctx, axis, idx)
}

// ---- rig

type shRig struct {
	p      *shPlan
	rmgr   network.ResourceManager
	srv    *shrex.Server
	host   *hostStub
	store  *gatedStore
	accs   []eds.AccessorStreamer // per model protocol
	seq    uint64
	protos []protocol.ID
}

func ipAddr(ip string, n int) ma.Multiaddr {
	switch ip {
	case "lo":
		return ma.StringCast(fmt.Sprintf("/ip4/127.0.0.1/tcp/%d", 3000+n))
	case "none":
		return ma.StringCast(fmt.Sprintf("/dns4/relay.example/tcp/%d", 3000+n))
	}
	return ma.StringCast(fmt.Sprintf("/ip4/10.1.0.%d/tcp/%d", int(ip[0]-'a')+1, 3000+n))
}

func lim(n int) rcmgr.LimitVal {
	if n <= 0 {
		return rcmgr.BlockAllLimit
	}
	return rcmgr.LimitVal(n)
}

func newShRig(p *shPlan, squares []eds.AccessorStreamer) (*shRig, error) {
	r := &shRig{p: p, accs: squares, host: &hostStub{handlers: map[protocol.ID]network.StreamHandler{}},
		store: &gatedStore{gates: map[uint64]*shGate{}, calls: map[uint64]int{}}, protos: make([]protocol.ID, len(p.Need)+1)}
	cfg := rcmgr.PartialLimitConfig{
		Service:      map[string]rcmgr.ResourceLimits{},
		ServicePeer:  map[string]rcmgr.ResourceLimits{},
		Protocol:     map[protocol.ID]rcmgr.ResourceLimits{},
		ProtocolPeer: map[protocol.ID]rcmgr.ResourceLimits{},
	}
	svc := shrex.VerifServiceName()
	cfg.Service[svc] = rcmgr.ResourceLimits{Streams: lim(p.SvcLim), StreamsInbound: lim(p.SvcLim), StreamsOutbound: rcmgr.Unlimited,
		Memory: rcmgr.LimitVal64(int64(p.SvcMem) * int64(p.unitBytes()))}
	cfg.ServicePeer[svc] = rcmgr.ResourceLimits{Streams: lim(p.SvcPeerLim), StreamsInbound: lim(p.SvcPeerLim), StreamsOutbound: rcmgr.Unlimited,
		Memory: rcmgr.LimitVal64(int64(p.SvcPeerMem) * int64(p.unitBytes()))}
	for q := 1; q <= len(p.Need); q++ {
		id := shrex.ProtocolID(shNetwork, shProtoName[q])
		r.protos[q] = id
		cfg.Protocol[id] = rcmgr.ResourceLimits{Streams: lim(p.ProtoLim[q-1]), StreamsInbound: lim(p.ProtoLim[q-1]),
			StreamsOutbound: rcmgr.Unlimited, Memory: rcmgr.Unlimited64}
		cfg.ProtocolPeer[id] = rcmgr.ResourceLimits{Streams: lim(p.ProtoPeerLim[q-1]), StreamsInbound: lim(p.ProtoPeerLim[q-1]),
			StreamsOutbound: rcmgr.Unlimited, Memory: rcmgr.Unlimited64}
	}
	concrete := cfg.Build(rcmgr.InfiniteLimits)
	if p.real != nil {
		concrete = *p.real
	}
	m, err := rcmgr.NewResourceManager(rcmgr.NewFixedLimiter(concrete))
	if err != nil {
		return nil, err
	}
	r.rmgr = m
	params := shrex.DefaultServerParameters()
	params.WithNetworkID(shNetwork)
	params.HandleRequestTimeout = 1000 * time.Hour
	// one model Tick is one minute (+1 ms against rounding): Grace = 1 tick is the limiter's one-minute grace
	// period; rate = Rate/60 per second and the burst were set by the caller (package variables). A plan
	// without rate limiting gets a bucket no path can drain (the nil-limiter switch is read from the
	// environment at package initialisation).
	srv, err := shrex.NewServer(params, r.host, r.store)
	if err != nil {
		return nil, err
	}
	r.srv = srv
	if err := srv.Start(context.Background()); err != nil {
		return nil, err
	}
	return r, nil
}

func (r *shRig) close() {
	_ = r.srv.Stop(context.Background())
	_ = r.rmgr.Close()
}

type shStats struct {
	svc, mem int
	proto    []int
	peer     []int
	peerMem  []int
}

func pid(n int) peer.ID { return peer.ID(fmt.Sprintf("verif-peer-%d", n)) }

func (r *shRig) stats() shStats {
	st := r.rmgr.(rcmgr.ResourceManagerState).Stat()
	out := shStats{proto: make([]int, len(r.p.Need)), peer: make([]int, len(r.p.IPs)), peerMem: make([]int, len(r.p.IPs))}
	s := st.Services[shrex.VerifServiceName()]
	out.svc, out.mem = s.NumStreamsInbound, int(s.Memory)
	for q := 1; q <= len(r.p.Need); q++ {
		out.proto[q-1] = st.Protocols[r.protos[q]].NumStreamsInbound
	}
	for i := range r.p.IPs {
		ps := st.Peers[pid(i+1)]
		out.peer[i], out.peerMem[i] = ps.NumStreamsInbound, int(ps.Memory)
	}
	return out
}

func eqInts(a, b []int, scale int) bool {
	if len(a) != len(b) {
		return false
	}
	for i := range a {
		if a[i] != b[i]*scale {
			return false
		}
	}
	return true
}

// requestBytes builds the wire form of the request the model's protocol q stands for.
func requestBytes(q int, height uint64) ([]byte, error) {
	buf := &bytes.Buffer{}
	switch q {
	case 1:
		id, err := shwap.NewEdsID(height)
		if err != nil {
			return nil, err
		}
		_, err = id.WriteTo(buf)
		return buf.Bytes(), err
	default:
		id, err := shwap.NewRowID(height, 0, 2)
		if err != nil {
			return nil, err
		}
		_, err = id.WriteTo(buf)
		return buf.Bytes(), err
	}
}

func replayShrexPath(rep *vh.Report, p *shPlan, pi int, path []shStep, squares []eds.AccessorStreamer) (conform bool) {
	unit := p.unitBytes()
	tick := shTick
	if p.tick > 0 {
		tick = p.tick
	}
	rig, err := newShRig(p, squares)
	if err != nil {
		rep.Inconclusivef("cannot build the shrex rig: %v", err)
		return false
	}
	defer rig.close()
	if shrex.VerifRateLimiterPresent(rig.srv) != true {
		rep.Inconclusivef("rate limiting is disabled in this process (CELESTIA_SHREX_DISABLE_RATE_LIMITING)")
		return false
	}
	live := map[int]*shGate{} // model stream identity -> gate
	conform = true
	where := func(i int) map[string]any {
		return map[string]any{"plan": p.Name, "path": pi, "step": i, "steps": path[:i+1],
			"consts": map[string]any{"ips": p.IPs, "need": p.Need, "protoLim": p.ProtoLim, "protoPeerLim": p.ProtoPeerLim,
				"svcLim": p.SvcLim, "svcPeerLim": p.SvcPeerLim, "svcMem": p.SvcMem, "svcPeerMem": p.SvcPeerMem,
				"burst": p.Burst, "rate": p.Rate}}
	}
	diverged := false // the real code left the model's behaviour: the rest of the path is judged by the monitors only
	drift := func(i int, f string, a ...any) {
		if !diverged {
			rep.Inconclusivef("conformance drift (model and code differ, no stated property is violated): %s path %d step %d (%+v): %s",
				p.Name, pi, i, path[i].L, fmt.Sprintf(f, a...))
		}
		conform, diverged = false, true
	}
	defer func() {
		// end every handler wherever it waits (the answers are buffered: a handler in the store ends on
		// NOT_FOUND, one in the response builder on "served"), then the streams nobody handled
		rig.store.mu.Lock()
		for _, g := range rig.store.gates {
			select {
			case g.store <- storeAnswer{err: store.ErrNotFound}:
			default:
			}
			select {
			case g.reader <- "served":
			default:
			}
		}
		rig.store.mu.Unlock()
		synctest.Wait()
		rig.store.mu.Lock()
		for _, g := range rig.store.gates {
			g.stream.Reset() //nolint:errcheck
		}
		rig.store.mu.Unlock()
	}()
	// per-address accounting for the rate monitors: what "burst + rate x window" allows
	tokens := map[string]float64{}
	refilled := map[string]bool{}

	for i, st := range path {
		rep.Count("shrex_steps", 1)
		if diverged && st.L.Op == "open" && live[st.L.S] != nil {
			return // the model reuses an identity that is still alive in the real run
		}
		if (p.noModel || diverged) && st.L.Op != "tick" && st.L.Op != "open" && live[st.L.S] == nil {
			rep.Count("shrex_directed_steps_skipped", 1) // the stream was refused earlier in the script
			continue
		}
		got := "-"
		before := rig.stats()
		switch st.L.Op {
		case "tick":
			rep.Count("shrex_ticks", 1)
			time.Sleep(tick)
			for ip, t := range tokens {
				if t < 1 {
					refilled[ip] = true
				}
				tokens[ip] = math.Min(float64(p.Burst), t+float64(p.Rate))
			}
		case "open":
			scope, err := rig.rmgr.OpenStream(pid(st.L.Peer), network.DirInbound)
			if err == nil {
				if err = scope.SetProtocol(rig.protos[st.L.Proto]); err != nil {
					scope.Done()
				}
			}
			if err != nil {
				got = "refused-protocol"
				samePeer := 0
				for _, o := range live {
					if o.peer == st.L.Peer && o.proto == st.L.Proto {
						samePeer++
					}
				}
				if before.proto[st.L.Proto-1] < p.ProtoLim[st.L.Proto-1] && samePeer < p.ProtoPeerLim[st.L.Proto-1] {
					violate(rep, "X_limits/shrex/protocol/refused-with-room",
						fmt.Sprintf("stream refused at the protocol scope with %d/%d streams of the protocol: %v",
							before.proto[st.L.Proto-1], p.ProtoLim[st.L.Proto-1], err), where(i))
					return false
				}
				break
			}
			got = "opened"
			rig.seq++
			h := 1000 + rig.seq
			req, err := requestBytes(st.L.Proto, h)
			if err != nil {
				rep.Inconclusivef("cannot build request: %v", err)
				return false
			}
			g := &shGate{inStore: make(chan struct{}), store: make(chan storeAnswer, 1), inReader: make(chan struct{}),
				reader: make(chan string, 1), done: make(chan struct{}), peer: st.L.Peer, proto: st.L.Proto, stage: "open"}
			g.stream = &streamStub{conn: &connStub{pid: pid(st.L.Peer), addr: ipAddr(p.IPs[st.L.Peer-1], int(rig.seq))}, scope: scope,
				proto: rig.protos[st.L.Proto], rd: bytes.NewReader(req), state: "open"}
			rig.store.mu.Lock()
			rig.store.gates[h] = g
			rig.store.mu.Unlock()
			live[st.L.S] = g
		case "remotereset":
			g := live[st.L.S]
			if g == nil || g.stage != "open" {
				drift(i, "no opened stream %d", st.L.S)
				return
			}
			g.stream.Reset() //nolint:errcheck
			delete(live, st.L.S)
			got = "closed"
		case "handle":
			g := live[st.L.S]
			if g == nil || g.stage != "open" {
				drift(i, "no opened stream %d", st.L.S)
				return
			}
			h := rig.host.handlers[g.stream.proto]
			if h == nil {
				rep.Inconclusivef("the server installed no handler for %s", g.stream.proto)
				return false
			}
			go func() {
				defer close(g.done)
				h(g.stream)
			}()
			ip := p.IPs[g.peer-1]
			select {
			case <-g.inStore:
				got = "handling"
				g.stage = "svc"
			case <-g.done:
				delete(live, st.L.S)
				state, code := g.stream.snapshot()
				switch {
				case state == "reset-code" && code == network.StreamRateLimited:
					got = "rate-limited"
				case state == "reset-code" && code == network.StreamResourceLimitExceeded:
					got = "refused-service"
				case state == "open":
					violate(rep, "X_limits/shrex/stream-left-open/handle", "the handler returned without closing or resetting the stream", where(i))
					return false
				default:
					drift(i, "handler returned early with stream %s code %d", state, code)
					return
				}
			}
			// S3: a refused stream never reaches the store
			if got != "handling" {
				rig.store.mu.Lock()
				n := 0
				for hh, gg := range rig.store.gates {
					if gg == g {
						n = rig.store.calls[hh]
					}
				}
				rig.store.mu.Unlock()
				if n != 0 {
					violate(rep, "X_limits/shrex/refused-stream-reached-store", fmt.Sprintf("stream refused (%s) but the store was asked", got), where(i))
					return false
				}
			}
			// S5: the service scopes refuse only when full
			if got == "refused-service" {
				peerSvc := 0
				for _, o := range live {
					if o.peer == g.peer && o.stage != "open" {
						peerSvc++
					}
				}
				if before.svc < p.SvcLim && peerSvc < p.SvcPeerLim {
					violate(rep, "X_limits/shrex/service/refused-with-room",
						fmt.Sprintf("SetService refused with %d/%d service streams, %d/%d of the peer", before.svc, p.SvcLim, peerSvc, p.SvcPeerLim), where(i))
					return false
				}
			}
			// S4: the rate monitors
			if got != "refused-service" && p.RateOn {
				passed := got == "handling"
				switch {
				case ip == "lo":
					if !passed {
						violate(rep, "X_limits/shrex/rate/loopback-limited", "a loopback address was rate limited", where(i))
						return false
					}
				default:
					t, ok := tokens[ip]
					if !ok {
						t = float64(p.Burst)
					}
					if passed && t < 1-1e-3 {
						violate(rep, "X_limits/shrex/rate/over-admission",
							fmt.Sprintf("address %s passed the rate limit with %.3f tokens (burst %d, %d per tick)", ip, t, p.Burst, p.Rate), where(i))
						return false
					}
					if !passed && t >= 1 {
						violate(rep, "X_limits/shrex/rate/refused-inside-rate",
							fmt.Sprintf("address %s was rate limited with %.3f tokens in its bucket", ip, t), where(i))
						return false
					}
					if passed {
						t--
						if refilled[ip] {
							rep.Count("shrex_refill_admissions", 1)
							refilled[ip] = false
						}
					}
					tokens[ip] = t
				}
			}
		case "store":
			g := live[st.L.S]
			if g == nil || g.stage != "svc" {
				drift(i, "stream %d is not waiting for the store", st.L.S)
				return
			}
			if st.L.Go == "end" {
				g.store <- storeAnswer{err: store.ErrNotFound}
				<-g.done
				delete(live, st.L.S)
				state, _ := g.stream.snapshot()
				if state == "open" {
					violate(rep, "X_limits/shrex/stream-left-open/not-found", "the handler returned without closing or resetting the stream", where(i))
					return false
				}
				got = "closed"
				break
			}
			fs := 0
			if len(p.fakeSize) >= g.proto {
				fs = p.fakeSize[g.proto-1]
			}
			g.store <- storeAnswer{acc: rig.accs[g.proto], fakeSize: fs}
			select {
			case <-g.inReader:
				got = "reserved"
				g.stage = "held"
			case <-g.done:
				delete(live, st.L.S)
				state, code := g.stream.snapshot()
				switch {
				case state == "reset-code" && code == network.StreamResourceLimitExceeded:
					got = "refused-memory"
					need := p.Need[g.proto-1] * unit
					if before.mem+need <= p.SvcMem*unit && before.peerMem[g.peer-1]+need <= p.SvcPeerMem*unit {
						violate(rep, "X_limits/shrex/memory/refused-with-room",
							fmt.Sprintf("ReserveMemory(%d) refused with %d/%d service bytes, %d/%d of the peer", need, before.mem,
								p.SvcMem*unit, before.peerMem[g.peer-1], p.SvcPeerMem*unit), where(i))
						return false
					}
				case state == "open":
					violate(rep, "X_limits/shrex/stream-left-open/reserve", "the handler returned without closing or resetting the stream", where(i))
					return false
				default:
					drift(i, "handler returned before building the response: stream %s code %d", state, code)
					return
				}
			}
		case "finish":
			g := live[st.L.S]
			if g == nil || g.stage != "held" {
				drift(i, "stream %d holds no reservation", st.L.S)
				return
			}
			g.reader <- st.L.How
			<-g.done
			delete(live, st.L.S)
			state, _ := g.stream.snapshot()
			if state == "open" {
				violate(rep, "X_limits/shrex/stream-left-open/finish-"+st.L.How, "the handler returned without closing or resetting the stream", where(i))
				return false
			}
			if (st.L.How == "panicked") != (state == "reset") {
				drift(i, "stream %s after %s", state, st.L.How)
				return
			}
			got = st.L.How
			rep.Count("shrex_finish_"+st.L.How, 1)
		default:
			drift(i, "unknown stimulus")
			return
		}
		synctest.Wait()
		rep.Count("shrex_"+got, 1)

		// ---- monitors on the real resource manager between stimuli
		now := rig.stats()
		nSvc, nHeldMem := 0, 0
		peerMem := make([]int, len(p.IPs))
		nProto := make([]int, len(p.Need))
		for _, g := range live {
			nProto[g.proto-1]++
			if g.stage != "open" {
				nSvc++
			}
			if g.stage == "held" {
				nHeldMem += p.Need[g.proto-1] * unit
				peerMem[g.peer-1] += p.Need[g.proto-1] * unit
			}
		}
		// S1: limits
		if now.svc > p.SvcLim || now.mem > p.SvcMem*unit {
			violate(rep, "X_limits/shrex/service/limit-exceeded", fmt.Sprintf("service scope holds %d streams / %d bytes (limits %d / %d)",
				now.svc, now.mem, p.SvcLim, p.SvcMem*unit), where(i))
			return false
		}
		for q := range nProto {
			if now.proto[q] > p.ProtoLim[q] {
				violate(rep, "X_limits/shrex/protocol/limit-exceeded", fmt.Sprintf("protocol %d holds %d streams (limit %d)", q+1, now.proto[q], p.ProtoLim[q]), where(i))
				return false
			}
		}
		for j := range p.IPs {
			n := 0
			for _, g := range live {
				if g.peer == j+1 && g.stage != "open" {
					n++
				}
			}
			if n > p.SvcPeerLim {
				violate(rep, "X_limits/shrex/service-peer/limit-exceeded", fmt.Sprintf("peer %d has %d streams inside the handler (limit %d)", j+1, n, p.SvcPeerLim), where(i))
				return false
			}
			if now.peerMem[j] > p.SvcPeerMem*unit {
				violate(rep, "X_limits/shrex/service-peer/memory-exceeded", fmt.Sprintf("peer %d holds %d bytes (limit %d)", j+1, now.peerMem[j], p.SvcPeerMem*unit), where(i))
				return false
			}
		}
		// S2: every counter is exactly what the live streams account for
		if now.svc != nSvc || !eqInts(now.proto, nProto, 1) {
			violate(rep, "X_limits/shrex/stream-count-leak/after-"+st.L.Op+"-"+got,
				fmt.Sprintf("resource manager counts %d service / %v protocol streams, the live streams account for %d / %v",
					now.svc, now.proto, nSvc, nProto), where(i))
			return false
		}
		if now.mem != nHeldMem || !eqInts(now.peerMem, peerMem, 1) {
			violate(rep, "X_limits/shrex/memory-leak/after-"+st.L.Op+"-"+got,
				fmt.Sprintf("resource manager holds %d bytes (per peer %v), the handlers inside the response builder account for %d (%v)",
					now.mem, now.peerMem, nHeldMem, peerMem), where(i))
			return false
		}

		// ---- conformance with the model
		if p.noModel || diverged {
			continue
		}
		if got != st.O && !(got == "-" && st.O == "-") {
			drift(i, "model outcome %s, real outcome %s", st.O, got)
			continue
		}
		if now.svc != st.P.Svc || now.mem != st.P.Mem*unit || !eqInts(now.proto, st.P.Proto, 1) || !eqInts(now.peer, st.P.Peer, 1) ||
			!eqInts(now.peerMem, st.P.PeerMem, unit) {
			drift(i, "model %+v, real %+v", st.P, now)
			continue
		}
	}
	return conform
}

func runShrexPlans(t *testing.T, rep *vh.Report) {
	path := os.Getenv("VERIF_SHREX_PLANS")
	if path == "" {
		return
	}
	var plans shPlans
	if err := vh.ReadJSON(path, &plans); err != nil {
		rep.Inconclusivef("cannot read shrex plans: %v", err)
		return
	}
	// real squares served by the gated store: protocol 1 (EdsID) a 4x4 square, protocol 2 (RowID) a 2x2 square
	squares := []eds.AccessorStreamer{nil,
		&eds.Rsmt2D{ExtendedDataSquare: edstest.RandEDS(t, 2)},
		&eds.Rsmt2D{ExtendedDataSquare: edstest.RandEDS(t, 1)}}
	needBytes := make([]int, 3)
	for q := 1; q <= 2; q++ {
		sz, _ := squares[q].Size(context.Background())
		var need int
		if q == 1 {
			need = shwap.EdsID{}.ResponseSize(sz)
		} else {
			need = shwap.RowID{}.ResponseSize(sz)
		}
		rep.Set(fmt.Sprintf("shrex_need_bytes_proto%d", q), need)
		needBytes[q] = need
	}
	for pi := range plans.Plans {
		for q, n := range plans.Plans[pi].Need {
			if n*shUnit != needBytes[q+1] {
				rep.Inconclusivef("plan %s: protocol %d needs %d units in the model but the mapped request reserves %d bytes (unit %d)",
					plans.Plans[pi].Name, q+1, n, needBytes[q+1], shUnit)
				return
			}
		}
	}
	for pi := range plans.Plans {
		p := &plans.Plans[pi]
		// rate and burst are package variables read by NewServer: set once per plan, not per path
		rps, burst := float64(p.Rate)/60.0, p.Burst
		if !p.RateOn {
			rps, burst = 1e9, 1<<30
		}
		restore := shrex.VerifSetRateLimit(rps, burst)
		stop := runPaths(t, rep, "shrex", p.Name, len(p.Paths), func(i int) bool { return replayShrexPath(rep, p, i, p.Paths[i], squares) })
		restore()
		if len(p.Paths) > 0 && pi < 2 {
			rep.Sample(map[string]any{"plan": p.Name, "path": p.Paths[0][:min(len(p.Paths[0]), 8)]})
		}
		if stop {
			return
		}
	}
	runAddrCases(t, rep, plans.ACases)
	if nViol.Load() == 0 {
		runShrexProduction(t, rep, squares)
	}
}
