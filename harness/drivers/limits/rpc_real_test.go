package limits

// The handler stack the real rpc.Server builds (Server.newHandlerStack, maxConcurrentConns = 500):
//
//  1. directed runs in virtual time, by direct ServeHTTP calls into the stack of a real rpc.NewServer with
//     a real go-jsonrpc service at the bottom: the order of the layers (a request refused by connLimit has
//     already paid a rate token, a request refused by rateLimit takes no slot), the real bound of 500, the
//     cache bound under many addresses;
//  2. over real loopback TCP: a websocket (go-jsonrpc client) holds its slot and the live-websocket gauge
//     until it is closed; a client that goes away while its call is being handled gives the slot back; the
//     bucket key of a real connection is its address without the port.
// Judged by the monitors only (slots exact, "503 iff full", "429 iff the bucket is empty", cache bound).

import (
	"bytes"
	"context"
	"fmt"
	"net/http"
	"net/http/httptest"
	"sync"
	"sync/atomic"
	"testing"
	"testing/synctest"
	"time"

	"github.com/cristalhq/jwt/v5"
	"github.com/filecoin-project/go-jsonrpc"

	"verifharness/vh"

	"github.com/celestiaorg/celestia-node/api/rpc"
)

// gateSvc is the JSON-RPC service registered on the real server.
type gateSvc struct {
	mu     sync.Mutex
	gates  map[string]chan struct{} // release
	inside atomic.Int64
	seen   chan string // ids that reached the method
}

func (g *gateSvc) Ping(context.Context) (string, error) { return "pong", nil }

// Block returns when released or when the caller's context ends.
func (g *gateSvc) Block(ctx context.Context, id string) (string, error) {
	g.inside.Add(1)
	defer g.inside.Add(-1)
	g.mu.Lock()
	rel := g.gates[id]
	if rel == nil {
		rel = make(chan struct{})
		g.gates[id] = rel
	}
	g.mu.Unlock()
	g.seen <- id
	select {
	case <-rel:
		return "released", nil
	case <-ctx.Done():
		return "", ctx.Err()
	}
}

func (g *gateSvc) release(id string) {
	g.mu.Lock()
	rel := g.gates[id]
	g.mu.Unlock()
	if rel != nil {
		close(rel)
	}
}

func newRealServer(rep *vh.Report, rl rpc.RateLimitConfig, port string) (*rpc.Server, *gateSvc) {
	key := []byte("verif-secret-key-for-jwt-signing-32b")
	signer, err1 := jwt.NewSignerHS(jwt.HS256, key)
	verifier, err2 := jwt.NewVerifierHS(jwt.HS256, key)
	if err1 != nil || err2 != nil {
		rep.Inconclusivef("jwt: %v %v", err1, err2)
		return nil, nil
	}
	srv := rpc.NewServer("127.0.0.1", port, true, rpc.CORSConfig{}, rpc.TLSConfig{}, rl, signer, verifier)
	svc := &gateSvc{gates: map[string]chan struct{}{}, seen: make(chan string, 4096)}
	srv.RegisterService("verif", svc, nil)
	return srv, svc
}

func rpcBody(method, param string) *bytes.Reader {
	params := "[]"
	if param != "" {
		params = fmt.Sprintf("[%q]", param)
	}
	return bytes.NewReader([]byte(fmt.Sprintf(`{"jsonrpc":"2.0","id":1,"method":"verif.%s","params":%s}`, method, params)))
}

// runRealStackDirected: part 1.
func runRealStackDirected(t *testing.T, rep *vh.Report) {
	const burst, cacheSize = 2, 8
	maxConns := rpc.VerifMaxConcurrentConns()
	if maxConns < 2 || maxConns > 5000 {
		rep.Inconclusivef("maxConcurrentConns = %d: the directed run is written for a bound it can fill with goroutines", maxConns)
		return
	}
	synctest.Test(t, func(t *testing.T) {
		srv, svc := newRealServer(rep, rpc.RateLimitConfig{Enabled: true, RequestsPerSec: 1, Burst: burst, CacheSize: cacheSize}, "0")
		if srv == nil {
			return
		}
		h, view := rpc.VerifServerStack(srv)
		if view.SlotsCap() != maxConns || !view.HasRateLimit() {
			violate(rep, "X_limits/rpc/stack/layer-missing", fmt.Sprintf("the server's stack has connLimit capacity %d (want %d), rate limit present=%v "+
				"although it is enabled", view.SlotsCap(), maxConns, view.HasRateLimit()), nil)
			return
		}
		type pend struct {
			done chan int
			id   string
		}
		where := func(what string) map[string]any { return map[string]any{"run": "real-stack-directed", "at": what} }
		send := func(id, ip, method string) (admitted bool, code int, p *pend) {
			req := httptest.NewRequest(http.MethodPost, "/", rpcBody(method, id))
			req.Header.Set("Content-Type", "application/json")
			req.RemoteAddr = ip + ":40000"
			p = &pend{done: make(chan int, 1), id: id}
			go func() {
				rec := httptest.NewRecorder()
				h.ServeHTTP(rec, req)
				p.done <- rec.Code
			}()
			synctest.Wait()
			select {
			case c := <-p.done:
				return false, c, p
			default:
				return true, 0, p
			}
		}
		check := func(what string, wantSlots int) bool {
			synctest.Wait()
			rep.Count("rpc_real_stack_checks", 1)
			if s := view.SlotsInUse(); s != wantSlots || int(svc.inside.Load()) != wantSlots {
				violate(rep, "X_limits/rpc/stack/slots-not-exact", fmt.Sprintf("%s: %d slots in use, %d calls inside the service, expected %d",
					what, s, svc.inside.Load(), wantSlots), where(what))
				return false
			}
			if n := len(view.CacheKeys()); n > cacheSize {
				violate(rep, "X_limits/rpc/cache-exceeds-bound", fmt.Sprintf("%s: %d buckets cached, bound %d", what, n, cacheSize), where(what))
				return false
			}
			return true
		}
		ipN := func(i int) string { return fmt.Sprintf("10.%d.%d.%d", 1+i/60000, (i/250)%250, 1+i%250) }
		var held []*pend
		// fill every slot, each from its own address
		for i := 0; i < maxConns; i++ {
			ok, code, p := send(fmt.Sprintf("fill-%d", i), ipN(i), "Block")
			if !ok {
				violate(rep, "X_limits/rpc/conn/refused-with-free-slot", fmt.Sprintf("request %d of %d answered %d with %d slots in use",
					i+1, maxConns, code, view.SlotsInUse()), where("fill"))
				return
			}
			held = append(held, p)
		}
		if !check("all slots taken", maxConns) {
			return
		}
		// one more: 503, and -- the rate limit being the OUTER layer -- its address has paid a token
		over := ipN(maxConns + 1)
		ok, code, _ := send("over", over, "Block")
		if ok || code != http.StatusServiceUnavailable {
			violate(rep, "X_limits/rpc/conn/bound-exceeded", fmt.Sprintf("request %d admitted=%v status=%d with every slot taken", maxConns+1, ok, code), where("over"))
			return
		}
		if tk, present := view.Tokens(over); !present || tk > float64(burst)-1+1e-6 {
			violate(rep, "X_limits/rpc/stack/order-connlimit-before-ratelimit",
				fmt.Sprintf("a request refused by the connection limit left its address' bucket at %.3f tokens (present=%v): the rate limit is not the outer layer", tk, present),
				where("over"))
			return
		}
		if !check("after the refusal", maxConns) {
			return
		}
		// a slot comes back and is usable
		svc.release(held[0].id)
		<-held[0].done
		if !check("one call released", maxConns-1) {
			return
		}
		ok, code, p := send("again", ipN(maxConns+2), "Block")
		if !ok {
			violate(rep, "X_limits/rpc/conn/refused-with-free-slot", fmt.Sprintf("status %d with %d of %d slots in use", code, maxConns-1, maxConns), where("again"))
			return
		}
		held[0] = p
		// everything ends; then the rate limit alone: burst quick calls pass, the next is 429 and takes no slot
		for _, p := range held {
			svc.release(p.id)
			<-p.done
		}
		if !check("all released", 0) {
			return
		}
		one := ipN(maxConns + 3)
		for i := 0; i < burst; i++ {
			if ok, code, _ := send("", one, "Ping"); ok || code != http.StatusOK {
				violate(rep, "X_limits/rpc/rate/refused-inside-rate", fmt.Sprintf("call %d of a burst of %d: admitted-and-blocked=%v status=%d", i+1, burst, ok, code), where("burst"))
				return
			}
		}
		if ok, code, _ := send("", one, "Ping"); ok || code != http.StatusTooManyRequests {
			violate(rep, "X_limits/rpc/rate/over-admission", fmt.Sprintf("call %d of a burst of %d with a frozen clock: status %d", burst+1, burst, code), where("burst+1"))
			return
		}
		time.Sleep(time.Second) // one token per second
		if ok, code, _ := send("", one, "Ping"); ok || code != http.StatusOK {
			violate(rep, "X_limits/rpc/rate/refused-inside-rate", fmt.Sprintf("after one second at 1 request/s: status %d", code), where("refill"))
			return
		}
		if !check("after the rate run", 0) {
			return
		}
		rep.Count("rpc_real_stack_directed_ok", 1)
	})
}

// eventually polls cond with a generous bound; no ordering is assumed, only that the condition becomes true.
func eventually(d time.Duration, cond func() bool) bool {
	deadline := time.Now().Add(d)
	for time.Now().Before(deadline) {
		if cond() {
			return true
		}
		time.Sleep(20 * time.Millisecond)
	}
	return cond()
}

// runRealNetwork: part 2.
func runRealNetwork(rep *vh.Report) {
	srv, svc := newRealServer(rep, rpc.RateLimitConfig{Enabled: true, RequestsPerSec: 1000, Burst: 1000, CacheSize: 8}, "0")
	if srv == nil {
		return
	}
	if err := srv.WithMetrics(); err != nil {
		rep.Inconclusivef("WithMetrics: %v", err)
		return
	}
	_, view := rpc.VerifServerStack(srv)
	ctx, cancel := context.WithTimeout(context.Background(), 120*time.Second)
	defer cancel()
	if err := srv.Start(ctx); err != nil {
		rep.Set("rpc_real_network_skipped", err.Error())
		return
	}
	defer srv.Stop(context.Background()) //nolint:errcheck
	addr := srv.ListenAddr()
	const wait = 60 * time.Second

	// ---- a websocket holds a slot and the gauge until it is closed
	var client struct {
		Ping func(context.Context) (string, error)
	}
	closer, err := jsonrpc.NewClient(ctx, "ws://"+addr, "verif", &client, nil)
	if err != nil {
		rep.Inconclusivef("websocket dial: %v", err)
		return
	}
	if _, err := client.Ping(ctx); err != nil {
		closer()
		rep.Inconclusivef("websocket call: %v", err)
		return
	}
	if view.SlotsInUse() != 1 || view.WebsocketsOpen() != 1 {
		violate(rep, "X_limits/rpc/ws/open-websocket-holds-no-slot",
			fmt.Sprintf("an open websocket after a successful call: %d slots in use, gauge %d", view.SlotsInUse(), view.WebsocketsOpen()), nil)
		closer()
		return
	}
	closer()
	if !eventually(wait, func() bool { return view.SlotsInUse() == 0 && view.WebsocketsOpen() == 0 }) {
		violate(rep, "X_limits/rpc/conn/slot-leak/after-websocket-close",
			fmt.Sprintf("%v after the client closed its websocket: %d slots in use, gauge %d", wait, view.SlotsInUse(), view.WebsocketsOpen()), nil)
		return
	}
	rep.Count("rpc_real_ws_closed_slot_back", 1)

	// ---- a client that goes away while its call is handled
	cctx, ccancel := context.WithCancel(ctx)
	req, _ := http.NewRequestWithContext(cctx, http.MethodPost, "http://"+addr, rpcBody("Block", "net-1"))
	req.Header.Set("Content-Type", "application/json")
	errc := make(chan error, 1)
	go func() {
		resp, err := http.DefaultClient.Do(req)
		if err == nil {
			resp.Body.Close()
		}
		errc <- err
	}()
	select {
	case <-svc.seen:
	case <-time.After(wait):
		ccancel()
		rep.Inconclusivef("the call over TCP did not reach the service within %v", wait)
		return
	}
	if view.SlotsInUse() != 1 {
		violate(rep, "X_limits/rpc/stack/slots-not-exact", fmt.Sprintf("one call inside the service over TCP, %d slots in use", view.SlotsInUse()), nil)
		ccancel()
		return
	}
	// the bucket key of a real connection is the address without the port
	keys := view.CacheKeys()
	if len(keys) != 1 || keys[0] != "127.0.0.1" {
		violate(rep, "X_limits/rpc/extractIP/real-connection-key", fmt.Sprintf("bucket keys after connections from 127.0.0.1: %v", keys), nil)
		ccancel()
		return
	}
	ccancel() // the client disconnects
	<-errc
	if !eventually(wait, func() bool { return view.SlotsInUse() == 0 }) {
		violate(rep, "X_limits/rpc/conn/slot-leak/after-client-disconnect",
			fmt.Sprintf("%v after the client went away: %d slots in use, %d calls inside the service", wait, view.SlotsInUse(), svc.inside.Load()), nil)
		return
	}
	rep.Count("rpc_real_disconnect_slot_back", 1)
}

// runConcurrent: real goroutines racing through the real middleware, judged by outcomes that do not depend
// on the interleaving: (1) with rps = 0 and room in the cache, exactly min(requests, burst) requests of
// every address pass whatever the schedule (concurrent first requests share ONE bucket); (2) when G
// requests arrive while nobody leaves, exactly min(G, maxConns) are inside the handler, the rest got 503,
// and every slot is free again after they left.
func runConcurrent(rep *vh.Report) {
	rounds := 40
	if vh.Thorough() {
		rounds = 400
	}
	rnd := vh.Rand()
	for round := 0; round < rounds; round++ {
		// ---- (1) rate
		keys, per, burst := 2+rnd.Intn(4), 2+rnd.Intn(12), 1+rnd.Intn(3)
		var mu sync.Mutex
		passed := map[string]int{}
		h, view := rpc.VerifNewStack(true, 0, burst, keys, 1<<20, http.HandlerFunc(func(w http.ResponseWriter, r *http.Request) {
			mu.Lock()
			passed[r.Header.Get("X-Verif-Key")]++
			mu.Unlock()
		}))
		start := make(chan struct{})
		var wg sync.WaitGroup
		for k := 0; k < keys; k++ {
			for j := 0; j < per; j++ {
				wg.Add(1)
				go func(k, j int) {
					defer wg.Done()
					req := httptest.NewRequest(http.MethodPost, "/", nil)
					req.RemoteAddr = fmt.Sprintf("10.3.0.%d:%d", k+1, 2000+j)
					req.Header.Set("X-Verif-Key", fmt.Sprint(k))
					<-start
					h.ServeHTTP(httptest.NewRecorder(), req)
				}(k, j)
			}
		}
		close(start)
		wg.Wait()
		rep.Count("rpc_concurrent_rounds", 1)
		for k := 0; k < keys; k++ {
			want := min(per, burst)
			if got := passed[fmt.Sprint(k)]; got != want {
				sig := "X_limits/rpc/rate/over-admission/concurrent"
				if got < want {
					sig = "X_limits/rpc/rate/refused-inside-rate/concurrent"
				}
				violate(rep, sig, fmt.Sprintf("%d concurrent requests of one address, burst %d, no refill: %d passed", per, burst, got),
					map[string]any{"keys": keys, "per": per, "burst": burst})
				return
			}
		}
		if n := len(view.CacheKeys()); n > keys {
			violate(rep, "X_limits/rpc/cache-exceeds-bound", fmt.Sprintf("%d buckets cached, bound %d", n, keys), nil)
			return
		}
		// ---- (2) connections
		maxConns, g := 1+rnd.Intn(6), 2+rnd.Intn(14)
		var inside, maxIn atomic.Int64
		arrived := make(chan bool, g) // true: entered the handler
		release := make(chan struct{})
		h2, view2 := rpc.VerifNewConnLimit(maxConns, http.HandlerFunc(func(w http.ResponseWriter, r *http.Request) {
			n := inside.Add(1)
			for {
				m := maxIn.Load()
				if n <= m || maxIn.CompareAndSwap(m, n) {
					break
				}
			}
			arrived <- true
			<-release
			inside.Add(-1)
		}))
		var wg2 sync.WaitGroup
		for j := 0; j < g; j++ {
			wg2.Add(1)
			go func() {
				defer wg2.Done()
				rec := httptest.NewRecorder()
				h2.ServeHTTP(rec, httptest.NewRequest(http.MethodPost, "/", nil))
				if rec.Code == http.StatusServiceUnavailable {
					arrived <- false
				}
			}()
		}
		in := 0
		for j := 0; j < g; j++ {
			if <-arrived {
				in++
			}
		}
		if in != min(g, maxConns) || view2.SlotsInUse() != in || int(maxIn.Load()) > maxConns {
			violate(rep, "X_limits/rpc/conn/concurrent-admission",
				fmt.Sprintf("%d concurrent requests, bound %d, nobody leaving: %d inside the handler (max %d), %d slots in use", g, maxConns, in, maxIn.Load(), view2.SlotsInUse()),
				map[string]any{"g": g, "maxConns": maxConns})
			close(release)
			wg2.Wait()
			return
		}
		close(release)
		wg2.Wait()
		if view2.SlotsInUse() != 0 {
			violate(rep, "X_limits/rpc/conn/slot-leak/concurrent", fmt.Sprintf("%d slots in use after every request left", view2.SlotsInUse()), nil)
			return
		}
	}
}
