package limits

// Directed runs of the real shrex handler against the limits limits.go really registers
// (SetResourceLimits scaled like rcmgr does), at the rate and burst rate_limit.go really uses, and
// the case enumeration for remoteIP / the limiter's prefix table. No model expectation is attached to
// the directed runs: they are judged by the same monitors as the replayed behaviours ("refused iff the
// scope is full", counters exact, rate bound), with the limits read back from the built configuration.

import (
	"fmt"
	"math"
	"net/netip"
	"strings"
	"testing"
	"testing/synctest"
	"time"

	"github.com/libp2p/go-libp2p"
	"github.com/libp2p/go-libp2p/core/network"
	"github.com/libp2p/go-libp2p/core/peer"
	rcmgr "github.com/libp2p/go-libp2p/p2p/host/resource-manager"
	ma "github.com/multiformats/go-multiaddr"

	"verifharness/vh"

	"github.com/celestiaorg/celestia-node/share"
	"github.com/celestiaorg/celestia-node/share/eds"
	"github.com/celestiaorg/celestia-node/share/shwap/p2p/shrex"
)

// ---- remoteIP / prefix table (B3)

func addrOfClass(c string) ma.Multiaddr {
	relay := "12D3KooWD3eckifWpRn9wQpMG9R9hX3sD158z7EqHWmweQAJU5SA"
	switch c {
	case "ip4":
		return ma.StringCast("/ip4/203.0.113.7/tcp/4001")
	case "ip4other":
		return ma.StringCast("/ip4/203.0.113.8/tcp/4001")
	case "ip4mapped6":
		return ma.StringCast("/ip6/::ffff:203.0.113.7/tcp/4002")
	case "quic4":
		return ma.StringCast("/ip4/203.0.113.7/udp/4003/quic-v1")
	case "relayvia4":
		return ma.StringCast("/ip4/203.0.113.7/tcp/4001/p2p/" + relay + "/p2p-circuit")
	case "ip6":
		return ma.StringCast("/ip6/2001:db8::7/tcp/4001")
	case "ip6other":
		return ma.StringCast("/ip6/2001:db8::8/tcp/4001")
	case "lo4":
		return ma.StringCast("/ip4/127.0.0.1/tcp/4001")
	case "lo4high":
		return ma.StringCast("/ip4/127.200.3.4/tcp/4001")
	case "lo6":
		return ma.StringCast("/ip6/::1/tcp/4001")
	case "dns":
		return ma.StringCast("/dns4/node.example/tcp/4001")
	case "dnsother":
		return ma.StringCast("/dns6/other.example/tcp/4001")
	}
	return nil
}

func runAddrCases(t *testing.T, rep *vh.Report, cases []addrCase) {
	if len(cases) == 0 {
		return
	}
	restore := shrex.VerifSetRateLimit(1.0/3600, 1) // one token, no refill worth mentioning
	defer restore()
	newSrv := func() *shrex.Server {
		params := shrex.DefaultServerParameters()
		params.WithNetworkID(shNetwork)
		srv, err := shrex.NewServer(params, &hostStub{}, &gatedStore{})
		if err != nil {
			rep.Inconclusivef("NewServer: %v", err)
			return nil
		}
		return srv
	}
	ipOf := func(c string) (netip.Addr, bool) {
		a := addrOfClass(c)
		if a == nil {
			rep.Inconclusivef("address class %q unknown to the driver", c)
			return netip.Addr{}, false
		}
		return shrex.VerifRemoteIP(&streamStub{conn: &connStub{pid: peer.ID("p"), addr: a}}), true
	}
	synctest.Test(t, func(t *testing.T) {
		for _, c := range cases {
			srv := newSrv()
			ip, ok := ipOf(c.Class)
			if srv == nil || !ok {
				return
			}
			rep.Count("shrex_addr_cases", 1)
			r1, r2 := shrex.VerifRateAllow(srv, ip), shrex.VerifRateAllow(srv, ip)
			var got string
			switch {
			case r1 && !r2:
				got = "bucket"
			case r1 && r2:
				got = "exempt"
			case !r1 && !r2:
				got = "denied"
			default:
				got = "odd"
			}
			want := strings.SplitN(c.Treat, ":", 2)[0]
			if got != want {
				switch {
				case want == "exempt":
					violate(rep, "X_limits/shrex/rate/loopback-limited/"+c.Class, fmt.Sprintf("address %s (%v) is treated as %s", addrOfClass(c.Class), ip, got), c)
				case want == "bucket" && got == "exempt":
					violate(rep, "X_limits/shrex/rate/unlimited-address/"+c.Class, fmt.Sprintf("address %s (%v) is not rate limited", addrOfClass(c.Class), ip), c)
				default:
					rep.Inconclusivef("conformance drift: address class %s (%s -> %v): model %s, code %s", c.Class, addrOfClass(c.Class), ip, want, got)
				}
			}
		}
		// which classes share a bucket
		for _, c := range cases {
			for _, d := range cases {
				if c.Class >= d.Class || !strings.HasPrefix(c.Treat, "bucket") || !strings.HasPrefix(d.Treat, "bucket") {
					continue
				}
				srv := newSrv()
				ipc, _ := ipOf(c.Class)
				ipd, _ := ipOf(d.Class)
				if srv == nil {
					return
				}
				rep.Count("shrex_addr_pairs", 1)
				shrex.VerifRateAllow(srv, ipc)
				second := shrex.VerifRateAllow(srv, ipd)
				shared := !second
				if shared != (c.Treat == d.Treat) {
					if !shared {
						// one address reachable under two spellings gets two buckets: the rate bound per address is doubled
						violate(rep, "X_limits/shrex/rate/one-address-two-buckets/"+c.Class+"+"+d.Class,
							fmt.Sprintf("%s and %s are the same address but do not share a bucket", addrOfClass(c.Class), addrOfClass(d.Class)), nil)
					} else {
						violate(rep, "X_limits/shrex/rate/two-addresses-one-bucket/"+c.Class+"+"+d.Class,
							fmt.Sprintf("%s and %s are different addresses but share a bucket", addrOfClass(c.Class), addrOfClass(d.Class)), nil)
					}
				}
			}
		}
	})
}

// ---- the limits of limits.go

type builtLimits struct {
	svc, svcPeer rcmgr.ResourceLimits
	proto        map[string]rcmgr.ResourceLimits
	protoPeer    map[string]rcmgr.ResourceLimits
	concrete     rcmgr.ConcreteLimitConfig
}

func infBase() rcmgr.BaseLimit {
	return rcmgr.BaseLimit{Streams: math.MaxInt, StreamsInbound: math.MaxInt, StreamsOutbound: math.MaxInt, Conns: math.MaxInt,
		ConnsInbound: math.MaxInt, ConnsOutbound: math.MaxInt, FD: math.MaxInt, Memory: math.MaxInt64}
}

// shrexOnlyLimits: every scope unlimited except what SetResourceLimits registers, scaled for `mem` bytes.
func shrexOnlyLimits(mem int64) builtLimits {
	inf := infBase()
	cfg := rcmgr.ScalingLimitConfig{SystemBaseLimit: inf, TransientBaseLimit: inf, AllowlistedSystemBaseLimit: inf,
		AllowlistedTransientBaseLimit: inf, ServiceBaseLimit: inf, ServicePeerBaseLimit: inf, ProtocolBaseLimit: inf,
		ProtocolPeerBaseLimit: inf, PeerBaseLimit: inf, ConnBaseLimit: inf, StreamBaseLimit: inf}
	shrex.SetResourceLimits(&cfg, shNetwork)
	return readLimits(cfg.Scale(mem, 1024))
}

// nodeLimits: what nodebuilder/p2p bridgeResources composes (defaults + libp2p services + shrex).
func nodeLimits(mem int64) builtLimits {
	cfg := rcmgr.DefaultLimits
	libp2p.SetDefaultServiceLimits(&cfg)
	shrex.SetResourceLimits(&cfg, shNetwork)
	return readLimits(cfg.Scale(mem, 1024))
}

func readLimits(c rcmgr.ConcreteLimitConfig) builtLimits {
	pl := c.ToPartialLimitConfig()
	b := builtLimits{svc: pl.Service[shrex.VerifServiceName()], svcPeer: pl.ServicePeer[shrex.VerifServiceName()],
		proto: map[string]rcmgr.ResourceLimits{}, protoPeer: map[string]rcmgr.ResourceLimits{}, concrete: c}
	for _, n := range shrex.VerifRequestNames() {
		id := shrex.ProtocolID(shNetwork, n)
		b.proto[n], b.protoPeer[n] = pl.Protocol[id], pl.ProtocolPeer[id]
	}
	return b
}

// limitTable: B3 on the numbers. The design claims of limits.go are checked on the BUILT configuration
// for several memory sizes; everything else is recorded in the evidence.
func limitTable(rep *vh.Report) {
	maxEDS := share.MaxSquareSize * 2
	tbl := shrex.VerifLimits(maxEDS)
	rows := []map[string]any{}
	for _, gib := range []int64{0, 1, 4, 16, 64} {
		b := shrexOnlyLimits(gib << 30)
		n := nodeLimits(gib << 30)
		npl := n.concrete.ToPartialLimitConfig()
		row := map[string]any{"available_GiB": gib, "service_streams": int(b.svc.StreamsInbound), "service_memory": int64(b.svc.Memory),
			"service_peer_streams": int(b.svcPeer.StreamsInbound), "service_peer_memory": int64(b.svcPeer.Memory),
			"node_peer_scope_memory": int64(npl.PeerDefault.Memory), "node_system_memory": int64(npl.System.Memory),
			"node_peer_scope_streams_in": int(npl.PeerDefault.StreamsInbound)}
		for name, pp := range b.protoPeer {
			row["proto_peer_streams_"+name] = int(pp.StreamsInbound)
			row["proto_streams_"+name] = int(b.proto[name].StreamsInbound)
			rep.Count("shrex_limit_table_checks", 1)
			// claims of limits.go: the protocol scopes never bind on memory (the service scopes do) ...
			if int64(pp.Memory) <= int64(b.svcPeer.Memory) || int64(b.proto[name].Memory) <= int64(b.svc.Memory) {
				violate(rep, "X_limits/shrex/limits/protocol-memory-binds-before-service/"+name,
					fmt.Sprintf("at %d GiB: protocol-peer memory %d vs service-peer %d, protocol memory %d vs service %d", gib,
						int64(pp.Memory), int64(b.svcPeer.Memory), int64(b.proto[name].Memory), int64(b.svc.Memory)), row)
			}
			// ... nothing is block-all, inbound is bounded, and what is registered is what the table says
			if int(pp.StreamsInbound) != tbl.PeerStreamsPerProtocol[name] || int(pp.StreamsInbound) <= 0 {
				violate(rep, "X_limits/shrex/limits/protocol-peer-streams/"+name,
					fmt.Sprintf("at %d GiB: protocol-peer inbound streams %d, table %d", gib, int(pp.StreamsInbound), tbl.PeerStreamsPerProtocol[name]), row)
			}
			if pp.StreamsOutbound != rcmgr.Unlimited && int(pp.StreamsOutbound) < math.MaxInt/2 {
				violate(rep, "X_limits/shrex/limits/outbound-blocked/"+name, fmt.Sprintf("outbound limit %d", int(pp.StreamsOutbound)), row)
			}
		}
		finite := func(v int64) bool { return v > 0 && v < math.MaxInt64/2 }
		if !finite(int64(b.svcPeer.StreamsInbound)) || !finite(int64(b.svcPeer.Memory)) || !finite(int64(b.svc.StreamsInbound)) || !finite(int64(b.svc.Memory)) {
			violate(rep, "X_limits/shrex/limits/service-budget-not-registered",
				fmt.Sprintf("at %d GiB the shrex service scopes are not bounded: service %d streams / %d bytes, per peer %d streams / %d bytes "+
					"(0 = left to the resource manager's default, -1 = unlimited)", gib, int(b.svc.StreamsInbound), int64(b.svc.Memory),
					int(b.svcPeer.StreamsInbound), int64(b.svcPeer.Memory)), row)
			return
		}
		if int(b.svcPeer.StreamsInbound) > int(b.svc.StreamsInbound) || int64(b.svcPeer.Memory) > int64(b.svc.Memory) {
			violate(rep, "X_limits/shrex/limits/peer-budget-above-service-budget",
				fmt.Sprintf("at %d GiB one peer may take %d streams / %d bytes of a service budget of %d / %d", gib,
					int(b.svcPeer.StreamsInbound), int64(b.svcPeer.Memory), int(b.svc.StreamsInbound), int64(b.svc.Memory)), row)
		}
		rows = append(rows, row)
	}
	rep.Set("shrex_limit_table", rows)
	rep.Set("shrex_max_response_bytes", tbl.MaxResponseSize)
}

// ---- directed runs

func stp(op string, s, peerN, proto int, goS, how string) shStep {
	return shStep{L: shLabel{Op: op, S: s, Peer: peerN, Proto: proto, Go: goS, How: how}}
}

// productionPlan: the rig's limits are the built configuration; the plan's numbers (used by the monitors)
// are read back from it.
func productionPlan(name string, b builtLimits, peers int) *shPlan {
	const unit = 256 << 10
	rps, burst := shrex.VerifRateLimit()
	eN, rN := shProtoName[1], shProtoName[2]
	ips := make([]string, peers)
	for i := range ips {
		ips[i] = string(rune('a' + i))
	}
	maxEDS := share.MaxSquareSize * 2
	tbl := shrex.VerifLimits(maxEDS)
	return &shPlan{Name: name, IPs: ips,
		Need:         []int{tbl.MaxResponseSize[eN] / unit, tbl.MaxResponseSize[rN] / unit},
		ProtoLim:     []int{int(b.proto[eN].StreamsInbound), int(b.proto[rN].StreamsInbound)},
		ProtoPeerLim: []int{int(b.protoPeer[eN].StreamsInbound), int(b.protoPeer[rN].StreamsInbound)},
		SvcLim:       int(b.svc.StreamsInbound), SvcPeerLim: int(b.svcPeer.StreamsInbound),
		SvcMem: int(int64(b.svc.Memory) / unit), SvcPeerMem: int(int64(b.svcPeer.Memory) / unit),
		Burst: burst, Rate: int(rps), RateOn: true,
		unit: unit, real: &b.concrete, tick: time.Second, fakeSize: []int{maxEDS, maxEDS}, noModel: true}
}

func runShrexProduction(t *testing.T, rep *vh.Report, squares []eds.AccessorStreamer) {
	limitTable(rep)
	if nViol.Load() > 0 {
		return
	}
	b := shrexOnlyLimits(0)
	rps, burst := shrex.VerifRateLimit()
	if rps != math.Trunc(rps) {
		rep.Inconclusivef("rateLimitPerPeer = %v is not a whole number: the directed rate run assumes whole tokens per second", rps)
		return
	}
	svcPeer, svc := int(b.svcPeer.StreamsInbound), int(b.svc.StreamsInbound)
	edsPeer := int(b.protoPeer[shProtoName[1]].StreamsInbound)
	if svcPeer <= 0 || svc <= 0 || edsPeer <= 0 || svcPeer > 4096 || svc > 8192 {
		rep.Inconclusivef("unexpected built limits: service %d, service-peer %d, eds per peer %d", svc, svcPeer, edsPeer)
		return
	}
	run := func(name string, peers int, steps []shStep) {
		p := productionPlan(name, b, peers)
		p.Paths = [][]shStep{steps}
		ok := false
		okRun, dump := vh.WithWatchdog(300*time.Second, func() {
			synctest.Test(t, func(t *testing.T) { ok = replayShrexPath(rep, p, 0, steps, squares) })
		})
		if !okRun {
			rep.Inconclusivef("directed run %s did not finish:\n%s", name, dump[:min(len(dump), 3000)])
		}
		rep.Count("shrex_directed_runs", 1)
		if ok {
			rep.Count("shrex_directed_runs_ok", 1)
		}
	}

	// D1 -- one peer up to and past its service budget; a second peer is not affected; slots come back
	var st []shStep
	id := 0
	next := func() int { id++; return id }
	held := []int{}
	for i := 0; i < svcPeer+2; i++ {
		s := next()
		st = append(st, stp("open", s, 1, 2, "", ""), stp("handle", s, 0, 0, "", ""))
		if i < svcPeer {
			held = append(held, s)
		}
	}
	s2 := next()
	st = append(st, stp("open", s2, 2, 2, "", ""), stp("handle", s2, 0, 0, "", ""), stp("store", s2, 0, 0, "end", ""))
	st = append(st, stp("store", held[0], 0, 0, "end", ""))
	s3 := next()
	st = append(st, stp("open", s3, 1, 2, "", ""), stp("handle", s3, 0, 0, "", ""))
	run("directed-service-peer-budget", 2, st)

	// D2 -- EDS streams of one peer up to and past the protocol x peer bound (refused before any handler runs)
	st, id = nil, 0
	for i := 0; i < edsPeer+2; i++ {
		st = append(st, stp("open", next(), 1, 1, "", ""))
	}
	st = append(st, stp("open", next(), 2, 1, "", ""))
	run("directed-protocol-peer-bound", 2, st)

	// D3 -- the service budget as a whole: peers fill it, the next peer is refused by SetService
	st, id = nil, 0
	total, pr := 0, 1
	for total < svc {
		n := min(svcPeer, svc-total)
		for i := 0; i < n; i++ {
			s := next()
			proto := 2
			if i < min(edsPeer, n/2) {
				proto = 1
			}
			st = append(st, stp("open", s, pr, proto, "", ""), stp("handle", s, 0, 0, "", ""))
		}
		total += n
		pr++
	}
	sx := next()
	st = append(st, stp("open", sx, pr, 2, "", ""), stp("handle", sx, 0, 0, "", ""))
	run("directed-service-budget", pr, st)

	// D4 -- memory of one peer: worst-case EDS responses up to and past the service x peer memory budget
	st, id = nil, 0
	p4 := productionPlan("x", b, 1)
	fit := p4.SvcPeerMem / p4.Need[0]
	for i := 0; i < fit+1 && i < edsPeer; i++ {
		s := next()
		st = append(st, stp("open", s, 1, 1, "", ""), stp("handle", s, 0, 0, "", ""), stp("store", s, 0, 0, "reserve", ""))
	}
	st = append(st, stp("finish", 1, 0, 0, "", "served"))
	s5 := next()
	st = append(st, stp("open", s5, 1, 1, "", ""), stp("handle", s5, 0, 0, "", ""), stp("store", s5, 0, 0, "reserve", ""))
	run("directed-service-peer-memory", 1, st)

	// D5 -- the rate limiter at its real rate and burst: a burst, the refusal after it, the refill of one second,
	// a second address and loopback unaffected
	st, id = nil, 0
	one := func(peerN int) {
		s := next()
		st = append(st, stp("open", s, peerN, 2, "", ""), stp("handle", s, 0, 0, "", ""), stp("store", s, 0, 0, "end", ""))
	}
	for i := 0; i < burst+2; i++ {
		one(1)
	}
	one(2)
	st = append(st, stp("tick", 0, 0, 0, "", ""))
	for i := 0; i < int(rps)+2; i++ {
		one(1)
	}
	for i := 0; i < burst+10; i++ {
		one(3)
	}
	p5 := productionPlan("directed-rate-real-constants", b, 3)
	p5.IPs[2] = "lo"
	p5.Paths = [][]shStep{st}
	ok := false
	okRun, dump := vh.WithWatchdog(300*time.Second, func() {
		synctest.Test(t, func(t *testing.T) { ok = replayShrexPath(rep, p5, 0, st, squares) })
	})
	if !okRun {
		rep.Inconclusivef("directed run rate did not finish:\n%s", dump[:min(len(dump), 3000)])
	}
	rep.Count("shrex_directed_runs", 1)
	if ok {
		rep.Count("shrex_directed_runs_ok", 1)
	}

	outboundProbe(rep, b)
}

// outboundProbe: the registered limits must not cap OUTBOUND streams (limits.go, unlimitedOutbound: "lifts any
// shrex-specific cap on OUTBOUND streams"). rcmgr checks the total (inbound + outbound) of a scope separately
// from the per-direction limits, so a finite `Streams` caps outbound whatever StreamsOutbound says.
func outboundProbe(rep *vh.Report, b builtLimits) {
	m, err := rcmgr.NewResourceManager(rcmgr.NewFixedLimiter(b.concrete))
	if err != nil {
		rep.Inconclusivef("outbound probe: %v", err)
		return
	}
	defer m.Close()
	res := map[string]any{}
	for q := 1; q <= 2; q++ {
		id := shrex.ProtocolID(shNetwork, shProtoName[q])
		var scopes []network.StreamManagementScope
		n := 0
		var firstErr string
		for i := 0; i < 2000; i++ {
			sc, err := m.OpenStream(peer.ID("verif-out-peer"), network.DirOutbound)
			if err == nil {
				err = sc.SetProtocol(id)
				if err != nil {
					sc.Done()
				}
			}
			if err != nil {
				firstErr = err.Error()
				break
			}
			scopes = append(scopes, sc)
			n++
		}
		for _, sc := range scopes {
			sc.Done()
		}
		res[shProtoName[q]] = map[string]any{"outbound_streams_to_one_peer_admitted": n, "refusal": firstErr}
		if firstErr != "" {
			// limits.go (unlimitedOutbound): "lifts any shrex-specific cap on OUTBOUND streams"; every other scope is unlimited here
			violate(rep, "X_limits/shrex/limits/outbound-capped-by-total-streams/"+shProtoName[q],
				fmt.Sprintf("outbound stream %d of protocol %s to one peer is refused by a shrex limit: %s", n+1, shProtoName[q], firstErr), res[shProtoName[q]])
		}
	}
	rep.Set("shrex_outbound_probe", res)
}
