// Package limits binds spec/limits/RpcLimits.tla and spec/limits/ShrexLimits.tla to the real
// admission-control code of /repo: behaviours produced by TLC (covering paths of the serialised
// state graphs, seeded simulations) are replayed stimulus by stimulus on the real middleware, the
// projected state is compared after every stimulus, and the property monitors are evaluated on what
// the real code did.
//
// Time is virtual: every path runs inside a testing/synctest bubble, so the real x/time/rate buckets
// read the bubble's clock and a model Tick is an exact time.Sleep. Nothing depends on the wall clock.
package limits

import (
	"context"
	"fmt"
	"math"
	"net/http"
	"net/http/httptest"
	"os"
	"sync"
	"sync/atomic"
	"testing"
	"testing/synctest"
	"time"

	logging "github.com/ipfs/go-log/v2"

	"verifharness/vh"

	"github.com/celestiaorg/celestia-node/api/rpc"
)

// ---- plan format (written by checks/X_limits.py from TLC output)

type rpcLabel struct {
	Op   string `json:"op"`
	R    int    `json:"r"`
	Key  string `json:"key"`
	Kind string `json:"kind"`
	How  string `json:"how"`
}

type rpcCacheEntry struct {
	K string `json:"k"`
	T int    `json:"t"`
}

type rpcProj struct {
	Cache []rpcCacheEntry `json:"cache"`
	Sem   int             `json:"sem"`
	Ws    int             `json:"ws"`
	Inh   []string        `json:"inh"`
	Quiet bool            `json:"quiet"`
}

type rpcStep struct {
	L rpcLabel `json:"l"`
	O string   `json:"o"`
	P rpcProj  `json:"p"`
}

type rpcPlan struct {
	Name      string      `json:"name"`
	CacheSize int         `json:"cacheSize"`
	Burst     int         `json:"burst"`
	Rate      int         `json:"rate"`
	MaxConns  int         `json:"maxConns"`
	RateOn    bool        `json:"rateOn"`
	Paths     [][]rpcStep `json:"paths"`
}

type xCase struct {
	Form   string `json:"form"`
	Host   int    `json:"host"`
	Port   int    `json:"port"`
	Strips bool   `json:"strips"`
}

type rpcPlans struct {
	Plans  []rpcPlan `json:"plans"`
	XCases []xCase   `json:"xcases"`
}

// keyIP maps a model key to the address the request claims; the port varies per request so that
// extractIP is part of what is exercised.
func keyIP(k string) string {
	return fmt.Sprintf("10.0.%d.%d", int(k[0]-'a')/200, int(k[0]-'a')%200+1)
}

// ---- the gated handler at the bottom of the stack

type gate struct {
	entered chan struct{} // closed when the real handler was reached
	release chan string   // "returned" | "panicked"
	cancel  context.CancelFunc
	done    chan result // the ServeHTTP call returned (or panicked)
	ws      bool
	rec     *httptest.ResponseRecorder
}

type result struct {
	code     int
	panicked bool
}

type rpcRig struct {
	handler http.Handler
	view    *rpc.VerifView
	mu      sync.Mutex
	gates   map[string]*gate
	inside  atomic.Int64 // requests currently inside the core handler
	maxIn   atomic.Int64
	enters  map[string]int
}

func (g *rpcRig) core(w http.ResponseWriter, r *http.Request) {
	id := r.Header.Get("X-Verif-Req")
	g.mu.Lock()
	gt := g.gates[id]
	g.enters[id]++
	g.mu.Unlock()
	n := g.inside.Add(1)
	for {
		m := g.maxIn.Load()
		if n <= m || g.maxIn.CompareAndSwap(m, n) {
			break
		}
	}
	defer g.inside.Add(-1)
	if gt == nil {
		w.WriteHeader(http.StatusOK)
		return
	}
	close(gt.entered)
	select {
	case how := <-gt.release:
		if how == "panicked" {
			panic("verif: handler panic")
		}
		w.WriteHeader(http.StatusOK)
	case <-r.Context().Done():
		// the client went away; a well-behaved handler returns
	}
}

func newRPCRig(p *rpcPlan, rps int) *rpcRig {
	g := &rpcRig{gates: map[string]*gate{}, enters: map[string]int{}}
	g.handler, g.view = rpc.VerifNewStack(p.RateOn, rps, p.Burst, p.CacheSize, p.MaxConns, http.HandlerFunc(g.core))
	return g
}

// send starts a request and waits until it was either answered (rejected) or reached the handler.
func (g *rpcRig) send(id, remote string, ws bool) (admitted bool, code int, gt *gate) {
	ctx, cancel := context.WithCancel(context.Background())
	req := httptest.NewRequest(http.MethodPost, "/", nil).WithContext(ctx)
	req.RemoteAddr = remote
	req.Header.Set("X-Verif-Req", id)
	if ws {
		req.Header.Set("Upgrade", "websocket")
		req.Header.Set("Connection", "Upgrade")
	}
	gt = &gate{entered: make(chan struct{}), release: make(chan string, 1), cancel: cancel, done: make(chan result, 1), ws: ws}
	g.mu.Lock()
	g.gates[id] = gt
	g.mu.Unlock()
	rec := httptest.NewRecorder()
	gt.rec = rec
	go func() {
		res := result{}
		defer func() {
			if r := recover(); r != nil {
				res.panicked = true
			}
			res.code = rec.Code
			gt.done <- res
		}()
		g.handler.ServeHTTP(rec, req)
	}()
	select {
	case <-gt.entered:
		return true, 0, gt
	case res := <-gt.done:
		cancel()
		return false, res.code, gt
	}
}

// ---- independent accounting for the monitors (not the model: what the properties say)

type keyAcct struct {
	tokens   float64 // tokens of the address' current bucket
	refilled bool    // the bucket was empty and time has passed since
	since    map[string]bool
	cached   bool
}

type rpcMon struct {
	p    *rpcPlan
	acct map[string]*keyAcct
}

func eqKeys(a []string, b []rpcCacheEntry) bool {
	if len(a) != len(b) {
		return false
	}
	for i := range a {
		if a[i] != keyIP(b[i].K) {
			return false
		}
	}
	return true
}

// replayRPCPath runs one path inside a bubble. It returns whether the real code conformed to the model
// on every step.
func replayRPCPath(rep *vh.Report, p *rpcPlan, pi int, path []rpcStep) (conform bool) {
	// one token per second, a model Tick is Rate seconds; Rate = 0 is the code's rps = 0 (no refill at all)
	rps := 1
	if p.Rate == 0 {
		rps = 0
	}
	rig := newRPCRig(p, rps)
	open := map[int]*gate{} // model request identity -> gate of the request inside the handler
	mon := &rpcMon{p: p, acct: map[string]*keyAcct{}}
	conform = true
	seq := 0
	where := func(i int) map[string]any {
		return map[string]any{"plan": p.Name, "path": pi, "step": i, "consts": map[string]any{"cacheSize": p.CacheSize,
			"burst": p.Burst, "rate": p.Rate, "maxConns": p.MaxConns, "rateOn": p.RateOn}, "steps": path[:i+1]}
	}
	diverged := false // the real code left the model's behaviour: the rest of the path is judged by the monitors only
	drift := func(i int, f string, a ...any) {
		if !diverged {
			rep.Inconclusivef("conformance drift (model and code differ, no stated property is violated): %s path %d step %d (%+v): %s",
				p.Name, pi, i, path[i].L, fmt.Sprintf(f, a...))
		}
		conform, diverged = false, true
	}
	defer func() {
		// let every request still inside the handler end, whatever the driver knows about it, so that the
		// bubble can close: a cancelled context makes the gated handler return
		rig.mu.Lock()
		for _, gt := range rig.gates {
			gt.cancel()
		}
		rig.mu.Unlock()
		synctest.Wait()
	}()

	for i, st := range path {
		rep.Count("rpc_steps", 1)
		insideBefore := int(rig.inside.Load())
		switch st.L.Op {
		case "tick":
			rep.Count("rpc_ticks", 1)
			if p.Rate == 0 {
				time.Sleep(time.Hour) // rps = 0: no refill whatever time passes
			} else {
				time.Sleep(time.Duration(p.Rate) * time.Second)
			}
			for _, a := range mon.acct {
				if a.tokens < 1 && p.Rate > 0 {
					a.refilled = true
				}
				a.tokens = math.Min(float64(p.Burst), a.tokens+float64(p.Rate))
			}
		case "arrive":
			seq++
			ip := keyIP(st.L.Key)
			remote := fmt.Sprintf("%s:%d", ip, 1024+seq)
			var before []string
			if p.RateOn {
				before = rig.view.CacheKeys()
			}
			id := fmt.Sprintf("%d-%d", pi, seq)
			admitted, code, gt := rig.send(id, remote, st.L.Kind == "ws")
			synctest.Wait()
			rig.mu.Lock()
			entered := rig.enters[id]
			rig.mu.Unlock()

			// M3: a rejected request never reaches the handler; an admitted one reaches it once
			if !admitted && entered != 0 {
				violate(rep, "X_limits/rpc/rejected-request-reached-handler",
					fmt.Sprintf("request answered %d was served by the handler", code), where(i))
				return false
			}
			if admitted && (gt.rec.Code == http.StatusTooManyRequests || gt.rec.Code == http.StatusServiceUnavailable) {
				violate(rep, "X_limits/rpc/rejected-request-reached-handler",
					fmt.Sprintf("the response already carries status %d but the request is being served by the handler", gt.rec.Code), where(i))
				return false
			}
			if admitted && entered != 1 {
				violate(rep, "X_limits/rpc/handler-entered-twice", fmt.Sprintf("handler entered %d times", entered), where(i))
				return false
			}
			// rate accounting
			rateOK := true
			if p.RateOn {
				a := mon.acct[ip]
				inCache := false
				for _, k := range before {
					if k == ip {
						inCache = true
					}
				}
				if a == nil || !inCache {
					a = &keyAcct{tokens: float64(p.Burst)}
					mon.acct[ip] = a
				}
				rateOK = a.tokens >= 1-1e-9
				passed := admitted || code == http.StatusServiceUnavailable
				switch {
				case passed && !rateOK:
					// M5: more than burst + rate*window (+ one burst per eviction) for this address
					violate(rep, "X_limits/rpc/rate/over-admission",
						fmt.Sprintf("address %s passed the rate limit although its bucket (burst %d, %d token(s) per tick, evictions "+
							"accounted from the real cache) holds %.3f tokens", ip, p.Burst, p.Rate, a.tokens), where(i))
					return false
				case !passed && code == http.StatusTooManyRequests && rateOK:
					// M6: keys are independent / tokens refill: a key inside its rate is not refused
					violate(rep, "X_limits/rpc/rate/refused-inside-rate",
						fmt.Sprintf("address %s got 429 although its bucket holds %.3f tokens", ip, a.tokens), where(i))
					return false
				}
				if passed {
					a.tokens--
					if a.refilled {
						rep.Count("rpc_refill_admissions", 1)
						a.refilled = false
					}
				}
				// M7 / M8: cache bound and legitimacy of evictions
				after := rig.view.CacheKeys()
				if len(after) > p.CacheSize {
					violate(rep, "X_limits/rpc/cache-exceeds-bound", fmt.Sprintf("%d buckets cached, bound %d", len(after), p.CacheSize), where(i))
					return false
				}
				for _, a2 := range mon.acct {
					if a2.since == nil {
						a2.since = map[string]bool{}
					}
				}
				for k, a2 := range mon.acct {
					if k != ip {
						a2.since[ip] = true
					}
				}
				mon.acct[ip].since = map[string]bool{}
				afterSet := map[string]bool{}
				for _, k := range after {
					afterSet[k] = true
				}
				for _, k := range before {
					if !afterSet[k] {
						rep.Count("rpc_evictions_seen", 1)
						if n := len(mon.acct[k].since); n < p.CacheSize {
							violate(rep, "X_limits/rpc/evicted-too-early",
								fmt.Sprintf("bucket of %s evicted after only %d other address(es) were seen since its last request (cache size %d)",
									k, n, p.CacheSize), where(i))
							return false
						}
					}
				}
			}
			// M4: 503 iff every slot is taken
			if code == http.StatusServiceUnavailable && insideBefore < p.MaxConns {
				violate(rep, "X_limits/rpc/conn/refused-with-free-slot",
					fmt.Sprintf("503 with %d of %d slots in use", insideBefore, p.MaxConns), where(i))
				return false
			}
			if admitted && insideBefore >= p.MaxConns {
				violate(rep, "X_limits/rpc/conn/bound-exceeded",
					fmt.Sprintf("request admitted with %d of %d slots in use", insideBefore, p.MaxConns), where(i))
				return false
			}
			if !admitted && rateOK && code != http.StatusServiceUnavailable && code != http.StatusTooManyRequests {
				drift(i, "unexpected status %d", code)
				return
			}
			got := map[bool]string{true: "admitted", false: fmt.Sprint(code)}[admitted]
			rep.Count("rpc_"+got, 1)
			if admitted && st.L.Kind == "ws" {
				rep.Count("rpc_ws_admitted", 1)
			}
			if admitted {
				if open[st.L.R] != nil {
					// (only after a divergence) the model reuses an identity the real code still has inside the handler
					gt.release <- "returned"
					<-gt.done
					return
				}
				open[st.L.R] = gt
			}
			if got != st.O {
				drift(i, "model outcome %s, real outcome %s", st.O, got)
			}
		case "finish":
			gt := open[st.L.R]
			if gt == nil {
				drift(i, "no real request for model request %d", st.L.R)
				return
			}
			delete(open, st.L.R)
			switch st.L.How {
			case "cancelled":
				gt.cancel()
			default:
				gt.release <- st.L.How
			}
			res := <-gt.done
			rep.Count("rpc_finish_"+st.L.How, 1)
			if (st.L.How == "panicked") != res.panicked {
				drift(i, "panic expected=%v seen=%v", st.L.How == "panicked", res.panicked)
				return
			}
		default:
			drift(i, "unknown stimulus")
			return
		}
		synctest.Wait()

		// ---- monitors on the state between stimuli
		inside := int(rig.inside.Load())
		if inside > p.MaxConns || int(rig.maxIn.Load()) > p.MaxConns {
			violate(rep, "X_limits/rpc/conn/bound-exceeded", fmt.Sprintf("%d requests inside the handler, bound %d", inside, p.MaxConns), where(i))
			return false
		}
		if s := rig.view.SlotsInUse(); s != inside {
			// M2: a slot is held exactly while its request is inside the handler
			sig := "X_limits/rpc/conn/slot-leak"
			if s < inside {
				sig = "X_limits/rpc/conn/slot-released-early"
			}
			if st.L.Op == "finish" {
				sig += "/after-" + st.L.How
			} else {
				sig += "/after-" + st.L.Op + "-" + st.O
			}
			violate(rep, sig, fmt.Sprintf("%d slots in use with %d requests inside the handler after %+v", s, inside, st.L), where(i))
			return false
		}
		wsIn := 0
		for _, gt := range open {
			if gt.ws {
				wsIn++
			}
		}
		if w := int(rig.view.WebsocketsOpen()); w != wsIn {
			violate(rep, "X_limits/rpc/ws-gauge", fmt.Sprintf("websocket gauge %d with %d upgraded requests inside the handler", w, wsIn), where(i))
			return false
		}

		// ---- conformance with the model's state
		if diverged {
			continue
		}
		if st.P.Sem != rig.view.SlotsInUse() || st.P.Ws != int(rig.view.WebsocketsOpen()) {
			drift(i, "model sem=%d ws=%d, real sem=%d ws=%d", st.P.Sem, st.P.Ws, rig.view.SlotsInUse(), rig.view.WebsocketsOpen())
			continue
		}
		if p.RateOn {
			keys := rig.view.CacheKeys()
			if !eqKeys(keys, st.P.Cache) {
				drift(i, "cache order: model %+v, real %v (least recently used first)", st.P.Cache, keys)
				continue
			}
			for _, e := range st.P.Cache {
				tk, ok := rig.view.Tokens(keyIP(e.K))
				if !ok || math.Abs(tk-float64(e.T)) > 1e-6 {
					drift(i, "tokens of %s: model %d, real %.6f (present=%v)", e.K, e.T, tk, ok)
					break
				}
			}
		}
	}
	return conform
}

func runRPCPlans(t *testing.T, rep *vh.Report) {
	path := os.Getenv("VERIF_RPC_PLANS")
	if path == "" {
		rep.Inconclusivef("VERIF_RPC_PLANS not set")
		return
	}
	var plans rpcPlans
	if err := vh.ReadJSON(path, &plans); err != nil {
		rep.Inconclusivef("cannot read plans: %v", err)
		return
	}
	for pi := range plans.Plans {
		p := &plans.Plans[pi]
		stop := runPaths(t, rep, "rpc", p.Name, len(p.Paths), func(i int) bool { return replayRPCPath(rep, p, i, p.Paths[i]) })
		if len(p.Paths) > 0 && pi < 2 {
			rep.Sample(map[string]any{"plan": p.Name, "path": p.Paths[0][:min(len(p.Paths[0]), 8)]})
		}
		if stop {
			return
		}
	}
	runExtractCases(rep, plans.XCases)
}

// runExtractCases: B3 for extractIP. The model says which RemoteAddr forms lose their port; the
// property is that one host is one key whatever the port, and two hosts are two keys.
func runExtractCases(rep *vh.Report, cases []xCase) {
	mk := func(c xCase) (addr, host string) {
		h4 := fmt.Sprintf("192.0.2.%d", c.Host)
		h6 := fmt.Sprintf("2001:db8::%d", c.Host)
		port := 4000 + c.Port
		switch c.Form {
		case "v4port":
			return fmt.Sprintf("%s:%d", h4, port), h4
		case "v6port":
			return fmt.Sprintf("[%s]:%d", h6, port), h6
		case "v4bare":
			return h4, h4
		case "v6bare":
			return h6, h6
		case "v6brackets":
			return "[" + h6 + "]", "[" + h6 + "]"
		case "empty":
			return "", ""
		case "hostport":
			return fmt.Sprintf("host%d.example:%d", c.Host, port), fmt.Sprintf("host%d.example", c.Host)
		case "zoneport":
			return fmt.Sprintf("[fe80::%d%%eth0]:%d", c.Host, port), fmt.Sprintf("fe80::%d%%eth0", c.Host)
		}
		return "?", "?"
	}
	keys := map[string]map[int]string{}
	for _, c := range cases {
		addr, host := mk(c)
		got := rpc.VerifExtractIP(addr)
		rep.Count("rpc_extract_cases", 1)
		want := addr
		if c.Strips {
			want = host
		}
		if got != want {
			if c.Strips && c.Form != "hostport" && c.Form != "zoneport" {
				violate(rep, "X_limits/rpc/extractIP/port-not-stripped/"+c.Form,
					fmt.Sprintf("extractIP(%q) = %q: the same host with different ports gets different buckets", addr, got), c)
			} else {
				rep.Inconclusivef("conformance drift: extractIP(%q) = %q, model %q", addr, got, want)
			}
			continue
		}
		if keys[c.Form] == nil {
			keys[c.Form] = map[int]string{}
		}
		if prev, ok := keys[c.Form][c.Host]; ok && prev != got && c.Strips {
			violate(rep, "X_limits/rpc/extractIP/one-host-two-keys/"+c.Form, fmt.Sprintf("%q vs %q", prev, got), c)
		}
		keys[c.Form][c.Host] = got
	}
	for f, m := range keys {
		if f != "empty" && len(m) == 2 && m[1] == m[2] {
			violate(rep, "X_limits/rpc/extractIP/two-hosts-one-key/"+f, fmt.Sprintf("both hosts map to %q", m[1]), nil)
		}
	}
}

// nViol counts the violations recorded so far (the report's own slice is guarded by its private lock).
var nViol atomic.Int64

func violate(rep *vh.Report, sig, what string, replay any) {
	nViol.Add(1)
	rep.Violate(sig, what, replay)
}

// runPaths replays n paths of one plan, each in its own bubble, on a few worker goroutines (paths are
// independent: every path builds its own handler stack / server). It reports whether the driver should
// stop (a violation, repeated drift, or a stuck harness).
func runPaths(t *testing.T, rep *vh.Report, kind, plan string, n int, replay func(i int) bool) (stop bool) {
	workers := vh.EnvInt("VERIF_LIMITS_WORKERS", 4)
	var (
		mu   sync.Mutex
		next int
		bad  int
		halt bool
		wg   sync.WaitGroup
	)
	for w := 0; w < workers; w++ {
		wg.Add(1)
		go func() {
			defer wg.Done()
			for {
				mu.Lock()
				i := next
				next++
				h := halt
				mu.Unlock()
				if h || i >= n {
					return
				}
				ok := false
				okRun, dump := vh.WithWatchdog(180*time.Second, func() {
					synctest.Test(t, func(t *testing.T) { ok = replay(i) })
				})
				rep.Count(kind+"_paths", 1)
				if ok {
					rep.Count(kind+"_paths_conform", 1)
				}
				if !okRun {
					rep.Inconclusivef("%s path %s/%d did not finish (harness stuck):\n%s", kind, plan, i, dump[:min(len(dump), 3000)])
				}
				if !ok {
					rep.Count(kind+"_paths_diverged", 1)
				}
				mu.Lock()
				if !ok {
					bad++
				}
				if !okRun || bad >= 40 || nViol.Load() > 0 {
					halt = true
				}
				mu.Unlock()
			}
		}()
	}
	wg.Wait()
	return halt
}

func TestDriver(t *testing.T) {
	// the runs provoke thousands of refusals, injected errors and recovered panics: keep the log quiet
	for _, l := range []string{"shrex", "rpc", "rcmgr"} {
		_ = logging.SetLogLevel(l, "fatal")
	}
	rep := vh.NewReport()
	defer func() {
		if err := rep.Write(); err != nil {
			t.Fatal(err)
		}
	}()
	if p, v := vh.Recover(func() { runRPCPlans(t, rep) }); p {
		rep.Inconclusivef("driver panicked: %s", v)
	}
	if nViol.Load() == 0 && os.Getenv("VERIF_RPC_PLANS") != "" {
		if p, v := vh.Recover(func() { runRealStackDirected(t, rep); runRealNetwork(rep); runConcurrent(rep) }); p {
			rep.Inconclusivef("driver panicked: %s", v)
		}
	}
	if nViol.Load() == 0 {
		if p, v := vh.Recover(func() { runShrexPlans(t, rep) }); p {
			rep.Inconclusivef("driver panicked: %s", v)
		}
	}
	rep.Set("done", true)
}
