// Package storecrash is the C07 driver: it binds spec/store/Store.tla to the real store.
//
//	B2  every crash point TLC reports (CASE lines of Store_cases.cfg) is forced on the real code: the
//	    history of the case is replayed on a real store.Store in a scratch directory, the interrupted
//	    operation is held at the crash-point markers (verifMark hooks of store and store/file used as
//	    gates: the operation's goroutine at one marker, the Q4 writer goroutine at another), the store
//	    directory is copied (= the disk a dead process leaves), and the copy is compared with the
//	    model's disk state and put through the recovery script (NewStore, HasByHeight, GetByHeight +
//	    read-back of every read path against the reference square, re-put, re-remove twice).
//	B1  the marker sequence of every operation executed on the way is written as NDJSON and validated
//	    by TLC against StoreTrace.tla (order of the file-system effects).
package storecrash

import (
	"fmt"
	"os"
	"path/filepath"
	"strconv"
	"strings"
	"sync"
	"syscall"
	"time"

	"github.com/celestiaorg/celestia-node/share"
	"github.com/celestiaorg/celestia-node/store"
	"github.com/celestiaorg/celestia-node/store/file"

	"verifharness/storeref"
)

// ---------------------------------------------------------------- world: blocks and paths

// The model's heights: 1 = the data block, 2 = the empty block. File key 0 = the empty block's files.
const (
	hData  = 1
	hEmpty = 2
)

type world struct {
	data  *storeref.Ref
	empty *storeref.Ref
}

func (w *world) refOf(h int) *storeref.Ref {
	if h == hEmpty {
		return w.empty
	}
	return w.data
}

func (w *world) refOfFile(f int) *storeref.Ref {
	if f == 0 {
		return w.empty
	}
	return w.data
}

func blocksDir(base string) string  { return filepath.Join(base, "blocks") }
func heightsDir(base string) string { return filepath.Join(base, "blocks", "heights") }
func odsPath(base string, r *storeref.Ref) string {
	return filepath.Join(blocksDir(base), share.DataHash(r.Hash).String()+".ods")
}

func q4Path(base string, r *storeref.Ref) string {
	return filepath.Join(blocksDir(base), share.DataHash(r.Hash).String()+".q4")
}

func linkPath(base string, h int) string {
	return filepath.Join(heightsDir(base), strconv.Itoa(h)+".ods")
}

// ---------------------------------------------------------------- abstract disk (Store.tla's disk variables)

type fileAbs struct {
	F   int    `json:"f"`
	Ods string `json:"ods"`
	Q4  string `json:"q4"`
}

type linkAbs struct {
	H   int    `json:"h"`
	Lnk string `json:"lnk"`
	Via string `json:"via"` // size class of the ODS inode reached through the link ("absent" if none)
}

type diskAbs struct {
	Dirs  int       `json:"dirs"`
	Files []fileAbs `json:"files"`
	Links []linkAbs `json:"links"`
	// raw sizes, for reports
	Raw map[string]int64 `json:"raw,omitempty"`
}

func odsClass(size int64, ok bool, r *storeref.Ref) string {
	switch {
	case !ok:
		return "absent"
	case size < r.HdrSize:
		return "empty"
	case size == r.HdrSize:
		return "hdr"
	case size < r.OdsFileSize:
		return "partial"
	case size == r.OdsFileSize:
		return "full"
	}
	return "over"
}

func q4Class(size int64, ok bool, r *storeref.Ref) string {
	switch {
	case !ok:
		return "absent"
	case size == 0:
		return "empty"
	case size < r.Q4FileSize:
		return "partial"
	case size == r.Q4FileSize:
		return "full"
	}
	return "over"
}

func statSize(p string) (int64, bool) {
	fi, err := os.Stat(p)
	if err != nil {
		return 0, false
	}
	return fi.Size(), true
}

func isDir(p string) bool {
	fi, err := os.Stat(p)
	return err == nil && fi.IsDir()
}

// abstract computes the model's disk variables from the real directory.
func (w *world) abstract(base string) diskAbs {
	d := diskAbs{Raw: map[string]int64{}}
	if isDir(blocksDir(base)) {
		d.Dirs = 1
		if isDir(heightsDir(base)) {
			d.Dirs = 2
		}
	}
	for _, f := range []int{0, 1} {
		r := w.refOfFile(f)
		os_, ok := statSize(odsPath(base, r))
		qs, qok := statSize(q4Path(base, r))
		d.Files = append(d.Files, fileAbs{F: f, Ods: odsClass(os_, ok, r), Q4: q4Class(qs, qok, r)})
		if ok {
			d.Raw[fmt.Sprintf("ods%d", f)] = os_
		}
		if qok {
			d.Raw[fmt.Sprintf("q4%d", f)] = qs
		}
	}
	for _, h := range []int{hData, hEmpty} {
		la := linkAbs{H: h, Lnk: "absent", Via: "absent"}
		lp := linkPath(base, h)
		if li, err := os.Lstat(lp); err == nil {
			if li.Mode()&os.ModeSymlink != 0 {
				la.Lnk = "sym"
			} else {
				r := w.refOf(h)
				la.Lnk = "detached"
				if bi, err := os.Stat(odsPath(base, r)); err == nil && os.SameFile(li, bi) {
					la.Lnk = "same"
				}
				la.Via = odsClass(li.Size(), true, r)
				d.Raw[fmt.Sprintf("lnk%d", h)] = li.Size()
			}
		}
		d.Links = append(d.Links, la)
	}
	return d
}

func (d diskAbs) key() string {
	var b strings.Builder
	fmt.Fprintf(&b, "d%d", d.Dirs)
	for _, f := range d.Files {
		fmt.Fprintf(&b, "|f%d:%s,%s", f.F, f.Ods, f.Q4)
	}
	for _, l := range d.Links {
		fmt.Fprintf(&b, "|h%d:%s,%s", l.H, l.Lnk, l.Via)
	}
	return b.String()
}

// ---------------------------------------------------------------- events

// event is one marker call, with the abstract disk right after the effect it marks.
type event struct {
	Seq   int
	Ev    string // marker name
	Cls   string // "main" (goroutine of the operation, incl. the ODS writer), "q4" (Q4 writer), "rd" (reader side)
	Path  string
	PC    string // path class: "ods", "q4", "lnk", "dir1", "dir2", ""
	F     int    // file key for ods/q4 paths
	H     int    // height for lnk paths / store-level markers
	N     int
	Disk  diskAbs
	Round int // number of ods.create (main) / q4.create (q4) markers seen so far in this operation
	// for share/flushed events: did the size of the file being written change with this event, and
	// which size-changing intermediate flush (1..K) it is (0 = none / final)
	Size       int64
	SizeChange bool
	FlushNo    int
	Full       bool // the written file has reached its full size
	Buffered   bool // share marker without any file-system effect (Disk copied from the previous event)
	FirstFull  bool // ... with this very event
}

var writerEvs = map[string]bool{"create": true, "created": true, "create.err": true, "hdr": true, "share": true, "flushed": true, "closed": true}

func classOf(ev string) string {
	if strings.HasPrefix(ev, "ods.") && writerEvs[ev[4:]] {
		return "main"
	}
	if strings.HasPrefix(ev, "q4.") && writerEvs[ev[3:]] {
		return "q4"
	}
	if mainEvs[ev] {
		return "main"
	}
	// reader-side markers (ods.open, q4.open, get.*), lock markers (mlock.*) and any marker added
	// later for other properties: not part of the crash model
	return "rd"
}

// markers of the operation's goroutine that correspond to actions of Store.tla
var mainEvs = map[string]bool{
	"put.cached": true, "put.locked": true, "put.end": true,
	"removeodsq4.locked": true, "removeodsq4.end": true, "removeq4.locked": true, "removeq4.end": true,
	"cache.removed": true, "fs.mkdir": true, "fs.link": true, "fs.link.err": true, "fs.symlink": true,
	"fs.symlink.err": true, "fs.remove": true, "newstore.ready": true,
}

// target: hold a goroutine right after the marker that corresponds to the model action `Action` in
// Create* round `Round`.
type target struct {
	Action  string
	Round   int
	Kind    string // operation kind (disambiguates cache.removed)
	FlushNo int    // for *FlushPartial: which size-changing intermediate flush represents "partial"
}

type writerState struct {
	path     string
	ref      *storeref.Ref
	isQ4     bool
	lastSize int64
	flushes  int
	full     bool
	round    int
}

// recorder receives every marker. One operation at a time runs in this driver (plus the Q4 goroutine
// the operation itself starts), so a single mutex orders the events.
type recorder struct {
	mu   sync.Mutex
	w    *world
	base string
	evs  []event
	seq  int

	cacheRemoved int
	ws           map[string]*writerState // "main" / "q4"

	// gating
	targets map[string]*target // class -> target
	arrived chan string
	release chan struct{}
	hit     map[string]bool
	drift   []string
}

var rec = &recorder{}

func installHooks() {
	file.SetVerifHook(func(ev, path string, n int) { rec.on(ev, path, 0, n) })
	store.SetVerifHook(func(ev string, height uint64, path string) { rec.on(ev, path, int(height), 0) })
}

// begin resets the per-operation state. base is the store directory the operation works on.
func (r *recorder) begin(w *world, base string, targets map[string]*target) {
	r.mu.Lock()
	defer r.mu.Unlock()
	r.w, r.base = w, base
	r.evs = nil
	r.cacheRemoved = 0
	r.ws = map[string]*writerState{"main": {}, "q4": {isQ4: true}}
	r.targets = targets
	r.hit = map[string]bool{}
	r.arrived = make(chan string, 4)
	r.release = make(chan struct{})
}

func (r *recorder) end() []event {
	r.mu.Lock()
	defer r.mu.Unlock()
	out := r.evs
	r.evs = nil
	r.w = nil
	r.targets = nil
	return out
}

func (r *recorder) classifyPath(p string) (pc string, f, h int) {
	if p == "" || r.w == nil {
		return "", 0, 0
	}
	switch p {
	case blocksDir(r.base):
		return "dir1", 0, 0
	case heightsDir(r.base):
		return "dir2", 0, 0
	}
	for _, fk := range []int{0, 1} {
		ref := r.w.refOfFile(fk)
		if p == odsPath(r.base, ref) {
			return "ods", fk, 0
		}
		if p == q4Path(r.base, ref) {
			return "q4", fk, 0
		}
	}
	for _, hh := range []int{hData, hEmpty} {
		if p == linkPath(r.base, hh) {
			return "lnk", 0, hh
		}
	}
	return "other", 0, 0
}

func (r *recorder) on(ev, path string, height, n int) {
	r.mu.Lock()
	if r.w == nil { // nothing being recorded (e.g. a store used outside an operation bracket)
		r.mu.Unlock()
		return
	}
	cls := classOf(ev)
	if cls == "rd" {
		r.mu.Unlock()
		return
	}
	r.seq++
	e := event{Seq: r.seq, Ev: ev, Cls: cls, Path: path, H: height, N: n}
	e.PC, e.F, _ = r.classifyPath(path)
	if e.PC == "lnk" {
		_, _, e.H = r.classifyPath(path)
	}
	if ev == "cache.removed" {
		r.cacheRemoved++
		e.N = r.cacheRemoved
	}
	// writer bookkeeping
	dot := strings.IndexByte(ev, '.')
	if (strings.HasPrefix(ev, "ods.") || strings.HasPrefix(ev, "q4.")) && writerEvs[ev[dot+1:]] {
		ws := r.ws[cls]
		switch ev[dot+1:] {
		case "create":
			ws.round++
			ws.path = path
			_, fk, _ := r.classifyPath(path)
			ws.ref = r.w.refOfFile(fk)
			ws.lastSize, ws.flushes, ws.full = -1, 0, false
			e.F = fk
		default:
			if e.Path == "" {
				e.Path = ws.path
			}
			e.PC, e.F, _ = r.classifyPath(ws.path)
			if ev[dot+1:] != "create.err" {
				sz, _ := statSize(ws.path)
				fullSize := ws.ref.OdsFileSize
				if ws.isQ4 {
					fullSize = ws.ref.Q4FileSize
				}
				e.Size = sz
				if sz != ws.lastSize && ws.lastSize >= 0 {
					e.SizeChange = true
				}
				if ev[dot+1:] == "share" && e.SizeChange && sz < fullSize {
					ws.flushes++
					e.FlushNo = ws.flushes
				}
				if sz == fullSize {
					e.Full = true
					if !ws.full && (ev[dot+1:] == "share" || ev[dot+1:] == "flushed") {
						e.FirstFull = true
						ws.full = true
					}
				}
				ws.lastSize = sz
			}
		}
		e.Round = ws.round
	}
	if (ev == "ods.share" || ev == "q4.share") && !e.SizeChange && len(r.evs) > 0 {
		// the share went into the user-space buffer: no file-system effect of this goroutine
		e.Disk = r.evs[len(r.evs)-1].Disk
		e.Buffered = true
	} else {
		e.Disk = r.w.abstract(r.base)
	}
	r.evs = append(r.evs, e)
	// gate?
	var wait chan struct{}
	if t := r.targets[cls]; t != nil && !r.hit[cls] && matches(t, &e) {
		r.hit[cls] = true
		wait = r.release
		r.arrived <- cls
	}
	r.mu.Unlock()
	if wait != nil {
		<-wait
	}
}

// matches: is e the marker of the model action t.Action (in round t.Round)?
func matches(t *target, e *event) bool {
	wr := func(name string) bool { return e.Ev == name && e.Round == t.Round }
	switch t.Action {
	case "PutCached":
		return e.Ev == "put.cached"
	case "PutLocked":
		return e.Ev == "put.locked"
	case "RmLocked":
		return e.Ev == "removeodsq4.locked" || e.Ev == "removeq4.locked"
	case "OdsEnter":
		return wr("ods.create")
	case "OdsCreate":
		return wr("ods.created") || wr("ods.create.err")
	case "OdsHdr":
		return wr("ods.hdr")
	case "OdsFlushPartial":
		return wr("ods.share") && e.FlushNo == t.FlushNo && t.FlushNo > 0
	case "OdsFlushFull":
		return (wr("ods.share") || wr("ods.flushed")) && e.FirstFull
	case "OdsClose":
		return wr("ods.closed")
	case "Q4Enter":
		return wr("q4.create")
	case "Q4Create":
		return wr("q4.created") || wr("q4.create.err")
	case "Q4FlushPartial":
		return wr("q4.share") && e.FlushNo == t.FlushNo && t.FlushNo > 0
	case "Q4FlushFull":
		return (wr("q4.share") || wr("q4.flushed")) && e.FirstFull
	case "Q4Close":
		return wr("q4.closed")
	case "RmCache1":
		return e.Ev == "cache.removed" && e.N == 1
	case "RmCache2":
		if t.Kind == "RemoveQ4" {
			return e.Ev == "cache.removed" && e.N == 1
		}
		return e.Ev == "cache.removed" && e.N == 2
	case "RmLink":
		return e.Ev == "fs.remove" && e.PC == "lnk"
	case "RmOds":
		return e.Ev == "fs.remove" && e.PC == "ods" && e.F != 0
	case "RmQ4":
		return e.Ev == "fs.remove" && e.PC == "q4" && e.F != 0
	case "NsRmOds":
		return e.Ev == "fs.remove" && e.PC == "ods" && e.F == 0
	case "NsRmQ4":
		return e.Ev == "fs.remove" && e.PC == "q4" && e.F == 0
	case "Link":
		return strings.HasPrefix(e.Ev, "fs.link") || strings.HasPrefix(e.Ev, "fs.symlink")
	case "OpEnd":
		return strings.HasSuffix(e.Ev, ".end")
	case "NsMkdir1":
		return e.Ev == "fs.mkdir" && e.PC == "dir1"
	case "NsMkdir2":
		return e.Ev == "fs.mkdir" && e.PC == "dir2"
	case "NsReady":
		return e.Ev == "newstore.ready"
	}
	return false
}

// ---------------------------------------------------------------- copying a store directory (the dead process's disk)

// copyTree copies a store directory preserving hard links and symlinks.
func copyTree(src, dst string) error {
	inodes := map[uint64]string{}
	return filepath.Walk(src, func(p string, fi os.FileInfo, err error) error {
		if err != nil {
			return err
		}
		rel, _ := filepath.Rel(src, p)
		to := filepath.Join(dst, rel)
		switch {
		case fi.IsDir():
			return os.MkdirAll(to, 0o755)
		case fi.Mode()&os.ModeSymlink != 0:
			tgt, err := os.Readlink(p)
			if err != nil {
				return err
			}
			return os.Symlink(tgt, to)
		default:
			st := fi.Sys().(*syscall.Stat_t)
			if st.Nlink > 1 {
				if first, ok := inodes[st.Ino]; ok {
					return os.Link(first, to)
				}
				inodes[st.Ino] = to
			}
			b, err := os.ReadFile(p)
			if err != nil {
				return err
			}
			return os.WriteFile(to, b, 0o600)
		}
	})
}

const watchdog = 60 * time.Second
