// Package storecrash is the C07 driver: it binds spec/store/Store.tla to the real store.
//
//	B2  every crash point TLC reports (CASE lines of Store_cases.cfg) is forced on the real code: the
//	    history of the case is replayed on a real store.Store in a scratch directory, the interrupted
//	    operation is held at the crash-point markers (verifMark hooks of store and store/file used as
//	    gates: the operation's goroutine at one marker, the Q4 writer goroutine at another), the store
//	    directory is copied (= the disk a dead process leaves), and the copy is compared with the
//	    model's disk state and put through the recovery script (NewStore, HasByHeight, GetByHeight +
//	    read-back of every read path against the reference square, re-put, re-remove twice).
//	B1  the marker sequence of every operation executed on the way is written as NDJSON and validated
//	    by TLC against StoreTrace.tla (order of the file-system effects).
package storecrash

import (
	"fmt"
	"os"
	"path/filepath"
	"strconv"
	"strings"
	"sync"
	"syscall"
	"time"

	"github.com/celestiaorg/celestia-node/share"
	"github.com/celestiaorg/celestia-node/store"
	"github.com/celestiaorg/celestia-node/store/file"

	"verifharness/storeref"
)

// ---------------------------------------------------------------- world: blocks and paths

// The model's heights: 1 = the data block, 2 = the empty block. File key 0 = the empty block's files.
const (
	hData  = 1
	hEmpty = 2
)

type world struct {
	data  *storeref.Ref
	empty *storeref.Ref
}

func (w *world) refOf(h int) *storeref.Ref {
	if h == hEmpty {
		return w.empty
	}
	return w.data
}

func (w *world) refOfFile(f int) *storeref.Ref {
	if f == 0 {
		return w.empty
	}
	return w.data
}

func blocksDir(base string) string  { return filepath.Join(base, "blocks") }
func heightsDir(base string) string { return filepath.Join(base, "blocks", "heights") }
func odsPath(base string, r *storeref.Ref) string {
	return filepath.Join(blocksDir(base), share.DataHash(r.Hash).String()+".ods")
}

func q4Path(base string, r *storeref.Ref) string {
	return filepath.Join(blocksDir(base), share.DataHash(r.Hash).String()+".q4")
}

func linkPath(base string, h int) string {
	return filepath.Join(heightsDir(base), strconv.Itoa(h)+".ods")
}

// ---------------------------------------------------------------- abstract disk (Store.tla's disk variables)

type fileAbs struct {
	F   int    `json:"f"`
	Ods string `json:"ods"`
	Q4  string `json:"q4"`
}

type linkAbs struct {
	H   int    `json:"h"`
	Lnk string `json:"lnk"`
	Via string `json:"via"` // size class of the ODS inode reached through the link ("absent" if none)
}

type diskAbs struct {
	Dirs  int       `json:"dirs"`
	Files []fileAbs `json:"files"`
	Links []linkAbs `json:"links"`
	// raw sizes, for reports
	Raw map[string]int64 `json:"raw,omitempty"`
}

// The abstraction of a file is CONTENT based: how many leading bytes of the file are the bytes of
// the complete file (storeref OdsImage / Q4Image). The size alone says nothing once a writer reserves
// space ahead of writing (Truncate / fallocate): a half-written file can have the full size.
//
//	written(path, image, from) = length of the longest prefix of the file that equals the image
//	                             (scanning from `from`, a prefix already known to match)

func written(path string, image []byte, from int64) (n int64, size int64, ok bool) {
	f, err := os.Open(path)
	if err != nil {
		return 0, 0, false
	}
	defer f.Close()
	fi, err := f.Stat()
	if err != nil {
		return 0, 0, false
	}
	size = fi.Size()
	n = from
	if n > size {
		n = 0
	}
	bl := int64(len(image)) - n
	if size-n < bl {
		bl = size - n
	}
	if bl > 256<<10 {
		bl = 256 << 10
	}
	if bl <= 0 {
		return n, size, true
	}
	buf := make([]byte, bl)
	for n < int64(len(image)) && n < size {
		want := image[n:]
		if len(want) > len(buf) {
			want = want[:len(buf)]
		}
		m, err := f.ReadAt(buf[:len(want)], n)
		k := 0
		for k < m && buf[k] == want[k] {
			k++
		}
		n += int64(k)
		if k < len(want) || err != nil {
			break
		}
	}
	return n, size, true
}

// snap rounds a matched prefix length down to an extent the writers can actually leave on the disk:
// nothing, the 65-byte header (ODS, written unbuffered), a whole number of 64 KiB buffer flushes after
// it, or the complete file. Reserved-but-unwritten space reads as zeros and a few zeros can coincide
// with the next bytes of the image (a namespace starts with zero bytes); those are not "written".
func snap(n, hdr, full int64) int64 {
	const buf = 64 << 10
	switch {
	case n >= full:
		return full
	case n < hdr:
		return 0
	}
	return hdr + (n-hdr)/buf*buf
}

func odsClassOf(n, size int64, ok bool, r *storeref.Ref) string {
	full := int64(len(r.OdsImage()))
	switch {
	case !ok:
		return "absent"
	case n < r.HdrSize:
		return "empty" // the header is not (completely) there
	case n == r.HdrSize:
		return "hdr"
	case n < full:
		return "partial"
	case size == full:
		return "full"
	}
	return "over" // complete content followed by something else
}

func q4ClassOf(n, size int64, ok bool, r *storeref.Ref) string {
	full := int64(len(r.Q4Image()))
	switch {
	case !ok:
		return "absent"
	case n == 0:
		return "empty"
	case n < full:
		return "partial"
	case size == full:
		return "full"
	}
	return "over"
}

// exactContent: compare every byte (crash-state conformance); otherwise large files are classified by
// probing the possible extents (see probe).
var exactContent bool

// probe finds the written extent of a large file without reading it all: the writers can only leave
// a prefix that ends at one of a few extents (snap); the largest extent whose last 64 bytes are the
// image's bytes is the written prefix. Small files are compared completely.
func probe(path string, image []byte, hdr int64) (n int64, size int64, ok bool) {
	full := int64(len(image))
	if exactContent || full <= 96<<10 {
		n, size, ok = written(path, image, 0)
		return snap(n, hdr, full), size, ok
	}
	f, err := os.Open(path)
	if err != nil {
		return 0, 0, false
	}
	defer f.Close()
	fi, err := f.Stat()
	if err != nil {
		return 0, 0, false
	}
	size = fi.Size()
	ext := []int64{full}
	for e := hdr + (full-hdr-1)/(64<<10)*(64<<10); e > hdr; e -= 64 << 10 {
		ext = append(ext, e)
	}
	if hdr > 0 {
		ext = append(ext, hdr)
	}
	buf := make([]byte, 64)
	for _, e := range ext {
		if e > size || e < 64 {
			if e > size {
				continue
			}
		}
		lo := e - 64
		if lo < 0 {
			lo = 0
		}
		m, _ := f.ReadAt(buf[:e-lo], lo)
		if int64(m) == e-lo && string(buf[:m]) == string(image[lo:e]) {
			return e, size, true
		}
	}
	return 0, size, true
}

func odsClass(path string, r *storeref.Ref) (string, int64) {
	n, size, ok := probe(path, r.OdsImage(), r.HdrSize)
	return odsClassOf(n, size, ok, r), n
}

func q4Class(path string, r *storeref.Ref) (string, int64) {
	n, size, ok := probe(path, r.Q4Image(), 0)
	return q4ClassOf(n, size, ok, r), n
}

func statSize(p string) (int64, bool) {
	fi, err := os.Stat(p)
	if err != nil {
		return 0, false
	}
	return fi.Size(), true
}

func isDir(p string) bool {
	fi, err := os.Stat(p)
	return err == nil && fi.IsDir()
}

// abstract computes the model's disk variables from the real directory.
func (w *world) abstract(base string) diskAbs {
	d := diskAbs{Raw: map[string]int64{}}
	if isDir(blocksDir(base)) {
		d.Dirs = 1
		if isDir(heightsDir(base)) {
			d.Dirs = 2
		}
	}
	for _, f := range []int{0, 1} {
		r := w.refOfFile(f)
		oc, on := odsClass(odsPath(base, r), r)
		qc, qn := q4Class(q4Path(base, r), r)
		d.Files = append(d.Files, fileAbs{F: f, Ods: oc, Q4: qc})
		if oc != "absent" {
			d.Raw[fmt.Sprintf("ods%d", f)] = on
		}
		if qc != "absent" {
			d.Raw[fmt.Sprintf("q4%d", f)] = qn
		}
	}
	for _, h := range []int{hData, hEmpty} {
		la := linkAbs{H: h, Lnk: "absent", Via: "absent"}
		lp := linkPath(base, h)
		if li, err := os.Lstat(lp); err == nil {
			if li.Mode()&os.ModeSymlink != 0 {
				la.Lnk = "sym"
			} else {
				r := w.refOf(h)
				la.Lnk = "detached"
				if bi, err := os.Stat(odsPath(base, r)); err == nil && os.SameFile(li, bi) {
					la.Lnk = "same"
				}
				var vn int64
				if la.Lnk == "same" {
					for _, fa := range d.Files {
						if fa.F == 1 {
							la.Via, vn = fa.Ods, d.Raw["ods1"]
						}
					}
				} else {
					la.Via, vn = odsClass(lp, r)
				}
				d.Raw[fmt.Sprintf("lnk%d", h)] = vn
			}
		}
		d.Links = append(d.Links, la)
	}
	return d
}

func (d diskAbs) key() string {
	var b strings.Builder
	fmt.Fprintf(&b, "d%d", d.Dirs)
	for _, f := range d.Files {
		fmt.Fprintf(&b, "|f%d:%s,%s", f.F, f.Ods, f.Q4)
	}
	for _, l := range d.Links {
		fmt.Fprintf(&b, "|h%d:%s,%s", l.H, l.Lnk, l.Via)
	}
	return b.String()
}

// ---------------------------------------------------------------- events

// event is one marker call, with the abstract disk right after the effect it marks.
type event struct {
	Seq   int
	Ev    string // marker name
	Cls   string // "main" (goroutine of the operation, incl. the ODS writer), "q4" (Q4 writer), "rd" (reader side)
	Path  string
	PC    string // path class: "ods", "q4", "lnk", "dir1", "dir2", ""
	F     int    // file key for ods/q4 paths
	H     int    // height for lnk paths / store-level markers
	N     int
	Disk  diskAbs
	Round int // number of ods.create (main) / q4.create (q4) markers seen so far in this operation
	// for share/flushed events: did the size of the file being written change with this event, and
	// which size-changing intermediate flush (1..K) it is (0 = none / final)
	Size       int64
	SizeChange bool
	FlushNo    int
	Full       bool // the written file has reached its full size
	Buffered   bool // share marker without any file-system effect (Disk copied from the previous event)
	FirstFull  bool // ... with this very event
}

var writerEvs = map[string]bool{"create": true, "created": true, "create.err": true, "hdr": true, "share": true, "flushed": true, "closed": true}

func classOf(ev string) string {
	if strings.HasPrefix(ev, "ods.") && writerEvs[ev[4:]] {
		return "main"
	}
	if strings.HasPrefix(ev, "q4.") && writerEvs[ev[3:]] {
		return "q4"
	}
	if mainEvs[ev] {
		return "main"
	}
	// reader-side markers (ods.open, q4.open, get.*), lock markers (mlock.*) and any marker added
	// later for other properties: not part of the crash model
	return "rd"
}

// markers of the operation's goroutine that correspond to actions of Store.tla
var mainEvs = map[string]bool{
	"put.cached": true, "put.locked": true, "put.end": true,
	"removeodsq4.locked": true, "removeodsq4.end": true, "removeq4.locked": true, "removeq4.end": true,
	"cache.removed": true, "fs.mkdir": true, "fs.link": true, "fs.link.err": true, "fs.symlink": true,
	"fs.symlink.err": true, "fs.remove": true, "newstore.ready": true,
}

// target: hold a goroutine right after the marker that corresponds to the model action `Action` in
// Create* round `Round`.
type target struct {
	Action  string
	Round   int
	Kind    string // operation kind (disambiguates cache.removed)
	FlushNo int    // for *FlushPartial: which size-changing intermediate flush represents "partial"
}

type writerState struct {
	path     string
	ref      *storeref.Ref
	isQ4     bool
	lastSize int64
	flushes  int
	full     bool
	round    int
}

// recorder receives every marker. One operation at a time runs in this driver (plus the Q4 goroutine
// the operation itself starts), so a single mutex orders the events.
type recorder struct {
	mu   sync.Mutex
	w    *world
	base string
	evs  []event
	seq  int

	cacheRemoved int
	ws           map[string]*writerState // "main" / "q4"

	// gating
	targets map[string]*target // class -> target
	arrived chan string
	missed  chan string // a goroutine finished its writer round without passing its gate
	release chan struct{}
	hit     map[string]bool
	drift   []string
}

var rec = &recorder{}

func installHooks() {
	file.SetVerifHook(func(ev, path string, n int) { rec.on(ev, path, 0, n) })
	store.SetVerifHook(func(ev string, height uint64, path string) { rec.on(ev, path, int(height), 0) })
}

// begin resets the per-operation state. base is the store directory the operation works on.
func (r *recorder) begin(w *world, base string, targets map[string]*target) {
	r.mu.Lock()
	defer r.mu.Unlock()
	r.w, r.base = w, base
	r.evs = nil
	r.cacheRemoved = 0
	r.ws = map[string]*writerState{"main": {}, "q4": {isQ4: true}}
	r.targets = targets
	r.hit = map[string]bool{}
	r.arrived = make(chan string, 4)
	r.missed = make(chan string, 4)
	r.release = make(chan struct{})
}

func (r *recorder) end() []event {
	r.mu.Lock()
	defer r.mu.Unlock()
	out := r.evs
	r.evs = nil
	r.w = nil
	r.targets = nil
	return out
}

func (r *recorder) classifyPath(p string) (pc string, f, h int) {
	if p == "" || r.w == nil {
		return "", 0, 0
	}
	switch p {
	case blocksDir(r.base):
		return "dir1", 0, 0
	case heightsDir(r.base):
		return "dir2", 0, 0
	}
	for _, fk := range []int{0, 1} {
		ref := r.w.refOfFile(fk)
		if p == odsPath(r.base, ref) {
			return "ods", fk, 0
		}
		if p == q4Path(r.base, ref) {
			return "q4", fk, 0
		}
	}
	for _, hh := range []int{hData, hEmpty} {
		if p == linkPath(r.base, hh) {
			return "lnk", 0, hh
		}
	}
	return "other", 0, 0
}

func (r *recorder) on(ev, path string, height, n int) {
	r.mu.Lock()
	if r.w == nil { // nothing being recorded (e.g. a store used outside an operation bracket)
		r.mu.Unlock()
		return
	}
	cls := classOf(ev)
	if cls == "rd" {
		r.mu.Unlock()
		return
	}
	r.seq++
	e := event{Seq: r.seq, Ev: ev, Cls: cls, Path: path, H: height, N: n}
	e.PC, e.F, _ = r.classifyPath(path)
	if e.PC == "lnk" {
		_, _, e.H = r.classifyPath(path)
	}
	if ev == "cache.removed" {
		r.cacheRemoved++
		e.N = r.cacheRemoved
	}
	// writer bookkeeping
	dot := strings.IndexByte(ev, '.')
	if (strings.HasPrefix(ev, "ods.") || strings.HasPrefix(ev, "q4.")) && writerEvs[ev[dot+1:]] {
		ws := r.ws[cls]
		switch ev[dot+1:] {
		case "create":
			ws.round++
			ws.path = path
			_, fk, _ := r.classifyPath(path)
			ws.ref = r.w.refOfFile(fk)
			ws.lastSize, ws.flushes, ws.full = -1, 0, false
			e.F = fk
		default:
			if e.Path == "" {
				e.Path = ws.path
			}
			e.PC, e.F, _ = r.classifyPath(ws.path)
			if ev[dot+1:] != "create.err" {
				// progress of the writer = bytes of the complete file that are on the disk (not the file size)
				image := ws.ref.OdsImage()
				if ws.isQ4 {
					image = ws.ref.Q4Image()
				}
				from := ws.lastSize
				if from < 0 {
					from = 0
				}
				_ = from
				fullSize := int64(len(image))
				var sz int64
				if ws.isQ4 {
					sz, _, _ = probe(ws.path, image, 0)
				} else {
					sz, _, _ = probe(ws.path, image, ws.ref.HdrSize)
				}
				e.Size = sz
				if sz != ws.lastSize && ws.lastSize >= 0 {
					e.SizeChange = true
				}
				if ev[dot+1:] == "share" && e.SizeChange && sz < fullSize {
					ws.flushes++
					e.FlushNo = ws.flushes
				}
				if sz == fullSize {
					e.Full = true
					if !ws.full && (ev[dot+1:] == "share" || ev[dot+1:] == "flushed") {
						e.FirstFull = true
						ws.full = true
					}
				}
				ws.lastSize = sz
			}
		}
		e.Round = ws.round
	}
	if (ev == "ods.share" || ev == "q4.share") && !e.SizeChange && len(r.evs) > 0 {
		// the share went into the user-space buffer: no file-system effect of this goroutine
		e.Disk = r.evs[len(r.evs)-1].Disk
		e.Buffered = true
	} else {
		e.Disk = r.w.abstract(r.base)
	}
	r.evs = append(r.evs, e)
	// gate?
	var wait chan struct{}
	if t := r.targets[cls]; t != nil && !r.hit[cls] {
		if matches(t, &e) {
			r.hit[cls] = true
			wait = r.release
			r.arrived <- cls
		} else if passed(t, &e) {
			r.hit[cls] = true
			r.missed <- fmt.Sprintf("%s goroutine reached %s (round %d) without passing %s#%d", cls, e.Ev, e.Round, t.Action, t.Round)
		}
	}
	r.mu.Unlock()
	if wait != nil {
		<-wait
	}
}

// passed: the writer this gate is in has ended its round (closed the file, or found it existing)
// without the gate's marker having occurred: the gate can no longer be reached. Without this the
// other goroutine, already held at its gate, would keep the operation from ever finishing.
func passed(t *target, e *event) bool {
	if !odsActions[t.Action] && !strings.HasPrefix(t.Action, "Q4") {
		return false
	}
	if e.Round < t.Round {
		return false
	}
	return e.Ev == "ods.closed" || e.Ev == "ods.create.err" || e.Ev == "q4.closed" || e.Ev == "q4.create.err"
}

// matches: is e the marker of the model action t.Action (in round t.Round)?
func matches(t *target, e *event) bool {
	wr := func(name string) bool { return e.Ev == name && e.Round == t.Round }
	switch t.Action {
	case "PutCached":
		return e.Ev == "put.cached"
	case "PutLocked":
		return e.Ev == "put.locked"
	case "RmLocked":
		return e.Ev == "removeodsq4.locked" || e.Ev == "removeq4.locked"
	case "OdsEnter":
		return wr("ods.create")
	case "OdsCreate":
		return wr("ods.created") || wr("ods.create.err")
	case "OdsHdr":
		return wr("ods.hdr")
	case "OdsFlushPartial":
		return wr("ods.share") && e.FlushNo == t.FlushNo && t.FlushNo > 0
	case "OdsFlushFull":
		return (wr("ods.share") || wr("ods.flushed")) && e.FirstFull
	case "OdsClose":
		return wr("ods.closed")
	case "Q4Enter":
		return wr("q4.create")
	case "Q4Create":
		return wr("q4.created") || wr("q4.create.err")
	case "Q4FlushPartial":
		return wr("q4.share") && e.FlushNo == t.FlushNo && t.FlushNo > 0
	case "Q4FlushFull":
		return (wr("q4.share") || wr("q4.flushed")) && e.FirstFull
	case "Q4Close":
		return wr("q4.closed")
	case "RmCache1":
		return e.Ev == "cache.removed" && e.N == 1
	case "RmCache2":
		if t.Kind == "RemoveQ4" {
			return e.Ev == "cache.removed" && e.N == 1
		}
		return e.Ev == "cache.removed" && e.N == 2
	case "RmLink":
		return e.Ev == "fs.remove" && e.PC == "lnk"
	case "RmOds":
		return e.Ev == "fs.remove" && e.PC == "ods" && e.F != 0
	case "RmQ4":
		return e.Ev == "fs.remove" && e.PC == "q4" && e.F != 0
	case "NsRmOds":
		return e.Ev == "fs.remove" && e.PC == "ods" && e.F == 0
	case "NsRmQ4":
		return e.Ev == "fs.remove" && e.PC == "q4" && e.F == 0
	case "Link":
		return strings.HasPrefix(e.Ev, "fs.link") || strings.HasPrefix(e.Ev, "fs.symlink")
	case "OpEnd":
		return strings.HasSuffix(e.Ev, ".end")
	case "NsMkdir1":
		return e.Ev == "fs.mkdir" && e.PC == "dir1"
	case "NsMkdir2":
		return e.Ev == "fs.mkdir" && e.PC == "dir2"
	case "NsReady":
		return e.Ev == "newstore.ready"
	}
	return false
}

// ---------------------------------------------------------------- copying a store directory (the dead process's disk)

// copyTree copies a store directory preserving hard links and symlinks.
func copyTree(src, dst string) error {
	inodes := map[uint64]string{}
	return filepath.Walk(src, func(p string, fi os.FileInfo, err error) error {
		if err != nil {
			return err
		}
		rel, _ := filepath.Rel(src, p)
		to := filepath.Join(dst, rel)
		switch {
		case fi.IsDir():
			return os.MkdirAll(to, 0o755)
		case fi.Mode()&os.ModeSymlink != 0:
			tgt, err := os.Readlink(p)
			if err != nil {
				return err
			}
			return os.Symlink(tgt, to)
		default:
			st := fi.Sys().(*syscall.Stat_t)
			if st.Nlink > 1 {
				if first, ok := inodes[st.Ino]; ok {
					return os.Link(first, to)
				}
				inodes[st.Ino] = to
			}
			b, err := os.ReadFile(p)
			if err != nil {
				return err
			}
			return os.WriteFile(to, b, 0o600)
		}
	})
}

const watchdog = 60 * time.Second
