package storecrash

import (
	"context"
	"crypto/sha1"
	"encoding/hex"
	"encoding/json"
	"errors"
	"fmt"
	"math/rand"
	"os"
	"path/filepath"
	"sort"
	"strings"
	"testing"
	"time"

	"github.com/celestiaorg/celestia-node/share"
	"github.com/celestiaorg/celestia-node/store"

	"verifharness/storeref"
	"verifharness/vh"
)

// ---------------------------------------------------------------- cases printed by TLC (Store.tla CaseOut)

type histEntry struct {
	T    string `json:"t"` // "op" | "crash"
	Kind string `json:"kind"`
	H    int    `json:"h"`
	M    string `json:"m"`
	O    string `json:"o"`
	Q    string `json:"q"`
	R    int    `json:"r"`
	LM   string `json:"lm"`
	LQ   string `json:"lq"`
}

type modelLink struct {
	H      int    `json:"h"`
	Lnk    string `json:"lnk"`
	Via    string `json:"via"`
	Lookup string `json:"lookup"`
	Empty  bool   `json:"empty"`
}

type modelDisk struct {
	Dirs  int         `json:"dirs"`
	Files []fileAbs   `json:"files"`
	Links []modelLink `json:"links"`
}

type tlcCase struct {
	Hist []histEntry `json:"hist"`
	Cp   histEntry   `json:"cp"`
	Disk modelDisk   `json:"disk"`
}

func (d modelDisk) key() string {
	var b strings.Builder
	fmt.Fprintf(&b, "d%d", d.Dirs)
	fs := append([]fileAbs(nil), d.Files...)
	sort.Slice(fs, func(i, j int) bool { return fs[i].F < fs[j].F })
	for _, f := range fs {
		fmt.Fprintf(&b, "|f%d:%s,%s", f.F, f.Ods, f.Q4)
	}
	ls := append([]modelLink(nil), d.Links...)
	sort.Slice(ls, func(i, j int) bool { return ls[i].H < ls[j].H })
	for _, l := range ls {
		fmt.Fprintf(&b, "|h%d:%s,%s", l.H, l.Lnk, l.Via)
	}
	return b.String()
}

// ---------------------------------------------------------------- the driver

type driver struct {
	t       *testing.T
	rep     *vh.Report
	w       *world
	root    string // scratch root
	n       int
	ctx     context.Context
	rnd     *rand.Rand
	variant string // which intermediate flush stands for "partial": first | mid | last
	sqName  string

	trace     *os.File
	traceSeen map[string]bool
	scriptMem map[string]bool // recovery script already run for this abstract disk
	big       bool
}

var tmpCounter int

// tmp returns a fresh path under the scratch root (unique over all runs of this process).
func (d *driver) tmp(tag string) string {
	d.n++
	tmpCounter++
	p := filepath.Join(d.root, fmt.Sprintf("%s%06d", tag, tmpCounter))
	return p
}

func (d *driver) params(cache int) *store.Parameters {
	return &store.Parameters{RecentBlocksCacheSize: cache}
}

// flushCount: number of size-changing intermediate flushes of a writer of this block
func flushCount(total, hdr int64) int {
	body := total - hdr
	if body <= 0 {
		return 0
	}
	k := int((body + 65535) / 65536)
	return k - 1
}

func (d *driver) flushNo(isQ4 bool, f int) int {
	ref := d.w.refOfFile(f)
	k := flushCount(int64(len(ref.OdsImage())), ref.HdrSize)
	if isQ4 {
		k = flushCount(int64(len(ref.Q4Image())), 0)
	}
	if k == 0 {
		return 0
	}
	switch d.variant {
	case "first":
		return 1
	case "last":
		return k
	}
	return (k + 1) / 2
}

// runOp executes one store operation with the recorder bracketed around it, optionally gated.
// It returns the recorded events and the operation's error. snap (if non-empty) is the directory
// the store directory is copied to while every targeted goroutine is held at its marker.
type opResult struct {
	evs     []event
	err     error
	st      *store.Store // for NewStore
	snapped bool
	drift   string
}

func (d *driver) runOp(base string, st *store.Store, kind string, h int, targets map[string]*target, snap string) opResult {
	res := opResult{}
	pre := d.w.abstract(base)
	rec.begin(d.w, base, targets)
	done := make(chan struct{})
	go func() {
		defer close(done)
		panicked, val := vh.Recover(func() {
			switch kind {
			case "NewStore":
				res.st, res.err = store.NewStore(d.params(0), base)
			case "PutODSQ4":
				ref := d.w.refOf(h)
				res.err = st.PutODSQ4(d.ctx, ref.Roots, uint64(h), ref.EDS)
			case "PutODS":
				ref := d.w.refOf(h)
				res.err = st.PutODS(d.ctx, ref.Roots, uint64(h), ref.EDS)
			case "RemoveODSQ4":
				res.err = st.RemoveODSQ4(d.ctx, uint64(h), d.w.refOf(h).Hash)
			case "RemoveQ4":
				res.err = st.RemoveQ4(d.ctx, uint64(h), d.w.refOf(h).Hash)
			default:
				res.err = fmt.Errorf("unknown op %s", kind)
			}
		})
		if panicked {
			res.err = fmt.Errorf("PANIC: %s", val)
		}
	}()
	if len(targets) > 0 {
		need := len(targets)
		timeout := time.After(watchdog)
	wait:
		for need > 0 {
			select {
			case <-rec.arrived:
				need--
			case why := <-rec.missed:
				res.drift = fmt.Sprintf("gate(s) %s of %s(%d) cannot be reached: %s", fmtTargets(targets), kind, h, why)
				break wait
			case <-done:
				res.drift = fmt.Sprintf("operation %s(%d) finished without reaching the gate(s) %s", kind, h, fmtTargets(targets))
				break wait
			case <-timeout:
				res.drift = fmt.Sprintf("gate(s) %s of %s(%d) not reached within %s", fmtTargets(targets), kind, h, watchdog)
				break wait
			}
		}
		if need == 0 && snap != "" {
			if err := copyTree(base, snap); err != nil {
				res.drift = "snapshot failed: " + err.Error()
			} else {
				res.snapped = true
			}
		}
		close(rec.release)
	}
	select {
	case <-done:
	case <-time.After(watchdog):
		res.drift = fmt.Sprintf("operation %s(%d) did not return within %s after the gates were released", kind, h, watchdog)
		d.rep.Inconclusivef("%s", res.drift)
		// cannot continue safely with the global recorder
		d.t.Fatalf("%s", res.drift)
	}
	res.evs = rec.end()
	d.emitTrace(pre, kind, h, res)
	d.monitorEvents(kind, h, res.evs)
	return res
}

func fmtTargets(ts map[string]*target) string {
	var s []string
	for c, t := range ts {
		s = append(s, fmt.Sprintf("%s@%s#%d", c, t.Action, t.Round))
	}
	sort.Strings(s)
	return strings.Join(s, ",")
}

// monitorEvents: property monitors on the OBSERVED disk states at every marker of a real operation,
// independent of whether the marker order still matches the model (soundness rule 2).
//
//	LinkedIsComplete: whenever the height link exists, the ODS it leads to is complete (a crash right
//	there would leave a partial file behind a height link).
func (d *driver) monitorEvents(kind string, h int, evs []event) {
	for _, e := range evs {
		if e.Buffered {
			continue
		}
		for _, l := range e.Disk.Links {
			if l.Lnk == "same" || l.Lnk == "detached" {
				if l.Via != "full" {
					d.rep.Violate("C07/linked-partial-ods/"+kind,
						fmt.Sprintf("square %s: during %s(%d), right after marker %s, height link %d exists while the ODS file behind it is %q: a crash here leaves a partial file linked to a height",
							d.sqName, kind, h, e.Ev, l.H, l.Via),
						map[string]any{"op": kind, "h": h, "marker": e.Ev, "disk": e.Disk})
				}
			}
		}
		d.rep.Count("marker_states_monitored", 1)
	}
}

// ---------------------------------------------------------------- crash-point -> gates

var odsActions = map[string]bool{"OdsEnter": true, "OdsCreate": true, "OdsHdr": true, "OdsFlushPartial": true, "OdsFlushFull": true, "OdsClose": true}

// gatesFor translates the model's crash point into marker gates. ok=false: the crash point does not
// exist for this square (no intermediate flush). none=true: the crash is before the operation's
// first marker (snapshot without running the operation).
func (d *driver) gatesFor(cp histEntry) (targets map[string]*target, none, ok bool) {
	if cp.Kind == "none" || cp.M == "start" || cp.M == "idle" || (cp.Kind == "NewStore" && cp.LM == "none") {
		return nil, true, true
	}
	f := 1
	if cp.Kind == "NewStore" || cp.H == hEmpty {
		f = 0
	}
	targets = map[string]*target{}
	mainAct := cp.LM
	if cp.M == "create" && cp.O == "spawned" {
		mainAct = "OdsEnter" // the Q4 goroutine exists only once CreateODSQ4 was entered: same disk state
	}
	mt := &target{Action: mainAct, Round: cp.R, Kind: cp.Kind}
	if mainAct == "OdsFlushPartial" {
		mt.FlushNo = d.flushNo(false, f)
		if mt.FlushNo == 0 {
			return nil, false, false
		}
	}
	targets["main"] = mt
	if odsActions[mainAct] && (cp.Kind == "PutODSQ4" || cp.Kind == "NewStore") {
		qa := cp.LQ
		if qa == "none" {
			qa = "Q4Enter"
		}
		qt := &target{Action: qa, Round: cp.R, Kind: cp.Kind}
		if qa == "Q4FlushPartial" {
			qt.FlushNo = d.flushNo(true, f)
			if qt.FlushNo == 0 {
				return nil, false, false
			}
		}
		targets["q4"] = qt
	}
	// a model path through "partial" that is already past it needs the intermediate flush to exist too;
	// nothing to check: past the flush the disk state no longer depends on it.
	return targets, false, true
}

// ---------------------------------------------------------------- replay of one case

type replayOut struct {
	dir   string // directory holding the crash state
	na    bool
	drift string
}

// replay drives the real store through the case's history and returns the crash copy.
func (d *driver) replay(c tlcCase) replayOut {
	dir := d.tmp("s")
	if err := os.MkdirAll(dir, 0o755); err != nil {
		d.t.Fatal(err)
	}
	var st *store.Store
	up := func() string {
		if st != nil {
			return ""
		}
		r := d.runOp(dir, nil, "NewStore", 0, nil, "")
		if r.err != nil {
			return "NewStore failed during replay: " + r.err.Error()
		}
		st = r.st
		return ""
	}
	for i, he := range c.Hist {
		switch he.T {
		case "op":
			if s := up(); s != "" {
				return replayOut{drift: s}
			}
			r := d.runOp(dir, st, he.Kind, he.H, nil, "")
			if r.err != nil {
				// the model says puts/removes never fail; an error on the way is a finding of its own
				d.rep.Violate("C07/op-failed/"+he.Kind,
					fmt.Sprintf("square %s: %s(%d) returned an error in history step %d: %v", d.sqName, he.Kind, he.H, i, r.err),
					map[string]any{"case": c, "step": i, "error": r.err.Error()})
				return replayOut{drift: "operation failed"}
			}
		case "crash":
			targets, none, ok := d.gatesFor(he)
			if !ok {
				os.RemoveAll(dir)
				return replayOut{na: true}
			}
			snap := d.tmp("c")
			if he.Kind != "NewStore" {
				if s := up(); s != "" {
					return replayOut{drift: s}
				}
			}
			if none {
				if err := copyTree(dir, snap); err != nil {
					d.t.Fatal(err)
				}
			} else {
				r := d.runOp(dir, st, he.Kind, he.H, targets, snap)
				if r.drift != "" {
					return replayOut{drift: r.drift}
				}
				if !r.snapped {
					return replayOut{drift: "no snapshot taken"}
				}
				if r.err != nil {
					d.rep.Violate("C07/op-failed/"+he.Kind,
						fmt.Sprintf("square %s: %s(%d) (held at a crash point and released) returned an error: %v", d.sqName, he.Kind, he.H, r.err),
						map[string]any{"case": c, "step": i, "error": r.err.Error()})
				}
			}
			// the process is dead: continue on the copy with a fresh instance
			os.RemoveAll(dir)
			dir = snap
			st = nil
		}
	}
	return replayOut{dir: dir}
}

// ---------------------------------------------------------------- recovery script (the property's observations)

type lookupOut struct {
	Has     bool
	HasErr  string
	Outcome string // notfound | error | right | wrong
	Detail  []storeref.Mismatch
	Err     string
	Reads   int
}

func (d *driver) lookup(st *store.Store, h int, lowerFirst bool) lookupOut {
	out := lookupOut{}
	ref := d.w.refOf(h)
	has, err := st.HasByHeight(d.ctx, uint64(h))
	out.Has = has
	if err != nil {
		out.HasErr = err.Error()
	}
	acc, err := st.GetByHeight(d.ctx, uint64(h))
	switch {
	case errors.Is(err, store.ErrNotFound):
		out.Outcome = "notfound"
		return out
	case err != nil:
		out.Outcome = "error"
		out.Err = err.Error()
		return out
	}
	defer acc.Close()
	max := 0
	if d.big {
		max = 96
	}
	panicked, val := vh.Recover(func() {
		out.Detail, out.Reads = storeref.ReadBack(d.ctx, acc, ref, storeref.Opts{Rnd: d.rnd, MaxSamples: max, LowerFirst: lowerFirst})
	})
	if panicked {
		out.Detail = append(out.Detail, storeref.Mismatch{Path: "panic", Detail: val})
	}
	d.rep.Count("reads_compared", int64(out.Reads))
	if len(out.Detail) > 0 {
		out.Outcome = "wrong"
	} else {
		out.Outcome = "right"
	}
	return out
}

func sigDisk(a diskAbs, h int) string {
	f := 1
	if h == hEmpty {
		f = 0
	}
	var fa fileAbs
	for _, x := range a.Files {
		if x.F == f {
			fa = x
		}
	}
	var la linkAbs
	for _, x := range a.Links {
		if x.H == h {
			la = x
		}
	}
	return fmt.Sprintf("lnk=%s,ods=%s,q4=%s", la.Lnk, map[bool]string{true: fa.Ods, false: la.Via}[la.Lnk == "sym"], fa.Q4)
}

// checkCrashState runs the observations of C07 on a crash copy. model may be nil (no prediction).
func (d *driver) checkCrashState(dir string, c *tlcCase, label string) {
	exactContent = true // the crash copy is compared byte by byte with the images of the complete files
	abs := d.w.abstract(dir)
	exactContent = false
	d.rep.Count("crash_states_checked", 1)
	replayObj := func(extra map[string]any) map[string]any {
		m := map[string]any{"square": d.sqName, "variant": d.variant, "label": label, "disk_at_crash": abs}
		if c != nil {
			m["case"] = c
		}
		for k, v := range extra {
			m[k] = v
		}
		return m
	}
	// conformance: the real directory must be the model's disk state
	if c != nil && abs.key() != c.Disk.key() {
		d.rep.Inconclusivef("conformance drift (%s, square %s): crash point %+v: real directory %s, model %s",
			label, d.sqName, c.Cp, abs.key(), c.Disk.key())
		d.rep.Count("conformance_mismatch", 1)
	} else if c != nil {
		d.rep.Count("crash_states_conform", 1)
	}

	first := !d.scriptMem[abs.key()+fmt.Sprint(abs.Raw)]
	d.scriptMem[abs.key()+fmt.Sprint(abs.Raw)] = true

	// raw copies for the re-put / re-remove scripts, taken before NewStore touches anything
	var cpA, cpB, cpC string
	if first {
		cpA, cpB, cpC = d.tmp("ra"), d.tmp("rb"), d.tmp("rc")
		for _, p := range []string{cpA, cpB, cpC} {
			if err := copyTree(dir, p); err != nil {
				d.t.Fatal(err)
			}
		}
	}

	// 1. restart + lookup of every height
	r := d.runOp(dir, nil, "NewStore", 0, nil, "")
	if r.err != nil {
		d.rep.Violate("C07/restart-failed/"+abs.key(),
			fmt.Sprintf("square %s: NewStore over the crash state %s failed: %v", d.sqName, abs.key(), r.err), replayObj(nil))
		return
	}
	st := r.st
	for _, h := range []int{hData, hEmpty} {
		lo := d.lookup(st, h, d.n%2 == 0)
		d.rep.Count("lookups_after_crash", 1)
		d.rep.Count("lookup_"+lo.Outcome, 1)
		switch lo.Outcome {
		case "wrong":
			d.rep.Violate("C07/crash/served-wrong/"+sigDisk(abs, h),
				fmt.Sprintf("square %s: after a crash at %s the store was reopened and GetByHeight(%d) returned an accessor whose data differs from the block: %v (disk at crash: %s)",
					d.sqName, cpString(c), h, lo.Detail, abs.key()),
				replayObj(map[string]any{"height": h, "mismatches": lo.Detail}))
		case "error":
			// neither absent nor the block: not served, so not a violation of C07's letter; the model
			// predicts it never happens -> drift
			d.rep.Inconclusivef("square %s: GetByHeight(%d) after crash at %s returned an unexpected error: %s (disk %s)",
				d.sqName, h, cpString(c), lo.Err, abs.key())
		}
		found := lo.Outcome == "right" || lo.Outcome == "wrong"
		if lo.HasErr == "" && lo.Outcome != "error" && lo.Has != found {
			d.rep.Violate("C07/has-get-disagree/"+sigDisk(abs, h),
				fmt.Sprintf("square %s: after crash at %s HasByHeight(%d)=%v but GetByHeight found=%v", d.sqName, cpString(c), h, lo.Has, found),
				replayObj(map[string]any{"height": h}))
		}
		if c != nil {
			for _, ml := range c.Disk.Links {
				if ml.H == h && lo.Outcome != "wrong" && lo.Outcome != "error" && ml.Lookup != lo.Outcome {
					d.rep.Inconclusivef("conformance drift: lookup of height %d after crash %s: real %s, model %s", h, cpString(c), lo.Outcome, ml.Lookup)
				}
			}
		}
	}
	if !first {
		return
	}
	d.rep.Count("recovery_scripts", 1)

	// 2. re-put (ODS+Q4 on copy A, ODS only on copy B) must succeed and leave the block fully readable,
	//    through the same instance and after another restart
	for _, v := range []struct {
		dir  string
		kind string
	}{{cpA, "PutODSQ4"}, {cpB, "PutODS"}} {
		r := d.runOp(v.dir, nil, "NewStore", 0, nil, "")
		if r.err != nil {
			d.rep.Violate("C07/restart-failed/"+abs.key(), fmt.Sprintf("NewStore failed: %v", r.err), replayObj(nil))
			continue
		}
		st := r.st
		for _, h := range []int{hData, hEmpty} {
			pr := d.runOp(v.dir, st, v.kind, h, nil, "")
			d.rep.Count("reputs", 1)
			if pr.err != nil {
				d.rep.Violate("C07/reput-failed/"+v.kind+"/"+sigDisk(abs, h),
					fmt.Sprintf("square %s: %s(%d) over the crash state %s (crash at %s) failed: %v", d.sqName, v.kind, h, abs.key(), cpString(c), pr.err),
					replayObj(map[string]any{"height": h, "reput": v.kind}))
				continue
			}
			after := d.w.abstract(v.dir)
			lo := d.lookup(st, h, true)
			if lo.Outcome != "right" {
				d.rep.Violate("C07/reput-not-readable/"+v.kind+"/"+sigDisk(abs, h),
					fmt.Sprintf("square %s: after %s(%d) over the crash state %s (crash at %s) the block is %s: %v %s (disk now %s)",
						d.sqName, v.kind, h, abs.key(), cpString(c), lo.Outcome, lo.Detail, lo.Err, after.key()),
					replayObj(map[string]any{"height": h, "reput": v.kind, "mismatches": lo.Detail, "disk_after": after}))
			}
			// the files behind the link are complete
			for _, l := range after.Links {
				if l.H == h && h == hData && (l.Lnk != "same" || l.Via != "full") {
					d.rep.Violate("C07/reput-link-incomplete/"+v.kind+"/"+sigDisk(abs, h),
						fmt.Sprintf("square %s: after %s(%d) over %s the height link is %s/%s", d.sqName, v.kind, h, abs.key(), l.Lnk, l.Via),
						replayObj(map[string]any{"height": h, "reput": v.kind, "disk_after": after}))
				}
			}
			if v.kind == "PutODSQ4" && h == hData {
				for _, f := range after.Files {
					if f.F == 1 && f.Q4 != "full" {
						d.rep.Violate("C07/reput-q4-incomplete/"+sigDisk(abs, h),
							fmt.Sprintf("square %s: PutODSQ4(%d) over %s returned success but the Q4 file is %s", d.sqName, h, abs.key(), f.Q4),
							replayObj(map[string]any{"height": h, "disk_after": after}))
					}
				}
			}
		}
		// restart once more and read from the disk again
		r2 := d.runOp(v.dir, nil, "NewStore", 0, nil, "")
		if r2.err != nil {
			d.rep.Violate("C07/restart-failed/after-reput", fmt.Sprintf("NewStore failed: %v", r2.err), replayObj(nil))
			continue
		}
		for _, h := range []int{hData, hEmpty} {
			lo := d.lookup(r2.st, h, false)
			if lo.Outcome != "right" {
				d.rep.Violate("C07/reput-not-readable-after-restart/"+v.kind+"/"+sigDisk(abs, h),
					fmt.Sprintf("square %s: %s(%d) over the crash state %s succeeded, but after a restart the block is %s: %v %s",
						d.sqName, v.kind, h, abs.key(), lo.Outcome, lo.Detail, lo.Err),
					replayObj(map[string]any{"height": h, "reput": v.kind, "mismatches": lo.Detail}))
			}
		}
	}

	// 3. re-remove, twice: both succeed, nothing is left, the block is absent; then a put works again
	r = d.runOp(cpC, nil, "NewStore", 0, nil, "")
	if r.err != nil {
		d.rep.Violate("C07/restart-failed/"+abs.key(), fmt.Sprintf("NewStore failed: %v", r.err), replayObj(nil))
		return
	}
	st = r.st
	for _, h := range []int{hData, hEmpty} {
		for round := 1; round <= 2; round++ {
			before := d.w.abstract(cpC)
			rr := d.runOp(cpC, st, "RemoveODSQ4", h, nil, "")
			d.rep.Count("reremoves", 1)
			if rr.err != nil {
				d.rep.Violate("C07/reremove-failed/"+sigDisk(abs, h),
					fmt.Sprintf("square %s: RemoveODSQ4(%d) #%d over the crash state %s failed: %v", d.sqName, h, round, abs.key(), rr.err),
					replayObj(map[string]any{"height": h, "round": round}))
				continue
			}
			after := d.w.abstract(cpC)
			if round == 2 && after.key() != before.key() {
				d.rep.Violate("C07/reremove-not-idempotent/"+sigDisk(abs, h),
					fmt.Sprintf("square %s: the second RemoveODSQ4(%d) changed the directory: %s -> %s", d.sqName, h, before.key(), after.key()),
					replayObj(map[string]any{"height": h}))
			}
			for _, l := range after.Links {
				if l.H == h && l.Lnk != "absent" {
					d.rep.Violate("C07/remove-left-link/"+sigDisk(abs, h),
						fmt.Sprintf("square %s: RemoveODSQ4(%d) succeeded but the height link is still there (%s)", d.sqName, h, after.key()),
						replayObj(map[string]any{"height": h}))
				}
			}
			if h == hData {
				for _, f := range after.Files {
					if f.F == 1 && (f.Ods != "absent" || f.Q4 != "absent") {
						d.rep.Violate("C07/remove-left-files/"+sigDisk(abs, h),
							fmt.Sprintf("square %s: RemoveODSQ4(%d) succeeded but files remain (%s)", d.sqName, h, after.key()),
							replayObj(map[string]any{"height": h}))
					}
				}
			}
			lo := d.lookup(st, h, false)
			if lo.Outcome != "notfound" || lo.Has {
				d.rep.Violate("C07/removed-but-found/"+sigDisk(abs, h),
					fmt.Sprintf("square %s: after RemoveODSQ4(%d) the lookup says %s / has=%v", d.sqName, h, lo.Outcome, lo.Has),
					replayObj(map[string]any{"height": h}))
			}
		}
		pr := d.runOp(cpC, st, "PutODSQ4", h, nil, "")
		if pr.err != nil {
			d.rep.Violate("C07/put-after-remove-failed/"+sigDisk(abs, h), fmt.Sprintf("PutODSQ4(%d) after removal failed: %v", h, pr.err), replayObj(nil))
		} else if lo := d.lookup(st, h, true); lo.Outcome != "right" {
			d.rep.Violate("C07/put-after-remove-not-readable/"+sigDisk(abs, h),
				fmt.Sprintf("after remove + PutODSQ4(%d): %s %v", h, lo.Outcome, lo.Detail), replayObj(nil))
		}
	}
	for _, p := range []string{cpA, cpB, cpC} {
		os.RemoveAll(p)
	}
}

func cpString(c *tlcCase) string {
	if c == nil {
		return "?"
	}
	cp := c.Cp
	return fmt.Sprintf("%s(%d)[m=%s,o=%s,q=%s,round=%d] after %d earlier steps", cp.Kind, cp.H, cp.M, cp.O, cp.Q, cp.R, len(c.Hist)-1)
}

// ---------------------------------------------------------------- B1: NDJSON traces for StoreTrace.tla

type traceLine map[string]any

func diskFields(a diskAbs) (ods, q4, lnk, dsz []string) {
	ods, q4 = make([]string, 2), make([]string, 2)
	for _, f := range a.Files {
		ods[f.F], q4[f.F] = f.Ods, f.Q4
	}
	lnk, dsz = make([]string, 2), make([]string, 2)
	for _, l := range a.Links {
		lnk[l.H-1] = l.Lnk
		dsz[l.H-1] = "absent"
		if l.Lnk == "detached" {
			dsz[l.H-1] = l.Via
		}
	}
	return
}

// emitTrace writes one operation as a trace segment: reset(disk before) start events... end.
// Identical segments are written once.
func (d *driver) emitTrace(pre diskAbs, kind string, h int, res opResult) {
	if d.trace == nil || len(res.evs) == 0 {
		return
	}
	var lines []traceLine
	po, pq, pl, pz := diskFields(pre)
	preLine := traceLine{"ev": "reset", "up": kind != "NewStore", "dirs": pre.Dirs, "ods": po, "q4": pq, "lnk": pl, "dsz": pz}
	preKey := pre.key()
	for _, e := range res.evs {
		if (e.Ev == "ods.share" || e.Ev == "q4.share") && !e.SizeChange {
			continue // buffered only: no file-system effect
		}
		o, q, l, z := diskFields(e.Disk)
		lines = append(lines, traceLine{"ev": e.Ev, "pc": e.PC, "f": e.F, "h": e.H, "n": e.N, "round": e.Round,
			"dirs": e.Disk.Dirs, "ods": o, "q4": q, "lnk": l, "dsz": z, "full": e.Full})
	}
	ok := res.err == nil
	body, _ := json.Marshal(lines)
	sum := sha1.Sum(append([]byte(fmt.Sprintf("%s|%d|%v|%s|", kind, h, ok, preKey)), body...))
	k := hex.EncodeToString(sum[:])
	d.rep.Count("ops_recorded", 1)
	if d.traceSeen[k] {
		return
	}
	d.traceSeen[k] = true
	d.rep.Count("trace_segments", 1)
	enc := json.NewEncoder(d.trace)
	enc.Encode(preLine)
	enc.Encode(traceLine{"ev": "start", "kind": kind, "h": h})
	for _, l := range lines {
		enc.Encode(l)
	}
	enc.Encode(traceLine{"ev": "end", "ok": ok, "kind": kind})
}

// ---------------------------------------------------------------- entry

func TestDriver(t *testing.T) {
	rep := vh.NewReport()
	defer func() {
		if err := rep.Write(); err != nil {
			t.Fatal(err)
		}
	}()
	installHooks()
	seed := vh.Seed()
	root, err := os.MkdirTemp(vh.WorkDir(), "storecrash")
	if err != nil {
		t.Fatal(err)
	}
	defer os.RemoveAll(root)

	var cases []tlcCase
	if p := os.Getenv("VERIF_CASES"); p != "" {
		if err := vh.ReadJSON(p, &cases); err != nil {
			t.Fatalf("reading cases: %v", err)
		}
	}
	if len(cases) == 0 {
		t.Fatalf("no cases (VERIF_CASES)")
	}
	var tr *os.File
	if p := os.Getenv("VERIF_TRACE_OUT"); p != "" {
		tr, err = os.Create(p)
		if err != nil {
			t.Fatal(err)
		}
		defer tr.Close()
	}
	ctx, cancel := context.WithCancel(context.Background())
	defer cancel()

	smallMax := vh.EnvInt("VERIF_SMALL_CASES", 0) // 0 = all
	bigN := vh.EnvInt("VERIF_BIG_CASES", 150)
	bigW := vh.EnvInt("VERIF_BIG_W", 16)

	rnd := rand.New(rand.NewSource(seed))
	empty := storeref.EmptyRef()
	seen := map[string]bool{}
	scriptMem := map[string]bool{}

	run := func(sqName string, ref *storeref.Ref, variant string, sel []tlcCase, big bool) {
		d := &driver{t: t, rep: rep, w: &world{data: ref, empty: empty}, root: root, ctx: ctx, rnd: rnd,
			variant: variant, sqName: sqName, trace: tr, traceSeen: seen, scriptMem: scriptMem, big: big}
		if big {
			d.scriptMem = map[string]bool{}
		}
		if len(rep.Violations) >= 36 {
			return
		}
		t0 := time.Now()
		defer func() { rep.Set("seconds/"+sqName, int(time.Since(t0).Seconds())) }()
		for i := range sel {
			c := sel[i]
			out := d.replay(c)
			rep.Count("cases_total", 1)
			switch {
			case out.na:
				rep.Count("cases_na_for_square", 1)
				continue
			case out.drift != "":
				rep.Inconclusivef("replay of case failed (%s, %s): %s", sqName, cpString(&c), out.drift)
				rep.Count("cases_drift", 1)
				continue
			}
			rep.Count("cases_replayed", 1)
			rep.Count("cp_"+c.Cp.Kind, 1)
			d.checkCrashState(out.dir, &c, "case")
			os.RemoveAll(out.dir)
			if i%97 == 0 {
				rep.Sample(map[string]any{"square": sqName, "case": c})
			}
			if len(rep.Violations) >= 36 {
				rep.Set("stopped_early", "36 violations recorded")
				break
			}
		}
	}

	// the independent file images must be what a complete put writes (else the content-based
	// abstraction below means nothing: conformance drift of the file format)
	checkImages := func(ref *storeref.Ref) {
		dir, _ := os.MkdirTemp(root, "img")
		defer os.RemoveAll(dir)
		st, err := store.NewStore(&store.Parameters{}, dir)
		if err != nil {
			t.Fatal(err)
		}
		if err := st.PutODSQ4(ctx, ref.Roots, 1, ref.EDS); err != nil {
			rep.Inconclusivef("reference put of square %s failed: %v", ref.Name, err)
			return
		}
		w := &world{data: ref, empty: empty}
		ob, _ := os.ReadFile(odsPath(dir, ref))
		qb, _ := os.ReadFile(q4Path(dir, ref))
		if string(ob) != string(ref.OdsImage()) || string(qb) != string(ref.Q4Image()) {
			rep.Inconclusivef("conformance drift: the files written by a complete put of square %s (%d / %d bytes) differ from the format images (%d / %d bytes)",
				ref.Name, len(ob), len(qb), len(ref.OdsImage()), len(ref.Q4Image()))
		}
		_ = w
	}

	// small squares (ODS width 2, one buffered write): WITHOUT tail padding for every case (every share
	// is stored: a reserved-but-unwritten tail cannot hide behind the padding rule), and with one
	// padding share for a third of them
	small, err := storeref.Build("w2", seed, 2, 0)
	if err != nil {
		t.Fatal(err)
	}
	smallPad, err := storeref.Build("w2pad", seed, 2, 1)
	if err != nil {
		t.Fatal(err)
	}
	checkImages(small)
	checkImages(smallPad)
	sel := cases
	if smallMax > 0 && len(sel) > smallMax {
		sel = pick(rnd, cases, smallMax)
	}
	run("w2", small, "mid", sel, false)
	run("w2pad", smallPad, "mid", pick(rnd, sel, len(sel)/5), false)

	// large square: several buffered writes; cases whose crash point lies in an operation on the data
	// block (or a restart after one), with the three instantiations of "partial"
	if bigN > 0 {
		// several buffered writes; no tail padding (see above), and a padded one for the "mid" variant
		big, err := storeref.Build(fmt.Sprintf("w%d", bigW), seed, bigW, 0)
		if err != nil {
			t.Fatal(err)
		}
		bigPad, err := storeref.Build(fmt.Sprintf("w%dpad", bigW), seed, bigW, 1+int(seed%7))
		if err != nil {
			t.Fatal(err)
		}
		checkImages(big)
		var rel []tlcCase
		if p := os.Getenv("VERIF_CASES_BIG"); p != "" {
			if err := vh.ReadJSON(p, &rel); err != nil {
				t.Fatalf("reading big cases: %v", err)
			}
		} else {
			for _, c := range cases {
				if touchesPartial(c) {
					rel = append(rel, c)
				}
			}
		}
		rep.Set("big_relevant_cases", len(rel))
		for _, v := range []string{"first", "mid", "last"} {
			run(fmt.Sprintf("w%d/%s", bigW, v), big, v, pick(rnd, rel, bigN/4), true)
		}
		run(fmt.Sprintf("w%dpad/mid", bigW), bigPad, "mid", pick(rnd, rel, bigN/4), true)
	}
	rep.Set("seed", seed)
	rep.Set("cases_in", len(cases))
}

// touchesPartial: the case's disk state or crash point involves a partially written data file.
func touchesPartial(c tlcCase) bool {
	for _, f := range c.Disk.Files {
		if f.F == 1 && (f.Ods == "partial" || f.Q4 == "partial" || f.Ods == "hdr") {
			return true
		}
	}
	for _, h := range c.Hist {
		if h.T == "crash" && (h.O == "partial" || h.Q == "partial") {
			return true
		}
	}
	return false
}

func pick(rnd *rand.Rand, cs []tlcCase, n int) []tlcCase {
	if n >= len(cs) {
		return cs
	}
	idx := rnd.Perm(len(cs))[:n]
	sort.Ints(idx)
	out := make([]tlcCase, 0, n)
	for _, i := range idx {
		out = append(out, cs[i])
	}
	return out
}

var _ = share.DataHash{}
