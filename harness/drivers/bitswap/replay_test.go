package bitswapdrv

// B2: behaviours of spec/bitswap/Bitswap.tla replayed on the real code, one model step at a time.
//
// Real actions happen at these model steps (everything else in the hasher is a pure function of the
// message and cannot be observed separately):
//   FetchStart      goroutine calls bitswap.Fetch; it stops at the gate in CID() of its first Block
//   FetchRegister   release that gate; Fetch does UnmarshalFn + LoadOrStore and stops at the next gate
//   FetchGetBlocks  release the gate in the fake exchange's GetBlocks
//   HLookup         goroutine calls prefix.Sum(data): envelope, CID validation, registry Load, Lock ...
//   HLock           ... and arrives at the gate inside the registered UnmarshalFn (entry lock held)
//   HUnmarshal      release it: container check / verification / populate; Sum returns
//   BitswapPublish  hand the block to the channels of the model's takers (Bitswap's contract is checked)
//   FetchRecv       Fetch takes it: stores it, or unmarshals it again (duplicate), or panics
//   FetchReturn     close the channel / cancel the context; Fetch returns and deletes its entries
// After every step the containers of all Blocks and the state of every Fetch are compared with the
// model's post-state, and the property's oracles are evaluated on the real objects.

import (
	"bytes"
	"context"
	"errors"
	"fmt"
	"strings"
	"time"

	blocks "github.com/ipfs/go-block-format"
	"github.com/ipfs/go-cid"

	"verifharness/vh"
)

type step struct {
	A         string                      `json:"a"`
	F         string                      `json:"f"`
	T         string                      `json:"t"`
	ID        string                      `json:"id"`
	Cid       string                      `json:"cid"`
	M         *mMsg                       `json:"m"`
	Takers    []string                    `json:"takers"`
	Cancelled bool                        `json:"cancelled"`
	Acc       bool                        `json:"acc"`
	Cont      map[string]map[string]mBody `json:"cont"`
	Pc        map[string]string           `json:"pc"`
	Hpc       map[string]string           `json:"hpc"`
	Own       map[string]string           `json:"own"`
}

type behaviour struct {
	Name   string              `json:"name"`
	Source string              `json:"source"` // e.g. "strict:NoPanic" or "simulate"
	Wants  map[string][]string `json:"wants"`
	Steps  []step              `json:"steps"`
}

type sumResult struct {
	c   cid.Cid
	err error
	pan string
}

type invocation struct {
	m       mMsg
	data    []byte
	prefix  cid.Prefix
	resCh   chan sumResult
	res     *sumResult
	owner   string
	idx     int
	spawned bool
	arrived bool // the goroutine sits at the gate inside the registered UnmarshalFn (entry lock held)
	queued  bool // looked the entry up (in the model) while another invocation held its lock: the real
	// call is started when that one unlocks, so that its registry Load can be synchronised
}

const (
	sigPanic     = "C10/dup-fetch/panic-on-unverified-block-passed-by-populated-entry"
	sigStored    = "C10/fetch/unverified-block-stored-after-populated-entry-passed-it"
	sigStale     = "C10/fetch/returns-nil-with-unfilled-block-after-stale-registry-entry"
	sigHasherPop = "C10/hasher/unverified-bytes-accepted-for-populated-request"
	// a request that is still registered and waiting (its Fetch has not returned) loses its verifier:
	// the honest block is refused with "no unmarshallers registered"
	sigRejectedPending = "C10/concurrent-fetch/honest-block-rejected-while-request-pending"
	// Fetch returned nil although one of its Blocks is empty, in a history where the specification has it
	// filled (NOT the stale-entry history of sigStale, where the specification itself predicts it)
	sigNilUnfilled = "C10/fetch/returns-nil-unfilled"
)

// waitArrivalOrResult: after prefix.Sum was started either the hasher runs into the gate of some
// registered UnmarshalFn for that CID, or Sum returns (rejected before it got there).
func (r *run) waitArrivalOrResult(inv *invocation, match func(event) bool) (*event, *sumResult, error) {
	for i, e := range r.backlog {
		if match(e) {
			r.backlog = append(r.backlog[:i], r.backlog[i+1:]...)
			return &e, nil, nil
		}
	}
	t := time.NewTimer(watchdog)
	defer t.Stop()
	for {
		select {
		case e := <-r.events:
			if match(e) {
				return &e, nil, nil
			}
			r.backlog = append(r.backlog, e)
		case x := <-inv.resCh:
			return nil, &x, nil
		case <-t.C:
			return nil, nil, fmt.Errorf("watchdog: hasher neither reached an UnmarshalFn nor returned within %s", watchdog)
		}
	}
}

func indexOf(xs []string, x string) int {
	for i, y := range xs {
		if x == y {
			return i
		}
	}
	return -1
}

// replayable: the real entry mutex serves hasher goroutines in arrival (= lookup) order, so only
// behaviours whose HLock order follows the HLookup order per entry can be forced.
func replayable(b behaviour) bool {
	type key struct{ owner, cid string }
	look := map[key][]string{}
	lock := map[key][]string{}
	cur := map[string]*mMsg{}
	for _, s := range b.Steps {
		switch s.A {
		case "HasherWrite":
			cur[s.T] = s.M
		case "HLookup":
			if s.Hpc[s.T] == "lock" {
				k := key{s.Own[s.T], cur[s.T].Cid}
				look[k] = append(look[k], s.T)
			}
		case "HLock":
			k := key{s.Own[s.T], cur[s.T].Cid}
			lock[k] = append(lock[k], s.T)
		}
	}
	for k, l := range lock {
		for i, t := range l {
			if i >= len(look[k]) || look[k][i] != t {
				return false
			}
		}
	}
	// an invocation that looks an entry up while another one holds its lock is started for real only
	// when that one unlocks: exclude behaviours where a Fetch registers or returns in between
	holding := map[key]string{}
	queued := map[string]key{}
	for _, s := range b.Steps {
		switch s.A {
		case "HasherWrite":
			cur[s.T] = s.M
		case "HLookup":
			if s.Hpc[s.T] == "lock" {
				k := key{s.Own[s.T], cur[s.T].Cid}
				if _, held := holding[k]; held {
					queued[s.T] = k
				} else {
					holding[k] = s.T // the real call takes the free lock right away
				}
			}
		case "HUnmarshal":
			for k, h := range holding {
				if h == s.T {
					delete(holding, k)
					for t2, k2 := range queued {
						if k2 == k {
							holding[k] = t2
							delete(queued, t2)
							break
						}
					}
				}
			}
		case "FetchRegister", "FetchReturn":
			if len(queued) > 0 {
				return false
			}
		}
	}
	return true
}

func (w *world) replayAll(behs []behaviour) {
	types := []string{"sample", "row", "rnd", "range"}
	n := 0
	for i, b := range behs {
		if !replayable(b) {
			w.rep.Count("behaviours_not_replayable_lock_order", 1)
			continue
		}
		// counterexamples are replayed on every block type, simulated behaviours on one
		ts := []string{types[i%4]}
		if b.Source != "simulate" {
			ts = types
		}
		// two overlapping Fetch calls of DIFFERENT identifier types whose identifier bytes coincide: a
		// sample (r,c) and the legacy range [r,c) of one height are both (height, r, c) in 12 bytes, only
		// their CIDs differ.  Both assignments to the history's a / b.
		cross := strings.HasPrefix(b.Source, "scen_cross")
		if cross {
			ts = []string{"sample+range", "range+sample"}
		}
		for _, typ := range ts {
			width := 2
			var ids map[string]idSpec
			if cross {
				smp, rng := idSpec{Typ: "sample", Row: 1, Col: 3}, idSpec{Typ: "range", From: 1, To: 3}
				ids = map[string]idSpec{"a": smp, "b": rng}
				if typ == "range+sample" {
					ids = map[string]idSpec{"a": rng, "b": smp}
				}
			} else {
				all := allIDs(width)[typ]
				perm := w.rnd.Perm(len(all))
				ids = map[string]idSpec{"a": all[perm[0]], "b": all[perm[1]]}
			}
			bind := &binding{sqS: w.S[width], sqT: w.T[width], height: w.nextHeight(), ids: ids}
			var ok bool
			pan, pv := vh.Recover(func() { ok = w.replay(b, bind, typ) })
			if pan {
				w.rep.Inconclusivef("replay %s on %s: harness panic: %s", b.Name, typ, pv)
				continue
			}
			if ok {
				n++
				w.rep.Count("behaviours_replayed", 1)
				w.rep.Count("behaviours_replayed_"+b.Source, 1)
			}
		}
	}
	w.rep.Set("behaviours_given", len(behs))
}

// replay returns true when the real code followed the behaviour to its end.
func (w *world) replay(b behaviour, bind *binding, typ string) bool {
	rep := w.rep
	r := newRun(w, true)
	defer r.teardown()
	th := map[string]*invocation{}
	regIdx := map[string]int{} // next block each Fetch registers
	// blocks Bitswap has published to a Fetch; they enter its real channel at the model's FetchRecv
	// step (the model's chan[f]), so that the real Fetch loop does not run ahead of the behaviour
	inFlight := map[string][]blocks.Block{}
	refs := map[string][]byte{}
	for _, n := range []string{"a", "b"} {
		_, c, err := w.served(bind.ids[n], bind.height, bind.sqS)
		if err != nil {
			rep.Inconclusivef("replay: cannot serve %v: %v", bind.ids[n], err)
			return false
		}
		refs[n] = c
	}
	ctxInfo := func(i int) map[string]any {
		return map[string]any{"behaviour": b.Name, "source": b.Source, "type": typ, "a": bind.ids["a"], "b": bind.ids["b"],
			"step": i, "steps": b.Steps[:i+1]}
	}
	drift := func(i int, f string, a ...any) bool {
		rep.Inconclusivef("replay %s (%s, %s) step %d %s: %s", b.Name, b.Source, typ, i, b.Steps[i].A, fmt.Sprintf(f, a...))
		return false
	}
	// a Block that stays empty where the model fills it: keep going -- if the Fetch then returns nil the
	// oracle below turns it into a violation; otherwise it is reported as drift at the end
	var underFilled []string
	violated := false
	// free run: once the real registry has visibly diverged from the specification's (the hasher reached
	// ANOTHER Fetch's UnmarshalFn than the one the specification's registry holds) the remaining steps are
	// used as stimuli only -- blocks are published to whoever really waits for them, per Bitswap's
	// contract -- and only the property's own oracles are evaluated.  No oracle firing => drift (exit 2).
	free := false
	freeWhy := ""
	waiting := map[string]bool{}              // GetBlocks released
	delivered := map[string]map[string]bool{} // fetch -> cid name -> published to it
	defer func() {
		if !violated {
			for _, u := range underFilled {
				rep.Inconclusivef("%s", u)
			}
			if free {
				rep.Inconclusivef("replay %s (%s, %s): %s; no oracle fired afterwards", b.Name, b.Source, typ, freeWhy)
			}
		}
	}()
	honest := func(m mMsg) bool {
		return m.Env == "ok" && m.Wf == "ok" && m.Body.Kind == "honest" && m.Body.Of == m.Cid && m.Body.Sq == "S"
	}
	cidMatch := func(cidName string) func(event) bool {
		return func(e event) bool {
			fs, ok := r.fetches[e.f]
			return e.kind == "unmarshal" && ok && e.idx < len(fs.names) && fs.names[e.idx] == cidName
		}
	}
	for i, s := range b.Steps {
		switch s.A {
		case "FetchStart":
			if _, err := r.startFetch(s.F, bind, b.Wants[s.F]); err != nil {
				return drift(i, "cannot start Fetch: %v", err)
			}
			if _, err := r.waitFor("arrival at CID() gate", func(e event) bool { return e.kind == "cid" && e.f == s.F && e.idx == 0 }); err != nil {
				return drift(i, "%v", err)
			}
		case "FetchRegister":
			k := regIdx[s.F]
			regIdx[s.F]++
			r.release("cid", s.F, k)
			var err error
			if k+1 < len(b.Wants[s.F]) {
				_, err = r.waitFor("next CID() gate", func(e event) bool { return e.kind == "cid" && e.f == s.F && e.idx == k+1 })
			} else {
				_, err = r.waitFor("GetBlocks gate", func(e event) bool { return e.kind == "getblocks" && e.f == s.F })
			}
			if err != nil {
				return drift(i, "%v", err)
			}
		case "FetchGetBlocks":
			r.release("getblocks", s.F, 0)
			waiting[s.F] = true
		case "HasherWrite":
			data, prefix, _, err := w.materialise(*s.M, bind, i)
			if err != nil {
				return drift(i, "cannot materialise: %v", err)
			}
			th[s.T] = &invocation{m: *s.M, data: data, prefix: prefix, resCh: make(chan sumResult, 1)}
		case "HEnvelope", "HValidateCid", "HLookup":
			inv := th[s.T]
			if s.A != "HLookup" && s.Hpc[s.T] != "rejected" {
				break // nothing observable yet
			}
			spawn := func() {
				inv.spawned = true
				go func() {
					c, err, pan := sum(inv.prefix, inv.data)
					inv.resCh <- sumResult{c, err, pan}
				}()
			}
			if s.Hpc[s.T] == "rejected" {
				spawn()
				res := <-inv.resCh // no gate on this path: registry miss or malformed envelope / CID
				inv.res = &res
				if res.pan != "" {
					rep.Violate("C10/hasher/panic", res.pan, ctxInfo(i))
					return false
				}
				if res.err == nil {
					return drift(i, "model rejects at %s, the real hasher accepts", s.A)
				}
				break
			}
			inv.owner = s.Own[s.T]
			inv.idx = indexOf(b.Wants[inv.owner], inv.m.Cid)
			// The registry Load must be ordered with the model's steps.  If nobody holds the entry lock
			// the goroutine runs on into the gate inside UnmarshalFn: wait for that.  If another
			// invocation holds it, the real call is started when that one unlocks (`replayable` has
			// excluded behaviours where the registry changes in between).
			for t2, o := range th {
				if t2 != s.T && o.arrived && o.owner == inv.owner && o.idx == inv.idx && !free {
					inv.queued = true
				}
			}
			if !inv.queued {
				spawn()
				// (every other invocation's arrival was consumed when it arrived, so any arrival now is
				// this one's -- possibly at the UnmarshalFn of a request for ANOTHER CID)
				_ = cidMatch
				ev, res, err := r.waitArrivalOrResult(inv, func(e event) bool { return e.kind == "unmarshal" })
				switch {
				case err != nil:
					return drift(i, "%v", err)
				case res != nil:
					// the specification finds a registered entry, the real hasher returned without
					// reaching any UnmarshalFn
					inv.res = res
					if res.pan != "" {
						rep.Violate("C10/hasher/panic", res.pan, ctxInfo(i))
						violated = true
						return false
					}
					if own := r.fetches[inv.owner]; res.err != nil && honest(inv.m) && own != nil && !own.done && !free {
						rep.Violate(sigRejectedPending, fmt.Sprintf("%s %v: Fetch %s has registered the request and is still waiting, another Fetch of the same identifier has come and gone; the honest block is now refused: %v",
							typ, bind.ids[inv.m.Cid], inv.owner, res.err), ctxInfo(i))
						violated = true
						return false
					}
					if !free {
						free, freeWhy = true, fmt.Sprintf("step %d HLookup: the specification finds %s's entry, the real hasher returned %v", i, inv.owner, res.err)
					}
				case ev.f != inv.owner || ev.idx != inv.idx:
					if !free {
						free, freeWhy = true, fmt.Sprintf("step %d HLookup: the specification's registry holds %s's entry, the real hasher reached the UnmarshalFn of %s", i, inv.owner, ev.f)
					}
					inv.owner, inv.idx, inv.arrived = ev.f, ev.idx, true
				default:
					inv.arrived = true
				}
			}
		case "HLock":
			if inv := th[s.T]; !inv.arrived && !free {
				return drift(i, "model takes the entry lock, the real hasher has not reached UnmarshalFn")
			}
		case "HUnmarshal":
			inv := th[s.T]
			if free {
				if inv.arrived {
					r.release("unmarshal", inv.owner, inv.idx)
					res := <-inv.resCh
					inv.res, inv.arrived = &res, false
					if res.pan != "" {
						rep.Violate("C10/hasher/panic", res.pan, ctxInfo(i))
						violated = true
						return false
					}
					// oracle: the honest block of an identifier some Fetch has registered, still waits for and
					// has not been given yet must pass
					if res.err != nil && honest(inv.m) {
						for f, fs := range r.fetches {
							k := indexOf(fs.names, inv.m.Cid)
							if k >= 0 && waiting[f] && !fs.done && isEmpty(fs.reals[k]) {
								rep.Violate(sigRejectedPending, fmt.Sprintf("%s %v: Fetch %s has registered the request and is still waiting; the honest block was run through the UnmarshalFn registered by Fetch %s for %v and refused: %v",
									typ, bind.ids[inv.m.Cid], f, inv.owner, bind.ids[r.fetches[inv.owner].names[inv.idx]], res.err), ctxInfo(i))
								violated = true
								return false
							}
						}
					}
				}
				break
			}
			r.release("unmarshal", inv.owner, inv.idx)
			res := <-inv.resCh
			inv.res = &res
			inv.arrived = false
			if res.pan != "" {
				rep.Violate("C10/hasher/panic", res.pan, ctxInfo(i))
				violated = true
				return false
			}
			// oracle first: the hasher accepts only bytes that verify for the identifier
			if res.err == nil && !honest(inv.m) {
				populated := false
				if own := r.fetches[inv.owner]; own != nil && inv.idx < len(own.reals) {
					populated = !isEmpty(own.reals[inv.idx])
				}
				sig := "C10/hasher/unverified-bytes-accepted"
				if populated {
					sig = sigHasherPop
				}
				rep.Violate(sig, fmt.Sprintf("%s %v: block %+v does not verify for it but passes the hasher (registered Block populated: %v)", typ, bind.ids[inv.m.Cid], inv.m, populated), ctxInfo(i))
				violated = true
			}
			if (res.err == nil) != (s.Hpc[s.T] == "accepted") {
				return drift(i, "model %s, real err=%v", s.Hpc[s.T], res.err)
			}
			// start the invocation that (in the model) looked this entry up while it was locked
			for t2, o := range th {
				if t2 != s.T && o.queued && !o.spawned && o.owner == inv.owner && o.idx == inv.idx {
					o.spawned = true
					go func() {
						c, err, pan := sum(o.prefix, o.data)
						o.resCh <- sumResult{c, err, pan}
					}()
					if _, err := r.waitFor("queued hasher arriving in UnmarshalFn", func(e event) bool { return e.kind == "unmarshal" && e.f == o.owner && e.idx == o.idx }); err != nil {
						return drift(i, "%v", err)
					}
					o.arrived = true
				}
			}
		case "BitswapPublish":
			inv := th[s.T]
			takers := s.Takers
			if free {
				// Bitswap's contract on the real state: every Fetch that waits for this CID and has not been
				// served it yet gets the block, provided Sum returned exactly that CID
				takers = nil
				if inv.res != nil && inv.res.err == nil && inv.m.Wf == "ok" && inv.res.c.Equals(bind.cidOf(inv.m.Cid)) {
					for f, fs := range r.fetches {
						if waiting[f] && !fs.done && indexOf(fs.names, inv.m.Cid) >= 0 && !delivered[f][inv.m.Cid] {
							takers = append(takers, f)
						}
					}
				}
			}
			if len(takers) > 0 {
				want := bind.cidOf(inv.m.Cid)
				if inv.res == nil || inv.res.err != nil || !inv.res.c.Equals(want) {
					return drift(i, "model publishes, but Sum did not return the requested CID")
				}
				blk, _ := blocks.NewBlockWithCid(inv.data, inv.res.c)
				for _, f := range takers {
					inFlight[f] = append(inFlight[f], blk)
					if delivered[f] == nil {
						delivered[f] = map[string]bool{}
					}
					delivered[f][inv.m.Cid] = true
				}
			}
			delete(th, s.T)
		case "FetchRecv":
			fs := r.fetches[s.F]
			if len(inFlight[s.F]) == 0 && free {
				break
			}
			if len(inFlight[s.F]) == 0 {
				return drift(i, "model receives a block nobody published")
			}
			if !fs.ex.send(inFlight[s.F][0]) {
				return drift(i, "channel of %s already closed", s.F)
			}
			inFlight[s.F] = inFlight[s.F][1:]
			e, err := r.waitFor("Fetch "+s.F+" consuming a block", func(e event) bool {
				return e.f == s.F && (e.kind == "stored" || e.kind == "unmarshal-ret" || e.kind == "done")
			})
			if err != nil {
				return drift(i, "%v", err)
			}
			if e.kind == "unmarshal-ret" && e.err != nil {
				// the duplicate path panics on this error: wait for the Fetch goroutine to end
				if e, err = r.waitFor("Fetch "+s.F+" ending after a failed duplicate unmarshal", func(e event) bool { return e.f == s.F && e.kind == "done" }); err != nil {
					return drift(i, "%v", err)
				}
			}
			switch {
			case e.kind == "done" && e.pan != "":
				fs.done, fs.res = true, e
				violated = true
				if s.Pc[s.F] == "panicked" && !free {
					rep.Violate(sigPanic, fmt.Sprintf("%s %v: concurrent Fetch of one identifier; the first request is filled by an honest block, a second block with the same inner CID and a container that does not verify passes the hasher and is handed to the duplicate Fetch, which panics: %s",
						typ, bind.ids[s.Cid], firstLine(e.pan)), ctxInfo(i))
				} else {
					rep.Violate("C10/fetch/panic", fmt.Sprintf("Fetch %s panics: %s", s.F, e.pan), ctxInfo(i))
				}
				return s.Pc[s.F] == "panicked"
			case e.kind == "done":
				fs.done, fs.res = true, e
				return drift(i, "Fetch returned (%v) instead of consuming the block", e.err)
			case s.Pc[s.F] == "panicked" && !free:
				return drift(i, "model panics, real Fetch went on (%s, err=%v): the model over-approximates", e.kind, e.err)
			case e.kind == "stored":
				// what was stored must be the honest block of that CID
				fs.store.mu.Lock()
				last := fs.store.put[len(fs.store.put)-1]
				fs.store.mu.Unlock()
				ref, _, _ := w.served(bind.ids[s.Cid], bind.height, bind.sqS)
				if ref != nil && !bytes.Equal(last.RawData(), ref.RawData()) {
					rep.Violate(sigStored, fmt.Sprintf("%s %v: Fetch stored a block whose container does not verify for its CID", typ, bind.ids[s.Cid]), ctxInfo(i))
				}
			}
		case "FetchReturn":
			fs := r.fetches[s.F]
			if fs.done {
				break
			}
			if free && !s.Cancelled {
				// Bitswap closes the channel after everything published was taken
				for len(inFlight[s.F]) > 0 {
					if !fs.ex.send(inFlight[s.F][0]) {
						break
					}
					inFlight[s.F] = inFlight[s.F][1:]
					e, err := r.waitFor("Fetch "+s.F+" consuming a block", func(e event) bool {
						return e.f == s.F && (e.kind == "stored" || e.kind == "unmarshal-ret" || e.kind == "done")
					})
					if err != nil {
						return drift(i, "%v", err)
					}
					if e.kind == "unmarshal-ret" && e.err != nil {
						e, _ = r.waitFor("Fetch ending", func(e event) bool { return e.f == s.F && e.kind == "done" })
					}
					if e.kind == "done" {
						fs.done, fs.res = true, e
						if e.pan != "" {
							rep.Violate("C10/fetch/panic", fmt.Sprintf("Fetch %s panics: %s", s.F, e.pan), ctxInfo(i))
							violated = true
						}
						return false
					}
				}
			}
			if s.Cancelled {
				fs.cancel()
			} else {
				fs.ex.close()
			}
			e, err := r.waitFor("Fetch "+s.F+" returning", func(e event) bool { return e.kind == "done" && e.f == s.F })
			if err != nil {
				return drift(i, "%v", err)
			}
			fs.done, fs.res = true, e
			if e.pan != "" {
				rep.Violate("C10/fetch/panic", fmt.Sprintf("Fetch %s panics on return: %s", s.F, e.pan), ctxInfo(i))
				return false
			}
			if s.Cancelled != errors.Is(e.err, context.Canceled) {
				return drift(i, "Fetch returned %v, model cancelled=%v", e.err, s.Cancelled)
			}
			if !s.Cancelled {
				for k, n := range fs.names {
					if isEmpty(fs.reals[k]) {
						if s.Cont[s.F][n].Kind == "empty" && !free {
							rep.Violate(sigStale, fmt.Sprintf("%s %v: Fetch returned nil but its Block is empty: the hasher filled the Block of an earlier, already returned Fetch through a registry entry it had loaded before that Fetch deleted it",
								typ, bind.ids[n]), ctxInfo(i))
						} else {
							rep.Violate(sigNilUnfilled, fmt.Sprintf("%s %v: Fetch %s returned nil (success) but its Block is empty; the specification has it filled with the verified container at this point", typ, bind.ids[n], s.F), ctxInfo(i))
						}
						violated = true
					}
				}
			}
		}
		// ---- projection of the real state vs. the model's post-state; the property's oracle
		for f, fs := range r.fetches {
			for k, n := range fs.names {
				real := fs.reals[k]
				empty := isEmpty(real)
				if !empty && (!bytes.Equal(containerBytes(real), refs[n]) || verifies(real, bind.sqS) != nil) {
					rep.Violate("C10/filled-with-unverified-data", fmt.Sprintf("%s %v of %s holds data that is not the committed data", typ, bind.ids[n], f), ctxInfo(i))
					return false
				}
				if free {
					continue
				}
				if empty && s.Cont[f][n].Kind != "empty" {
					if len(underFilled) == 0 {
						underFilled = append(underFilled, fmt.Sprintf("replay %s (%s, %s) step %d %s: container of %s/%s stays empty, model %+v", b.Name, b.Source, typ, i, s.A, f, n, s.Cont[f][n]))
					}
					continue
				}
				if empty != (s.Cont[f][n].Kind == "empty") {
					return drift(i, "container of %s/%s: real empty=%v, model %+v", f, n, empty, s.Cont[f][n])
				}
			}
		}
	}
	return !free
}

func firstLine(s string) string {
	for i, c := range s {
		if c == '\n' {
			return s[:i]
		}
	}
	return s
}
