// Package bitswapdrv binds spec/bitswap/Bitswap.tla to the real Bitswap acceptance path (C10).
//
// The acceptance check lives in a multihash "hasher" keyed by a global registry; it is reached here
// exactly like Bitswap reaches it: cid.Prefix.Sum(blockBytes) while a real bitswap.Fetch (over a fake
// exchange that only delivers what the driver hands it) has the request pending.  A block is handed to
// the Fetch channel only if Sum succeeded and returned the requested CID -- Bitswap's contract.
//
//   B3  every (message class, requester state) CASE TLC enumerated, for every sample / row / row
//       namespace / range identifier of real seeded squares: verdict vs. model, and the property's own
//       oracle: the requester's container afterwards is empty or equals the reference and verifies
//   B3  served blocks: real Blockstore.Get output for every identifier must be accepted and fill the
//       request with the reference data -- from the in-memory accessor and from a real store.Store in
//       every representation a node has (recent cache, ODS+Q4 files, ODS only, Q4 pruned): store_test.go
//   B2  behaviours (TLC counterexamples of the strict invariants, TLC simulation): replayed step by
//       step with gates (wrapper Blocks gate CID()/UnmarshalFn, the fake exchange gates GetBlocks)
//   +   seeded byte-level mutations of honest blocks (sampled complement)
package bitswapdrv

import (
	"bytes"
	"context"
	"errors"
	"fmt"
	"math/rand"
	"os"
	"sync"
	"testing"
	"time"

	blocks "github.com/ipfs/go-block-format"
	"github.com/ipfs/go-cid"
	mh "github.com/multiformats/go-multihash"

	libshare "github.com/celestiaorg/go-square/v4/share"

	"github.com/celestiaorg/celestia-node/share"
	"github.com/celestiaorg/celestia-node/share/eds"
	"github.com/celestiaorg/celestia-node/share/shwap"
	"github.com/celestiaorg/celestia-node/share/shwap/p2p/bitswap"
	bspb "github.com/celestiaorg/celestia-node/share/shwap/p2p/bitswap/pb"

	"verifharness/vh"
)

const watchdog = 30 * time.Second

// ---------------------------------------------------------------- squares

func userNs(b byte) libshare.Namespace {
	return libshare.MustNewV0Namespace([]byte{0xC0, 0xFF, 0xEE, 0, 0, 0, 0, 0, 0, b})
}

func mkShare(rnd *rand.Rand, ns libshare.Namespace) libshare.Share {
	raw := make([]byte, libshare.ShareSize)
	rnd.Read(raw)
	copy(raw, ns.Bytes())
	raw[libshare.NamespaceSize] = 0x01
	sh, err := libshare.NewShare(raw)
	if err != nil {
		panic(err)
	}
	return sh
}

type square struct {
	w      int
	acc    *eds.Rsmt2D
	roots  *share.AxisRoots
	ns     libshare.Namespace
	layout []byte // mixed squares: last namespace byte of every ODS share, row-major, non-decreasing
}

// mixedLayouts: several namespaces per square with gaps, so that for some rows a namespace is ABSENT
// yet inside the row's namespace range (between two namespaces of the row), absent and outside the
// range, or present.  Used for the row-namespace-data identifiers.
var mixedLayouts = map[int][]byte{
	2: {0x10, 0x30, // row 0: 0x20 absent inside [0x10,0x30]
		0x30, 0x40}, // row 1: 0x38 absent inside
	4: {0x10, 0x10, 0x30, 0x30, // row 0: 0x20 absent inside
		0x30, 0x30, 0x30, 0x30, // row 1: one namespace: everything else is outside
		0x30, 0x50, 0x50, 0x70, // row 2: 0x40 and 0x60 absent inside
		0x70, 0x70, 0x70, 0x90}, // row 3: 0x80 absent inside
}

func newMixedSquare(rnd *rand.Rand, w int) *square {
	layout := mixedLayouts[w]
	shares := make([]libshare.Share, w*w)
	for i := range shares {
		shares[i] = mkShare(rnd, userNs(layout[i]))
	}
	acc, err := eds.Rsmt2DFromShares(shares, w)
	if err != nil {
		panic(err)
	}
	roots, err := acc.AxisRoots(context.Background())
	if err != nil {
		panic(err)
	}
	return &square{w: w, acc: acc, roots: roots, ns: userNs(layout[0]), layout: layout}
}

// rndClass says, from the layout alone, what a row-namespace-data identifier of a mixed square is.
func (sq *square) rndClass(row int, ns byte) string {
	lo, hi := sq.layout[row*sq.w], sq.layout[row*sq.w+sq.w-1]
	for c := 0; c < sq.w; c++ {
		if sq.layout[row*sq.w+c] == ns {
			return "present"
		}
	}
	if ns > lo && ns < hi {
		return "absent-inside"
	}
	return "outside"
}

// mixedRndIDs: for every ODS row every namespace of the square, every gap namespace, one below and one
// above everything.
func (sq *square) mixedRndIDs() []idSpec {
	var out []idSpec
	for r := 0; r < sq.w; r++ {
		for ns := byte(0x08); ns <= 0x98; ns += 0x08 {
			out = append(out, idSpec{Typ: "rnd", Row: r, Ns: ns})
		}
	}
	return out
}

// one namespace over the whole ODS so that every range is servable; random payloads
func newSquare(rnd *rand.Rand, w int) *square {
	ns := userNs(0x42)
	shares := make([]libshare.Share, w*w)
	for i := range shares {
		shares[i] = mkShare(rnd, ns)
	}
	acc, err := eds.Rsmt2DFromShares(shares, w)
	if err != nil {
		panic(err)
	}
	roots, err := acc.AxisRoots(context.Background())
	if err != nil {
		panic(err)
	}
	return &square{w: w, acc: acc, roots: roots, ns: ns}
}

type accGetter struct{ sq *square }

func (g accGetter) GetByHeight(context.Context, uint64) (eds.AccessorStreamer, error) {
	return g.sq.acc, nil
}
func (g accGetter) HasByHeight(context.Context, uint64) (bool, error) { return true, nil }

// ---------------------------------------------------------------- concrete identifiers

type idSpec struct {
	Typ  string `json:"type"`
	Row  int    `json:"row"`
	Col  int    `json:"col"`
	From int    `json:"from"`
	To   int    `json:"to"`
	Ns   byte   `json:"ns"` // rnd: last byte of the user namespace asked for (0 = the square's single namespace)
}

func (s idSpec) String() string {
	switch s.Typ {
	case "sample":
		return fmt.Sprintf("sample(%d,%d)", s.Row, s.Col)
	case "row":
		return fmt.Sprintf("row(%d)", s.Row)
	case "rnd":
		if s.Ns != 0 {
			return fmt.Sprintf("rnd(%d,ns=%#x)", s.Row, s.Ns)
		}
		return fmt.Sprintf("rnd(%d)", s.Row)
	}
	return fmt.Sprintf("range[%d,%d)", s.From, s.To)
}

func (s idSpec) newBlock(height uint64, sq *square) (bitswap.Block, error) {
	switch s.Typ {
	case "sample":
		return bitswap.NewEmptySampleBlock(height, shwap.SampleCoords{Row: s.Row, Col: s.Col}, 2*sq.w)
	case "row":
		return bitswap.NewEmptyRowBlock(height, s.Row, 2*sq.w)
	case "rnd":
		ns := sq.ns
		if s.Ns != 0 {
			ns = userNs(s.Ns)
		}
		return bitswap.NewEmptyRowNamespaceDataBlock(height, s.Row, ns, 2*sq.w)
	case "range":
		return bitswap.NewEmptyRangeNamespaceDataBlock(height, s.From, s.To, sq.w)
	}
	return nil, errors.New("unknown type " + s.Typ)
}

func allIDs(w int) map[string][]idSpec {
	out := map[string][]idSpec{}
	for r := 0; r < 2*w; r++ {
		out["row"] = append(out["row"], idSpec{Typ: "row", Row: r})
		for c := 0; c < 2*w; c++ {
			out["sample"] = append(out["sample"], idSpec{Typ: "sample", Row: r, Col: c})
		}
	}
	for r := 0; r < w; r++ {
		out["rnd"] = append(out["rnd"], idSpec{Typ: "rnd", Row: r})
	}
	for f := 0; f < w*w; f++ {
		for t := f + 1; t <= w*w; t++ {
			out["range"] = append(out["range"], idSpec{Typ: "range", From: f, To: t})
		}
	}
	return out
}

// containerBytes gives the marshalled container held by a block ("" when empty).
func containerBytes(b bitswap.Block) []byte {
	out, err := b.Marshal()
	if err != nil {
		return nil // every Block refuses to marshal an empty container
	}
	return out
}

func isEmpty(b bitswap.Block) bool {
	switch x := b.(type) {
	case *bitswap.SampleBlock:
		return x.Container.IsEmpty()
	case *bitswap.RowBlock:
		return x.Container.IsEmpty()
	case *bitswap.RowNamespaceDataBlock:
		return x.Container.IsEmpty()
	case *bitswap.RangeNamespaceDataBlock:
		return x.Container.IsEmpty()
	case *gatedBlock:
		return isEmpty(x.real)
	}
	panic(fmt.Sprintf("isEmpty %T", b))
}

// verifies runs the container's own verification against the requester's roots.
func verifies(b bitswap.Block, sq *square) error {
	switch x := b.(type) {
	case *bitswap.SampleBlock:
		return x.Container.Verify(sq.roots, x.ID.RowIndex, x.ID.ShareIndex)
	case *bitswap.RowBlock:
		c := x.Container
		return c.Verify(sq.roots, x.ID.RowIndex)
	case *bitswap.RowNamespaceDataBlock:
		return x.Container.Verify(sq.roots, x.ID.DataNamespace, x.ID.RowIndex)
	case *bitswap.RangeNamespaceDataBlock:
		from, _ := shwap.SampleCoordsFrom1DIndex(x.ID.From, sq.w)
		to, _ := shwap.SampleCoordsFrom1DIndex(x.ID.To-1, sq.w)
		c := x.Container
		return c.VerifyInclusion(from, to, sq.w, sq.roots.RowRoots[from.Row:to.Row+1])
	case *gatedBlock:
		return verifies(x.real, sq)
	}
	panic(fmt.Sprintf("verifies %T", b))
}

// ---------------------------------------------------------------- world: squares, reference data

type world struct {
	rep    *vh.Report
	rnd    *rand.Rand
	S, T   map[int]*square // by ODS width
	M      map[int]*square // mixed-namespace squares (widths 2, 4)
	height uint64
	mu     sync.Mutex
}

func (w *world) nextHeight() uint64 {
	w.mu.Lock()
	defer w.mu.Unlock()
	w.height++
	return w.height
}

// served returns the block bytes a serving node holding `sq` produces for the identifier (real
// Blockstore.Get), and its container part.
func (w *world) served(s idSpec, height uint64, sq *square) (blk blocks.Block, container []byte, err error) {
	eb, err := s.newBlock(height, sq)
	if err != nil {
		return nil, nil, err
	}
	bs := &bitswap.Blockstore{Getter: accGetter{sq}}
	blk, err = bs.Get(context.Background(), eb.CID())
	if err != nil {
		return nil, nil, err
	}
	var env bspb.Block
	if err := env.Unmarshal(blk.RawData()); err != nil {
		return nil, nil, err
	}
	return blk, env.Container, nil
}

// ---------------------------------------------------------------- model messages -> real bytes

type mBody struct {
	Kind string `json:"kind"`
	Of   string `json:"of"`
	Sq   string `json:"sq"`
}

type mMsg struct {
	Env      string `json:"env"`
	Wf       string `json:"wf"`
	Cid      string `json:"cid"`
	PrefixOK bool   `json:"prefixOK"`
	Body     mBody  `json:"body"`
}

// binding of the model's abstract identifiers to concrete ones of one block type
type binding struct {
	sqS, sqT *square
	height   uint64
	ids      map[string]idSpec // "a","b" -> concrete
}

func (b *binding) cidOf(name string) cid.Cid {
	blk, err := b.ids[name].newBlock(b.height, b.sqS)
	if err != nil {
		panic(err)
	}
	return blk.CID()
}

var otherCodec = map[uint64]uint64{0x7800: 0x7810, 0x7810: 0x7800, 0x7820: 0x7830, 0x7830: 0x7820}

// materialise builds the block bytes of message class m and the prefix the sender attaches.
func (w *world) materialise(m mMsg, b *binding, variant int) (data []byte, prefix cid.Prefix, container []byte, err error) {
	anyCid := b.cidOf("a")
	prefix = anyCid.Prefix()
	if m.Env != "ok" {
		// not a protobuf message: field 1, length 127, nothing follows
		return [][]byte{{0x0A, 0x7F}, {0xFF, 0xFF, 0xFF}, {0x0A}}[variant%3], prefix, nil, nil
	}
	switch m.Wf {
	case "nocast":
		env := bspb.Block{Cid: [][]byte{{0x00}, {0x01, 0x55}, {}, {0x01, 0x80}}[variant%4], Container: []byte{1, 2, 3}}
		data, err = env.Marshal()
		return data, prefix, nil, err
	case "badframe":
		p := anyCid.Prefix()
		digest := anyCid.Hash()[4:]
		var bad cid.Cid
		switch variant % 4 {
		case 0: // multihash code of another registered type
			h, _ := mh.Encode(digest, 0x7801+uint64(16*(variant/4%4)))
			if p.MhType == 0x7801+uint64(16*(variant/4%4)) {
				h, _ = mh.Encode(digest, 0x12)
			}
			bad = cid.NewCidV1(p.Codec, h)
		case 1: // unknown codec
			h, _ := mh.Encode(digest, p.MhType)
			bad = cid.NewCidV1(cid.Raw, h)
		case 2: // digest too short for the type
			h, _ := mh.Encode(digest[:len(digest)-1], p.MhType)
			bad = cid.NewCidV1(p.Codec, h)
		case 3: // identifier that fails validation: height 0
			z := append(make([]byte, 8), digest[8:]...)
			h, _ := mh.Encode(z, p.MhType)
			bad = cid.NewCidV1(p.Codec, h)
		}
		env := bspb.Block{Cid: bad.Bytes(), Container: []byte{1, 2, 3}}
		data, err = env.Marshal()
		return data, prefix, nil, err
	}
	inner := b.cidOf(m.Cid)
	prefix = inner.Prefix()
	if !m.PrefixOK {
		// the sender names another codec: Sum runs the same hasher, the resulting CID is not the requested one
		prefix.Codec = otherCodec[prefix.Codec]
	}
	switch m.Body.Kind {
	case "honest", "truncated", "garbled":
		of := m.Body.Of
		sq := b.sqS
		if m.Body.Sq == "T" {
			sq = b.sqT
		}
		if of == "-" {
			of = m.Cid
		}
		_, c, err := w.served(b.ids[of], b.height, sq)
		if err != nil {
			return nil, prefix, nil, fmt.Errorf("serving %v: %w", b.ids[of], err)
		}
		container = c
		if m.Body.Kind == "truncated" {
			container = container[:len(container)*(variant%4)/4] // incl. the empty container
		}
		if m.Body.Kind == "garbled" {
			container = append([]byte{}, container...)
			// flip payload bits (not framing): the container still decodes but must not verify,
			// or (odd variants) overwrite the front so that it does not even decode
			if variant%2 == 0 {
				for k := 0; k < 8; k++ {
					container[len(container)/2+k] ^= 0x5A
				}
			} else {
				for k := 0; k < 6 && k < len(container); k++ {
					container[k] = 0xFF
				}
			}
		}
	}
	env := bspb.Block{Cid: inner.Bytes(), Container: container}
	data, err = env.Marshal()
	return data, prefix, container, err
}

// ---------------------------------------------------------------- fake exchange / store

type event struct {
	kind string // cid, getblocks, unmarshal, unmarshal-ret, notified, stored, done
	f    string
	idx  int
	err  error
	pan  string
}

type fakeExchange struct {
	rp      *run
	f       string
	in      chan blocks.Block
	closeMu sync.Mutex
	closed  bool
}

func (e *fakeExchange) GetBlock(context.Context, cid.Cid) (blocks.Block, error) {
	return nil, errors.New("not used")
}

func (e *fakeExchange) GetBlocks(ctx context.Context, _ []cid.Cid) (<-chan blocks.Block, error) {
	e.rp.gate("getblocks", e.f, 0)
	go func() { // like Bitswap: the channel is closed when the context ends
		<-ctx.Done()
		e.close()
	}()
	return e.in, nil
}

func (e *fakeExchange) NotifyNewBlocks(context.Context, ...blocks.Block) error {
	e.rp.emit(event{kind: "notified", f: e.f})
	return nil
}
func (e *fakeExchange) Close() error { return nil }

func (e *fakeExchange) close() {
	e.closeMu.Lock()
	defer e.closeMu.Unlock()
	if !e.closed {
		e.closed = true
		close(e.in)
	}
}

func (e *fakeExchange) send(b blocks.Block) bool {
	e.closeMu.Lock()
	defer e.closeMu.Unlock()
	if e.closed {
		return false
	}
	e.in <- b
	return true
}

type fakeStore struct {
	rp *run
	f  string
	mu sync.Mutex
	// everything Fetch stored
	put []blocks.Block
}

func (s *fakeStore) Put(_ context.Context, b blocks.Block) error {
	s.mu.Lock()
	s.put = append(s.put, b)
	s.mu.Unlock()
	s.rp.emit(event{kind: "stored", f: s.f})
	return nil
}
func (s *fakeStore) DeleteBlock(context.Context, cid.Cid) error         { return nil }
func (s *fakeStore) Has(context.Context, cid.Cid) (bool, error)          { return false, nil }
func (s *fakeStore) Get(context.Context, cid.Cid) (blocks.Block, error)  { return nil, errors.New("nf") }
func (s *fakeStore) GetSize(context.Context, cid.Cid) (int, error)       { return 0, errors.New("nf") }
func (s *fakeStore) PutMany(context.Context, []blocks.Block) error       { return nil }
func (s *fakeStore) AllKeysChan(context.Context) (<-chan cid.Cid, error) { return nil, nil }
func (s *fakeStore) HashOnRead(bool)                                     {}

// ---------------------------------------------------------------- gated wrapper Block

// gatedBlock delegates everything to the real Block; CID() (called once per block by the registration
// loop of fetch) and the FIRST UnmarshalFn closure (the one stored in the registry and run by the
// hasher under the entry lock) stop at gates of the replay.
type gatedBlock struct {
	real  bitswap.Block
	rp    *run
	f     string
	idx   int
	mu    sync.Mutex
	calls int
}

func (g *gatedBlock) CID() cid.Cid {
	g.rp.gate("cid", g.f, g.idx)
	return g.real.CID()
}
func (g *gatedBlock) Height() uint64 { return g.real.Height() }
func (g *gatedBlock) Populate(ctx context.Context, a eds.Accessor) error {
	return g.real.Populate(ctx, a)
}
func (g *gatedBlock) Marshal() ([]byte, error) { return g.real.Marshal() }
func (g *gatedBlock) UnmarshalFn(r *share.AxisRoots) bitswap.UnmarshalFn {
	fn := g.real.UnmarshalFn(r)
	g.mu.Lock()
	g.calls++
	first := g.calls == 1
	g.mu.Unlock()
	if first {
		return func(c, id []byte) error {
			g.rp.gate("unmarshal", g.f, g.idx)
			return fn(c, id)
		}
	}
	return func(c, id []byte) error { // the duplicate path of fetch
		err := fn(c, id)
		g.rp.emit(event{kind: "unmarshal-ret", f: g.f, idx: g.idx, err: err})
		return err
	}
}

// ---------------------------------------------------------------- one run (a case or a behaviour)

type fetchState struct {
	name   string
	blocks []bitswap.Block // what was passed to Fetch (possibly gated wrappers)
	reals  []bitswap.Block
	names  []string // abstract ids
	ex     *fakeExchange
	store  *fakeStore
	cancel context.CancelFunc
	done   bool
	res    event
}

type run struct {
	w       *world
	gated   bool
	events  chan event
	backlog []event
	mu      sync.Mutex
	gates   map[string]chan struct{}
	free    bool
	fetches map[string]*fetchState
}

func newRun(w *world, gated bool) *run {
	return &run{w: w, gated: gated, events: make(chan event, 1024), gates: map[string]chan struct{}{}, fetches: map[string]*fetchState{}}
}

func (r *run) emit(e event) {
	select {
	case r.events <- e:
	default: // never block the code under test on the harness
	}
}

func gkey(kind, f string, idx int) string { return fmt.Sprintf("%s/%s/%d", kind, f, idx) }

// gate: announce arrival, then wait for the release (no-op when the run is not gated / torn down).
// A gate is one-shot per arrival: the protocol of the replay always waits for the arrival event
// before it releases.
func (r *run) gate(kind, f string, idx int) {
	r.mu.Lock()
	if !r.gated || r.free {
		r.mu.Unlock()
		if kind == "getblocks" {
			r.emit(event{kind: kind, f: f, idx: idx})
		}
		return
	}
	ch := make(chan struct{})
	r.gates[gkey(kind, f, idx)] = ch
	r.mu.Unlock()
	r.emit(event{kind: kind, f: f, idx: idx})
	<-ch
}

func (r *run) release(kind, f string, idx int) {
	r.mu.Lock()
	k := gkey(kind, f, idx)
	ch, ok := r.gates[k]
	delete(r.gates, k)
	r.mu.Unlock()
	if ok {
		close(ch)
	} else {
		r.w.rep.Inconclusivef("replay: release of gate %s that nobody waits at", k)
	}
}

// waitFor returns the first (backlogged or new) event matching the predicate.
func (r *run) waitFor(what string, match func(event) bool) (event, error) {
	for i, e := range r.backlog {
		if match(e) {
			r.backlog = append(r.backlog[:i], r.backlog[i+1:]...)
			return e, nil
		}
	}
	t := time.NewTimer(watchdog)
	defer t.Stop()
	for {
		select {
		case e := <-r.events:
			if match(e) {
				return e, nil
			}
			r.backlog = append(r.backlog, e)
		case <-t.C:
			return event{}, fmt.Errorf("watchdog: %s did not happen within %s", what, watchdog)
		}
	}
}

// startFetch launches a real bitswap.Fetch for the given abstract identifiers.
func (r *run) startFetch(name string, b *binding, want []string) (*fetchState, error) {
	fs := &fetchState{name: name, names: want}
	fs.ex = &fakeExchange{rp: r, f: name, in: make(chan blocks.Block, 64)}
	fs.store = &fakeStore{rp: r, f: name}
	for i, n := range want {
		real, err := b.ids[n].newBlock(b.height, b.sqS)
		if err != nil {
			return nil, err
		}
		fs.reals = append(fs.reals, real)
		if r.gated {
			fs.blocks = append(fs.blocks, &gatedBlock{real: real, rp: r, f: name, idx: i})
		} else {
			fs.blocks = append(fs.blocks, real)
		}
	}
	ctx, cancel := context.WithCancel(context.Background())
	fs.cancel = cancel
	r.fetches[name] = fs
	go func() {
		var err error
		pan, val := vh.Recover(func() {
			err = bitswap.Fetch(ctx, fs.ex, b.sqS.roots, fs.blocks, bitswap.WithStore(fs.store))
		})
		ev := event{kind: "done", f: name, err: err}
		if pan {
			ev.pan = val
		}
		r.emit(ev)
	}()
	return fs, nil
}

// teardown frees every gate, ends every Fetch and waits for them.
func (r *run) teardown() {
	r.mu.Lock()
	r.free = true
	for k, ch := range r.gates {
		close(ch)
		delete(r.gates, k)
	}
	r.mu.Unlock()
	for _, fs := range r.fetches {
		fs.cancel()
	}
	for _, fs := range r.fetches {
		if !fs.done {
			if e, err := r.waitFor("Fetch "+fs.name+" returning", func(e event) bool { return e.kind == "done" && e.f == fs.name }); err == nil {
				fs.done, fs.res = true, e
			} else {
				r.w.rep.Inconclusivef("bitswap: %v (goroutine leaked)", err)
			}
		}
	}
}

// sum is what Bitswap does with a received block: prefix.Sum(data) -> hasher
func sum(prefix cid.Prefix, data []byte) (c cid.Cid, err error, pan string) {
	p, v := vh.Recover(func() { c, err = prefix.Sum(data) })
	if p {
		return cid.Undef, errors.New("panic"), v
	}
	return c, err, ""
}

// ---------------------------------------------------------------- entry point

type mCase struct {
	M         mMsg `json:"m"`
	Pending   bool `json:"pending"`
	PopBefore bool `json:"popBefore"`
	Accepted  bool `json:"accepted"`
}

func writeReport(t *testing.T, rep *vh.Report) {
	if rep.Violations == nil {
		rep.Violations = []vh.Violation{}
	}
	if rep.Inconclusive == nil {
		rep.Inconclusive = []string{}
	}
	if rep.Samples == nil {
		rep.Samples = []any{}
	}
	if err := rep.Write(); err != nil {
		t.Fatal(err)
	}
}

func TestDriver(t *testing.T) {
	rep := vh.NewReport()
	rnd := vh.Rand()
	w := &world{rep: rep, rnd: rnd, S: map[int]*square{}, T: map[int]*square{}, M: map[int]*square{}, height: uint64(vh.Seed()) << 20}
	for _, k := range []int{1, 2, 4} {
		w.S[k] = newSquare(rnd, k)
		w.T[k] = newSquare(rnd, k)
	}
	for _, k := range []int{2, 4} {
		w.M[k] = newMixedSquare(rnd, k)
	}
	var cases []mCase
	if p := os.Getenv("VERIF_CASES"); p != "" {
		if err := vh.ReadJSON(p, &cases); err != nil {
			t.Fatalf("cases: %v", err)
		}
	}
	w.runCases(cases)
	w.servedBlocks()
	w.servedFromStores()
	var behs []behaviour
	if p := os.Getenv("VERIF_BEHAVIOURS"); p != "" {
		if err := vh.ReadJSON(p, &behs); err != nil {
			t.Fatalf("behaviours: %v", err)
		}
	}
	w.replayAll(behs)
	w.mutatedBlocks()
	if p := os.Getenv("VERIF_CID_CASES"); p != "" {
		w.cidCases(p)
	}
	writeReport(t, rep)
}

// pickIDs chooses the concrete identifiers the cases of one block type are run on.
func (w *world) pickIDs(width int, typ string) []idSpec {
	all := allIDs(width)[typ]
	limit := vh.EnvInt("VERIF_IDS_PER_TYPE", 0)
	if limit <= 0 || len(all) <= limit {
		return all
	}
	out := make([]idSpec, 0, limit)
	for _, i := range w.rnd.Perm(len(all))[:limit] {
		out = append(out, all[i])
	}
	return out
}

func otherID(all []idSpec, a idSpec, rnd *rand.Rand) (idSpec, bool) {
	if len(all) < 2 {
		return idSpec{}, false
	}
	for {
		b := all[rnd.Intn(len(all))]
		if b != a {
			return b, true
		}
	}
}

// runCases: B3.  For every concrete identifier A (bound to the model's "a"; "b" is another identifier
// of the same type) and every CASE: bring the requester into the case's state, run the real hasher on
// the materialised message, compare the verdict, evaluate the oracle on the requester's container.
func (w *world) runCases(cases []mCase) {
	uniq := map[string]mCase{}
	for _, c := range cases {
		uniq[fmt.Sprintf("%+v", c)] = c
	}
	w.rep.Set("distinct_cases", len(uniq))
	variant := 0
	for _, width := range []int{1, 2, 4} {
		for _, typ := range []string{"sample", "row", "rnd", "range"} {
			all := allIDs(width)[typ]
			for _, a := range w.pickIDs(width, typ) {
				bID, okB := otherID(all, a, w.rnd)
				for _, c := range uniq {
					if !okB && (c.M.Cid == "b" || c.M.Body.Of == "b") {
						continue // a 1x1 square has a single identifier of this type
					}
					variant++
					b := &binding{sqS: w.S[width], sqT: w.T[width], height: w.nextHeight(), ids: map[string]idSpec{"a": a, "b": bID}}
					pan, pv := vh.Recover(func() { w.oneCase(c, b, variant) })
					if pan {
						w.rep.Violate("C10/case/panic", fmt.Sprintf("panic while running case %+v on %v: %s", c, a, pv), map[string]any{"case": c, "id": a, "width": width})
					}
				}
			}
		}
	}
}

func (w *world) oneCase(c mCase, b *binding, variant int) {
	rep := w.rep
	r := newRun(w, false)
	defer r.teardown()
	a := b.ids["a"]
	replay := map[string]any{"case": c, "a": a, "b": b.ids["b"], "width": b.sqS.w, "variant": variant}
	var fs *fetchState
	// requester state: the model's cases have f1 asking for "a" only
	requestedName := "a"
	if c.Pending {
		if c.M.Cid != requestedName {
			rep.Inconclusivef("case %+v: pending entry for an identifier nobody requested", c)
			return
		}
		var err error
		fs, err = r.startFetch("f1", b, []string{"a"})
		if err != nil {
			rep.Inconclusivef("case: cannot start Fetch for %v: %v", a, err)
			return
		}
		if _, err := r.waitFor("GetBlocks", func(e event) bool { return e.kind == "getblocks" }); err != nil {
			rep.Inconclusivef("case: %v", err)
			return
		}
	}
	ref, refContainer, err := w.served(a, b.height, b.sqS)
	if err != nil {
		rep.Inconclusivef("case: cannot serve reference for %v: %v", a, err)
		return
	}
	if c.PopBefore && fs == nil {
		rep.Inconclusivef("case %+v: populated but not pending", c)
		return
	}
	if c.PopBefore {
		// fill the request first (honest block through the hasher, NOT handed to the channel)
		k, err, pan := sum(ref.Cid().Prefix(), ref.RawData())
		if err != nil || pan != "" || !k.Equals(ref.Cid()) || isEmpty(fs.reals[0]) {
			rep.Violate("C10/served-block-rejected", fmt.Sprintf("%v: honest served block not accepted while pending: err=%v %s", a, err, pan), replay)
			return
		}
	}
	data, prefix, sentContainer, err := w.materialise(c.M, b, variant)
	if err != nil {
		rep.Inconclusivef("case: cannot materialise %+v for %v: %v", c.M, a, err)
		return
	}
	// does the block carry exactly the committed data of A under A's CID?  (In a 1x1 ODS all four EDS
	// shares are equal, so "another identifier's" container can be byte-identical: harmless.)
	carriesCommitted := c.M.Env == "ok" && c.M.Wf == "ok" && c.M.Cid == "a" && bytes.Equal(sentContainer, refContainer)
	before := []byte(nil)
	if fs != nil {
		before = containerBytes(fs.reals[0])
	}
	got, serr, pan := sum(prefix, data)
	rep.Count("cases_run", 1)
	if pan != "" {
		rep.Violate("C10/hasher/panic", fmt.Sprintf("hasher panics on %+v for %v: %s", c.M, a, pan), replay)
		return
	}
	accepted := serr == nil
	// ---- the property's oracle on the requester's container
	if fs != nil {
		after := containerBytes(fs.reals[0])
		switch {
		case isEmpty(fs.reals[0]):
		case !bytes.Equal(after, refContainer) || verifies(fs.reals[0], b.sqS) != nil:
			rep.Violate("C10/filled-with-unverified-data", fmt.Sprintf("%v filled by %+v with data that is not the committed data (verify: %v)", a, c.M, verifies(fs.reals[0], b.sqS)), replay)
			return
		}
		if !accepted && !bytes.Equal(before, after) {
			rep.Violate("C10/rejected-block-changed-request", fmt.Sprintf("%v: rejected block %+v changed the requester's container", a, c.M), replay)
			return
		}
	}
	requested := b.cidOf("a")
	handed := accepted && got.Equals(requested)
	honestForA := c.M.Env == "ok" && c.M.Wf == "ok" && c.M.Cid == "a" && c.M.Body.Kind == "honest" && c.M.Body.Of == "a" && c.M.Body.Sq == "S"
	if handed && !carriesCommitted {
		if c.PopBefore {
			// UnmarshalFn returns nil for a populated Block without looking at the bytes
			rep.Violate("C10/hasher/unverified-bytes-accepted-for-populated-request",
				fmt.Sprintf("%v already filled: block %+v (does not verify for it) passes the hasher and would be handed to Fetch / stored", a, c.M), replay)
		} else {
			rep.Violate("C10/hasher/unverified-bytes-accepted", fmt.Sprintf("%v pending: block %+v passes the hasher with the requested CID", a, c.M), replay)
			return
		}
	}
	// oracle first (whatever the model says): the honest block of a pending request passes the hasher,
	// and with the right prefix it comes back under the requested CID
	if honestForA && c.Pending && (!accepted || (c.M.PrefixOK && !handed)) {
		rep.Violate("C10/served-block-rejected", fmt.Sprintf("%v: honest block for the pending request rejected: %v", a, serr), replay)
		return
	}
	// ---- conformance with the model's verdict
	if accepted != c.Accepted {
		harmless := accepted && fs != nil && !isEmpty(fs.reals[0]) && carriesCommitted // filled with the committed data
		if harmless {
			rep.Count("cases_real_accepts_identical_content_of_other_id", 1)
		} else if c.PopBefore && c.Accepted && !accepted && !carriesCommitted {
			// the model accepts these bytes only through the "already populated" shortcut (known finding);
			// a real hasher that refuses them is stricter than the model, which the property welcomes
			rep.Count("cases_real_stricter_than_populated_shortcut", 1)
		} else {
			rep.Inconclusivef("drift: case %+v on %v: model accepted=%v, real err=%v", c, a, c.Accepted, serr)
		}
	}
	// ---- full flow for a handed block: Fetch takes it from the channel, stores it, returns nil
	if handed && fs != nil && !c.PopBefore {
		blk, _ := blocks.NewBlockWithCid(data, got)
		fs.ex.send(blk)
		if _, err := r.waitFor("store", func(e event) bool { return e.kind == "stored" }); err != nil {
			rep.Inconclusivef("case: %v", err)
			return
		}
		fs.ex.close()
		e, err := r.waitFor("Fetch return", func(e event) bool { return e.kind == "done" })
		fs.done, fs.res = true, e
		if err != nil || e.err != nil || e.pan != "" {
			rep.Violate("C10/fetch/honest-block-not-delivered", fmt.Sprintf("%v: Fetch err=%v panic=%s", a, e.err, e.pan), replay)
			return
		}
		rep.Count("cases_full_flow", 1)
	}
	if rep.Counters["cases_run"]%499 == 1 {
		rep.Sample(map[string]any{"case": c, "id": a.String(), "width": b.sqS.w, "real_accepts": accepted, "handed": handed})
	}
}

// servedBlocks: ServedBlockAccepted on the real code, for EVERY identifier of the squares.
func (w *world) servedBlocks() {
	for _, width := range []int{1, 2, 4} {
		for typ, ids := range allIDs(width) {
			for _, a := range ids {
				b := &binding{sqS: w.S[width], sqT: w.T[width], height: w.nextHeight(), ids: map[string]idSpec{"a": a}}
				c := mCase{M: mMsg{Env: "ok", Wf: "ok", Cid: "a", PrefixOK: true, Body: mBody{Kind: "honest", Of: "a", Sq: "S"}}, Pending: true, Accepted: true}
				pan, pv := vh.Recover(func() { w.oneCase(c, b, 0) })
				if pan {
					w.rep.Violate("C10/served/panic", pv, map[string]any{"id": a, "width": width})
				}
				w.rep.Count("served_"+typ, 1)
			}
		}
	}
}

// mutatedBlocks: sampled complement -- byte-level mutations of honest blocks against a pending request.
func (w *world) mutatedBlocks() {
	n := vh.EnvInt("VERIF_MUTATIONS", 2000)
	rnd := rand.New(rand.NewSource(vh.Seed()*31 + 5))
	types := []string{"sample", "row", "rnd", "range"}
	for i := 0; i < n; i++ {
		width := []int{2, 4}[rnd.Intn(2)]
		all := allIDs(width)[types[i%4]]
		a := all[rnd.Intn(len(all))]
		b := &binding{sqS: w.S[width], sqT: w.T[width], height: w.nextHeight(), ids: map[string]idSpec{"a": a}}
		func() {
			r := newRun(w, false)
			defer r.teardown()
			fs, err := r.startFetch("f1", b, []string{"a"})
			if err != nil {
				w.rep.Inconclusivef("mutations: %v", err)
				return
			}
			if _, err := r.waitFor("GetBlocks", func(e event) bool { return e.kind == "getblocks" }); err != nil {
				w.rep.Inconclusivef("mutations: %v", err)
				return
			}
			ref, refContainer, err := w.served(a, b.height, b.sqS)
			if err != nil {
				w.rep.Inconclusivef("mutations: %v", err)
				return
			}
			data := append([]byte{}, ref.RawData()...)
			for k := rnd.Intn(3) + 1; k > 0; k-- {
				switch rnd.Intn(4) {
				case 0:
					data[rnd.Intn(len(data))] ^= byte(1 << rnd.Intn(8))
				case 1:
					data = data[:rnd.Intn(len(data))+1]
				case 2:
					data = append(data, byte(rnd.Intn(256)))
				case 3:
					j := rnd.Intn(len(data))
					data[j] = byte(rnd.Intn(256))
				}
			}
			same := bytes.Equal(data, ref.RawData())
			got, serr, pan := sum(ref.Cid().Prefix(), data)
			w.rep.Count("mutated_blocks", 1)
			replay := map[string]any{"id": a, "width": width, "data": fmt.Sprintf("%x", data)}
			if pan != "" {
				w.rep.Violate("C10/hasher/panic", fmt.Sprintf("hasher panics on a mutated block for %v: %s", a, pan), replay)
				return
			}
			if !isEmpty(fs.reals[0]) && (!bytes.Equal(containerBytes(fs.reals[0]), refContainer) || verifies(fs.reals[0], b.sqS) != nil) {
				w.rep.Violate("C10/filled-with-unverified-data", fmt.Sprintf("%v filled from a mutated block with data that is not the committed data", a), replay)
				return
			}
			if serr == nil && got.Equals(ref.Cid()) {
				w.rep.Count("mutated_blocks_accepted", 1) // mutation hit something irrelevant (e.g. unknown proto field); data is the committed data
			}
			_ = same
		}()
	}
}
