package bitswapdrv

// ServedBlockAccepted on the representations a serving node really has.  The square is put into a
// REAL store.Store and served through bitswap.Blockstore{Getter: store}:
//   recent     just put: GetByHeight answers from the recent-blocks cache (in-memory square)
//   odsq4      store reopened without cache: ODS file + Q4 file (how a full/bridge node holds heights
//              inside the availability window; rows >= odsSize are read from Q4 as the PARITY half)
//   ods        put as ODS only, reopened
//   q4pruned   put as ODS+Q4, Q4 removed (what the pruner leaves of an old height), reopened
// For every sample / row / row-namespace / range identifier of the square the served bytes go through
// the real hasher while a real Fetch has the request pending; they must be accepted under the
// requested CID, fill the request with data that verifies and equals the committed data, and Fetch
// must return nil.

import (
	"bytes"
	"context"
	"fmt"
	"os"
	"path/filepath"

	blocks "github.com/ipfs/go-block-format"

	"github.com/celestiaorg/celestia-node/share"
	"github.com/celestiaorg/celestia-node/share/shwap/p2p/bitswap"
	"github.com/celestiaorg/celestia-node/store"

	"verifharness/vh"
)

type representation struct {
	name   string
	getter bitswap.AccessorGetter
	height uint64
}

// representations builds the stores for one square; cleanup removes the directories.
func (w *world) representations(sq *square, tag string) (reps []representation, cleanup func(), err error) {
	ctx := context.Background()
	base, err := os.MkdirTemp(vh.WorkDir(), "c10store_"+tag+"_")
	if err != nil {
		return nil, func() {}, err
	}
	cleanup = func() { os.RemoveAll(base) }
	datahash := share.DataHash(sq.roots.Hash())
	noCache := &store.Parameters{RecentBlocksCacheSize: 0}
	open := func(dir string, p *store.Parameters) (*store.Store, error) {
		if err := os.MkdirAll(filepath.Join(base, dir), 0o755); err != nil {
			return nil, err
		}
		return store.NewStore(p, filepath.Join(base, dir))
	}
	h := w.nextHeight()

	// recent + odsq4 share one directory
	st, err := open("a", store.DefaultParameters())
	if err != nil {
		return nil, cleanup, err
	}
	if err = st.PutODSQ4(ctx, sq.roots, h, sq.acc.ExtendedDataSquare); err != nil {
		return nil, cleanup, fmt.Errorf("PutODSQ4: %w", err)
	}
	reps = append(reps, representation{"recent", st, h})
	re, err := open("a", noCache)
	if err != nil {
		return nil, cleanup, err
	}
	if has, _ := re.HasQ4ByHash(ctx, datahash); !has {
		return nil, cleanup, fmt.Errorf("Q4 file missing after PutODSQ4")
	}
	reps = append(reps, representation{"odsq4", re, h})

	so, err := open("b", store.DefaultParameters())
	if err != nil {
		return nil, cleanup, err
	}
	if err = so.PutODS(ctx, sq.roots, h, sq.acc.ExtendedDataSquare); err != nil {
		return nil, cleanup, fmt.Errorf("PutODS: %w", err)
	}
	ro, err := open("b", noCache)
	if err != nil {
		return nil, cleanup, err
	}
	reps = append(reps, representation{"ods", ro, h})

	sp, err := open("c", store.DefaultParameters())
	if err != nil {
		return nil, cleanup, err
	}
	if err = sp.PutODSQ4(ctx, sq.roots, h, sq.acc.ExtendedDataSquare); err != nil {
		return nil, cleanup, fmt.Errorf("PutODSQ4: %w", err)
	}
	if err = sp.RemoveQ4(ctx, h, datahash); err != nil {
		return nil, cleanup, fmt.Errorf("RemoveQ4: %w", err)
	}
	rp, err := open("c", noCache)
	if err != nil {
		return nil, cleanup, err
	}
	if has, _ := rp.HasQ4ByHash(ctx, datahash); has {
		return nil, cleanup, fmt.Errorf("Q4 file still there after RemoveQ4")
	}
	reps = append(reps, representation{"q4pruned", rp, h})
	return reps, cleanup, nil
}

func (w *world) servedFromStores() {
	run := func(sq *square, tag string, ids []idSpec, memory bool) {
		reps, cleanup, err := w.representations(sq, tag)
		defer cleanup()
		if err != nil {
			w.rep.Inconclusivef("served-from-store: cannot prepare the stores for %s: %v", tag, err)
			return
		}
		if memory {
			reps = append([]representation{{"memory", accGetter{sq}, reps[0].height}}, reps...)
		}
		for _, rp := range reps {
			for _, a := range ids {
				pan, pv := vh.Recover(func() { w.oneServed(rp, sq, a) })
				if pan {
					w.rep.Violate("C10/served/panic", fmt.Sprintf("%s from %s store (width %d): %s", a, rp.name, sq.w, pv),
						map[string]any{"id": a, "width": sq.w, "representation": rp.name})
				}
			}
		}
	}
	for _, width := range []int{1, 2, 4} {
		var ids []idSpec
		for _, typ := range []string{"row", "sample", "rnd", "range"} {
			ids = append(ids, allIDs(width)[typ]...)
		}
		run(w.S[width], fmt.Sprint(width), ids, false) // the in-memory accessor is swept by servedBlocks
	}
	// row-namespace-data identifiers of squares with several namespaces: present, absent inside the
	// row's range (honest answer: no shares + absence proof), outside the range (the node refuses)
	for _, width := range []int{2, 4} {
		run(w.M[width], fmt.Sprintf("mixed%d", width), w.M[width].mixedRndIDs(), true)
	}
}

func (w *world) oneServed(rp representation, sq *square, a idSpec) {
	rep := w.rep
	ctx := context.Background()
	replay := map[string]any{"id": a, "width": sq.w, "representation": rp.name}
	b := &binding{sqS: sq, sqT: sq, height: rp.height, ids: map[string]idSpec{"a": a}}
	class := ""
	if sq.layout != nil && a.Typ == "rnd" {
		class = sq.rndClass(a.Row, a.Ns)
		replay["class"] = class
	}
	if class == "outside" {
		// Expected: the namespace is not inside [min,max] of the row root, so share.RowsWithNamespace never
		// selects this row (the getter does not ask) and a node that is asked anyway refuses: Populate fails
		// with ErrNamespaceOutsideRange and Blockstore.Get returns an error.  Serving anything would be
		// wrong: nothing can verify for such an identifier.
		eb, err := a.newBlock(rp.height, sq)
		if err != nil {
			rep.Inconclusivef("served-from-store: cannot build %v: %v", a, err)
			return
		}
		blk, err := (&bitswap.Blockstore{Getter: rp.getter}).Get(ctx, eb.CID())
		rep.Count("served_rnd_outside_refused", 1)
		if err == nil {
			rep.Count("served_rnd_outside_refused", -1)
			rep.Violate("C10/served/outside-range-namespace-served", fmt.Sprintf("%v (width %d, %s): the namespace is outside the row's range, yet Blockstore.Get serves %d bytes", a, sq.w, rp.name, len(blk.RawData())), replay)
		}
		return
	}
	// reference: the committed data as the in-memory square gives it
	_, refContainer, err := w.served(a, rp.height, sq)
	if err != nil {
		if class != "" {
			rep.Violate("C10/served/blockstore-get-fails", fmt.Sprintf("%v (width %d, namespace %s in the row): the in-memory accessor cannot serve the honest answer: %v", a, sq.w, class, err), replay)
			return
		}
		rep.Inconclusivef("served-from-store: no reference for %v: %v", a, err)
		return
	}
	r := newRun(w, false)
	defer r.teardown()
	fs, err := r.startFetch("f1", b, []string{"a"})
	if err != nil {
		rep.Inconclusivef("served-from-store: cannot start Fetch for %v: %v", a, err)
		return
	}
	if _, err := r.waitFor("GetBlocks", func(e event) bool { return e.kind == "getblocks" }); err != nil {
		rep.Inconclusivef("served-from-store: %v", err)
		return
	}
	want := fs.reals[0].CID()
	bs := &bitswap.Blockstore{Getter: rp.getter}
	blk, err := bs.Get(ctx, want)
	rep.Count("served_store_"+rp.name, 1)
	if class != "" {
		rep.Count("served_rnd_"+class, 1)
	}
	if err != nil {
		rep.Violate("C10/served/blockstore-get-fails", fmt.Sprintf("%v (width %d%s): Blockstore.Get over the %s store fails for an identifier of the stored square: %v", a, sq.w, classNote(class), rp.name, err), replay)
		return
	}
	got, serr, pan := sum(blk.Cid().Prefix(), blk.RawData())
	if pan != "" {
		rep.Violate("C10/hasher/panic", fmt.Sprintf("hasher panics on the block served for %v from the %s store: %s", a, rp.name, pan), replay)
		return
	}
	if serr != nil || !got.Equals(want) || !blk.Cid().Equals(want) {
		rep.Violate("C10/served-block-rejected", fmt.Sprintf("%v (width %d): the block a node serves from its %s store is rejected by the requester: %v", a, sq.w, rp.name, serr), replay)
		return
	}
	if isEmpty(fs.reals[0]) {
		rep.Violate("C10/served-block-rejected", fmt.Sprintf("%v (width %d): block served from the %s store accepted but the request is not filled", a, sq.w, rp.name), replay)
		return
	}
	if verr := verifies(fs.reals[0], sq); verr != nil || !bytes.Equal(containerBytes(fs.reals[0]), refContainer) {
		rep.Violate("C10/served-block-wrong-data", fmt.Sprintf("%v (width %d): block served from the %s store fills the request with data that is not the committed data (verify: %v)", a, sq.w, rp.name, verr), replay)
		return
	}
	if class != "" {
		// the honest answer for an absent namespace is "no shares + a verifying proof of absence"
		c := fs.reals[0].(*bitswap.RowNamespaceDataBlock).Container
		absent := class == "absent-inside"
		if (len(c.Shares) == 0) != absent || c.Proof == nil || c.Proof.IsOfAbsence() != absent {
			rep.Violate("C10/served-block-wrong-data", fmt.Sprintf("%v (width %d, %s, namespace %s): request filled with %d shares, absence proof=%v",
				a, sq.w, rp.name, class, len(c.Shares), c.Proof != nil && c.Proof.IsOfAbsence()), replay)
			return
		}
	}
	nb, _ := blocks.NewBlockWithCid(blk.RawData(), got)
	fs.ex.send(nb)
	if _, err := r.waitFor("store", func(e event) bool { return e.kind == "stored" }); err != nil {
		rep.Inconclusivef("served-from-store: %v", err)
		return
	}
	fs.ex.close()
	e, err := r.waitFor("Fetch return", func(e event) bool { return e.kind == "done" })
	fs.done, fs.res = true, e
	if err != nil || e.err != nil || e.pan != "" {
		rep.Violate("C10/fetch/honest-block-not-delivered", fmt.Sprintf("%v from the %s store: Fetch err=%v panic=%s", a, rp.name, e.err, e.pan), replay)
		return
	}
	rep.Count("served_store_ok", 1)
}

func classNote(class string) string {
	if class == "" {
		return ""
	}
	return ", namespace " + class + " in the row"
}
