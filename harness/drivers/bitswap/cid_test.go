package bitswapdrv

// Identifier <-> CID (second sentence of C10) on the cases TLC enumerated from
// spec/shwap/ShwapIDs.tla: every boundary-lattice identifier of the four Bitswap block types and every
// malformed CID framing.  (harness/drivers/ids runs the same cases together with the binary codecs.)

import (
	"bytes"
	"fmt"
	"math/big"

	"github.com/ipfs/go-cid"

	libshare "github.com/celestiaorg/go-square/v4/share"

	"github.com/celestiaorg/celestia-node/share/shwap"
	"github.com/celestiaorg/celestia-node/share/shwap/p2p/bitswap"

	"verifharness/vh"
)

type limbs []int64

func (l limbs) big() *big.Int {
	if len(l) == 1 && l[0] < 0 {
		return big.NewInt(l[0])
	}
	v := new(big.Int)
	for _, x := range l {
		v.Lsh(v, 16)
		v.Add(v, big.NewInt(x))
	}
	return v
}

type lID struct {
	T    string `json:"t"`
	H    limbs  `json:"h"`
	R    limbs  `json:"r"`
	C    limbs  `json:"c"`
	From limbs  `json:"from"`
	To   limbs  `json:"to"`
	Ns   []int  `json:"ns"`
}

type lCase struct {
	C struct {
		Kind string `json:"kind"`
		ID   *lID   `json:"id"`
		Size int    `json:"size"`
		T    string `json:"t"`
		Why  string `json:"why"`
	} `json:"c"`
	Stage string `json:"stage"`
	Cidw  []int  `json:"cidw"`
	Back  lID    `json:"back"`
}

type flat struct {
	T        string
	H        uint64
	R, C     int
	From, To int
	Ns       string
}

func (m *lID) flat() flat {
	b := make([]byte, len(m.Ns))
	for i, x := range m.Ns {
		b[i] = byte(x)
	}
	return flat{T: m.T, H: m.H.big().Uint64(), R: int(m.R.big().Int64()), C: int(m.C.big().Int64()),
		From: int(m.From.big().Int64()), To: int(m.To.big().Int64()), Ns: string(b)}
}

func flatOf(b bitswap.Block) flat {
	switch x := b.(type) {
	case *bitswap.RowBlock:
		return flat{T: "row", H: x.ID.Height(), R: x.ID.RowIndex}
	case *bitswap.SampleBlock:
		return flat{T: "sample", H: x.ID.Height(), R: x.ID.RowIndex, C: x.ID.ShareIndex}
	case *bitswap.RowNamespaceDataBlock:
		return flat{T: "rnd", H: x.ID.Height(), R: x.ID.RowIndex, Ns: string(x.ID.DataNamespace.Bytes())}
	case *bitswap.RangeNamespaceDataBlock:
		return flat{T: "rangev0", H: x.ID.Height(), From: x.ID.From, To: x.ID.To}
	}
	return flat{T: "?"}
}

func blockFor(v flat, size int) (bitswap.Block, error) {
	switch v.T {
	case "row":
		return bitswap.NewEmptyRowBlock(v.H, v.R, size)
	case "sample":
		return bitswap.NewEmptySampleBlock(v.H, shwap.SampleCoords{Row: v.R, Col: v.C}, size)
	case "rnd":
		ns, err := libshare.NewNamespaceFromBytes([]byte(v.Ns))
		if err != nil {
			return nil, fmt.Errorf("HARNESS %w", err)
		}
		return bitswap.NewEmptyRowNamespaceDataBlock(v.H, v.R, ns, size)
	case "rangev0":
		return bitswap.NewEmptyRangeNamespaceDataBlock(v.H, v.From, v.To, size)
	}
	return nil, fmt.Errorf("HARNESS not a bitswap type %s", v.T)
}

func (w *world) cidCases(path string) {
	var cases []lCase
	if err := vh.ReadJSON(path, &cases); err != nil {
		w.rep.Inconclusivef("cid cases: %v", err)
		return
	}
	rep := w.rep
	for i := range cases {
		c := &cases[i]
		pan, pv := vh.Recover(func() {
			switch c.C.Kind {
			case "id":
				v := c.C.ID.flat()
				modelAccepts := c.Stage != "refused"
				blk, err := blockFor(v, c.C.Size)
				if err != nil {
					rep.Count("cid_id_refused", 1)
					if modelAccepts {
						rep.Inconclusivef("drift: NewEmpty<%s>Block refuses %+v (size %d) which the specification constructs: %v", v.T, v, c.C.Size, err)
					}
					return
				}
				k := blk.CID() // a panic here is caught below
				if modelAccepts && len(c.Cidw) > 0 {
					spec := make([]byte, len(c.Cidw))
					for j, x := range c.Cidw {
						spec[j] = byte(x)
					}
					if !bytes.Equal(spec, k.Bytes()) {
						rep.Inconclusivef("drift: CID framing of %s: real %x, specified %x", v.T, k.Bytes(), spec)
					}
				}
				k2, err := cid.Cast(k.Bytes())
				var back bitswap.Block
				if err == nil {
					back, err = bitswap.EmptyBlock(k2)
				}
				if err != nil || flatOf(back) != v {
					got := "refused: " + fmt.Sprint(err)
					if err == nil {
						got = fmt.Sprintf("%+v", flatOf(back))
					}
					rep.Violate("C10/cid/"+v.T+"/id-to-cid-not-invertible",
						fmt.Sprintf("identifier %+v (square size %d) -> CID %s -> %s: the CID does not name the identifier that was requested", v, c.C.Size, k, got), c)
					return
				}
				rep.Count("cid_roundtrips_ok", 1)
			case "cid":
				b := make([]byte, len(c.Cidw))
				for j, x := range c.Cidw {
					b[j] = byte(x)
				}
				k, err := cid.Cast(b)
				var blk bitswap.Block
				if err == nil {
					blk, err = bitswap.EmptyBlock(k)
				}
				modelRejects := c.Back.T == "REJECT"
				switch {
				case err == nil && modelRejects:
					rep.Violate("C10/cid/"+c.C.T+"/accepts-"+c.C.Why, fmt.Sprintf("malformed CID (%s) %x accepted as %+v", c.C.Why, b, flatOf(blk)), c)
				case err != nil && !modelRejects:
					rep.Inconclusivef("drift: well-formed CID %x refused: %v", b, err)
				case err == nil:
					if !bytes.Equal(blk.CID().Bytes(), b) {
						rep.Violate("C10/cid/"+c.C.T+"/cast-guesses", fmt.Sprintf("CID %x is read as a block whose CID is %x", b, blk.CID().Bytes()), c)
					}
					rep.Count("cid_accepted", 1)
				default:
					rep.Count("cid_rejected", 1)
				}
			}
		})
		if pan {
			rep.Violate("C10/cid/panic", fmt.Sprintf("panic on identifier/CID case %+v: %s", c.C, pv), c)
		}
	}
	rep.Set("cid_cases", len(cases))
}
