// Package headerdrv binds spec/header/Header.tla to the real header package (binding B3, case
// enumeration): every state TLC enumerated -- (chain, header, <=2 composed structured mutations[,
// trusted header]) -- is materialised with real ed25519 keys, real signatures over real canonical
// votes, real data availability headers of real extended squares, and thrown at the real
// ExtendedHeader.Validate / Verify / Hash / MsgID / (Un)Marshal{Binary,JSON}.
//
// Oracles (a VIOLATION is only ever raised from what the real code did, judged by an independent
// reference evaluation of the property's own definitions on the very bytes that were validated):
//
//	real Validate accepts  /\  ~RefConsistent(real header)                     => violation
//	an unmutated header of an honest chain is rejected                          => violation
//	real Validate /\ real Verify accept  /\  ~RefVerifyConsistent(trusted, u)  => violation
//	an honest chain does not verify (adjacent or not)                           => violation
//	binary / JSON re-encoding changes the verdict, Hash() or the message id     => violation
//	message id equal <=/=> same block id (for decodable commits)                => violation
//	Hash() of an accepted header differs from the recomputed header hash        => violation
//
// Conformance (never a violation, reported as inconclusive): the model's verdict (ImplValidate /
// ImplVerify / Consistent of Header.tla) differs from the real verdict / the reference evaluation.
package headerdrv

import (
	"bytes"
	"crypto/sha256"
	"encoding/binary"
	"errors"
	"fmt"
	"sort"
	"strings"
	"sync"
	"testing"
	"time"

	"github.com/cometbft/cometbft/crypto/ed25519"
	"github.com/cometbft/cometbft/crypto/merkle"
	cmtproto "github.com/cometbft/cometbft/proto/tendermint/types"
	"github.com/cometbft/cometbft/proto/tendermint/version"
	"github.com/cometbft/cometbft/types"
	pubsubpb "github.com/libp2p/go-libp2p-pubsub/pb"

	"github.com/celestiaorg/celestia-app/v9/pkg/appconsts"
	"github.com/celestiaorg/celestia-app/v9/pkg/da"
	libhead "github.com/celestiaorg/go-header"

	"github.com/celestiaorg/celestia-node/header"
	"github.com/celestiaorg/celestia-node/share"
	"github.com/celestiaorg/celestia-node/share/eds/edstest"

	"verifharness/vh"
)

// ---------------------------------------------------------------- input (printed by TLC)

type mut struct {
	K string `json:"k"`
	F string `json:"f"`
	V string `json:"v"`
	A int    `json:"a"`
	B int    `json:"b"`
	S []int  `json:"s"`
}

func (m mut) String() string {
	return fmt.Sprintf("%s.%s(%s,%d,%d,%v)", m.K, m.F, m.V, m.A, m.B, m.S)
}

type kase struct {
	C         string `json:"c"`
	I         int    `json:"i"`
	T         int    `json:"t"`
	M         []mut  `json:"m"`
	Iv        string `json:"iv"`
	Cons      bool   `json:"cons"`
	Cd        bool   `json:"cd"`
	Cv        bool   `json:"cv"`
	Cc        bool   `json:"cc"`
	Cp        bool   `json:"cp"`
	SameBlock bool   `json:"sameBlock"`
	Cbasic    bool   `json:"cbasic"`
	Ver       string `json:"ver"`
	Vcons     bool   `json:"vcons"`
	Adj       bool   `json:"adj"`
}

func (k kase) id() string {
	ms := make([]string, len(k.M))
	for i, m := range k.M {
		ms[i] = m.String()
	}
	return fmt.Sprintf("%s[%d] t=%d %s", k.C, k.I, k.T, strings.Join(ms, " ; "))
}

type chainRec struct {
	C    string     `json:"c"`
	N    int        `json:"n"`
	W    int        `json:"w"`
	Sets [][][2]int `json:"sets"` // per height (1..n+1): [[id, power], ...]
}

type forgeRec struct {
	F       string   `json:"f"`
	Vs      [][2]int `json:"vs"`
	Signers []int    `json:"signers"`
}

type input struct {
	Chains []chainRec `json:"chains"`
	Forges []forgeRec `json:"forges"`
	Cases  []kase     `json:"cases"`
}

// ---------------------------------------------------------------- concrete header under construction

type valE struct {
	id       int   // key
	power    int64 //
	addrFrom int   // 0: the key's own address; otherwise the address of that key (a lie)
}

// hdr is the concrete counterpart of the abstract header record of Header.tla. Signatures are real
// bytes produced at the moment the abstract signature was created, and never refreshed afterwards.
type hdr struct {
	raw         types.Header
	rows, cols  [][]byte
	vals        []valE
	valsTouched bool // false: the set is an honest one (built by types.NewValidatorSet)
	cHeight     int64
	cRound      int32
	cBlock      types.BlockID
	sigs        []types.CommitSig
	t0          time.Time // <<"t", i>> of the chain position this header was built for
}

func cloneBB(in [][]byte) [][]byte { return append([][]byte(nil), in...) }

func (h *hdr) clone() *hdr {
	c := *h
	c.rows, c.cols = cloneBB(h.rows), cloneBB(h.cols)
	c.vals = append([]valE(nil), h.vals...)
	c.sigs = append([]types.CommitSig(nil), h.sigs...)
	return &c
}

type drv struct {
	t      *testing.T
	rep    *vh.Report
	priv   map[int]ed25519.PrivKey
	addr   map[int][]byte
	chains map[string][]*hdr // valid headers, index 1..n (0 unused)
	recs   map[string]chainRec
	forges map[string]forgeRec
	seed   int64
}

// det returns deterministic pseudo-random bytes for a label (seeded).
func (d *drv) det(label string, n int) []byte {
	out := make([]byte, 0, n)
	var ctr uint32
	for len(out) < n {
		var b [12]byte
		binary.BigEndian.PutUint64(b[:8], uint64(d.seed))
		binary.BigEndian.PutUint32(b[8:], ctr)
		s := sha256.Sum256(append(b[:], label...))
		out = append(out, s[:]...)
		ctr++
	}
	return out[:n]
}

func (d *drv) initKeys() {
	// nine keys; ids are handed out so that addresses ascend with the ids (the real ValidatorSet orders
	// equal powers by address, the model lists them by id)
	var ks []ed25519.PrivKey
	for i := 0; i < 9; i++ {
		ks = append(ks, ed25519.GenPrivKeyFromSecret(d.det(fmt.Sprintf("key-%d", i), 32)))
	}
	sort.Slice(ks, func(a, b int) bool {
		return bytes.Compare(ks[a].PubKey().Address(), ks[b].PubKey().Address()) < 0
	})
	d.priv, d.addr = map[int]ed25519.PrivKey{}, map[int][]byte{}
	for i, k := range ks {
		d.priv[i+1] = k
		d.addr[i+1] = k.PubKey().Address()
	}
}

func (d *drv) addrOf(v valE) []byte {
	if v.addrFrom != 0 {
		return d.addr[v.addrFrom]
	}
	return d.addr[v.id]
}

func (d *drv) validator(v valE) *types.Validator {
	return &types.Validator{Address: d.addrOf(v), PubKey: d.priv[v.id].PubKey(), VotingPower: v.power}
}

func (d *drv) valset(h *hdr) *types.ValidatorSet {
	vs := make([]*types.Validator, len(h.vals))
	for i, v := range h.vals {
		vs[i] = d.validator(v)
	}
	if !h.valsTouched && len(vs) > 0 {
		return types.NewValidatorSet(vs) // the honest construction (sorted, proposer priorities)
	}
	out := &types.ValidatorSet{Validators: vs}
	if len(vs) > 0 {
		out.Proposer = vs[0].Copy()
	}
	return out
}

func valsetHash(vs *types.ValidatorSet) []byte {
	bzs := make([][]byte, len(vs.Validators))
	for i, v := range vs.Validators {
		bzs[i] = v.Bytes()
	}
	return merkle.HashFromByteSlices(bzs)
}

// build materialises fresh real structs (no memoised hashes / totals carried over).
func (d *drv) build(h *hdr) *header.ExtendedHeader {
	raw := h.raw
	return &header.ExtendedHeader{
		RawHeader:    raw,
		Commit:       &types.Commit{Height: h.cHeight, Round: h.cRound, BlockID: h.cBlock, Signatures: append([]types.CommitSig(nil), h.sigs...)},
		ValidatorSet: d.valset(h),
		DAH:          &da.DataAvailabilityHeader{RowRoots: cloneBB(h.rows), ColumnRoots: cloneBB(h.cols)},
	}
}

// sign: key `key` signs the canonical precommit for (chain, height, round, block, ts); filed under addr.
func (d *drv) sign(key int, addr []byte, chain string, height int64, round int32, bid types.BlockID, ts time.Time, flag types.BlockIDFlag) types.CommitSig {
	v := &types.Vote{Type: cmtproto.PrecommitType, Height: height, Round: round, BlockID: bid, Timestamp: ts, ValidatorAddress: addr}
	sig, err := d.priv[key].Sign(types.VoteSignBytes(chain, v.ToProto()))
	if err != nil {
		panic(fmt.Sprintf("sign: %v", err))
	}
	return types.CommitSig{BlockIDFlag: flag, ValidatorAddress: addr, Timestamp: ts, Signature: sig}
}

func (d *drv) signAll(h *hdr, keyOf func(k int) int, ts time.Time) {
	h.sigs = make([]types.CommitSig, len(h.vals))
	for k, v := range h.vals {
		h.sigs[k] = d.sign(keyOf(k), d.addrOf(v), h.raw.ChainID, h.cHeight, h.cRound, h.cBlock, ts, types.BlockIDFlagCommit)
	}
}

func valsFrom(set [][2]int) []valE {
	out := make([]valE, len(set))
	for i, p := range set {
		out[i] = valE{id: p[0], power: int64(p[1])}
	}
	return out
}

func idealDahHash(rows, cols [][]byte) []byte {
	all := append(cloneBB(rows), cols...)
	return merkle.HashFromByteSlices(all)
}

// buildChain materialises the valid chain of the model: real squares, real roots, real signatures.
func (d *drv) buildChain(cr chainRec) []*hdr {
	out := make([]*hdr, cr.N+1)
	base := time.Unix(1_700_000_000, 0).UTC()
	var prev *hdr
	for i := 1; i <= cr.N; i++ {
		eds := edstest.RandEDS(d.t, cr.W/2)
		roots, err := share.NewAxisRoots(eds)
		if err != nil {
			d.t.Fatalf("roots: %v", err)
		}
		h := &hdr{rows: cloneBB(roots.RowRoots), cols: cloneBB(roots.ColumnRoots), vals: valsFrom(cr.Sets[i-1])}
		// the abstract DAH and the real one must have the same equalities between roots
		for k := range h.rows {
			if (cr.W == 2) != bytes.Equal(h.rows[k], h.cols[k]) {
				d.t.Fatalf("chain %s: root pattern of a width-%d square differs from the model", cr.C, cr.W)
			}
		}
		lbl := fmt.Sprintf("%s-%d-", cr.C, i)
		h.t0 = base.Add(time.Duration(i) * 12 * time.Second)
		next := &hdr{vals: valsFrom(cr.Sets[i])}
		h.raw = types.Header{
			Version:            version.Consensus{Block: 11, App: 1},
			ChainID:            "test",
			Height:             int64(i),
			Time:               h.t0,
			LastCommitHash:     d.det(lbl+"lch", 32),
			DataHash:           roots.Hash(),
			ValidatorsHash:     valsetHash(d.valset(h)),
			NextValidatorsHash: valsetHash(d.valset(next)),
			ConsensusHash:      d.det(lbl+"cons", 32),
			AppHash:            d.det(lbl+"app", 32),
			LastResultsHash:    d.det(lbl+"lrh", 32),
			EvidenceHash:       d.det(lbl+"ev", 32),
			ProposerAddress:    d.det(lbl+"prop", 20),
		}
		if prev == nil {
			h.raw.LastBlockID = types.BlockID{Hash: d.det(lbl+"prevh", 32), PartSetHeader: types.PartSetHeader{Total: 1, Hash: d.det(lbl+"prevp", 32)}}
		} else {
			h.raw.LastBlockID = prev.cBlock
		}
		h.cHeight, h.cRound = int64(i), 0
		h.cBlock = types.BlockID{Hash: h.raw.Hash(), PartSetHeader: types.PartSetHeader{Total: 1, Hash: d.det(lbl+"ps", 32)}}
		d.signAll(h, func(k int) int { return h.vals[k].id }, h.t0)
		// the honest set must come out of NewValidatorSet in the order the model lists it
		vs := d.valset(h)
		for k, v := range vs.Validators {
			if !bytes.Equal(v.Address, d.addr[h.vals[k].id]) {
				d.t.Fatalf("chain %s height %d: validator order differs from the model at %d", cr.C, i, k)
			}
		}
		out[i] = h
		prev = h
	}
	return out
}

// ---------------------------------------------------------------- mutations (mirror of Apply in Header.tla)

func removeAt[T any](s []T, k int) []T {
	out := append([]T(nil), s[:k]...)
	return append(out, s[k+1:]...)
}

var absentSig = types.CommitSig{BlockIDFlag: types.BlockIDFlagAbsent}

func (d *drv) t2(h *hdr) time.Time { return h.t0.Add(time.Hour) }
func (d *drv) t3(h *hdr) time.Time { return h.t0.Add(2 * time.Hour) }

func (d *drv) otherBlock() types.BlockID {
	return types.BlockID{Hash: d.det("other-block-hash", 32), PartSetHeader: types.PartSetHeader{Total: 1, Hash: d.det("other-block-parts", 32)}}
}

func (d *drv) apply(c string, i int, h *hdr, m mut) error {
	switch m.K {
	case "raw":
		return d.applyRaw(h, m)
	case "fix":
		switch m.F {
		case "dataHash":
			h.raw.DataHash = idealDahHash(h.rows, h.cols)
		case "validatorsHash":
			h.raw.ValidatorsHash = valsetHash(d.valset(h))
		case "commitHash":
			h.cBlock.Hash = h.raw.Hash()
		case "commitHeight":
			h.cHeight = h.raw.Height
		default:
			return fmt.Errorf("unknown fix %q", m.F)
		}
	case "resign":
		h.cBlock.Hash = h.raw.Hash()
		h.cHeight = h.raw.Height
		switch m.F {
		case "members":
			d.signAll(h, func(k int) int { return h.vals[k].id }, d.t2(h))
		case "outsiders":
			d.signAll(h, func(int) int { return 7 }, d.t2(h))
		default:
			return fmt.Errorf("unknown resign %q", m.F)
		}
	case "fork":
		if err := d.applyRaw(h, mut{K: "raw", F: m.F, V: "mut"}); err != nil {
			return err
		}
		h.cBlock.Hash = h.raw.Hash()
		h.cHeight = h.raw.Height
		d.signAll(h, func(k int) int { return h.vals[k].id }, d.t2(h))
	case "forge":
		fr, ok := d.forges[m.F]
		if !ok {
			return fmt.Errorf("unknown forgery %q", m.F)
		}
		h.vals, h.valsTouched = valsFrom(fr.Vs), true
		h.raw.ValidatorsHash = valsetHash(d.valset(h))
		h.cBlock.Hash = h.raw.Hash()
		h.cHeight = h.raw.Height
		signer := map[int]bool{}
		for _, s := range fr.Signers {
			signer[s] = true
		}
		h.sigs = make([]types.CommitSig, len(h.vals))
		for k, v := range h.vals {
			if signer[v.id] {
				h.sigs[k] = d.sign(v.id, d.addrOf(v), h.raw.ChainID, h.cHeight, h.cRound, h.cBlock, d.t2(h), types.BlockIDFlagCommit)
			} else {
				h.sigs[k] = absentSig
			}
		}
	case "dah":
		return d.applyDah(h, m)
	case "vs":
		return d.applyVs(h, m)
	case "commit":
		switch m.F {
		case "height":
			h.cHeight++
		case "round":
			h.cRound++
		case "hashmut":
			h.cBlock.Hash = d.det("commit-hash-mut", 32)
		case "hashnb":
			j := i - 1
			if i == 1 {
				j = i + 1
			}
			h.cBlock.Hash = d.chains[c][j].raw.Hash()
		case "parts":
			h.cBlock.PartSetHeader.Hash = d.det("commit-parts-mut", 32)
		case "appendsig":
			h.sigs = append(h.sigs, d.sign(9, d.addr[9], h.raw.ChainID, h.cHeight, h.cRound, h.cBlock, d.t2(h), types.BlockIDFlagCommit))
		default:
			return fmt.Errorf("unknown commit mutation %q", m.F)
		}
	case "sig":
		return d.applySig(h, m)
	case "sub":
		nb := d.chains[c][m.A]
		switch m.F {
		case "raw":
			h.raw = nb.raw
		case "dah":
			h.rows, h.cols = cloneBB(nb.rows), cloneBB(nb.cols)
		case "valset":
			h.vals, h.valsTouched = append([]valE(nil), nb.vals...), nb.valsTouched
		case "commit":
			h.cHeight, h.cRound, h.cBlock = nb.cHeight, nb.cRound, nb.cBlock
			h.sigs = append([]types.CommitSig(nil), nb.sigs...)
		case "sigs":
			h.sigs = append([]types.CommitSig(nil), nb.sigs...)
		case "blockId":
			h.cBlock = nb.cBlock
		case "dataHash":
			h.raw.DataHash = nb.raw.DataHash
		case "validatorsHash":
			h.raw.ValidatorsHash = nb.raw.ValidatorsHash
		case "lastBlockId":
			h.raw.LastBlockID = nb.raw.LastBlockID
		default:
			return fmt.Errorf("unknown part %q", m.F)
		}
	default:
		return fmt.Errorf("unknown mutation kind %q", m.K)
	}
	return nil
}

func (d *drv) applyRaw(h *hdr, m mut) error {
	lbl := "raw-" + m.F + "-" + m.V
	hashVal := func() ([]byte, error) {
		switch m.V {
		case "mut":
			return d.det(lbl, 32), nil
		case "badlen":
			return d.det(lbl, 31), nil
		case "empty":
			return nil, nil
		}
		return nil, fmt.Errorf("unknown replacement %q for %s", m.V, m.F)
	}
	var err error
	switch m.F {
	case "vblock":
		h.raw.Version.Block = 12
	case "vapp":
		switch m.V {
		case "ok2":
			h.raw.Version.App = 2
		case "zero":
			h.raw.Version.App = 0
		case "toonew":
			h.raw.Version.App = appconsts.Version + 1
		default:
			return fmt.Errorf("unknown app version %q", m.V)
		}
	case "chainId":
		if m.V == "toolong" {
			h.raw.ChainID = strings.Repeat("x", types.MaxChainIDLen+1)
		} else {
			h.raw.ChainID = "other-chain"
		}
	case "height":
		if m.V == "plus1" {
			h.raw.Height++
		} else {
			h.raw.Height = 0
		}
	case "time":
		h.raw.Time = h.raw.Time.Add(7 * time.Second)
	case "lastBlockId":
		switch m.V {
		case "mut":
			h.raw.LastBlockID.Hash = d.det(lbl, 32)
		case "mutparts":
			h.raw.LastBlockID.PartSetHeader.Hash = d.det(lbl, 32)
		case "badlen":
			h.raw.LastBlockID.Hash = d.det(lbl, 31)
		default:
			return fmt.Errorf("unknown replacement %q", m.V)
		}
	case "lastCommitHash":
		h.raw.LastCommitHash, err = hashVal()
	case "dataHash":
		h.raw.DataHash, err = hashVal()
	case "validatorsHash":
		h.raw.ValidatorsHash, err = hashVal()
	case "nextValidatorsHash":
		h.raw.NextValidatorsHash, err = hashVal()
	case "consensusHash":
		h.raw.ConsensusHash, err = hashVal()
	case "appHash":
		h.raw.AppHash, err = hashVal()
	case "lastResultsHash":
		h.raw.LastResultsHash, err = hashVal()
	case "evidenceHash":
		h.raw.EvidenceHash, err = hashVal()
	case "proposer":
		if m.V == "badlen" {
			h.raw.ProposerAddress = d.det(lbl, 19)
		} else {
			h.raw.ProposerAddress = d.det(lbl, 20)
		}
	default:
		return fmt.Errorf("unknown raw field %q", m.F)
	}
	return err
}

func (d *drv) applyDah(h *hdr, m mut) error {
	nr := len(h.rows)
	all := append(cloneBB(h.rows), h.cols...)
	split := func(s [][]byte, n int) { h.rows, h.cols = cloneBB(s[:n]), cloneBB(s[n:]) }
	fresh := d.det("fresh-root", 90)
	switch m.F {
	case "change":
		all[m.A-1] = fresh
		split(all, nr)
	case "remove":
		all = removeAt(all, m.A-1)
		if m.A <= nr {
			nr--
		}
		split(all, nr)
	case "swap":
		all[m.A-1], all[m.B-1] = all[m.B-1], all[m.A-1]
		split(all, nr)
	case "addrow":
		h.rows = append(h.rows, fresh)
	case "addcol":
		h.cols = append(h.cols, fresh)
	case "duprow":
		if nr > 0 {
			h.rows = append(h.rows, h.rows[nr-1])
		}
	case "dupcol":
		if len(h.cols) > 0 {
			h.cols = append(h.cols, h.cols[len(h.cols)-1])
		}
	case "shiftrc":
		if nr > 0 {
			split(all, nr-1)
		}
	case "shiftcr":
		if len(h.cols) > 0 {
			split(all, nr+1)
		}
	default:
		return fmt.Errorf("unknown dah mutation %q", m.F)
	}
	return nil
}

func (d *drv) applyVs(h *hdr, m mut) error {
	a := m.A - 1
	h.valsTouched = true
	switch m.F {
	case "powerinc":
		h.vals[a].power++
	case "powerzero":
		h.vals[a].power = 0
	case "remove":
		h.vals = removeAt(h.vals, a)
	case "replace":
		h.vals[a] = valE{id: 9, power: h.vals[a].power}
	case "addr":
		h.vals[a].addrFrom = 9
	case "add":
		h.vals = append(h.vals, valE{id: 9, power: 1})
	case "swap":
		h.vals[a], h.vals[m.B-1] = h.vals[m.B-1], h.vals[a]
	default:
		return fmt.Errorf("unknown valset mutation %q", m.F)
	}
	return nil
}

func (d *drv) applySig(h *hdr, m mut) error {
	a := m.A - 1
	var s types.CommitSig
	if a >= 0 && a < len(h.sigs) {
		s = h.sigs[a]
	} else {
		s = absentSig
	}
	present := s.BlockIDFlag != types.BlockIDFlagAbsent
	switch m.F {
	case "absent":
		h.sigs[a] = absentSig
	case "nilflag":
		if s.BlockIDFlag == types.BlockIDFlagCommit {
			h.sigs[a].BlockIDFlag = types.BlockIDFlagNil
		}
	case "corrupt":
		if present {
			sig := append([]byte(nil), s.Signature...)
			sig[len(sig)/2] ^= 0x40
			h.sigs[a].Signature = sig
		}
	case "ts":
		if present {
			h.sigs[a].Timestamp = d.t3(h)
		}
	case "retarget":
		if present && a < len(h.vals) {
			h.sigs[a] = d.sign(h.vals[a].id, s.ValidatorAddress, h.raw.ChainID, h.cHeight, h.cRound, d.otherBlock(), s.Timestamp, s.BlockIDFlag)
		}
	case "outsider":
		if present {
			h.sigs[a] = d.sign(7, s.ValidatorAddress, h.raw.ChainID, h.cHeight, h.cRound, h.cBlock, s.Timestamp, s.BlockIDFlag)
		}
	case "outsiderAddr":
		h.sigs[a] = d.sign(7, d.addr[7], h.raw.ChainID, h.cHeight, h.cRound, h.cBlock, d.t2(h), types.BlockIDFlagCommit)
	case "badaddr":
		if present {
			h.sigs[a].ValidatorAddress = d.det("bad-address", 19)
		}
	case "removeslot":
		h.sigs = removeAt(h.sigs, a)
	case "dup":
		if m.A != m.B {
			h.sigs[m.B-1] = h.sigs[a]
		}
	case "keeponly":
		keep := map[int]bool{}
		for _, k := range m.S {
			keep[k] = true
		}
		for k := range h.sigs {
			if !keep[k+1] {
				h.sigs[k] = absentSig
			}
		}
	default:
		return fmt.Errorf("unknown signature mutation %q", m.F)
	}
	return nil
}

// ---------------------------------------------------------------- independent reference evaluation

type refVerdict struct{ dah, vals, commit, power bool }

func (r refVerdict) all() bool { return r.dah && r.vals && r.commit && r.power }

func (r refVerdict) failing() string {
	var f []string
	if !r.dah {
		f = append(f, "dah")
	}
	if !r.vals {
		f = append(f, "valset")
	}
	if !r.commit {
		f = append(f, "commit-target")
	}
	if !r.power {
		f = append(f, "power")
	}
	return strings.Join(f, "+")
}

// signedPower: power of the members of vs for which the commit carries a valid precommit signature for
// its block (any slot, every member once).
func signedPower(vs *types.ValidatorSet, chain string, cm *types.Commit) (signed, total int64) {
	if vs == nil || cm == nil {
		return 0, 0
	}
	for _, v := range vs.Validators {
		total += v.VotingPower
		if v.PubKey == nil {
			continue
		}
		for k, s := range cm.Signatures {
			if s.BlockIDFlag != types.BlockIDFlagCommit || len(s.Signature) == 0 {
				continue
			}
			if v.PubKey.VerifySignature(cm.VoteSignBytes(chain, int32(k)), s.Signature) {
				signed += v.VotingPower
				break
			}
		}
	}
	return signed, total
}

// refConsistent evaluates the property's definition on the real structs, with primitives only (merkle
// root, header hash, signature verification) -- nothing of header.Validate or da.Hash is reused.
func refConsistent(eh *header.ExtendedHeader) refVerdict {
	var r refVerdict
	if eh.DAH != nil {
		r.dah = bytes.Equal(idealDahHash(eh.DAH.RowRoots, eh.DAH.ColumnRoots), eh.DataHash)
	}
	if eh.ValidatorSet != nil && len(eh.ValidatorSet.Validators) > 0 {
		r.vals = bytes.Equal(valsetHash(eh.ValidatorSet), eh.ValidatorsHash)
	}
	if eh.Commit != nil {
		raw := eh.RawHeader
		r.commit = bytes.Equal(eh.Commit.BlockID.Hash, raw.Hash()) && eh.Commit.Height == raw.Height
		signed, total := signedPower(eh.ValidatorSet, raw.ChainID, eh.Commit)
		r.power = 3*signed > 2*total
	}
	return r
}

func refVerifyConsistent(tr, u *header.ExtendedHeader) bool {
	if tr.RawHeader.Height+1 == u.RawHeader.Height {
		traw := tr.RawHeader
		return bytes.Equal(u.LastBlockID.Hash, traw.Hash()) && bytes.Equal(u.ValidatorsHash, tr.NextValidatorsHash)
	}
	signed, total := signedPower(tr.ValidatorSet, tr.RawHeader.ChainID, u.Commit)
	return 3*signed > total
}

// ---------------------------------------------------------------- observation of the real code

func stageOf(err error) string {
	if err == nil {
		return "ok"
	}
	s := err.Error()
	switch {
	case strings.HasPrefix(s, "ValidateBasic error on RawHeader"):
		return "raw-basic"
	case strings.Contains(s, "this node supports up to version"):
		return "app-version"
	case strings.HasPrefix(s, "ValidateBasic error on Commit"):
		return "commit-basic"
	case strings.HasPrefix(s, "ValidateBasic error on ValidatorSet"):
		return "valset-basic"
	case strings.HasPrefix(s, "expected validator hash of header to match"):
		return "valset-hash"
	case strings.HasPrefix(s, "mismatch between data hash commitment"):
		return "dah-hash"
	case strings.HasPrefix(s, "header and commit height mismatch"):
		return "commit-height"
	case strings.HasPrefix(s, "commit signs block"):
		return "commit-hash"
	case strings.HasPrefix(s, "VerifyCommitLight error"):
		return "commit-light"
	case strings.HasPrefix(s, "ValidateBasic error on DAH"):
		return "dah-basic"
	}
	return "other:" + s
}

type obs struct {
	ok       bool
	stage    string
	err      string
	panicked bool
}

func validate(eh *header.ExtendedHeader) (o obs) {
	p, val := vh.Recover(func() {
		err := eh.Validate()
		o.ok, o.stage = err == nil, stageOf(err)
		if err != nil {
			o.err = err.Error()
		}
	})
	if p {
		o = obs{stage: "panic", err: val, panicked: true}
	}
	return o
}

func verify(tr, u *header.ExtendedHeader) (class string, panicked bool, msg string) {
	p, val := vh.Recover(func() {
		err := tr.Verify(u)
		if err == nil {
			class = "ok"
			return
		}
		msg = err.Error()
		var ve *libhead.VerifyError
		switch {
		case errors.Is(err, header.ErrValidatorHashMismatch):
			class = "valhash"
		case errors.Is(err, header.ErrLastHeaderHashMismatch):
			class = "lasthash"
		case errors.As(err, &ve) && ve.SoftFailure:
			class = "soft"
		default:
			class = "hard"
		}
	})
	if p {
		return "panic", true, val
	}
	return class, false, msg
}

func msgID(bin []byte) string { return header.MsgID(&pubsubpb.Message{Data: bin}) }

type enc struct {
	name string
	rt   func(*header.ExtendedHeader) (*header.ExtendedHeader, error) // round trip
}

var encodings = []enc{
	{"binary", func(in *header.ExtendedHeader) (*header.ExtendedHeader, error) {
		b, err := in.MarshalBinary()
		if err != nil {
			return nil, fmt.Errorf("marshal: %w", err)
		}
		out := &header.ExtendedHeader{}
		if err := out.UnmarshalBinary(b); err != nil {
			return nil, fmt.Errorf("unmarshal: %w", err)
		}
		return out, nil
	}},
	{"json", func(in *header.ExtendedHeader) (*header.ExtendedHeader, error) {
		b, err := in.MarshalJSON()
		if err != nil {
			return nil, fmt.Errorf("marshal: %w", err)
		}
		out := &header.ExtendedHeader{}
		if err := out.UnmarshalJSON(b); err != nil {
			return nil, fmt.Errorf("unmarshal: %w", err)
		}
		return out, nil
	}},
}

func roundTrip(e enc, in *header.ExtendedHeader) (out *header.ExtendedHeader, err error) {
	p, val := vh.Recover(func() { out, err = e.rt(in) })
	if p {
		return nil, fmt.Errorf("panic: %s", strings.SplitN(val, "\n", 2)[0])
	}
	return out, err
}

func safeBin(eh *header.ExtendedHeader) (b []byte, ok bool) {
	p, _ := vh.Recover(func() {
		var err error
		b, err = eh.MarshalBinary()
		ok = err == nil
	})
	return b, ok && !p
}

func safeHash(eh *header.ExtendedHeader) (hh []byte, ok bool) {
	p, _ := vh.Recover(func() { hh = eh.Hash() })
	return hh, !p
}

// ---------------------------------------------------------------- the cases

func (d *drv) replay(k kase, what string) map[string]any {
	return map[string]any{"case": k, "what": what, "seed": d.seed}
}

func (d *drv) materialise(k kase) (*hdr, error) {
	ch, ok := d.chains[k.C]
	if !ok || k.I < 1 || k.I >= len(ch) {
		return nil, fmt.Errorf("no such header %s[%d]", k.C, k.I)
	}
	h := ch[k.I].clone()
	for _, m := range k.M {
		var err error
		p, val := vh.Recover(func() { err = d.apply(k.C, k.I, h, m) })
		if p {
			return nil, fmt.Errorf("mutation %s panicked in the harness: %s", m, val)
		}
		if err != nil {
			return nil, err
		}
	}
	return h, nil
}

func (d *drv) runValidateCase(k kase) {
	rep := d.rep
	h, err := d.materialise(k)
	if err != nil {
		rep.Inconclusivef("cannot materialise %s: %v", k.id(), err)
		return
	}
	eh := d.build(h)
	o := validate(eh)
	ref := refConsistent(d.build(h)) // on a second fresh copy: nothing memoised by Validate is seen
	rep.Count("cases_validate", 1)
	rep.Count("stage_"+strings.SplitN(o.stage, ":", 2)[0], 1)
	if o.panicked {
		rep.Count("validate_panics", 1)
		rep.Set("validate_panic_example", k.id()+": "+strings.SplitN(o.err, "\n", 2)[0])
	}
	if len(k.M) == 0 || (o.ok && len(k.M) > 0) {
		rep.Sample(map[string]any{"case": k.id(), "real": o.stage, "model": k.Iv, "refConsistent": ref.all()})
	}

	// ---- the property
	if o.ok && !ref.all() {
		rep.Violate("C16/validate/accepts-inconsistent:"+ref.failing(),
			fmt.Sprintf("Validate accepted %s although the header is not consistent (%s fails the independent evaluation)", k.id(), ref.failing()),
			d.replay(k, "validate"))
	}
	if len(k.M) == 0 && !o.ok {
		rep.Violate("C16/validate/rejects-valid", fmt.Sprintf("Validate rejected the honest header %s: %s", k.id(), o.err), d.replay(k, "validate"))
	}
	if o.ok {
		rep.Count("accepted", 1)
		raw := eh.RawHeader
		if hh, ok := safeHash(eh); !ok || !bytes.Equal(hh, raw.Hash()) {
			rep.Violate("C16/hash/not-the-header-hash", fmt.Sprintf("Hash() of the accepted header %s is %X, the header hashes to %X", k.id(), hh, raw.Hash()), d.replay(k, "hash"))
		}
	} else {
		rep.Count("rejected", 1)
	}

	// ---- conformance with the model
	if k.Cd != ref.dah || k.Cv != ref.vals || k.Cc != ref.commit || k.Cp != ref.power {
		rep.Count("drift_consistency", 1)
		rep.Inconclusivef("materialisation drift on %s: model Consistent parts (dah=%v vals=%v commit=%v power=%v), reference on the real header (dah=%v vals=%v commit=%v power=%v)",
			k.id(), k.Cd, k.Cv, k.Cc, k.Cp, ref.dah, ref.vals, ref.commit, ref.power)
	}
	if (k.Iv == "ok") != o.ok {
		rep.Count("drift_verdict", 1)
		rep.Inconclusivef("verdict drift on %s: ImplValidate=%s, real Validate=%s (%s)", k.id(), k.Iv, o.stage, o.err)
	} else if k.Iv != o.stage {
		rep.Count("stage_mismatch", 1)
		rep.Set("stage_mismatch_example", fmt.Sprintf("%s: model %s, real %s", k.id(), k.Iv, o.stage))
	} else {
		rep.Count("verdict_and_stage_agree", 1)
	}

	// ---- re-encoding: verdict, hash, message id
	orig := d.build(d.chains[k.C][k.I])
	origBin, _ := safeBin(orig)
	bin, binOK := safeBin(d.build(h))
	if binOK {
		// message id is a function of the block id
		cm, cerr := types.CommitFromProto(eh.Commit.ToProto())
		if cerr == nil && cm != nil {
			same := eh.Commit.BlockID.Equals(orig.Commit.BlockID)
			idSame := msgID(bin) == msgID(origBin)
			rep.Count("msgid_checked", 1)
			if same != idSame {
				rep.Violate("C16/msgid/not-a-function-of-the-block",
					fmt.Sprintf("%s: block id same as the original's = %v, message id same = %v", k.id(), same, idSame), d.replay(k, "msgid"))
			}
			if same != k.SameBlock {
				rep.Inconclusivef("materialisation drift on %s: model sameBlock=%v, real=%v", k.id(), k.SameBlock, same)
			}
			if same && len(k.M) > 0 && o.ok {
				rep.Count("msgid_same_block_different_signatures", 1)
			}
		}
	}
	for _, e := range encodings {
		h2, err := roundTrip(e, d.build(h))
		if err != nil {
			rep.Count("reencode_"+e.name+"_refused", 1)
			if o.ok {
				rep.Violate("C16/reencode/"+e.name+"/verdict-changed",
					fmt.Sprintf("%s is accepted by Validate but cannot be re-encoded (%s): %v", k.id(), e.name, err), d.replay(k, "reencode-"+e.name))
			}
			continue
		}
		rep.Count("reencode_"+e.name+"_ok", 1)
		o2 := validate(h2)
		if o2.ok != o.ok {
			rep.Violate("C16/reencode/"+e.name+"/verdict-changed",
				fmt.Sprintf("%s: Validate says %s before and %s after %s re-encoding (%s)", k.id(), o.stage, o2.stage, e.name, o2.err), d.replay(k, "reencode-"+e.name))
		}
		h1, ok1 := safeHash(eh)
		hh2, ok2 := safeHash(h2)
		if ok1 != ok2 || !bytes.Equal(h1, hh2) {
			rep.Violate("C16/reencode/"+e.name+"/hash-changed", fmt.Sprintf("%s: Hash() %X before, %X after %s re-encoding", k.id(), h1, hh2, e.name), d.replay(k, "reencode-"+e.name))
		}
		if binOK {
			if bin2, ok := safeBin(h2); !ok || msgID(bin2) != msgID(bin) {
				rep.Violate("C16/reencode/"+e.name+"/msgid-changed", fmt.Sprintf("%s: message id changes with %s re-encoding", k.id(), e.name), d.replay(k, "reencode-"+e.name))
			}
		}
	}
}

func (d *drv) runVerifyCase(k kase) {
	rep := d.rep
	h, err := d.materialise(k)
	if err != nil {
		rep.Inconclusivef("cannot materialise %s: %v", k.id(), err)
		return
	}
	if k.T < 1 || k.T >= len(d.chains[k.C]) {
		rep.Inconclusivef("no trusted header for %s", k.id())
		return
	}
	th := d.chains[k.C][k.T]
	tr, u := d.build(th), d.build(h)
	class, panicked, msg := verify(tr, u)
	val := validate(d.build(h))
	refV := refVerifyConsistent(d.build(th), d.build(h))
	ref := refConsistent(d.build(h))
	adjacent := tr.RawHeader.Height+1 == u.RawHeader.Height
	rep.Count("cases_verify", 1)
	rep.Count("verify_"+class, 1)
	if adjacent {
		rep.Count("verify_adjacent", 1)
	} else {
		rep.Count("verify_non_adjacent", 1)
	}
	if panicked {
		rep.Count("verify_panics", 1)
		rep.Set("verify_panic_example", k.id()+": "+strings.SplitN(msg, "\n", 2)[0])
	}
	if len(k.M) == 0 {
		rep.Sample(map[string]any{"case": k.id(), "verify": class, "model": k.Ver, "adjacent": adjacent})
	}

	// ---- the property
	accepted := val.ok && class == "ok"
	if accepted {
		rep.Count("verify_accepted", 1)
		if !refV {
			kind := "untrusted"
			if adjacent {
				kind = "unlinked"
			}
			rep.Violate("C16/verify/accepts-"+kind,
				fmt.Sprintf("Validate and Verify accepted %s although it %s", k.id(),
					map[bool]string{true: "does not link to the trusted header", false: "is not signed by more than 1/3 of the trusted validators"}[adjacent]),
				d.replay(k, "verify"))
		}
	}
	if val.ok && !ref.all() {
		// (the trusted power of a non-adjacent header counts only if its commit is the header's own)
		rep.Violate("C16/validate/accepts-inconsistent:"+ref.failing(),
			fmt.Sprintf("Validate accepted %s although the header is not consistent (%s fails the independent evaluation)", k.id(), ref.failing()),
			d.replay(k, "validate"))
	}
	if len(k.M) == 0 && class != "ok" {
		rep.Violate("C16/verify/rejects-valid-chain", fmt.Sprintf("Verify rejected the honest pair %s: %s", k.id(), msg), d.replay(k, "verify"))
	}

	// ---- conformance with the model
	if k.Adj != adjacent {
		rep.Inconclusivef("materialisation drift on %s: adjacency model=%v real=%v", k.id(), k.Adj, adjacent)
	}
	if k.Vcons != refV {
		rep.Count("drift_verify_consistency", 1)
		rep.Inconclusivef("materialisation drift on %s: model VerifyConsistent=%v, reference=%v", k.id(), k.Vcons, refV)
	}
	if (k.Ver == "ok") != (class == "ok") {
		rep.Count("drift_verify_verdict", 1)
		rep.Inconclusivef("verdict drift on %s: ImplVerify=%s, real Verify=%s (%s)", k.id(), k.Ver, class, msg)
	} else if k.Ver != class {
		rep.Count("verify_class_mismatch", 1)
		rep.Set("verify_class_mismatch_example", fmt.Sprintf("%s: model %s, real %s", k.id(), k.Ver, class))
	} else {
		rep.Count("verify_class_agree", 1)
	}
	if (k.Iv == "ok") != val.ok {
		rep.Count("drift_verdict", 1)
		rep.Inconclusivef("verdict drift on %s: ImplValidate=%s, real Validate=%s", k.id(), k.Iv, val.stage)
	}

	// ---- re-encoding both sides must not change the verdict
	for _, e := range encodings {
		t2, err1 := roundTrip(e, d.build(th))
		if err1 != nil {
			rep.Violate("C16/reencode/"+e.name+"/verdict-changed", fmt.Sprintf("the honest header %s[%d] cannot be re-encoded (%s): %v", k.C, k.T, e.name, err1), d.replay(k, "reencode-"+e.name))
			continue
		}
		u2, err2 := roundTrip(e, d.build(h))
		if err2 != nil {
			if accepted {
				rep.Violate("C16/reencode/"+e.name+"/verdict-changed", fmt.Sprintf("%s is accepted but cannot be re-encoded (%s): %v", k.id(), e.name, err2), d.replay(k, "reencode-"+e.name))
			}
			continue
		}
		// "the verdict" is acceptance as the sync pipeline defines it: Validate and Verify. (Verify alone
		// is allowed to differ on headers Validate refuses: a validator set decoded from JSON verifies
		// signature by signature, one built by NewValidatorSet / decoded from protobuf in a batch, and
		// the two treat a commit signature with a malformed address differently.)
		class2, _, _ := verify(t2, u2)
		accepted2 := validate(u2).ok && class2 == "ok"
		rep.Count("verify_reencoded_"+e.name, 1)
		if accepted2 != accepted {
			rep.Violate("C16/reencode/"+e.name+"/verify-verdict-changed",
				fmt.Sprintf("%s: accepted (Validate and Verify) = %v before and %v after %s re-encoding of both headers (Verify: %s -> %s)", k.id(), accepted, accepted2, e.name, class, class2), d.replay(k, "reencode-"+e.name))
		} else if class2 != class {
			rep.Count("verify_class_changes_with_"+e.name, 1)
			rep.Set("verify_class_changes_with_"+e.name+"_example", fmt.Sprintf("%s: %s -> %s", k.id(), class, class2))
		}
	}
}

func TestDriver(t *testing.T) {
	rep := vh.NewReport()
	// bin/check iterates over these lists: they must be JSON arrays even when empty
	rep.Violations, rep.Inconclusive, rep.Samples = []vh.Violation{}, []string{}, []any{}
	defer func() {
		if err := rep.Write(); err != nil {
			t.Fatalf("report: %v", err)
		}
	}()
	var in input
	if err := vh.ReadJSON(vh.Env("VERIF_CASES", ""), &in); err != nil {
		t.Fatalf("cases: %v", err)
	}
	d := &drv{t: t, rep: rep, seed: vh.Seed(), chains: map[string][]*hdr{}, recs: map[string]chainRec{}, forges: map[string]forgeRec{}}
	d.initKeys()
	for _, f := range in.Forges {
		d.forges[f.F] = f
	}
	for _, cr := range in.Chains {
		d.recs[cr.C] = cr
		d.chains[cr.C] = d.buildChain(cr)
	}
	rep.Set("chains", len(d.chains))

	jobs := make(chan kase, 256)
	var wg sync.WaitGroup
	for w := 0; w < vh.EnvInt("VERIF_WORKERS", 12); w++ {
		wg.Add(1)
		go func() {
			defer wg.Done()
			for k := range jobs {
				p, val := vh.Recover(func() {
					if k.T > 0 {
						d.runVerifyCase(k)
					} else {
						d.runValidateCase(k)
					}
				})
				if p {
					rep.Inconclusivef("harness panic on %s: %s", k.id(), val)
				}
			}
		}()
	}
	for _, k := range in.Cases {
		jobs <- k
	}
	close(jobs)
	wg.Wait()
	rep.Set("cases", len(in.Cases))
	d.probes()
}

// probes: inputs outside the statement of C16 (nothing there says "never panics"); what the real code does
// with them is recorded in the evidence, never alarmed.
func (d *drv) probes() {
	for c, ch := range d.chains {
		if len(ch) < 2 {
			continue
		}
		// (1) a header without commit, as JSON `"commit": null` yields it
		eh := d.build(ch[1])
		eh.Commit = nil
		o := validate(eh)
		d.rep.Set("probe_nil_commit", map[bool]string{true: "Validate PANICS on a nil Commit: " + strings.SplitN(o.err, "\n", 2)[0], false: "Validate returns: " + o.err}[o.panicked])
		// (2) a self-consistent forgery whose voting powers overflow the total; protobuf decoding refuses
		// it, JSON decoding does not
		h := ch[1].clone()
		h.vals, h.valsTouched = []valE{{id: 8, power: types.MaxTotalVotingPower}, {id: 9, power: types.MaxTotalVotingPower}}, true
		h.raw.ValidatorsHash = valsetHash(d.valset(h))
		h.cBlock.Hash = h.raw.Hash()
		d.signAll(h, func(k int) int { return h.vals[k].id }, d.t2(h))
		direct := validate(d.build(h))
		res := "direct: " + direct.stage
		for _, e := range encodings {
			h2, err := roundTrip(e, d.build(h))
			if err != nil {
				res += "; " + e.name + ": refused by the codec"
				continue
			}
			o2 := validate(h2)
			res += "; " + e.name + ": " + o2.stage
			if o2.ok {
				d.rep.Violate("C16/validate/accepts-overflowing-powers", "a validator set whose total power overflows is accepted after "+e.name+" decoding", map[string]any{"chain": c})
			}
		}
		d.rep.Set("probe_overflowing_powers", res)
		return
	}
}
