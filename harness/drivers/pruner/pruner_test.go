// Package pruner_driver binds spec/pruner/Pruner.tla to the real pruner.Service (property C14).
//
// Part 1 (behaviour replay, B2): every behaviour TLC produced from Pruner.tla is replayed into a real
// pruner.Service (stub pruner.Pruner with scripted outcomes, scripted header store with OnDelete, map
// datastore, cycles run one at a time). After each step the real checkpoint (memory + datastore), the
// Prune calls and the store bounds are compared with the model, and the property monitors are evaluated
// on what was observed (independently of the model).
//
// Part 2 (store effect): a real pruner.Service over full.ShareAvailability over a real store.Store in
// archival, pruned and archival->pruned mode.
package pruner_driver

import (
	"context"
	"encoding/json"
	"errors"
	"fmt"
	"os"
	"sort"
	"sync"
	"sync/atomic"
	"testing"
	"time"

	"github.com/cometbft/cometbft/types"
	"github.com/ipfs/go-datastore"
	contextds "github.com/ipfs/go-datastore/context"
	dssync "github.com/ipfs/go-datastore/sync"

	libhead "github.com/celestiaorg/go-header"

	"github.com/celestiaorg/celestia-node/header"
	"github.com/celestiaorg/celestia-node/pruner"
	"github.com/celestiaorg/celestia-node/share"

	"verifharness/vh"
)

// ---------------------------------------------------------------------------------------------
// model time: instant t of the model is base + t*unit
var (
	base = time.Date(2026, 1, 1, 0, 0, 0, 0, time.UTC)
	unit = time.Hour
)

func mtime(t int) time.Time { return base.Add(time.Duration(t) * unit) }

type ctxKey struct{}

// tag of contexts the driver itself passes in: "drv" (plain driver call) or "od" (header deletion)
func tagged(tag string) context.Context { return context.WithValue(context.Background(), ctxKey{}, tag) }
func tagOf(ctx context.Context) string {
	s, _ := ctx.Value(ctxKey{}).(string)
	return s
}

func mkHeader(h uint64, t time.Time) *header.ExtendedHeader {
	hash := make([]byte, 32)
	hash[0], hash[1], hash[31] = byte(h), byte(h>>8), 0xC1
	return &header.ExtendedHeader{
		RawHeader: header.RawHeader{Height: int64(h), Time: t, ChainID: "verif"},
		Commit:    &types.Commit{Height: int64(h), BlockID: types.BlockID{Hash: hash}},
		DAH:       share.EmptyEDSRoots(),
	}
}

// ---------------------------------------------------------------------------------------------
// scripted header store

type hstore struct {
	mu         sync.Mutex
	headers    map[uint64]*header.ExtendedHeader
	head, tail uint64
	onDelete   []func(context.Context, uint64) error

	cycleBegan chan struct{} // signalled by a Tail() call the driver did not make itself: prune() took the lock
	odGate     chan struct{} // a GetByHeight made under a header deletion waits here
	odAtGate   chan struct{}

	// scripted read failures (environment action of Pruner.tla). Every read also honours its context, as a
	// disk-backed store does: after Stop cancelled the service context, reads made with it fail.
	rs readScript

	// fine-grained finder replay (PrunerFine.tla): every read the finder makes is counted and announced
	// *before* it is served, so that the script can move the store between two reads of one call
	fineReads int
	fineHook  func(k int)
}

func (s *hstore) finderRead(ctx context.Context) {
	if tagOf(ctx) != "" || !inFinder(ctx) {
		return
	}
	s.mu.Lock()
	s.fineReads++
	k, hook := s.fineReads, s.fineHook
	s.mu.Unlock()
	if hook != nil {
		hook(k)
	}
}

// readScript says which reads of the next cycle / header deletion fail. The phases of prune() are told apart
// by what the calls look like: lastPruned() and retryFailed() read with the service context, the finder with
// a context that carries the write batch of the cycle.
type readScript struct {
	failTail   bool            // hstore.Tail of lastPruned()
	expectLast bool            // tail < LastPrunedHeight: lastPruned() reads that header first
	failLast   bool            //   ... and that read fails
	retryFail  map[uint64]bool // GetByHeight of retryFailed() for these heights
	failFind   int             // j > 0: the first read (Head) of the j-th findPruneableHeaders call fails
	odFail     bool            // GetByHeight of pruneOnHeaderDelete fails

	lastSeen  bool
	findHeads int
	injected  int
}

var errRead = errors.New("verif: scripted header-store read failure")

func (s *hstore) setScript(rs readScript) { s.mu.Lock(); s.rs = rs; s.mu.Unlock() }
func (s *hstore) scriptInjected() int    { s.mu.Lock(); defer s.mu.Unlock(); return s.rs.injected }

func inFinder(ctx context.Context) bool {
	_, ok := contextds.GetWrite(ctx)
	return ok
}

var _ libhead.Store[*header.ExtendedHeader] = (*hstore)(nil)

func newHStore() *hstore {
	return &hstore{headers: map[uint64]*header.ExtendedHeader{}, cycleBegan: make(chan struct{}, 1)}
}

func (s *hstore) Head(ctx context.Context, _ ...libhead.HeadOption[*header.ExtendedHeader]) (*header.ExtendedHeader, error) {
	if err := ctx.Err(); err != nil {
		return nil, err
	}
	s.finderRead(ctx)
	s.mu.Lock()
	defer s.mu.Unlock()
	if tagOf(ctx) == "" && inFinder(ctx) {
		s.rs.findHeads++
		if j := s.rs.failFind; j > 0 && s.rs.findHeads == 2*j-1 {
			s.rs.injected++
			return nil, errRead
		}
	}
	h, ok := s.headers[s.head]
	if !ok {
		return nil, libhead.ErrNotFound
	}
	return h, nil
}

func (s *hstore) Tail(ctx context.Context) (*header.ExtendedHeader, error) {
	if tagOf(ctx) == "" {
		select {
		case s.cycleBegan <- struct{}{}:
		default:
		}
	}
	if err := ctx.Err(); err != nil {
		return nil, err
	}
	s.mu.Lock()
	defer s.mu.Unlock()
	if tagOf(ctx) == "" && s.rs.failTail {
		s.rs.failTail = false
		s.rs.injected++
		return nil, errRead
	}
	h, ok := s.headers[s.tail]
	if !ok {
		return nil, libhead.ErrNotFound
	}
	return h, nil
}

func (s *hstore) Get(_ context.Context, hash libhead.Hash) (*header.ExtendedHeader, error) {
	s.mu.Lock()
	defer s.mu.Unlock()
	for _, h := range s.headers {
		if string(h.Hash()) == string(hash) {
			return h, nil
		}
	}
	return nil, libhead.ErrNotFound
}

func (s *hstore) GetByHeight(ctx context.Context, height uint64) (*header.ExtendedHeader, error) {
	if tagOf(ctx) == "od" {
		s.mu.Lock()
		gate, at := s.odGate, s.odAtGate
		s.mu.Unlock()
		if gate != nil {
			close(at)
			<-gate
		}
	}
	if err := ctx.Err(); err != nil {
		return nil, err
	}
	s.finderRead(ctx)
	s.mu.Lock()
	defer s.mu.Unlock()
	switch {
	case tagOf(ctx) == "od":
		if s.rs.odFail {
			s.rs.odFail = false
			s.rs.injected++
			return nil, errRead
		}
	case tagOf(ctx) == "" && !inFinder(ctx):
		if s.rs.expectLast && !s.rs.lastSeen { // lastPruned(): GetByHeight(LastPrunedHeight)
			s.rs.lastSeen = true
			if s.rs.failLast {
				s.rs.injected++
				return nil, errRead
			}
		} else if s.rs.retryFail[height] { // retryFailed()
			delete(s.rs.retryFail, height)
			s.rs.injected++
			return nil, errRead
		}
	}
	h, ok := s.headers[height]
	if !ok {
		return nil, libhead.ErrNotFound
	}
	return h, nil
}

func (s *hstore) GetRangeByHeight(ctx context.Context, from *header.ExtendedHeader, to uint64) ([]*header.ExtendedHeader, error) {
	return s.GetRange(ctx, from.Height()+1, to)
}

func (s *hstore) GetRange(ctx context.Context, from, to uint64) ([]*header.ExtendedHeader, error) {
	if err := ctx.Err(); err != nil {
		return nil, err
	}
	s.finderRead(ctx)
	s.mu.Lock()
	defer s.mu.Unlock()
	if to <= from {
		return nil, fmt.Errorf("malformed range [%d:%d)", from, to)
	}
	out := make([]*header.ExtendedHeader, 0, to-from)
	for h := from; h < to; h++ {
		eh, ok := s.headers[h]
		if !ok {
			return nil, libhead.ErrNotFound
		}
		out = append(out, eh)
	}
	return out, nil
}

func (s *hstore) Height() uint64 { s.mu.Lock(); defer s.mu.Unlock(); return s.head }
func (s *hstore) TailHeight() uint64 {
	s.mu.Lock()
	defer s.mu.Unlock()
	return s.tail
}
func (s *hstore) Has(context.Context, libhead.Hash) (bool, error) { return false, nil }
func (s *hstore) HasAt(_ context.Context, h uint64) bool {
	s.mu.Lock()
	defer s.mu.Unlock()
	_, ok := s.headers[h]
	return ok
}

func (s *hstore) Append(_ context.Context, hs ...*header.ExtendedHeader) error {
	s.mu.Lock()
	defer s.mu.Unlock()
	for _, h := range hs {
		if s.head != 0 && h.Height() != s.head+1 {
			panic(fmt.Sprintf("verif harness: header %d appended to a store whose head is %d", h.Height(), s.head))
		}
		s.headers[h.Height()] = h
		if h.Height() > s.head {
			s.head = h.Height()
		}
		if s.tail == 0 || h.Height() < s.tail {
			s.tail = h.Height()
		}
	}
	return nil
}

func (s *hstore) DeleteRange(ctx context.Context, from, to uint64) error {
	for h := from; h < to; h++ {
		if err := s.deleteOne(ctx, h); err != nil {
			return err
		}
	}
	return nil
}

// deleteOne is what go-header's store does per height: handlers first (the header is still readable),
// removal only when every handler returned nil.
func (s *hstore) deleteOne(ctx context.Context, h uint64) error {
	s.mu.Lock()
	if h != s.tail {
		s.mu.Unlock()
		return fmt.Errorf("only the tail can be deleted")
	}
	hs := append([]func(context.Context, uint64) error(nil), s.onDelete...)
	s.mu.Unlock()
	for _, fn := range hs {
		if err := fn(ctx, h); err != nil {
			return fmt.Errorf("on delete handler for %d: %w", h, err)
		}
	}
	s.mu.Lock()
	delete(s.headers, h)
	s.tail = h + 1
	s.mu.Unlock()
	return nil
}

func (s *hstore) OnDelete(fn func(context.Context, uint64) error) {
	s.mu.Lock()
	defer s.mu.Unlock()
	s.onDelete = append(s.onDelete, fn)
}

// a new process has no handlers of the previous one
func (s *hstore) resetHandlers() { s.mu.Lock(); s.onDelete = nil; s.mu.Unlock() }

func (s *hstore) headTime() time.Time {
	s.mu.Lock()
	defer s.mu.Unlock()
	return s.headers[s.head].Time()
}

func (s *hstore) timeOf(h uint64) (time.Time, bool) {
	s.mu.Lock()
	defer s.mu.Unlock()
	eh, ok := s.headers[h]
	if !ok {
		return time.Time{}, false
	}
	return eh.Time(), true
}

// ---------------------------------------------------------------------------------------------
// stub pruner

type call struct {
	H        uint64 `json:"h"`
	HdrTime  int64  `json:"hdr_time"`  // header timestamp handed to Prune, in model instants
	HeadTime int64  `json:"head_time"` // timestamp of the store's head at the moment of the call
	OK       bool   `json:"ok"`
	Tag      string `json:"tag"` // "" cycle, "od" header deletion
	Scripted bool   `json:"scripted"`
	Canceled bool   `json:"canceled,omitempty"` // the context of the call was cancelled (Stop): not a scripted outcome
}

type stubPruner struct {
	mu     sync.Mutex
	script map[uint64][]bool
	count  map[uint64]int
	calls  []call
	st     *hstore
	n      atomic.Int64
	inner  pruner.Pruner // optional real pruner behind the script (part 2)
	// afterCall, when set, runs inside Prune after the call was recorded (k = number of calls since it was
	// set): the driver uses it to let the header store grow between two batches of one cycle
	afterCall func(k int)
	sinceHook int
	// stopAt > 0: during the stopAt-th call (counted like afterCall) the node is stopped: onStop is run (it
	// calls Service.Stop in the background) and the call waits until the context it was given is cancelled.
	stopAt int
	onStop func()
}

var errScripted = errors.New("verif: scripted prune failure")

func (p *stubPruner) Prune(ctx context.Context, eh *header.ExtendedHeader) error {
	h := eh.Height()
	p.mu.Lock()
	p.sinceHook++
	nth := p.sinceHook
	hook, stopAt, onStop := p.afterCall, p.stopAt, p.onStop
	p.mu.Unlock()
	if stopAt > 0 && nth == stopAt && onStop != nil {
		onStop()
		select {
		case <-ctx.Done():
		case <-time.After(30 * time.Second):
		}
	}
	mk := func(ok, scripted, canceled bool) call {
		return call{H: h, HdrTime: int64(eh.Time().Sub(base) / unit), HeadTime: int64(p.st.headTime().Sub(base) / unit),
			OK: ok, Tag: tagOf(ctx), Scripted: scripted, Canceled: canceled}
	}
	if ctx.Err() != nil { // a pruner that honours its context; no scripted outcome is consumed
		p.mu.Lock()
		if len(p.calls) < 200000 {
			p.calls = append(p.calls, mk(false, true, true))
		}
		p.mu.Unlock()
		p.n.Add(1)
		return ctx.Err()
	}
	p.mu.Lock()
	k := p.count[h]
	p.count[h]++
	ok, scripted := true, false
	if s := p.script[h]; k < len(s) {
		ok, scripted = s[k], true
	} else if len(s) > 0 {
		ok = s[len(s)-1] // a height that failed last keeps failing: permanent failure
	}
	if len(p.calls) < 200000 {
		p.calls = append(p.calls, mk(ok, scripted, false))
	}
	p.mu.Unlock()
	p.n.Add(1)
	if hook != nil {
		hook(nth)
	}
	if !ok {
		return errScripted
	}
	if p.inner != nil {
		return p.inner.Prune(ctx, eh)
	}
	return nil
}

func (p *stubPruner) snapshot(from int) []call {
	p.mu.Lock()
	defer p.mu.Unlock()
	if from > len(p.calls) {
		from = len(p.calls)
	}
	return append([]call(nil), p.calls[from:]...)
}

// ---------------------------------------------------------------------------------------------
// behaviours

type rec struct {
	N       string   `json:"n"`
	H       int      `json:"h"`
	OK      bool     `json:"ok"`
	Hs      []int    `json:"hs"`
	Last    int      `json:"last"`
	Failed  []int    `json:"failed"`
	PLast   int      `json:"plast"`
	PFailed []int    `json:"pfailed"`
	Tail    int      `json:"tail"`
	Head    int      `json:"head"`
	Od      int      `json:"od"`
	Mode    string   `json:"mode"`
	Pc      string   `json:"pc"`
	Time    []int    `json:"time"`
	T       *int     `json:"t"` // Head: timestamp of the new header (lazy chain)
	K       string   `json:"k"`  // CycleAbort: which read of lastPruned() fails ("tail" | "last")
	RF      bool     `json:"rf"` // RetrySkip / ODEnd: the header could not be read (injected failure)
	W       int      `json:"W"`
	B       int      `json:"B"`
	M       int      `json:"M"`
	Src     string   `json:"src,omitempty"`
	Extra   []string `json:"-"`
}

type behaviour struct {
	ID    string `json:"id"`
	Steps []rec  `json:"steps"`
}

type persisted struct {
	Last   uint64              `json:"last_pruned_height"`
	Failed map[uint64]struct{} `json:"failed"`
}

func sortedU(m map[uint64]struct{}) []int {
	out := []int{}
	for k := range m {
		out = append(out, int(k))
	}
	sort.Ints(out)
	return out
}

func sortedI(a []int) []int { b := append([]int{}, a...); sort.Ints(b); return b }
func sortedU64(a []uint64) []int {
	b := make([]int, 0, len(a))
	for _, x := range a {
		b = append(b, int(x))
	}
	sort.Ints(b)
	return b
}
func eqInts(a, b []int) bool {
	if len(a) != len(b) {
		return false
	}
	for i := range a {
		if a[i] != b[i] {
			return false
		}
	}
	return true
}

const (
	sigInside    = "C14/inside-window/prune-call-inside-window"
	sigBackwards = "C14/checkpoint/moved-backwards"
	sigRestart   = "C14/checkpoint/lost-on-restart"
	sigSpin      = "C14/cycle/does-not-terminate"
	sigTailSkip  = "C14/all-old-pruned/tail-clamp-skips-unpruned-tail"
	sigOldLeft   = "C14/all-old-pruned/old-block-neither-pruned-nor-failed"
	sigNoRetry   = "C14/failed/not-retried-by-later-cycle"
	sigDropped   = "C14/failed/height-dropped-without-being-pruned"
	sigArchival  = "C14/archival/prune-damaged-ods"
	sigPrunedFx  = "C14/store-effect/pruned-mode-left-data-or-touched-window"
)

// replayer drives one real Service through one behaviour
type replayer struct {
	rep  *vh.Report
	b    behaviour
	init rec
	st   *hstore
	stub *stubPruner
	ds   datastore.Batching
	svc  *pruner.Service

	window, blockTime time.Duration

	drift     []string // conformance mismatches (model vs code) -- not violations
	aborted   bool
	lastSeen  int  // last checkpoint value observed (monitor)
	haveLast  bool
	startPt   int             // the pruner's starting point: tail at the last reset (observed)
	okPruned  map[int]bool    // heights with a successful Prune call since the last reset (observed)
	clampSkip map[int]bool    // observed: tail was ahead of the checkpoint and unpruned when a cycle began
	unsat     map[int]int     // consecutive completed cycles a block has been owed and neither pruned nor failed
	noRetry   map[int]int     // consecutive completed cycles a failed height was not retried
	odPending int
	odDone    chan error
	nRestart  int
	stepIdx   int
	trace     []map[string]any // what was observed, for the replay file
}

func (r *replayer) driftf(f string, a ...any) {
	if len(r.drift) < 5 {
		r.drift = append(r.drift, fmt.Sprintf("step %d: ", r.stepIdx)+fmt.Sprintf(f, a...))
	}
}

func (r *replayer) replayObj(extra map[string]any) map[string]any {
	o := map[string]any{"behaviour": r.b, "observed": r.trace, "at_step": r.stepIdx}
	for k, v := range extra {
		o[k] = v
	}
	return o
}

func (r *replayer) readPersisted() (persisted, bool) {
	bin, err := r.ds.Get(context.Background(), datastore.NewKey("/pruner/checkpoint"))
	if err != nil {
		return persisted{}, false
	}
	var p persisted
	if err := json.Unmarshal(bin, &p); err != nil {
		return persisted{}, false
	}
	return p, true
}

func (r *replayer) newService() error {
	r.st.resetHandlers()
	svc, err := pruner.NewService(r.stub, r.window, r.st, r.ds, r.blockTime, pruner.WithPruneCycle(24*time.Hour))
	if err != nil {
		return err
	}
	r.svc = svc
	return nil
}

// monitor: the checkpoint never moves backwards (except ResetCheckpoint)
func (r *replayer) observeCheckpoint(reset bool, where string) (int, []int) {
	last, failed, ok := r.svc.VerifCheckpoint()
	if !ok {
		return -1, nil
	}
	if r.haveLast && !reset && int(last) < r.lastSeen {
		r.rep.Violate(sigBackwards, fmt.Sprintf("last pruned height moved from %d back to %d at %s", r.lastSeen, last, where),
			r.replayObj(map[string]any{"before": r.lastSeen, "after": last}))
	}
	r.lastSeen, r.haveLast = int(last), true
	return int(last), sortedU64(failed)
}

// compare the projection of the real state with the model's state after the step
func (r *replayer) compareState(m rec, where string) {
	last, failed := r.observeCheckpoint(m.N == "Reset", where)
	if last != m.Last || !eqInts(failed, sortedI(m.Failed)) {
		r.driftf("%s: checkpoint in memory is (%d,%v), model has (%d,%v)", where, last, failed, m.Last, sortedI(m.Failed))
	}
	p, ok := r.readPersisted()
	if !ok {
		r.driftf("%s: no persisted checkpoint", where)
	} else if int(p.Last) != m.PLast || !eqInts(sortedU(p.Failed), sortedI(m.PFailed)) {
		r.driftf("%s: persisted checkpoint is (%d,%v), model has (%d,%v)", where, p.Last, sortedU(p.Failed), m.PLast, sortedI(m.PFailed))
	}
	if int(r.st.TailHeight()) != m.Tail || int(r.st.Height()) != m.Head {
		r.driftf("%s: store is [%d,%d], model has [%d,%d]", where, r.st.TailHeight(), r.st.Height(), m.Tail, m.Head)
	}
	r.trace = append(r.trace, map[string]any{"after": where, "last": last, "failed": failed, "persisted_last": p.Last,
		"persisted_failed": sortedU(p.Failed), "tail": r.st.TailHeight(), "head": r.st.Height()})
}

// monitor on observed Prune calls: never inside the window measured from the head at the time of the call
func (r *replayer) monitorCalls(cs []call) {
	w := int64(r.window / unit)
	for _, c := range cs {
		if c.HdrTime > c.HeadTime-w {
			r.rep.Violate(sigInside, fmt.Sprintf("Prune called for height %d with header time %d while head time is %d and the window is %d: "+
				"the block is inside the window (cutoff %d)", c.H, c.HdrTime, c.HeadTime, w, c.HeadTime-w),
				r.replayObj(map[string]any{"call": c}))
		}
		if c.OK {
			r.okPruned[int(c.H)] = true
		}
		if want, ok := r.st.timeOf(c.H); ok && int64(want.Sub(base)/unit) != c.HdrTime {
			r.driftf("Prune(%d) got a header with time %d, the chain has %d", c.H, c.HdrTime, int64(want.Sub(base)/unit))
		}
	}
}

// runCycle runs one real cycle (through Start when viaStart) and returns the Prune calls it made.
func (r *replayer) runCycle(viaStart bool, expectCalls int) (cs []call, finished bool) {
	from := len(r.stub.snapshot(0))
	n0 := r.stub.n.Load()
	select {
	case <-r.st.cycleBegan:
	default:
	}
	done := make(chan error, 1)
	if viaStart {
		if err := r.svc.Start(tagged("drv")); err != nil {
			r.rep.Inconclusivef("behaviour %s: Start failed: %v", r.b.ID, err)
			r.aborted = true
			return nil, false
		}
		go func() {
			select {
			case <-r.st.cycleBegan: // prune() holds the lock now
			case <-time.After(30 * time.Second):
				done <- errors.New("first cycle after Start never began")
				return
			}
			_, err := r.svc.LastPruned(tagged("drv")) // returns when the cycle released the lock
			done <- err
		}()
	} else {
		go func() { r.svc.VerifCycle(); done <- nil }()
	}
	const spinMargin = 20000
	deadline := time.Now().Add(60 * time.Second)
	tick := time.NewTicker(2 * time.Millisecond)
	defer tick.Stop()
	for {
		select {
		case err := <-done:
			if err != nil {
				r.rep.Inconclusivef("behaviour %s step %d: cycle: %v", r.b.ID, r.stepIdx, err)
				r.aborted = true
				return r.stub.snapshot(from), false
			}
			return r.stub.snapshot(from), true
		case <-tick.C:
		}
		made := r.stub.n.Load() - n0
		if made > int64(expectCalls+spinMargin) {
			// Proven: the harness holds no gate, the cycle goroutine is running (the call counter grows) and
			// has made `made` Prune calls where every terminating behaviour of the model makes expectCalls.
			cs = r.stub.snapshot(from)
			period := cs
			if len(period) > 12 {
				period = period[len(period)-12:]
			}
			p, _ := r.readPersisted()
			r.rep.Violate(sigSpin, fmt.Sprintf("prune cycle does not end: %d Prune calls so far (the model's terminating cycle makes %d); "+
				"the same batch is found again and again while the checkpoint stays at %d (batch cap %d, every call fails); "+
				"the cycle holds the checkpoint lock all the time", made, expectCalls, p.Last, r.init.M),
				r.replayObj(map[string]any{"calls_so_far": made, "last_calls": period, "persisted_last": p.Last}))
			r.rep.Count("spinning_cycles", 1)
			// end it: Stop cancels the service context, which the loop checks on every iteration
			ctx, cancel := context.WithTimeout(tagged("drv"), 30*time.Second)
			_ = r.svc.Stop(ctx)
			cancel()
			select {
			case <-done:
			case <-time.After(30 * time.Second):
				r.rep.Inconclusivef("behaviour %s: spinning cycle did not end after Stop", r.b.ID)
			}
			r.aborted = true
			return cs, false
		}
		if time.Now().After(deadline) {
			r.rep.Inconclusivef("behaviour %s step %d: cycle neither ended nor kept calling Prune within 60s (%d calls)", r.b.ID, r.stepIdx, made)
			r.aborted = true
			return r.stub.snapshot(from), false
		}
	}
}

// monitor FailedKept: "... or is recorded as failed and retried" -- a height leaves the failed set only because
// a Prune call for it succeeded, because its header is gone from the store (out of the pruner's reach), because
// a header deletion is about to prune it (exempt), or by ResetCheckpoint; in particular not because the header
// store failed a read or the node was stopped.
func (r *replayer) monitorFailedKept(prev map[int]bool, now []int, cs []call, exempt int, where string) {
	in := map[int]bool{}
	for _, f := range now {
		in[f] = true
	}
	ok := map[int]bool{}
	for _, c := range cs {
		if c.OK {
			ok[int(c.H)] = true
		}
	}
	tail := int(r.st.TailHeight())
	for f := range prev {
		if in[f] || ok[f] || f < tail || f == exempt {
			continue
		}
		r.rep.Violate(sigDropped, fmt.Sprintf("height %d was recorded as failed, no Prune call for it succeeded, its header is still in the "+
			"store (tail %d), and after %s it is no longer in the failed set (now %v): it will never be retried", f, tail, where, now),
			r.replayObj(map[string]any{"height": f, "failed_before": keys(prev), "failed_after": now}))
	}
}

func keys(m map[int]bool) []int {
	out := []int{}
	for k := range m {
		out = append(out, k)
	}
	sort.Ints(out)
	return out
}

func setOf(a []int) map[int]bool {
	m := map[int]bool{}
	for _, x := range a {
		m[x] = true
	}
	return m
}

// patience: "within a bounded number of terminating cycles" -- the bound used by the monitors. The code (and
// the model) need one cycle; an implementation that handled a single header per cycle would still need no
// more cycles than there are headers. A block is reported only after it has been owed for more than that.
func (r *replayer) patience() int { return int(r.st.Height()-r.st.TailHeight()) + 3 }

// monitor AllOldPruned, evaluated on observed data each time a cycle has ended: every block older than the
// window by more than a block time, after the starting point, whose header the store still has, is pruned
// or recorded as failed -- within patience() completed cycles; a failed one is retried within as many.
func (r *replayer) monitorAllOld(failed []int, called map[int]bool) {
	headT := r.st.headTime()
	cutoffB := headT.Add(-r.window).Add(-r.blockTime)
	inFailed := map[int]bool{}
	for _, f := range failed {
		inFailed[f] = true
	}
	K := r.patience()
	seen := map[int]bool{}
	for h := int(r.st.TailHeight()); h <= int(r.st.Height()); h++ {
		t, ok := r.st.timeOf(uint64(h))
		if !ok || h <= r.startPt || !t.Before(cutoffB) || h == r.odPending {
			continue
		}
		seen[h] = true
		r.rep.Count("old_blocks_checked", 1)
		if r.okPruned[h] {
			delete(r.unsat, h)
			delete(r.noRetry, h)
			continue
		}
		if inFailed[h] {
			delete(r.unsat, h)
			if called[h] {
				delete(r.noRetry, h)
			} else if r.noRetry[h]++; r.noRetry[h] > K {
				r.rep.Violate(sigNoRetry, fmt.Sprintf("height %d is recorded as failed and no Prune call was made for it during the last %d "+
					"completed cycles", h, r.noRetry[h]), r.replayObj(map[string]any{"height": h}))
			}
			continue
		}
		r.unsat[h]++
		if r.unsat[h] <= K {
			continue
		}
		what := fmt.Sprintf("block %d (time %d, head time %d, window %d, block time %d, starting point %d) is older than the window by more "+
			"than a block time, its header is still in the store, and after %d completed cycles it is neither pruned nor recorded as failed",
			h, int64(t.Sub(base)/unit), int64(headT.Sub(base)/unit), int64(r.window/unit), int64(r.blockTime/unit), r.startPt, r.unsat[h])
		if r.clampSkip[h] {
			r.rep.Violate(sigTailSkip, what+": the header store's tail had moved ahead of the checkpoint, lastPruned() set "+
				"LastPrunedHeight to the tail although the tail block was never pruned, and a later header deletion skips it (height <= last)",
				r.replayObj(map[string]any{"height": h}))
		} else {
			r.rep.Violate(sigOldLeft, what, r.replayObj(map[string]any{"height": h}))
		}
	}
	for h := range r.unsat {
		if !seen[h] {
			delete(r.unsat, h)
		}
	}
	for h := range r.noRetry {
		if !seen[h] {
			delete(r.noRetry, h)
		}
	}
}

// soak: after the model's steps, more real cycles (always allowed by the environment) so that the bounded
// monitors can speak; no comparison with the model, monitors only.
func (r *replayer) soak() {
	n := r.patience() + 2
	for i := 0; i < n && !r.aborted; i++ {
		l0, _ := r.observeCheckpoint(false, "before soak cycle")
		if t0 := int(r.st.TailHeight()); t0 > l0 && !r.okPruned[t0] {
			r.clampSkip[t0] = true
		}
		_, f0, _ := r.svc.VerifCheckpoint()
		cs, fin := r.runCycle(false, 4*(int(r.st.Height()-r.st.TailHeight())+1+len(f0)))
		r.monitorCalls(cs)
		if !fin {
			return
		}
		r.rep.Count("soak_cycles", 1)
		called := map[int]bool{}
		for _, c := range cs {
			called[int(c.H)] = true
		}
		_, failedNow := r.observeCheckpoint(false, "after soak cycle")
		r.monitorAllOld(failedNow, called)
	}
}

// restartAfterStop: a new process -- a new Service over the same datastore and header store. On odd restarts
// LastPruned() is called before Start (what the node does before converting): it loads the checkpoint, which
// must be what the stopped Service had.
func (r *replayer) restartAfterStop(failedB []int) bool {
	lastB := r.lastSeen
	if err := r.newService(); err != nil {
		r.rep.Inconclusivef("NewService: %v", err)
		r.aborted = true
		return false
	}
	r.nRestart++
	r.haveLast = false
	if r.nRestart%2 == 1 {
		lp, err := r.svc.LastPruned(tagged("drv"))
		_, f2, _ := r.svc.VerifCheckpoint()
		if err != nil || int(lp) != lastB || !eqInts(sortedU64(f2), failedB) {
			r.rep.Violate(sigRestart, fmt.Sprintf("after a restart the checkpoint is (%d,%v,err=%v), before Stop it was (%d,%v)",
				lp, sortedU64(f2), err, lastB, failedB), r.replayObj(nil))
		}
	}
	r.lastSeen, r.haveLast = lastB, true // the first observation after Start must not be below
	return true
}

func (r *replayer) run() {
	b := r.b
	in := b.Steps[0]
	r.init = in
	r.window = time.Duration(in.W) * unit
	r.blockTime = time.Duration(in.B) * unit
	r.okPruned, r.clampSkip = map[int]bool{}, map[int]bool{}
	r.unsat, r.noRetry = map[int]int{}, map[int]int{}
	r.st = newHStore()
	for h := in.Tail; h <= in.Head; h++ {
		_ = r.st.Append(context.Background(), mkHeader(uint64(h), mtime(in.Time[h-1])))
	}
	r.startPt = in.Tail
	// outcome script: k-th call for height h
	script := map[uint64][]bool{}
	for _, s := range b.Steps[1:] {
		if s.N == "Retry" || s.N == "Prune" || (s.N == "ODEnd" && !s.RF) { // the steps that make a Prune call
			script[uint64(s.H)] = append(script[uint64(s.H)], s.OK)
		}
	}
	r.stub = &stubPruner{script: script, count: map[uint64]int{}, st: r.st}
	r.ds = dssync.MutexWrap(datastore.NewMapDatastore())
	old := pruner.VerifSetBatchCap(in.M)
	defer pruner.VerifSetBatchCap(old)
	if err := r.newService(); err != nil {
		r.rep.Inconclusivef("NewService: %v", err)
		return
	}
	pendingStart := true
	defer func() {
		if r.svc != nil && !pendingStart {
			ctx, cancel := context.WithTimeout(tagged("drv"), 30*time.Second)
			_ = r.svc.Stop(ctx)
			cancel()
		}
		if r.odDone != nil { // never leave a deletion goroutine behind
			r.st.mu.Lock()
			g := r.st.odGate
			r.st.odGate = nil
			r.st.mu.Unlock()
			if g != nil {
				close(g)
			}
			select {
			case <-r.odDone:
			case <-time.After(10 * time.Second):
			}
		}
	}()

	steps := b.Steps
replay:
	for i := 1; i < len(steps) && !r.aborted && len(r.drift) == 0; i++ {
		s := steps[i]
		r.stepIdx = i
		switch s.N {
		case "CycleBegin", "CycleAbort":
			// collect the model's cycle
			j := i
			var retry, batchCalls []int
			headAfter := map[int][]rec{} // number of Prune calls of this cycle after which the head grows
			rs := readScript{retryFail: map[uint64]bool{}}
			wantInjected := 0
			ended, cut, stopMid := false, false, false // cut: the cycle ends on a read failure
			nBatch := 0
			if s.N == "CycleAbort" {
				rs.failTail, rs.failLast = s.K == "tail", s.K == "last"
				wantInjected, ended, cut = 1, true, true
			}
			for j = i + 1; !ended && j < len(steps); j++ {
				x := steps[j]
				switch x.N {
				case "Retry":
					retry = append(retry, x.H)
				case "RetrySkip":
					if x.RF {
						rs.retryFail[uint64(x.H)] = true
						wantInjected++
					}
				case "Batch":
					nBatch++
				case "Prune":
					batchCalls = append(batchCalls, x.H)
				case "Upd":
					if x.Pc == "idle" {
						ended = true
					}
				case "CycleEnd":
					ended = true
				case "FindFail":
					rs.failFind = nBatch + 1
					wantInjected++
					ended, cut = true, true
				case "StopMidRetry":
					ended, stopMid = true, true
				case "Head":
					// the head grows between two batches: after the last Prune call of the batch just finished
					headAfter[len(retry)+len(batchCalls)] = append(headAfter[len(retry)+len(batchCalls)], x)
				default:
					r.driftf("unexpected model step %s inside a cycle", x.N)
					ended = true
					j--
				}
				if ended {
					break
				}
			}
			if !ended {
				// the behaviour was cut in the middle of a cycle: nothing to compare it with
				break replay
			}
			// observed before the cycle: checkpoint, failed set; is the tail ahead of the checkpoint and unpruned?
			l0 := -1
			failedBefore := map[int]bool{}
			if !pendingStart {
				var f0 []int
				l0, f0 = r.observeCheckpoint(false, "before cycle")
				failedBefore = setOf(f0)
			} else if p, ok := r.readPersisted(); ok { // before Start the checkpoint is what the datastore has
				l0 = int(p.Last)
				failedBefore = setOf(sortedU(p.Failed))
			}
			t0 := int(r.st.TailHeight())
			if l0 >= 0 && t0 > l0 && !r.okPruned[t0] {
				r.clampSkip[t0] = true
			}
			rs.expectLast = l0 >= 0 && t0 < l0
			r.st.setScript(rs)
			stopErr := make(chan error, 1)
			r.stub.mu.Lock()
			r.stub.sinceHook = 0
			r.stub.stopAt, r.stub.onStop = 0, nil
			if stopMid {
				svc := r.svc
				r.stub.stopAt = len(retry) + 1
				r.stub.onStop = func() {
					go func() {
						ctx, cancel := context.WithTimeout(tagged("drv"), 60*time.Second)
						defer cancel()
						stopErr <- svc.Stop(ctx)
					}()
				}
			}
			if len(headAfter) > 0 {
				r.stub.afterCall = func(k int) {
					for _, x := range headAfter[k] {
						ht := in.Time[x.H-1]
						if x.T != nil {
							ht = *x.T
						}
						_ = r.st.Append(context.Background(), mkHeader(uint64(x.H), mtime(ht)))
						r.rep.Count("head_grew_inside_cycle", 1)
					}
				}
			} else {
				r.stub.afterCall = nil
			}
			r.stub.mu.Unlock()
			want := len(retry) + len(batchCalls)
			if stopMid {
				want++
			}
			cs, fin := r.runCycle(pendingStart, want)
			r.stub.mu.Lock()
			r.stub.afterCall, r.stub.stopAt, r.stub.onStop = nil, 0, nil
			r.stub.mu.Unlock()
			injected := r.st.scriptInjected()
			r.st.setScript(readScript{})
			pendingStart = false
			r.monitorCalls(cs)
			r.rep.Count("prune_calls", int64(len(cs)))
			if !fin {
				return
			}
			if stopMid {
				select {
				case err := <-stopErr:
					if err != nil {
						r.rep.Inconclusivef("behaviour %s: Stop during the retry pass: %v", b.ID, err)
						r.aborted = true
						return
					}
				case <-time.After(60 * time.Second):
					r.rep.Inconclusivef("behaviour %s: Stop during the retry pass did not return (was it ever called? calls %v)", b.ID, cs)
					r.aborted = true
					return
				}
				r.rep.Count("stops_during_retry", 1)
			}
			r.rep.Count("cycles", 1)
			r.rep.Count("read_failures_injected", int64(injected))
			if injected != wantInjected {
				r.driftf("%d scripted header-store read failures were consumed by the cycle, model has %d (%+v)", injected, wantInjected, rs)
			}
			// conformance: retry phase as a set, batches as a sequence
			got := make([]int, 0, len(cs))
			for _, c := range cs {
				got = append(got, int(c.H))
				if !c.Scripted {
					r.driftf("Prune(%d) call the model does not have", c.H)
				}
			}
			switch {
			case stopMid:
				// one call in flight when the context is cancelled, on whichever failed height the map order gave
				if len(cs) != 1 || !cs[0].Canceled || !failedBefore[int(cs[0].H)] {
					r.driftf("stop during the retry pass: calls %v, model: one cancelled call on one of %v", cs, keys(failedBefore))
				}
			case len(got) != len(retry)+len(batchCalls):
				r.driftf("cycle made Prune calls %v, model: retry %v then %v", got, retry, batchCalls)
			case !eqInts(sortedI(got[:len(retry)]), sortedI(retry)) || !eqInts(got[len(retry):], batchCalls):
				r.driftf("cycle made Prune calls %v, model: retry %v then %v", got, retry, batchCalls)
			}
			endRec := s
			if s.N == "CycleBegin" {
				endRec = steps[j]
			}
			if stopMid {
				// Stop has persisted: the model's snapshot after StopMidRetry is (memory = persisted = before)
				last, failed, _ := r.svc.VerifCheckpoint()
				p, ok := r.readPersisted()
				if !ok || p.Last != last || !eqInts(sortedU(p.Failed), sortedU64(failed)) {
					r.rep.Violate(sigRestart, fmt.Sprintf("Stop persisted (%d,%v,found=%v) while the checkpoint in memory was (%d,%v)",
						p.Last, sortedU(p.Failed), ok, last, sortedU64(failed)), r.replayObj(nil))
				}
			}
			r.compareState(endRec, fmt.Sprintf("cycle ending at model step %d (%s)", j, endRec.N))
			// monitors on the observed cycle
			tailNow, headNow := int(r.st.TailHeight()), int(r.st.Height())
			called := map[int]bool{}
			for _, c := range cs {
				called[int(c.H)] = true
			}
			if !cut && !stopMid && wantInjected == 0 {
				for f := range failedBefore { // conformance: the code (like the model) retries every failed height in every cycle
					if f >= tailNow && f <= headNow && !called[f] {
						r.driftf("height %d was in the failed set before the cycle and the cycle did not retry it", f)
					}
				}
			}
			_, failedNow := r.observeCheckpoint(false, "after cycle")
			r.monitorFailedKept(failedBefore, failedNow, cs, 0, "a cycle ("+endRec.N+")")
			if !cut && !stopMid {
				r.monitorAllOld(failedNow, called)
			}
			if stopMid {
				if !r.restartAfterStop(failedNow) {
					return
				}
				pendingStart = true
			}
			if s.N == "CycleBegin" {
				i = j
			}
		case "Head":
			ht := in.Time[s.H-1]
			if s.T != nil {
				ht = *s.T
			}
			_ = r.st.Append(context.Background(), mkHeader(uint64(s.H), mtime(ht)))
			r.compareState(s, "Head")
		case "ODBegin":
			gate, at := make(chan struct{}), make(chan struct{})
			r.st.mu.Lock()
			r.st.odGate, r.st.odAtGate = gate, at
			r.st.mu.Unlock()
			r.odDone = make(chan error, 1)
			h := r.st.TailHeight()
			from := len(r.stub.snapshot(0))
			_, f0 := r.observeCheckpoint(false, "before ODBegin")
			fBefore := setOf(f0)
			go func(d chan error) { d <- r.st.deleteOne(tagged("od"), h) }(r.odDone)
			select {
			case <-at:
				r.odPending = int(h)
				if s.OK {
					r.driftf("header deletion of %d goes on to prune, the model returns at once", h)
				}
			case err := <-r.odDone:
				r.odDone = nil
				r.st.mu.Lock()
				r.st.odGate = nil
				r.st.mu.Unlock()
				if !s.OK || err != nil {
					r.driftf("header deletion of %d returned at once (err=%v), model: ok=%v", h, err, s.OK)
				}
			case <-time.After(30 * time.Second):
				r.rep.Inconclusivef("behaviour %s: header deletion neither returned nor reached the gate", b.ID)
				r.aborted = true
				return
			}
			r.monitorCalls(r.stub.snapshot(from))
			r.rep.Count("header_deletions", 1)
			r.compareState(s, "ODBegin")
			_, fNow := r.observeCheckpoint(false, "ODBegin")
			r.monitorFailedKept(fBefore, fNow, nil, int(h), "the first part of a header deletion")
		case "ODEnd":
			if r.odDone == nil {
				r.driftf("model ends a header deletion that is not in flight")
				continue
			}
			from := len(r.stub.snapshot(0))
			_, f0 := r.observeCheckpoint(false, "before ODEnd")
			r.st.setScript(readScript{odFail: s.RF})
			r.st.mu.Lock()
			g := r.st.odGate
			r.st.odGate = nil
			r.st.mu.Unlock()
			close(g)
			select {
			case err := <-r.odDone:
				if (err == nil) != s.OK {
					r.driftf("header deletion ended with err=%v, model ok=%v", err, s.OK)
				}
			case <-time.After(30 * time.Second):
				r.rep.Inconclusivef("behaviour %s: header deletion did not end", b.ID)
				r.aborted = true
				return
			}
			r.odDone = nil
			r.odPending = 0
			cs := r.stub.snapshot(from)
			r.monitorCalls(cs)
			if s.RF {
				if inj := r.st.scriptInjected(); inj != 1 || len(cs) != 0 {
					r.driftf("header deletion with a failing header read: %d failures consumed, calls %v", inj, cs)
				}
				r.rep.Count("read_failures_injected", 1)
			} else if len(cs) != 1 || int(cs[0].H) != s.H {
				r.driftf("header deletion made calls %v, model Prune(%d)", cs, s.H)
			}
			r.st.setScript(readScript{})
			r.compareState(s, "ODEnd")
			_, fNow := r.observeCheckpoint(false, "ODEnd")
			r.monitorFailedKept(setOf(f0), fNow, cs, 0, "the second part of a header deletion")
		case "Restart":
			lastB, failedB := r.observeCheckpoint(false, "before Stop")
			ctx, cancel := context.WithTimeout(tagged("drv"), 30*time.Second)
			err := r.svc.Stop(ctx)
			cancel()
			if err != nil {
				r.rep.Inconclusivef("behaviour %s: Stop: %v", b.ID, err)
				r.aborted = true
				return
			}
			p, ok := r.readPersisted()
			if !ok || int(p.Last) != lastB || !eqInts(sortedU(p.Failed), failedB) {
				r.rep.Violate(sigRestart, fmt.Sprintf("Stop persisted (%d,%v,found=%v) while the checkpoint in memory was (%d,%v)",
					p.Last, sortedU(p.Failed), ok, lastB, failedB), r.replayObj(nil))
			}
			if !r.restartAfterStop(failedB) {
				return
			}
			pendingStart = true
			r.rep.Count("restarts", 1)
			r.trace = append(r.trace, map[string]any{"after": "Restart", "persisted_last": p.Last, "persisted_failed": sortedU(p.Failed)})
		case "Reset":
			if err := r.svc.ResetCheckpoint(tagged("drv")); err != nil {
				r.rep.Inconclusivef("ResetCheckpoint: %v", err)
				r.aborted = true
				return
			}
			r.startPt = int(r.st.TailHeight())
			r.okPruned, r.clampSkip = map[int]bool{}, map[int]bool{}
			r.unsat, r.noRetry = map[int]int{}, map[int]int{}
			r.compareState(s, "Reset")
			r.rep.Count("resets", 1)
		default:
			r.driftf("unknown model step %q", s.N)
		}
	}
	// Whatever happened above (also when the real Service stopped following the model), the real system is
	// in a state the environment may continue from: let a header deletion in flight finish, then soak.
	if !r.aborted && !pendingStart {
		if r.odDone != nil {
			from := len(r.stub.snapshot(0))
			r.st.mu.Lock()
			g := r.st.odGate
			r.st.odGate = nil
			r.st.mu.Unlock()
			if g != nil {
				close(g)
			}
			select {
			case <-r.odDone:
				r.odDone, r.odPending = nil, 0
				r.monitorCalls(r.stub.snapshot(from))
			case <-time.After(30 * time.Second):
				r.rep.Inconclusivef("behaviour %s: header deletion did not end", b.ID)
				return
			}
		}
		r.soak()
	}
}

func TestDriver(t *testing.T) {
	rep := vh.NewReport()
	defer func() {
		if err := rep.Write(); err != nil {
			t.Fatal(err)
		}
	}()
	if p := os.Getenv("VERIF_BEHAVIOURS"); p != "" {
		var bs []behaviour
		if err := vh.ReadJSON(p, &bs); err != nil {
			t.Fatalf("reading behaviours: %v", err)
		}
		drifted := 0
		for _, b := range bs {
			if len(b.Steps) < 2 || b.Steps[0].N != "Init" {
				continue
			}
			r := &replayer{rep: rep, b: b}
			if pan, val := vh.Recover(r.run); pan {
				rep.Inconclusivef("behaviour %s: harness panic: %s", b.ID, val)
			}
			rep.Count("behaviours_replayed", 1)
			if len(r.drift) > 0 {
				drifted++
				if drifted <= 3 {
					rep.Inconclusivef("behaviour %s: the real Service does not follow the model (conformance drift): %v", b.ID, r.drift)
				}
			} else if !r.aborted {
				rep.Count("behaviours_conforming", 1)
				rep.Sample(map[string]any{"behaviour": b.ID, "steps": len(b.Steps), "observed": r.trace})
			}
		}
		rep.Set("behaviours", len(bs))
		rep.Set("drifted", drifted)
	}
	if p := os.Getenv("VERIF_FINE_BEHAVIOURS"); p != "" {
		fineReplay(t, rep, p)
	}
	if os.Getenv("VERIF_STORE_EFFECT") != "0" {
		storeEffect(t, rep)
		lightPrune(t, rep)
	}
}
