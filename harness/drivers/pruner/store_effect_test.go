package pruner_driver

import (
	"bytes"
	"context"
	"errors"
	"fmt"
	"testing"
	"time"

	"github.com/ipfs/go-datastore"
	dssync "github.com/ipfs/go-datastore/sync"

	"github.com/celestiaorg/celestia-node/pruner"
	"github.com/celestiaorg/celestia-node/share"
	"github.com/celestiaorg/celestia-node/share/availability/full"
	"github.com/celestiaorg/celestia-node/share/shwap"
	"github.com/celestiaorg/celestia-node/store"

	"verifharness/square"
	"verifharness/vh"
)

// Part 2: what a prune cycle does to a real store.Store through full.ShareAvailability.Prune.
//
// Chain: 6 blocks (one of them empty) with timestamps 0,1,2,3,6,7; window 2, block time 1: at head
// time 7 the cutoff is 5, so heights 1..4 are old and 5, 6 are inside the window.  The Prune of
// height 3 fails once (scripted) and is retried by the next cycle.
//
//	archival: old blocks lose Q4 only and stay fully servable (every one of the (2w)^2 samples, ODS
//	          and parity alike, is served with a proof that verifies against the block's roots)
//	pruned:   old blocks are gone; blocks inside the window are untouched
//	convert:  the archival store is taken over by a pruned node: ResetCheckpoint, then old blocks go

type blk struct {
	h   uint64
	t   int
	sq  *square.Square // nil: empty block
	old bool
}

func layoutFor(w int, seed int64, h int) square.Layout {
	cells := make([]square.Cell, 0, w*w)
	n := w * w
	pad := int(seed+int64(h)) % (w + 1) // some tail padding
	for i := 0; i < n; i++ {
		switch {
		case i >= n-pad:
			cells = append(cells, square.Cell{NS: square.NsTail, PID: 0})
		case i < n/3:
			cells = append(cells, square.Cell{NS: square.NsUserMin, PID: 100*h + i + 1})
		default:
			cells = append(cells, square.Cell{NS: square.NsUserMin + 2, PID: 100*h + i + 1})
		}
	}
	return square.Layout{W: w, Cells: cells}
}

func mkBlocks(rep *vh.Report) ([]blk, error) {
	times := []int{0, 1, 2, 3, 6, 7}
	out := make([]blk, 0, len(times))
	for i, t := range times {
		h := i + 1
		b := blk{h: uint64(h), t: t, old: t <= 5}
		if h != 2 { // height 2 is an empty block
			w := 2
			if h%2 == 1 {
				w = 4
			}
			sq, err := square.Build(layoutFor(w, vh.Seed(), h), vh.Seed()*1000+int64(h))
			if err != nil {
				return nil, err
			}
			b.sq = sq
		}
		out = append(out, b)
	}
	return out, nil
}

func rootsOf(b blk) *share.AxisRoots {
	if b.sq == nil {
		return share.EmptyEDSRoots()
	}
	return b.sq.Roots
}

// fullyServable: the C05 oracle restricted to what C14 needs -- every sample of the extended square is
// served, equals the original cell and verifies against the roots.
func fullyServable(ctx context.Context, st *store.Store, b blk) error {
	has, err := st.HasByHeight(ctx, b.h)
	if err != nil || !has {
		return fmt.Errorf("HasByHeight(%d) = %v, %v", b.h, has, err)
	}
	acc, err := st.GetByHeight(ctx, b.h)
	if err != nil {
		return fmt.Errorf("GetByHeight(%d): %w", b.h, err)
	}
	defer acc.Close()
	roots, err := acc.AxisRoots(ctx)
	if err != nil {
		return fmt.Errorf("AxisRoots: %w", err)
	}
	want := rootsOf(b)
	if !bytes.Equal(roots.Hash(), want.Hash()) {
		return fmt.Errorf("roots of the stored block differ from the header's")
	}
	if b.sq == nil {
		return nil
	}
	n := 2 * b.sq.W()
	for r := 0; r < n; r++ {
		for c := 0; c < n; c++ {
			s, err := acc.Sample(ctx, shwap.SampleCoords{Row: r, Col: c})
			if err != nil {
				return fmt.Errorf("Sample(%d,%d): %w", r, c, err)
			}
			want1 := b.sq.Share(r, c)
			if !bytes.Equal(s.Share.ToBytes(), want1.ToBytes()) {
				return fmt.Errorf("Sample(%d,%d) differs from the block's share", r, c)
			}
			if err := s.Verify(want, r, c); err != nil {
				return fmt.Errorf("Sample(%d,%d) does not verify: %w", r, c, err)
			}
		}
	}
	shs, err := acc.Shares(ctx)
	if err != nil {
		return fmt.Errorf("Shares: %w", err)
	}
	ods := b.sq.ODSShares()
	if len(shs) != len(ods) {
		return fmt.Errorf("Shares returned %d shares, ODS has %d", len(shs), len(ods))
	}
	for i := range shs {
		if !bytes.Equal(shs[i].ToBytes(), ods[i].ToBytes()) {
			return fmt.Errorf("Shares[%d] differs", i)
		}
	}
	return nil
}

type fxEnv struct {
	rep    *vh.Report
	blocks []blk
	st     *store.Store
	hs     *hstore
	ds     datastore.Batching
	stub   *stubPruner
	svc    *pruner.Service
}

func (e *fxEnv) start(archival bool, script map[uint64][]bool) error {
	var opts []full.Option
	if archival {
		opts = append(opts, full.WithArchivalMode())
	}
	fa := full.NewShareAvailability(e.st, nil, opts...)
	e.stub = &stubPruner{script: script, count: map[uint64]int{}, st: e.hs, inner: fa}
	e.hs.resetHandlers()
	svc, err := pruner.NewService(e.stub, 2*unit, e.hs, e.ds, 1*unit, pruner.WithPruneCycle(24*time.Hour))
	if err != nil {
		return err
	}
	e.svc = svc
	select {
	case <-e.hs.cycleBegan:
	default:
	}
	if err := svc.Start(tagged("drv")); err != nil {
		return err
	}
	select {
	case <-e.hs.cycleBegan:
	case <-time.After(30 * time.Second):
		return errors.New("first cycle never began")
	}
	_, err = svc.LastPruned(tagged("drv"))
	return err
}

func (e *fxEnv) stop() error {
	ctx, cancel := context.WithTimeout(tagged("drv"), 30*time.Second)
	defer cancel()
	return e.svc.Stop(ctx)
}

func storeEffect(t *testing.T, rep *vh.Report) {
	ctx := context.Background()
	blocks, err := mkBlocks(rep)
	if err != nil {
		t.Fatalf("building blocks: %v", err)
	}
	old := pruner.VerifSetBatchCap(3)
	defer pruner.VerifSetBatchCap(old)

	setup := func() (*fxEnv, error) {
		st, err := store.NewStore(store.DefaultParameters(), t.TempDir())
		if err != nil {
			return nil, err
		}
		e := &fxEnv{rep: rep, blocks: blocks, st: st, hs: newHStore(), ds: dssync.MutexWrap(datastore.NewMapDatastore())}
		for _, b := range blocks {
			eh := mkHeader(b.h, mtime(b.t))
			eh.DAH = rootsOf(b)
			eh.DataHash = eh.DAH.Hash()
			_ = e.hs.Append(ctx, eh)
			sq := share.EmptyEDS()
			if b.sq != nil {
				sq = b.sq.EDS
			}
			if err := st.PutODSQ4(ctx, rootsOf(b), b.h, sq); err != nil {
				return nil, fmt.Errorf("put %d: %w", b.h, err)
			}
			if err := fullyServable(ctx, st, b); err != nil {
				return nil, fmt.Errorf("block %d not servable right after put: %w", b.h, err)
			}
		}
		return e, nil
	}
	hasQ4 := func(e *fxEnv, b blk) bool {
		ok, _ := e.st.HasQ4ByHash(ctx, rootsOf(b).Hash())
		return ok
	}
	windowUntouched := func(e *fxEnv, mode string) {
		for _, b := range e.blocks {
			if b.old {
				continue
			}
			if err := fullyServable(ctx, e.st, b); err != nil || (b.sq != nil && !hasQ4(e, b)) {
				rep.Violate(sigPrunedFx, fmt.Sprintf("%s node: block %d (time %d) is inside the window (head time 7, window 2) "+
					"but was touched by the cycle: servable err=%v, Q4 present=%v", mode, b.h, b.t, err, hasQ4(e, b)), nil)
			}
			rep.Count("store_effect_checks", 1)
		}
	}
	archivalKept := func(e *fxEnv, pruned map[uint64]bool) {
		for _, b := range e.blocks {
			if !b.old {
				continue
			}
			if err := fullyServable(ctx, e.st, b); err != nil {
				rep.Violate(sigArchival, fmt.Sprintf("archival node: after pruning, block %d is no longer fully servable: %v", b.h, err),
					map[string]any{"height": b.h})
			}
			if b.sq != nil && pruned[b.h] == hasQ4(e, b) {
				// Q4 must be gone exactly for the heights whose Prune succeeded
				rep.Inconclusivef("archival node: block %d pruned=%v but Q4 present=%v", b.h, pruned[b.h], hasQ4(e, b))
			}
			rep.Count("store_effect_checks", 1)
		}
	}

	// ---- archival (and then converted to pruned)
	e, err := setup()
	if err != nil {
		t.Fatalf("setup: %v", err)
	}
	if err := e.start(true, map[uint64][]bool{3: {false, true}}); err != nil {
		rep.Inconclusivef("archival start: %v", err)
		return
	}
	okCalls := func() map[uint64]bool {
		m := map[uint64]bool{}
		for _, c := range e.stub.snapshot(0) {
			if c.OK {
				m[c.H] = true
			}
		}
		return m
	}
	archivalKept(e, okCalls())
	windowUntouched(e, "archival")
	if _, failed, _ := e.svc.VerifCheckpoint(); !okCalls()[3] && (len(failed) != 1 || failed[0] != 3) {
		rep.Violate(sigOldLeft, fmt.Sprintf("archival store run: Prune(3) failed and 3 is not in the failed set %v", failed), nil)
	}
	e.svc.VerifCycle() // retries 3
	if m := okCalls(); !(m[1] && m[2] && m[3] && m[4]) {
		rep.Violate(sigOldLeft, fmt.Sprintf("archival store run: after two cycles the old heights 1..4 are not all pruned: %v", m), nil)
	}
	archivalKept(e, okCalls())
	windowUntouched(e, "archival")
	for _, c := range e.stub.snapshot(0) {
		if c.HdrTime > c.HeadTime-2 {
			rep.Violate(sigInside, fmt.Sprintf("archival store run: Prune(%d) inside the window", c.H), nil)
		}
	}
	if err := e.stop(); err != nil {
		rep.Inconclusivef("archival stop: %v", err)
		return
	}
	rep.Count("store_effect_modes", 1)

	// ---- the same store taken over by a pruned node: one-way conversion resets the checkpoint
	fads := e.ds
	_ = fads.Put(ctx, datastore.NewKey("/full_avail/previous_mode"), []byte("archival"))
	conv, err := full.ConvertFromArchivalToPruned(ctx, fads, false)
	if err != nil || !conv {
		rep.Inconclusivef("ConvertFromArchivalToPruned = %v, %v (expected true)", conv, err)
	}
	if _, err := full.ConvertFromArchivalToPruned(ctx, fads, true); !errors.Is(err, full.ErrDisallowRevertToArchival) {
		rep.Inconclusivef("reverting to archival was not refused: %v", err)
	}
	if err := e.start(false, nil); err != nil {
		rep.Inconclusivef("converted start: %v", err)
		return
	}
	if err := e.svc.ResetCheckpoint(tagged("drv")); err != nil {
		rep.Inconclusivef("ResetCheckpoint: %v", err)
		return
	}
	e.svc.VerifCycle()
	prunedGone := func(e *fxEnv, mode string) {
		for _, b := range e.blocks {
			if !b.old {
				continue
			}
			has, err := e.st.HasByHeight(ctx, b.h)
			_, gerr := e.st.GetByHeight(ctx, b.h)
			hashHas := false
			if b.sq != nil {
				hashHas, _ = e.st.HasByHash(ctx, rootsOf(b).Hash())
			}
			if err != nil || has || !errors.Is(gerr, store.ErrNotFound) || hashHas || (b.sq != nil && hasQ4(e, b)) {
				rep.Violate(sigPrunedFx, fmt.Sprintf("%s node: block %d (time %d) is older than the window and its Prune succeeded, "+
					"but the store still has it: HasByHeight=%v,%v GetByHeight err=%v HasByHash=%v Q4=%v",
					mode, b.h, b.t, has, err, gerr, hashHas, hasQ4(e, b)), map[string]any{"height": b.h})
			}
			rep.Count("store_effect_checks", 1)
		}
	}
	prunedGone(e, "converted")
	windowUntouched(e, "converted")
	_ = e.stop()
	_ = e.st.Stop(ctx)
	rep.Count("store_effect_modes", 1)

	// ---- pruned from the start
	e, err = setup()
	if err != nil {
		t.Fatalf("setup: %v", err)
	}
	if err := e.start(false, map[uint64][]bool{3: {false, true}}); err != nil {
		rep.Inconclusivef("pruned start: %v", err)
		return
	}
	e.svc.VerifCycle()
	prunedGone(e, "pruned")
	windowUntouched(e, "pruned")
	_ = e.stop()
	_ = e.st.Stop(ctx)
	rep.Count("store_effect_modes", 1)
}
