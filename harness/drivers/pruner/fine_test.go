package pruner_driver

// Part 1b (behaviour replay of spec/pruner/PrunerFine.tla): the finder of a running cycle reads the header
// store several times (Head, Head, GetRangeByHeight, GetByHeight ...). The scripted store announces every such
// read before serving it; the script moves the store (appends headers, starts a tail deletion) between two
// reads of ONE findPruneableHeaders call exactly where the TLC behaviour does. Compared with the model per
// cycle: number of finder reads, Prune calls, checkpoint (memory, datastore), store bounds. Monitors on the
// observed calls: never inside the window measured from the head at the time of the call, checkpoint monotone.

import (
	"context"
	"fmt"
	"testing"
	"time"

	"github.com/ipfs/go-datastore"
	dssync "github.com/ipfs/go-datastore/sync"

	"github.com/celestiaorg/celestia-node/pruner"

	"verifharness/vh"
)

type fstep struct {
	N     string `json:"n"`
	H     int    `json:"h"`
	R     int    `json:"r"`
	Last  int    `json:"last"`
	PLast int    `json:"plast"`
	Tail  int    `json:"tail"`
	Head  int    `json:"head"`
	Pc    string `json:"pc"`
	Hs    []int  `json:"hs"`
	Call  bool   `json:"call"`
	Why   string `json:"why"`
	Time  []int  `json:"time"`
	W     int    `json:"W"`
	B     int    `json:"B"`
	M     int    `json:"M"`
}

type fbehaviour struct {
	ID    string  `json:"id"`
	Steps []fstep `json:"steps"`
}

type fineReplayer struct {
	rep     *vh.Report
	b       fbehaviour
	st      *hstore
	stub    *stubPruner
	ds      datastore.Batching
	svc     *pruner.Service
	times   []int
	w       int64
	drift   []string
	aborted bool
	started bool
	delDone chan error
	delTail uint64 // tail when the deletion in flight was requested
	seen    int    // calls of the stub already looked at
	odCalls []int  // on-delete Prune calls seen and not yet attributed to a DelApply step
	lastCp  int
	step    int
	obs     []map[string]any
}

func (r *fineReplayer) driftf(f string, a ...any) {
	if len(r.drift) < 5 {
		r.drift = append(r.drift, fmt.Sprintf("step %d: ", r.step)+fmt.Sprintf(f, a...))
	}
}

func (r *fineReplayer) obj(extra map[string]any) map[string]any {
	o := map[string]any{"fine_behaviour": r.b, "observed": r.obs, "at_step": r.step}
	for k, v := range extra {
		o[k] = v
	}
	return o
}

func (r *fineReplayer) grow(h int) {
	_ = r.st.Append(context.Background(), mkHeader(uint64(h), mtime(r.times[h-1])))
}

func (r *fineReplayer) startDelete(h int) {
	if r.delDone != nil {
		r.driftf("two deletions in flight")
		return
	}
	r.delDone = make(chan error, 1)
	r.delTail = r.st.TailHeight()
	ch := r.delDone
	go func() { ch <- r.st.deleteOne(tagged("od"), uint64(h)) }()
}

// new cycle calls of the stub since the last look (on-delete calls go to odCalls); monitors run on all of them
func (r *fineReplayer) newCalls() []int {
	cs := r.stub.snapshot(r.seen)
	r.seen += len(cs)
	out := []int{}
	for _, c := range cs {
		if c.Tag == "od" {
			r.odCalls = append(r.odCalls, int(c.H))
		} else {
			out = append(out, int(c.H))
		}
		if c.HdrTime > c.HeadTime-r.w {
			r.rep.Violate(sigInside, fmt.Sprintf("Prune called for height %d with header time %d while head time is %d and the window is %d "+
				"(header store moving under the finder): the block is inside the window", c.H, c.HdrTime, c.HeadTime, r.w),
				r.obj(map[string]any{"call": c}))
		}
	}
	return out
}

func (r *fineReplayer) checkpoint(where string) int {
	last, _, ok := r.svc.VerifCheckpoint()
	if !ok {
		return -1
	}
	if int(last) < r.lastCp {
		r.rep.Violate(sigBackwards, fmt.Sprintf("last pruned height moved from %d back to %d at %s (header store moving under the finder)",
			r.lastCp, last, where), r.obj(nil))
	}
	r.lastCp = int(last)
	return int(last)
}

func (r *fineReplayer) cycle(cyc []fstep) {
	end := cyc[len(cyc)-1]
	type ev struct {
		s    fstep
		done bool
	}
	var evs []*ev
	var wantCalls []int
	prev := ""
	for _, s := range cyc {
		switch s.N {
		case "Head", "DelReq":
			evs = append(evs, &ev{s: s})
			if s.N == "Head" && prev == "R1" {
				r.rep.Count("fine_head_grew_between_the_two_head_reads", 1)
			}
			if s.N == "Head" {
				r.rep.Count("fine_head_grew_under_finder", 1)
			} else {
				r.rep.Count("fine_delete_requested_under_finder", 1)
			}
		case "Prune":
			wantCalls = append(wantCalls, s.H)
			prev = s.N
		default:
			prev = s.N
		}
	}
	apply := func(upto int) { // every event logged with r <= upto
		for _, e := range evs {
			if e.done || e.s.R > upto {
				continue
			}
			e.done = true
			if e.s.N == "Head" {
				r.grow(e.s.H)
			} else {
				r.startDelete(e.s.H)
			}
		}
	}
	blocked := func(where string) {
		if r.delDone != nil && r.st.TailHeight() != r.delTail {
			r.driftf("%s: the tail moved from %d to %d while the cycle holds checkpointMu (the model lets a deletion through only after the cycle)",
				where, r.delTail, r.st.TailHeight())
		}
	}
	r.st.mu.Lock()
	r.st.fineReads = 0
	r.st.fineHook = func(k int) { blocked(fmt.Sprintf("finder read %d", k)); apply(k - 1) }
	r.st.mu.Unlock()
	r.stub.mu.Lock()
	r.stub.afterCall = func(int) { blocked("Prune call") }
	r.stub.mu.Unlock()

	done := make(chan error, 1)
	select {
	case <-r.st.cycleBegan:
	default:
	}
	if !r.started {
		r.started = true
		if err := r.svc.Start(tagged("drv")); err != nil {
			r.rep.Inconclusivef("fine behaviour %s: Start: %v", r.b.ID, err)
			r.aborted = true
			return
		}
		go func() {
			select {
			case <-r.st.cycleBegan:
			case <-time.After(30 * time.Second):
				done <- fmt.Errorf("first cycle after Start never began")
				return
			}
			_, err := r.svc.LastPruned(tagged("drv"))
			done <- err
		}()
	} else {
		go func() { r.svc.VerifCycle(); done <- nil }()
	}
	select {
	case err := <-done:
		if err != nil {
			r.rep.Inconclusivef("fine behaviour %s step %d: cycle: %v", r.b.ID, r.step, err)
			r.aborted = true
			return
		}
	case <-time.After(60 * time.Second):
		r.rep.Inconclusivef("fine behaviour %s step %d: cycle did not end within 60s", r.b.ID, r.step)
		r.aborted = true
		return
	}
	r.st.mu.Lock()
	reads := r.st.fineReads
	r.st.fineHook = nil
	r.st.mu.Unlock()
	for _, e := range evs {
		if !e.done {
			r.rep.Count("fine_env_after_last_read", 1)
		}
	}
	apply(1 << 30)

	got := r.newCalls()
	if len(r.odCalls) > 0 && r.delDone == nil {
		r.driftf("on-delete Prune calls %v although no deletion is in flight", r.odCalls)
	}
	if reads != end.R {
		r.driftf("the finder made %d reads of the header store in this cycle, the model %d", reads, end.R)
	}
	if !eqInts(got, wantCalls) {
		r.driftf("cycle made Prune calls %v, the model %v", got, wantCalls)
	}
	if p, ok := (&replayer{ds: r.ds}).readPersisted(); !ok || int(p.Last) != end.PLast {
		r.driftf("persisted checkpoint %d (found %v), the model has %d", p.Last, ok, end.PLast)
	}
	if int(r.st.Height()) != end.Head {
		r.driftf("head is %d, the model has %d", r.st.Height(), end.Head)
	}
	last := r.checkpoint("cycle end")
	if r.delDone == nil {
		if last != end.Last {
			r.driftf("checkpoint in memory %d, the model has %d", last, end.Last)
		}
		if int(r.st.TailHeight()) != end.Tail {
			r.driftf("tail is %d, the model has %d", r.st.TailHeight(), end.Tail)
		}
	}
	r.obs = append(r.obs, map[string]any{"cycle_end_step": r.step, "reads": reads, "calls": got, "last": last, "head": r.st.Height()})
	r.rep.Count("fine_cycles", 1)
	r.rep.Count("fine_prune_calls", int64(len(got)))
}

func (r *fineReplayer) run() {
	steps := r.b.Steps
	in := steps[0]
	r.times = in.Time
	r.w = int64(in.W)
	r.st = newHStore()
	for h := in.Tail; h <= in.Head; h++ {
		r.grow(h)
	}
	r.stub = &stubPruner{script: map[uint64][]bool{}, count: map[uint64]int{}, st: r.st}
	r.ds = dssync.MutexWrap(datastore.NewMapDatastore())
	old := pruner.VerifSetBatchCap(in.M)
	defer pruner.VerifSetBatchCap(old)
	svc, err := pruner.NewService(r.stub, time.Duration(in.W)*unit, r.st, r.ds, time.Duration(in.B)*unit,
		pruner.WithPruneCycle(24*time.Hour))
	if err != nil {
		r.rep.Inconclusivef("fine behaviour %s: NewService: %v", r.b.ID, err)
		r.aborted = true
		return
	}
	r.svc = svc
	defer func() {
		if r.delDone != nil {
			select {
			case <-r.delDone:
			case <-time.After(30 * time.Second):
			}
		}
		if r.started {
			ctx, cancel := context.WithTimeout(tagged("drv"), 30*time.Second)
			_ = r.svc.Stop(ctx)
			cancel()
		}
	}()
	for i := 1; i < len(steps) && !r.aborted && len(r.drift) == 0; {
		r.step = i
		s := steps[i]
		switch s.N {
		case "Head":
			r.grow(s.H)
			i++
		case "DelReq":
			r.startDelete(s.H)
			i++
		case "DelApply":
			if r.delDone == nil {
				r.driftf("DelApply without a deletion in flight")
				return
			}
			select {
			case err := <-r.delDone:
				if err != nil {
					r.driftf("header deletion of %d failed: %v", s.H, err)
				}
			case <-time.After(30 * time.Second):
				r.rep.Inconclusivef("fine behaviour %s: the header deletion did not return although no cycle runs", r.b.ID)
				r.aborted = true
				return
			}
			r.delDone = nil
			if extra := r.newCalls(); len(extra) > 0 {
				r.driftf("cycle Prune calls %v outside a cycle", extra)
			}
			od := append([]int{}, r.odCalls...)
			r.odCalls = nil
			want := []int{}
			if s.Call {
				want = []int{s.H}
			}
			if !eqInts(od, want) {
				r.driftf("header deletion of %d made Prune calls %v, the model %v", s.H, od, want)
			}
			if last := r.checkpoint("header deletion"); last != s.Last {
				r.driftf("after the deletion the checkpoint is %d, the model has %d", last, s.Last)
			}
			if int(r.st.TailHeight()) != s.Tail {
				r.driftf("after the deletion the tail is %d, the model has %d", r.st.TailHeight(), s.Tail)
			}
			r.rep.Count("fine_deletions", 1)
			i++
		case "CycleBegin":
			j := i
			for j < len(steps) && steps[j].N != "End" {
				j++
			}
			if j == len(steps) { // the behaviour was cut inside a cycle
				return
			}
			r.step = j
			r.cycle(steps[i : j+1])
			i = j + 1
		default:
			r.driftf("unexpected step %q outside a cycle", s.N)
			return
		}
	}
}

var fineSamples int

func fineReplay(t *testing.T, rep *vh.Report, path string) {
	var bs []fbehaviour
	if err := vh.ReadJSON(path, &bs); err != nil {
		t.Fatalf("reading fine behaviours: %v", err)
	}
	drifted := 0
	for _, b := range bs {
		if len(b.Steps) < 2 || b.Steps[0].N != "Init" {
			continue
		}
		r := &fineReplayer{rep: rep, b: b}
		if pan, val := vh.Recover(r.run); pan {
			rep.Inconclusivef("fine behaviour %s: harness panic: %s", b.ID, val)
		}
		rep.Count("fine_behaviours_replayed", 1)
		if len(r.drift) > 0 {
			drifted++
			if drifted <= 3 {
				rep.Inconclusivef("fine behaviour %s: the real Service does not follow PrunerFine.tla (conformance drift): %v", b.ID, r.drift)
			}
		} else if !r.aborted {
			rep.Count("fine_behaviours_conforming", 1)
			if len(r.obs) > 0 && drifted == 0 && rep != nil && fineSamples < 4 {
				fineSamples++
				rep.Sample(map[string]any{"fine_behaviour": b.ID, "steps": len(b.Steps), "observed": r.obs})
			}
		}
	}
	rep.Set("fine_drifted", drifted)
}
